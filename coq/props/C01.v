(* C01 — Store operations are linearizable w.r.t. the sequential resource-store spec.
   Statements only; every proof is `exact <lemma>`. *)
From Verif Require Import Store StoreProofs Conc.
Open Scope N_scope.

(* ---- the sequential specification (for all states, resources, owners, versions, phases) ---- *)

Theorem C01_create_succeeds_iff : forall now r owner s,
  (exists w, apply_res now (OpCreate r owner) s = RWritten w) <->
  (st_get (r_key r) s = None /\ (r_owner r = 0 \/ r_owner r = owner)).
Proof. exact create_succeeds_iff. Qed.
Print Assumptions C01_create_succeeds_iff.

Theorem C01_create_effect : forall now r owner s w,
  apply_res now (OpCreate r owner) s = RWritten w ->
  r_ver w = Some 1 /\ r_owner w = owner /\ r_created w = now /\ r_key w = r_key r /\
  r_phase w = r_phase r /\ r_fins w = r_fins r /\ r_labels w = r_labels r /\ r_spec w = r_spec r /\
  apply_ev now (OpCreate r owner) s = Some (EvCreated w) /\
  forall k, st_get k (apply_st now (OpCreate r owner) s) = if key_eqb k (r_key r) then Some w else st_get k s.
Proof. exact create_effect. Qed.
Print Assumptions C01_create_effect.

Theorem C01_update_succeeds_iff : forall now r owner exp s,
  (exists w, apply_res now (OpUpdate r owner exp) s = RWritten w) <->
  (exists cur, st_get (r_key r) s = Some cur /\ r_owner cur = owner /\ r_ver cur = r_ver r /\ phase_ok exp (r_phase cur)).
Proof. exact update_succeeds_iff. Qed.
Print Assumptions C01_update_succeeds_iff.

Theorem C01_update_effect : forall now r owner exp s w,
  apply_res now (OpUpdate r owner exp) s = RWritten w ->
  exists cur, st_get (r_key r) s = Some cur /\
    r_ver w = ver_next (r_ver cur) /\ r_created w = r_created cur /\ r_updated w = now /\ r_key w = r_key r /\
    r_owner w = r_owner r /\ r_phase w = r_phase r /\ r_fins w = r_fins r /\ r_labels w = r_labels r /\ r_spec w = r_spec r /\
    apply_ev now (OpUpdate r owner exp) s = Some (EvUpdated w cur) /\
    forall k, st_get k (apply_st now (OpUpdate r owner exp) s) = if key_eqb k (r_key r) then Some w else st_get k s.
Proof. exact update_effect. Qed.
Print Assumptions C01_update_effect.

(* precedence between simultaneous failure reasons: exists, owner, version, phase *)
Theorem C01_update_outcome : forall now r owner exp s,
  match st_get (r_key r) s with
  | None => apply now (OpUpdate r owner exp) s = (s, RErr ENotFound, None)
  | Some cur =>
      if negb (N.eqb (r_owner cur) owner) then apply now (OpUpdate r owner exp) s = (s, RErr (EOwnerConflict (r_ns cur) (r_typ cur)), None)
      else if negb (ver_eqb (r_ver cur) (r_ver r)) then apply now (OpUpdate r owner exp) s = (s, RErr (EConflict (r_ns cur) (r_typ cur)), None)
      else if (match exp with Some p => negb (Bool.eqb (r_phase cur) p) | None => false end)
           then apply now (OpUpdate r owner exp) s = (s, RErr (EPhaseConflict (r_ns cur) (r_typ cur)), None)
      else exists w, apply now (OpUpdate r owner exp) s = (st_put w s, RWritten w, Some (EvUpdated w cur)) /\
                     w = with_ver_times r (ver_next (r_ver r)) (r_created cur) now
  end.
Proof. exact update_outcome. Qed.
Print Assumptions C01_update_outcome.

Theorem C01_destroy_succeeds_iff : forall now k owner s,
  apply_res now (OpDestroy k owner) s = ROk <->
  (exists cur, st_get k s = Some cur /\ r_owner cur = owner /\ r_fins cur = []).
Proof. exact destroy_succeeds_iff. Qed.
Print Assumptions C01_destroy_succeeds_iff.

Theorem C01_destroy_effect : forall now k owner s,
  apply_res now (OpDestroy k owner) s = ROk ->
  exists cur, st_get k s = Some cur /\ apply_ev now (OpDestroy k owner) s = Some (EvDestroyed cur) /\
  forall k', st_get k' (apply_st now (OpDestroy k owner) s) = if key_eqb k' k then None else st_get k' s.
Proof. exact destroy_effect. Qed.
Print Assumptions C01_destroy_effect.

(* every failed call leaves the state untouched and publishes nothing *)
Theorem C01_failed_unchanged : forall now o s e,
  apply_res now o s = RErr e -> apply_st now o s = s /\ apply_ev now o s = None.
Proof. exact failed_unchanged. Qed.
Print Assumptions C01_failed_unchanged.

(* reads return the last committed value and change nothing *)
Theorem C01_reads : forall now s,
  (forall k, apply now (OpGet k) s =
             (s, match st_get k s with Some cur => RGot cur | None => RErr ENotFound end, None)) /\
  (forall ns typ, apply now (OpList ns typ) s = (s, RList (st_list ns typ s), None)).
Proof. exact reads_pure. Qed.
Print Assumptions C01_reads.

(* every produced error is classifiable, and the qualified predicates are total and consistent *)
Theorem C01_errors_classified : forall now o s e,
  apply_res now o s = RErr e ->
  let '(ns, typ) := op_target o in
  (e = EOther \/ e = ENotFound \/ e = EConflict ns typ \/ e = EOwnerConflict ns typ \/ e = EPhaseConflict ns typ).
Proof. exact errors_classified. Qed.
Print Assumptions C01_errors_classified.

Theorem C01_predicates_consistent : forall e qns qtyp,
  (is_owner_conflict e = true -> is_conflict e 0 0 = true) /\
  (is_phase_conflict e = true -> is_conflict e 0 0 = true) /\
  (is_conflict e qns qtyp = true -> is_conflict e 0 0 = true) /\
  (is_not_found e = true -> is_conflict e qns qtyp = false) /\
  (forall ns typ, (e = EConflict ns typ \/ e = EOwnerConflict ns typ \/ e = EPhaseConflict ns typ) ->
     is_conflict e qns qtyp = true <-> ((qns = 0 \/ qns = ns) /\ (qtyp = 0 \/ qtyp = typ))).
Proof. exact predicates_consistent. Qed.
Print Assumptions C01_predicates_consistent.

(* ---- linearizability: any number of clients, any programs, any schedule ------------------ *)

(* an invocation is the operation together with the clock value its body reads *)
Definition store_step (o : Z * op) (s : store) : store * result :=
  (apply_st (fst o) (snd o) s, apply_res (fst o) (snd o) s).

Theorem C01_linearizable : forall c,
  creach store (Z * op) result store_step [] c ->
  seq_ok store (Z * op) result store_step [] (rev (c_lin _ _ _ c)) (c_st _ _ _ c) /\
  (forall tr t r, In (Ret _ _ tr t r) (c_hist _ _ _ c) ->
     exists e, In e (c_lin _ _ _ c) /\ l_tid _ _ e = t /\ l_res _ _ e = r /\ l_body _ _ e < tr)%nat /\
  (forall ea eb tr, In ea (c_lin _ _ _ c) -> In eb (c_lin _ _ _ c) ->
     In (Ret _ _ tr (l_tid _ _ ea) (l_res _ _ ea)) (c_hist _ _ _ c) -> l_body _ _ ea < tr -> tr < l_inv _ _ eb ->
     l_body _ _ ea < l_body _ _ eb)%nat /\
  (forall l1 e1 l2 e2, c_lin _ _ _ c = l1 ++ e1 :: l2 -> In e2 l2 -> l_body _ _ e2 < l_body _ _ e1)%nat.
Proof. exact (linearizable store (Z * op) result store_step []). Qed.
Print Assumptions C01_linearizable.

(* non-vacuity: a concrete state in which each failure reason is reachable *)
Example C01_nonvacuous :
  let r := mkRes 1 2 3 None 0 false [] [] 0 0 9 in
  let s1 := apply_st 5 (OpCreate r 7) [] in
  apply_res 6 (OpUpdate (mkRes 1 2 3 (Some 1) 7 false [5] [] 0 0 9) 7 (Some false)) s1
    = RWritten (mkRes 1 2 3 (Some 2) 7 false [5] [] 5 6 9) /\
  apply_res 6 (OpUpdate (mkRes 1 2 3 (Some 0) 7 false [] [] 0 0 9) 8 (Some true)) s1 = RErr (EOwnerConflict 1 2) /\
  apply_res 6 (OpUpdate (mkRes 1 2 3 (Some 0) 7 false [] [] 0 0 9) 7 (Some true)) s1 = RErr (EConflict 1 2) /\
  apply_res 6 (OpUpdate (mkRes 1 2 3 (Some 1) 7 false [] [] 0 0 9) 7 (Some true)) s1 = RErr (EPhaseConflict 1 2).
Proof. vm_compute. repeat split. Qed.
