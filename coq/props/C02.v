(* C02 — Watch streams are exact, ordered change logs (or fail loudly). Statements only. *)
From Verif Require Import Ring RingProofs WatchProofs.
Open Scope Z_scope.

(* the cyclic buffer is an exact window onto the unbounded log, for every configuration and write
   history, across capacity growth and any number of wrap-arounds *)
Theorem C02_ring_refines_log : forall initcap maxcap gap evs,
  1 <= initcap <= maxcap ->
  RInv initcap (publish_all evs (coll_init initcap maxcap gap)) evs.
Proof. exact ring_refines_log. Qed.
Print Assumptions C02_ring_refines_log.

(* what a watcher copies out under the lock is exactly the log slice [pos, writePos), in order *)
Theorem C02_fetch_exact : forall initcap c log pos,
  RInv initcap c log -> 0 <= pos <= c_wpos c ->
  match fetch_all c pos with
  | FBlocked => pos = c_wpos c
  | FOverrun => c_wpos c - pos > c_cap c
  | FEvents evs newpos => newpos = c_wpos c /\ pos < c_wpos c /\ c_wpos c - pos <= c_cap c /\
                          evs = log_slice log pos (c_wpos c)
  end.
Proof. exact fetch_all_exact. Qed.
Print Assumptions C02_fetch_exact.

(* for every interleaving of writes and fetches (every consumer speed): the subscriber has received
   exactly log[p0, pos) - every committed change once, in commit order; a dead watcher lagged by more
   than the initial capacity *)
Theorem C02_watch_exact : forall initcap maxcap gap pre p0 acts,
  1 <= initcap <= maxcap ->
  let c0 := publish_all pre (coll_init initcap maxcap gap) in
  0 <= p0 <= c_wpos c0 ->
  let s := wrun (mkW c0 pre p0 false []) acts in
  w_out s = log_slice (w_log s) p0 (w_pos s) /\
  p0 <= w_pos s <= Z.of_nat (length (w_log s)) /\
  (w_dead s = true -> exists lagged_at, lagged_at - w_pos s > initcap).
Proof. exact watch_exact. Qed.
Print Assumptions C02_watch_exact.

(* a subscriber that never lags by more than the configured initial capacity is never errored *)
Theorem C02_no_error_within_initcap : forall initcap c log pos,
  RInv initcap c log -> c_wpos c - pos <= initcap -> fetch_all c pos <> FOverrun.
Proof. exact no_error_within_initcap. Qed.
Print Assumptions C02_no_error_within_initcap.

(* single-resource watch: the scan hands over the next event of the watched id and skips only
   events of other ids (no leak, no loss) *)
Theorem C02_single_scan : forall initcap c log id,
  RInv initcap c log ->
  forall fuel pos, 0 <= pos -> c_wpos c - pos <= c_cap c -> Z.of_nat fuel = c_wpos c - pos ->
  let '(e, pos') := scan_id fuel c id pos in
  pos <= pos' <= c_wpos c /\
  (forall p, pos <= p < (match e with Some _ => pos' - 1 | None => pos' end) ->
             opt_atom_eqb (ev_id (log_at log p)) id = false) /\
  match e with
  | Some ev => ev = log_at log (pos' - 1) /\ opt_atom_eqb (ev_id ev) id = true /\ pos < pos'
  | None => pos' = c_wpos c
  end.
Proof. exact scan_id_spec. Qed.
Print Assumptions C02_single_scan.

(* non-vacuity: growth 2 -> 4, then wrap-around; a watcher at 1 sees exactly events 1..4 *)
Example C02_nonvacuous :
  let ev n := EvDestroyed (mkRes 1 1 n None 0 false [] [] 0 0 0)%N in
  let c := publish_all [ev 1%N; ev 2%N; ev 3%N; ev 4%N; ev 5%N] (coll_init 2 4 0) in
  c_cap c = 4 /\ fetch_all c 1 = FEvents [Some (ev 2%N); Some (ev 3%N); Some (ev 4%N); Some (ev 5%N)] 5 /\
  fetch_all c 0 = FOverrun.
Proof. vm_compute. repeat split. Qed.
