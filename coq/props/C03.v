(* C03 — Finalizers gate destruction; blocking lifecycle helpers never miss or jump. Statements only. *)
From Verif Require Import Store StoreProofs Helpers HelpersProofs Wakeup.
Open Scope N_scope.

(* a resource is never removed while it holds a finalizer: no operation by any party, in any state *)
Theorem C03_never_removed_with_finalizer : forall now o s k cur,
  st_get k s = Some cur -> r_fins cur <> [] -> st_get k (apply_st now o s) <> None.
Proof. exact never_removed_with_finalizer. Qed.
Print Assumptions C03_never_removed_with_finalizer.

(* Teardown reports ready from the finalizer set at the instant it took effect, against any environment *)
Theorem C03_teardown_ready_sound : forall c s0 sched w,
  h_kind c = KTeardown -> h_mut c = MSetTD ->
  (forall r, st_get (h_key c) s0 = Some r -> exists v, r_ver r = Some v) ->
  run_ok c (o_init c s0) sched ->
  let s := fold_left (ostep c) sched (o_init c s0) in
  o_pc s = PDone (HOk w) ->
  match o_commit s with
  | Some (Some b, a) => a = w /\ r_fins w = r_fins b /\ r_phase w = true
  | Some (None, _) => False
  | None => exists b, In b (o_hist s) /\ r_fins w = r_fins b
  end.
Proof. exact teardown_ready_sound. Qed.
Print Assumptions C03_teardown_ready_sound.

(* TeardownAndDestroy returns success only once the resource is gone *)
Theorem C03_tad_success_means_gone : forall c pc rsp,
  h_kind c = KTeardownAndDestroy ->
  resume c pc rsp = PDone HGone -> pc <> PDone HGone ->
  (pc = PDestroy /\ rsp = SRes ROk) \/ (pc = PRecv /\ exists d, rsp = SEv (HvDestroyed d)).
Proof. exact tad_success_means_gone. Qed.
Print Assumptions C03_tad_success_means_gone.

Theorem C03_tad_wait_step : forall c e,
  h_kind c = KTeardownAndDestroy ->
  resume c PRecv (SEv e) =
  match e with
  | HvDestroyed _ => PDone HGone
  | HvCreated r | HvUpdated r => match r_fins r with [] => PDestroy | _ => PRecv end
  | HvErrored => PDone (HFail HEWatch)
  end.
Proof. exact tad_wait_step. Qed.
Print Assumptions C03_tad_wait_step.

(* no missed wake-up between marking and waiting: the subscription's first event is the state at call
   time, captured atomically, and every later change is queued in commit order *)
Theorem C03_watch_initial_is_current : forall s i t now,
  nth_error (sy_threads s) i = Some t -> request (th_call t) (th_pc t) = QWatch (h_key (th_call t)) ->
  exists t', nth_error (sy_threads (sys_step s (CThread i now))) i = Some t' /\
             th_watch t' = Some [match st_get (h_key (th_call t)) (sy_store s) with
                                 | Some cur => HvCreated cur | None => HvDestroyed None end] /\
             sy_store (sys_step s (CThread i now)) = sy_store s.
Proof. exact watch_initial_is_current. Qed.
Print Assumptions C03_watch_initial_is_current.

Theorem C03_notify_appends : forall ev ths i t q,
  nth_error ths i = Some t -> th_watch t = Some q ->
  exists t', nth_error (notify ev ths) i = Some t' /\ th_call t' = th_call t /\ th_pc t' = th_pc t /\
             th_watch t' = Some (q ++ match ev with
                                      | Some e => if key_eqb (h_key (th_call t)) (r_key (ev_res e)) then [hev_of_event e] else []
                                      | None => []
                                      end).
Proof. exact notify_appends. Qed.
Print Assumptions C03_notify_appends.

(* WatchFor returns the first state satisfying its condition, including the state at call time *)
Theorem C03_watchfor_first : forall c fe ph et e,
  h_kind c = KWatchFor fe ph et ->
  (watchfor_matches fe ph et e = true -> exists r, resume c PRecv (SEv e) = PDone r /\ r <> HFail HEWatch) /\
  (watchfor_matches fe ph et e = false -> resume c PRecv (SEv e) = PRecv).
Proof. exact watchfor_first. Qed.
Print Assumptions C03_watchfor_first.

Theorem C03_ctx_teardown_iff : forall c e,
  h_kind c = KCtxTeardown ->
  resume c PRecv (SEv e) = PDone HCancelled <->
  match e with
  | HvCreated r | HvUpdated r => r_phase r = true
  | HvDestroyed _ => True
  | HvErrored => True
  end.
Proof. exact ctx_teardown_iff. Qed.
Print Assumptions C03_ctx_teardown_iff.

(* non-vacuity: the finalizer is removed between Teardown and Watch; the helper still completes *)
Example C03_nonvacuous :
  let k := (1, 2, 3) in
  let r0 := mkRes 1 2 3 None 0 false [8] [] 0 0 9 in
  let c := mkCall KTeardownAndDestroy k MSetTD 0 None in
  let s := sys_run (mkSys [] [new_thread c])
             [CEnv 1%Z (OpCreate r0 0); CThread 0 2%Z; CThread 0 3%Z; CThread 0 4%Z;
              CEnv 5%Z (OpUpdate (mkRes 1 2 3 (Some 2) 0 true [] [] 1 4 9) 0 None);
              CThread 0 6%Z; CThread 0 7%Z; CThread 0 8%Z] in
  map th_pc (sy_threads s) = [PDone HGone] /\ sy_store s = [].
Proof. vm_compute. split; reflexivity. Qed.

(* ---- no missed wake-up as an invariant of the whole system (Wakeup.v) -----------------------------------------------
   from any initial store, for any set of helper calls, every schedule of their steps, of environment operations and of
   watch failures: a TeardownAndDestroy blocked on its watch with nothing queued is blocked on a resource that holds a
   finalizer NOW - so whenever the finalizers are (or become) empty, or the resource is gone, a delivery is queued *)
Theorem C03_tad_blocked_only_on_finalizers : forall st cs sched i t,
  let s := sys_run (mkSys st (map new_thread cs)) sched in
  nth_error (sy_threads s) i = Some t -> h_kind (th_call t) = KTeardownAndDestroy ->
  th_pc t = PRecv ->
  exists q, th_watch t = Some q /\
    (q = [] -> exists r, st_get (h_key (th_call t)) (sy_store s) = Some r /\ r_fins r <> []).
Proof. exact tad_blocked_only_on_finalizers. Qed.
Print Assumptions C03_tad_blocked_only_on_finalizers.

(* the same for teardown-bound contexts: still blocked with nothing queued only while the resource exists and runs *)
Theorem C03_ctx_blocked_only_while_running : forall st cs sched i t,
  let s := sys_run (mkSys st (map new_thread cs)) sched in
  nth_error (sy_threads s) i = Some t -> h_kind (th_call t) = KCtxTeardown ->
  th_pc t = PRecv ->
  exists q, th_watch t = Some q /\
    (q = [] -> exists r, st_get (h_key (th_call t)) (sy_store s) = Some r /\ r_phase r = false).
Proof. exact ctx_blocked_only_while_running. Qed.
Print Assumptions C03_ctx_blocked_only_while_running.

(* and a queued event can always be received: the helper's step consumes it *)
Theorem C03_recv_enabled : forall s i t e q now,
  nth_error (sy_threads s) i = Some t -> th_pc t = PRecv -> th_watch t = Some (e :: q) ->
  nth_error (sy_threads (sys_step s (CThread i now))) i =
    Some (mkTh (th_call t) (resume (th_call t) PRecv (SEv e)) (Some q)).
Proof. exact recv_enabled. Qed.
Print Assumptions C03_recv_enabled.
