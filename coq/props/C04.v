(* C04 — Read-modify-write helpers are atomic under contention. Statements only.

   `ostep c` is one step of the helper call c (UpdateWithConflicts / Teardown / Add-RemoveFinalizer /
   Modify, any mutator, owner and expected-phase options) or of its ENVIRONMENT, which may issue any
   store operation at any time except destroying the contended resource - in particular the Get /
   Update / Create steps of any number of other concurrent helper calls. `run_ok` only requires that
   and that versions do not wrap around 2^64 during the run. *)
From Verif Require Import Store Helpers HelpersProofs ConcHelpers ConcHelpersProofs Counter.
Open Scope N_scope.

(* every call reporting success has its mutation applied exactly once on top of the then-current
   value (b is the value the committing write replaced) and returns that object; a no-op returns a
   value equal to one the resource actually held; every call reporting an error wrote nothing; a call
   still running has written nothing *)
Theorem C04_rmw_atomic : forall c,
  match h_kind c with KUwc | KTeardown | KFin => True | KModify e => r_key e = h_key c | _ => False end ->
  forall s0 sched,
  (forall r, st_get (h_key c) s0 = Some r -> exists v, r_ver r = Some v) ->
  run_ok c (o_init c s0) sched ->
  verdict c (fold_left (ostep c) sched (o_init c s0)).
Proof. exact rmw_atomic. Qed.
Print Assumptions C04_rmw_atomic.

(* owner and phase conflicts are never retried into success *)
Theorem C04_no_retry_on_owner_or_phase : forall c owner exp cur new e,
  (is_owner_conflict e = true \/ is_phase_conflict e = true) ->
  resume c (PUpd owner exp cur new) (SRes (RErr e)) = PDone (HFail (HEStore e)).
Proof. exact no_retry_on_owner_or_phase. Qed.
Print Assumptions C04_no_retry_on_owner_or_phase.

(* mutators cannot change identity, version, owner or creation time *)
Theorem C04_mutate_preserves : forall m r r',
  mutate m r = Some r' ->
  r_key r' = r_key r /\ r_ver r' = r_ver r /\ r_owner r' = r_owner r /\ r_created r' = r_created r.
Proof. exact mutate_preserves. Qed.
Print Assumptions C04_mutate_preserves.

(* non-vacuity: two callers race; the loser of the version race retries on top of the winner's value *)
Example C04_nonvacuous :
  let k := (1, 2, 3) in
  let r0 := mkRes 1 2 3 None 0 false [] [] 0 0 9 in
  let c1 := mkCall KUwc k (MSetSpec 5) 0 None in
  let c2 := mkCall KUwc k (MAddFin [7]) 0 None in
  let s := sys_run (mkSys [] [new_thread c1; new_thread c2])
             [CEnv 1%Z (OpCreate r0 0); CThread 0 2%Z; CThread 1 3%Z; CThread 0 4%Z; CThread 1 5%Z; CThread 1 6%Z; CThread 1 7%Z] in
  map th_pc (sy_threads s) =
    [PDone (HOk (mkRes 1 2 3 (Some 2) 0 false [] [] 1 4 5));
     PDone (HOk (mkRes 1 2 3 (Some 3) 0 false [7] [] 1 7 5))].
Proof. vm_compute. reflexivity. Qed.

(* any number of concurrent callers: for every caller i among the calls cs (read-modify-write family, same or
   different resources), every schedule of all callers' CoreState steps, versions not wrapping: caller i's view of
   the run satisfies the single-call verdict - on failure nothing of it was written, on success its mutation was
   applied exactly once on the value its committing write replaced and the returned object is the committed one *)
Theorem C04_rmw_atomic_n_callers : forall cs i c s0 sched,
  nth_error cs i = Some c ->
  (match h_kind c with KUwc | KTeardown | KFin => True | KModify e => r_key e = h_key c | _ => False end) ->
  (forall r, st_get (h_key c) s0 = Some r -> exists v, r_ver r = Some v) ->
  (forall pre, (exists post, sched = pre ++ post) ->
               forall r v, st_get (h_key c) (m_store (mrun cs (m_init cs s0) pre)) = Some r -> r_ver r = Some v -> v + 1 < two64) ->
  exists o, verdict c o /\ o_store o = m_store (mrun cs (m_init cs s0) sched) /\
            nth_error (m_pcs (mrun cs (m_init cs s0) sched)) i = Some (o_pc o).
Proof. exact rmw_atomic_n. Qed.
Print Assumptions C04_rmw_atomic_n_callers.

(* counted: any number of concurrent UpdateWithConflicts calls, each applying the non-idempotent mutator MBump (counter
   + B) to one resource, under every schedule of their CoreState steps (versions not wrapping): at every moment the
   stored counter is the initial one plus B times the number of calls that have reported success so far, and the
   version has advanced by exactly that number - no successful mutation lost, none applied twice *)
Theorem C04_bump_counter : forall cs k,
  (forall j c, nth_error cs j = Some c -> h_kind c = KUwc /\ h_key c = k /\ h_mut c = MBump) ->
  forall v0 spec0, spec0 <> 0 ->
  forall s0 r0 sched,
  st_get k s0 = Some r0 -> r_ver r0 = Some v0 -> r_spec r0 = spec0 ->
  v0 + N.of_nat (length sched) < two64 ->
  let s := mrun cs (m_init cs s0) sched in
  exists cur, st_get k (m_store s) = Some cur /\
    r_spec cur = spec0 + N.of_nat (count_ok (m_pcs s)) * bumpB /\
    r_ver cur = Some (v0 + N.of_nat (count_ok (m_pcs s))) /\
    (count_ok (m_pcs s) <= length sched)%nat /\ length (m_pcs s) = length cs.
Proof. exact bump_counter. Qed.
Print Assumptions C04_bump_counter.

Theorem C04_bump_all_succeeded : forall cs k,
  (forall j c, nth_error cs j = Some c -> h_kind c = KUwc /\ h_key c = k /\ h_mut c = MBump) ->
  forall v0 spec0, spec0 <> 0 ->
  forall s0 r0 sched,
  st_get k s0 = Some r0 -> r_ver r0 = Some v0 -> r_spec r0 = spec0 ->
  v0 + N.of_nat (length sched) < two64 ->
  let s := mrun cs (m_init cs s0) sched in
  (forall pc, In pc (m_pcs s) -> is_ok pc = true) ->
  exists cur, st_get k (m_store s) = Some cur /\ r_spec cur = spec0 + N.of_nat (length cs) * bumpB.
Proof. exact bump_all_succeeded. Qed.
Print Assumptions C04_bump_all_succeeded.
