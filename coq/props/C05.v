(* C05 — No lost wake-ups: every input change reaches every dependent controller. Statements only.

   `prun wants s0 sched` runs an arbitrary schedule of: a write commits (SCommit), the runtime merges the
   next delivered events into its last-value-wins map (SProcess), takes a key (STake), notifies the
   dependent controllers (SNotify), a controller begins a reconcile (SStart) - i.e. any event batching,
   delivery delay and controller busy time.  `wants c k v` says that controller c must be woken for a
   change of resource k whose latest value reduces to v; for the two adapter flavours it is r_trigger /
   q_jobs below (one filter decision per declared input). *)
From Verif Require Import Store DepDB Pipeline PipelineProofs.

(* the carrier invariant: a change a controller must see and has not yet reconciled after is always
   carried by some stage of the pipeline *)
Theorem C05_carrier_invariant : forall wants s0 sched,
  PInv wants s0 -> PInv wants (prun wants s0 sched).
Proof. exact carrier_invariant. Qed.
Print Assumptions C05_carrier_invariant.

(* whenever the system goes quiet, every controller has started a reconcile after the latest change of
   every resource it must be woken for (so what it last read for its inputs is the current state; for
   destroy-ready inputs: for every resource whose latest value is tearing down without finalizers) *)
Theorem C05_quiescent_covered : forall wants s0 sched,
  PInv wants s0 ->
  let s := prun wants s0 sched in
  quiescent s ->
  forall c k p v, latest k (p_log s) = Some (p, v) -> wants c k v = true -> (p < p_seen s c k)%nat.
Proof. exact quiescent_covered. Qed.
Print Assumptions C05_quiescent_covered.

(* start-up: a fresh runtime, and a runtime started on pre-existing contents whose controllers receive
   their start-up trigger (initial token / listing of primaries) for everything they want, satisfy the invariant *)
Theorem C05_fresh : forall wants,
  PInv wants (mkP [] 0 (fun _ => None) None (fun _ _ => false) (fun _ _ => 0%nat)).
Proof. exact PInv_fresh. Qed.
Print Assumptions C05_fresh.

Theorem C05_started : forall wants log pend,
  (forall c k p v, latest k log = Some (p, v) -> wants c k v = true -> pend c k = true) ->
  PInv wants (mkP log (length log) (fun _ => None) None pend (fun _ _ => 0%nat)).
Proof. exact PInv_started. Qed.
Print Assumptions C05_started.

(* the Controller adapter wakes for an event iff some declared input matches it by kind or by ID and is
   either not destroy-ready-filtered or the value is destroy-ready *)
Theorem C05_r_trigger_complete : forall ins k v i,
  In i ins -> input_matches i k = true -> (i_kind i <> 2%N \/ destroy_ready v = true) -> r_trigger ins k v = true.
Proof. exact r_trigger_complete. Qed.
Print Assumptions C05_r_trigger_complete.

Theorem C05_r_trigger_sound : forall ins k v,
  r_trigger ins k v = true -> exists i, In i ins /\ input_matches i k = true /\ (i_kind i <> 2%N \/ destroy_ready v = true).
Proof. exact r_trigger_sound. Qed.
Print Assumptions C05_r_trigger_sound.

(* the QController adapter enqueues a reconcile job for every primary input and a map job for every mapped
   input (destroy-ready mapped inputs: when the value is destroy-ready) on that resource type *)
Theorem C05_q_jobs_complete : forall ins ns typ id v i,
  In i ins -> i_ns i = ns -> i_typ i = typ ->
  (i_kind i = 3%N -> In JReconcile (q_jobs ins (ns, typ, id) v)) /\
  (i_kind i = 4%N -> In JMap (q_jobs ins (ns, typ, id) v)) /\
  (i_kind i = 5%N -> destroy_ready v = true -> In JMap (q_jobs ins (ns, typ, id) v)).
Proof. exact q_jobs_complete. Qed.
Print Assumptions C05_q_jobs_complete.

(* non-vacuity: a burst on one key while the controller is busy still ends with a reconcile after the last change *)
Example C05_nonvacuous :
  let k := (1, 2, 3)%N in
  let w (c : ctrl) (k' : pkey) (v : rval) := true in
  let s := prun w (mkP [] 0 (fun _ => None) None (fun _ _ => false) (fun _ _ => 0%nat))
             [SCommit k (mkRv false true); SProcess 1; STake k; SNotify; SStart 0%nat (fun _ => true);
              SCommit k (mkRv false false); SCommit k (mkRv true false); SProcess 2; STake k; SNotify] in
  p_pend s 0%nat k = true /\ p_seen s 0%nat k = 1%nat /\ length (p_log s) = 3%nat.
Proof. vm_compute. repeat split. Qed.

(* ---- the map hand-off protocol between the two event goroutines of Runtime.processWatched (Handoff.v): one step per
   channel operation, every interleaving of the watch, goroutine A (deduplicate) and goroutine B (deliver) ---- *)
From Verif Require Import Handoff HandoffProofs.

(* there is always exactly one map: on `ch`, on `empty`, in A's hands or in B's *)
Theorem C05_handoff_one_map : forall sched, tokens (hrun h_init sched) = 1%nat.
Proof. exact handoff_one_map. Qed.
Print Assumptions C05_handoff_one_map.

(* takeOne never meets an empty map (deliverDeduplicatedEvents cannot panic) *)
Theorem C05_handoff_no_panic : forall sched, h_b (hrun h_init sched) <> BPanic.
Proof. exact handoff_no_panic. Qed.
Print Assumptions C05_handoff_no_panic.

(* a send never blocks: whoever is about to send finds the channel free *)
Theorem C05_handoff_sends_never_block : forall sched,
  let s := hrun h_init sched in
  (forall m, h_a s = ASendCh m -> h_ch s = None) /\
  (forall m, h_a s = ASendEmpty m -> h_empty s = None) /\
  (forall m k v, h_b s = BSend m k v -> h_ch s = None /\ h_empty s = None).
Proof. exact handoff_sends_never_block. Qed.
Print Assumptions C05_handoff_sends_never_block.

(* no key waits where nobody looks: a map parked on `empty` holds no key, and when both goroutines are idle either a
   map with keys sits on `ch` (B's receive is enabled) or nothing is pending *)
Theorem C05_handoff_no_parked_keys : forall sched,
  let s := hrun h_init sched in
  (forall m, h_empty s = Some m -> m = []) /\
  (h_a s = AWait -> h_b s = BWait -> (exists m, h_ch s = Some m /\ m <> []) \/ h_empty s = Some []).
Proof. exact handoff_no_parked_keys. Qed.
Print Assumptions C05_handoff_no_parked_keys.

(* while the watch is healthy, a key that is pending (in a queued batch, in the map wherever it is, in B's hand) is at
   every later point still pending or has been handed to the controllers *)
Theorem C05_handoff_no_key_lost : forall sched s k,
  all_clean s -> Forall act_clean sched -> In k (pending s) ->
  In k (pending (hrun s sched)) \/ In k (map fst (h_delivered (hrun s sched))).
Proof. exact handoff_no_key_lost. Qed.
Print Assumptions C05_handoff_no_key_lost.

(* non-vacuity: a reachable healthy state with two pending keys, one in A's map and one in B's hand *)
Theorem C05_handoff_example :
  let s := hrun h_init [HPush [EvChange 1 0; EvChange 2 1]; HA; HA; HA; HA; HBRecv; HBTake 1; HBSend; HPush [EvNoop]; HA; HA] in
  all_clean s /\ pending s = [2; 1] /\ h_ch s = None /\ h_a s = ADrain [(2, 1)].
Proof. exact handoff_example. Qed.
Print Assumptions C05_handoff_example.
