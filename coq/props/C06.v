(* C06 — Generic transform controllers converge to the mapped image of their inputs. Statements only.
   Machine: GenCtl.q_step.  "Once the system goes quiet": the last change is followed by a reconcile of the item
   that starts after it (C05) and is the only one running on the item (C09); nothing else writes any more. *)
From Verif Require Import Store Helpers DepDB Access AccessProofs GenCtl GenCtlProofs GenCtlConv Transform TransformProofs TransformConv Destroy DestroyProofs.
Open Scope N_scope.

(* from ANY store state reachable under C07's invariant (whatever the earlier history of creations, updates,
   teardowns, destroys, re-creations, foreign finalizers, interrupted reconciles and transform faults left behind),
   one undisturbed reconcile ends successfully with: running input => owned running output carrying the latest
   transformed content and the finalizer on the input; torn-down input => output gone and finalizer removed;
   no input => no output; the only exception is an output still held by foreign finalizers *)
Theorem C06_reconcile_converges : forall ns tin tout cname tf, tin <> tout -> forall now x st k,
  (owned_out ns tout cname x st -> in_fin ns tin cname x st) ->
  exclusive_out ns tout cname x st -> fins_wf ns tin x st ->
  let s' := q_run ns tin tout cname tf QPlain x (mkQS st Q0) (quiet now (5 + k)) in
  qs_pc s' = QDone true /\ converged ns tin tout cname tf x (qs_store s').
Proof. exact q_converges. Qed.
Print Assumptions C06_reconcile_converges.

(* the premise is what C07's invariant provides in every reachable state *)
Theorem C06_premise_reachable : forall ns tin tout cname tf, tin <> tout -> forall x sched,
  env_respects ns tin tout cname tf QPlain x (mkQS [] Q0) sched ->
  let st := qs_store (q_run ns tin tout cname tf QPlain x (mkQS [] Q0) sched) in
  owned_out ns tout cname x st -> in_fin ns tin cname x st.
Proof.
  exact (fun ns tin tout cname tf H x sched Hr =>
           proj1 (q_safety ns tin tout cname tf H x sched _ (QInv_init ns tin tout cname x) Hr)).
Qed.
Print Assumptions C06_premise_reachable.

(* a reconcile of one item leaves every other input and output alone: no spurious or stale outputs elsewhere *)
Theorem C06_reconcile_touches_only_its_item : forall ns tin tout cname tf, tin <> tout -> forall m now fault x s k',
  key_eqb k' (kin ns tin x) = false -> key_eqb k' (kout ns tout x) = false ->
  st_get k' (qs_store (q_step ns tin tout cname tf m x s (QStep now fault))) = st_get k' (qs_store s).
Proof. exact q_worker_frame. Qed.
Print Assumptions C06_reconcile_touches_only_its_item.

(* a failed transform writes nothing: the store after a faulted Modify step equals the store before it *)
Theorem C06_fault_writes_nothing : forall now c o s,
  denied_or_err (AccessProofs.a_res now c o s) -> AccessProofs.a_st now c o s = s.
Proof. exact AccessProofs.rejected_untouched. Qed.
Print Assumptions C06_fault_writes_nothing.

(* transform.Controller (rruntime flavour): from any state satisfying C07's invariant one undisturbed fault-free cycle
   ends converged - successfully, or with the phase-conflict error while a foreign finalizer holds a torn-down output -
   unless a torn-down output of a previous generation has to be removed first *)
Theorem C06_transform_cycle_converges : forall ns tin tout cname tf, tin <> tout -> forall now x st k,
  (owned_out ns tout cname x st -> in_fin ns tin cname x st) ->
  exclusive_out ns tout cname x st -> fins_wf ns tin x st -> ~ stale_generation ns tin tout x st ->
  let s' := t_cycle ns tin tout cname tf now x st k in
  converged ns tin tout cname tf x (ts_store s') /\
  (ts_pc s' = TDone true \/ (ts_pc s' = TDone false /\ held ns tout x (ts_store s'))).
Proof. exact t_cycle_converges. Qed.
Print Assumptions C06_transform_cycle_converges.

(* ... in which case the first cycle removes it (and reports the conflict), leaving a state without a stale
   generation, so the cycle started by the controller's restart converges by the theorem above *)
Theorem C06_transform_stale_generation_removed : forall ns tin tout cname tf, tin <> tout -> forall now x st k,
  exclusive_out ns tout cname x st -> fins_wf ns tin x st -> stale_generation ns tin tout x st ->
  let st' := ts_store (t_cycle ns tin tout cname tf now x st k) in
  ts_pc (t_cycle ns tin tout cname tf now x st k) = TDone false /\ st_get (kout ns tout x) st' = None /\
  (exists inp', st_get (kin ns tin x) st' = Some inp' /\ r_phase inp' = false) /\ ~ stale_generation ns tin tout x st'.
Proof. exact t_stale_generation_removed. Qed.
Print Assumptions C06_transform_stale_generation_removed.

(* destroy.Controller (the anchor's destroy.go, Destroy.v): an undisturbed reconcile of an item succeeds, removes the
   item iff it was tearing down, unowned and without finalizers, changes nothing else; afterwards no such item is left
   at that id - so a torn-down input released by the transform controllers does disappear *)
Theorem C06_destroy_controller_converges : forall ns typ cname now x st,
  let s := d_reconcile ns typ cname now x st in
  ds_pc s = DDone true /\
  ds_store s = (match st_get (dkey ns typ x) st with
                | Some cur => if d_ready cur then st_del (dkey ns typ x) st else st
                | None => st
                end) /\
  (forall cur, st_get (dkey ns typ x) (ds_store s) = Some cur -> d_ready cur = false).
Proof. exact d_converges. Qed.
Print Assumptions C06_destroy_controller_converges.
