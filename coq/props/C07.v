(* C07 — Finalizer ordering safety in controller-driven lifecycles. Statements only.
   Machine: GenCtl.q_step (qtransform.QController.Reconcile as a sequence of runtime-API calls, each executed
   atomically by Access.a_apply; any store operation of any other party between any two calls). *)
From Verif Require Import Store Helpers DepDB Access GenCtl GenCtlProofs Cleanup CleanupProofs Transform TransformProofs Destroy DestroyProofs TransformList TransformListProofs CleanupRO CleanupROProofs.
Open Scope N_scope.

(* for every schedule of worker calls, transform faults, restarts and environment operations that respect
   env_ok: at every instant (every prefix is a schedule) an output owned by the controller implies that its input
   exists and carries the controller's finalizer — the finalizer is there before the output first exists and
   stays until the output is gone, so the input cannot disappear while the output exists *)
Theorem C07_finalizer_brackets_output : forall ns tin tout cname tf, tin <> tout -> forall x sched,
  env_respects ns tin tout cname tf QPlain x (mkQS [] Q0) sched ->
  let st := qs_store (q_run ns tin tout cname tf QPlain x (mkQS [] Q0) sched) in
  forall o, st_get (kout ns tout x) st = Some o -> r_owner o = cname ->
  exists inp, st_get (kin ns tin x) st = Some inp /\ has_fin cname inp = true.
Proof. exact q_finalizer_brackets_output. Qed.
Print Assumptions C07_finalizer_brackets_output.

(* the invariant behind it, preserved by every step of every party *)
Theorem C07_invariant : forall ns tin tout cname tf, tin <> tout -> forall x sched s,
  QInv ns tin tout cname x s -> env_respects ns tin tout cname tf QPlain x s sched ->
  QInv ns tin tout cname x (q_run ns tin tout cname tf QPlain x s sched).
Proof. exact q_safety. Qed.
Print Assumptions C07_invariant.

(* whenever a Destroy issued by the controller succeeds, the output was marked tearing down and had no finalizers *)
Theorem C07_destroy_only_torn_down : forall ns tin tout cname tf now fault x s st',
  QInv ns tin tout cname x s ->
  q_request ns tin tout cname tf x (qs_pc s) fault = Some (ADestroy (kout ns tout x) None) ->
  a_apply now (gctrl ns tin tout cname) (ADestroy (kout ns tout x) None) (qs_store s) = (st', AOk) ->
  exists o, st_get (kout ns tout x) (qs_store s) = Some o /\ r_phase o = true /\ r_fins o = [] /\
            st_get (kout ns tout x) st' = None.
Proof. exact q_destroy_only_torn_down. Qed.
Print Assumptions C07_destroy_only_torn_down.

(* the controller takes its finalizer off the input only in states without an owned output *)
Theorem C07_remfin_only_without_output : forall ns tin tout cname tf, tin <> tout -> forall now x s inp,
  QInv ns tin tout cname x s -> qs_pc s = QRemFin inp ->
  ~ owned_out ns tout cname x (qs_store s) /\
  ~ owned_out ns tout cname x (qs_store (q_step ns tin tout cname tf QPlain x s (QStep now false))).
Proof. exact q_remfin_only_without_output. Qed.
Print Assumptions C07_remfin_only_without_output.

(* what is assumed of the other parties is met by every party that never creates outputs under the controller's
   name, never drops the controller's finalizer from the input and never revives an owned output *)
Theorem C07_environment_class : forall ns tin tout cname now x st o,
  env_op_ok ns tin tout cname x st o -> env_ok ns tin tout cname x st (apply_st now o st).
Proof. exact (fun ns tin tout cname => env_op_ok_sound ns tin tout cname (fun v => v)). Qed.
Print Assumptions C07_environment_class.

(* finding F7 (known): under WithIgnoreTeardownUntil / WithIgnoreTeardownWhile the first clause is false *)
Theorem C07_ignore_teardown_refuted : forall m, m = QUntil \/ m = QWhile 5 ->
  exists sched,
    env_respects 1 2 3 4 (fun v => v + 100) m 6 (mkQS [] Q0) sched /\
    let st := qs_store (q_run 1 2 3 4 (fun v => v + 100) m 6 (mkQS [] Q0) sched) in
    owned_out 1 3 4 6 st /\ ~ in_fin 1 2 4 6 st.
Proof. exact q_ignore_teardown_refuted_ex. Qed.
Print Assumptions C07_ignore_teardown_refuted.

(* third clause — cleanup.Controller with HasNoOutputs handlers (also combined): at the instant the controller issues
   RemoveFinalizer on a torn-down input every removal handler has succeeded, and — provided nobody creates a new
   dependent of the input once a handler found none — no dependent output of any handler kind exists; the release
   itself touches only the input *)
Theorem C07_cleanup_release_only_without_dependents : forall ns tin cname lkey touts, ~ In tin touts -> forall x l,
  env_respects_c ns tin cname lkey touts x (mkCS [] C0) l ->
  let s := c_run ns tin cname lkey touts x (mkCS [] C0) l in
  forall inp, cs_pc s = CRemFin inp -> forall t, In t touts -> dependents ns lkey x t (cs_store s) = [].
Proof. exact c_release_only_without_dependents. Qed.
Print Assumptions C07_cleanup_release_only_without_dependents.

Theorem C07_cleanup_release_touches_only_input : forall ns tin cname touts, ~ In tin touts -> forall now x st st' r t,
  In t touts -> a_apply now (cctrl ns tin cname touts) (ARemFin (ns, tin, x) [cname]) st = (st', r) ->
  st_list ns t st' = st_list ns t st.
Proof. exact c_release_touches_only_input. Qed.
Print Assumptions C07_cleanup_release_touches_only_input.

(* the same clauses for transform.Controller (rruntime flavour, input finalizers enabled): the whole reconcile cycle
   (processInputs / reconcileTearingDownInput / cleanupOutputs) as a machine, any environment within env_ok *)
Theorem C07_transform_finalizer_brackets_output : forall ns tin tout cname tf, tin <> tout -> forall x l,
  t_env_respects ns tin tout cname tf x (mkTS [] T0) l ->
  let st := ts_store (t_run ns tin tout cname tf x (mkTS [] T0) l) in
  forall o, st_get (kout ns tout x) st = Some o -> r_owner o = cname ->
  exists inp, st_get (kin ns tin x) st = Some inp /\ has_fin cname inp = true.
Proof. exact t_finalizer_brackets_output. Qed.
Print Assumptions C07_transform_finalizer_brackets_output.

Theorem C07_transform_destroy_only_torn_down : forall ns tin tout cname tf now fault x s st',
  TInv ns tin tout cname x s ->
  t_request ns tin tout cname tf x (ts_pc s) fault = Some (ADestroy (kout ns tout x) None) ->
  a_apply now (tctrl ns tin tout cname) (ADestroy (kout ns tout x) None) (ts_store s) = (st', AOk) ->
  exists o, st_get (kout ns tout x) (ts_store s) = Some o /\ r_phase o = true /\ r_fins o = [] /\
            st_get (kout ns tout x) st' = None.
Proof. exact t_destroy_only_torn_down. Qed.
Print Assumptions C07_transform_destroy_only_torn_down.

Theorem C07_transform_remfin_only_without_output : forall ns tin tout cname x s e,
  TInv ns tin tout cname x s -> ts_pc s = TRemFin e -> ~ owned_out ns tout cname x (ts_store s).
Proof. exact t_remfin_only_without_output. Qed.
Print Assumptions C07_transform_remfin_only_without_output.

(* destroy.Controller (Destroy.v): in every state - hence on every schedule, whatever the other parties do - a worker
   step either leaves the store alone or removes its item, which at that instant has no owner and no finalizers *)
Theorem C07_destroy_controller_writes : forall ns typ cname now x s,
  ds_store (d_step ns typ cname x s (DStep now)) = ds_store s \/
  (exists inp cur, ds_pc s = DDestroy inp /\ st_get (dkey ns typ x) (ds_store s) = Some cur /\
                   r_owner cur = 0 /\ r_fins cur = [] /\
                   ds_store (d_step ns typ cname x s (DStep now)) = st_del (dkey ns typ x) (ds_store s)).
Proof. exact d_step_writes. Qed.
Print Assumptions C07_destroy_controller_writes.

(* ... and, while no other party removes or revives a tearing-down item (removing it is this controller's task),
   every removal hits an item that is marked tearing down.  Without that hypothesis it is false: Destroy goes by
   pointer, not by version (DestroyProofs.d_destroys_running_without_env_hypothesis) *)
Theorem C07_destroy_controller_only_torn_down : forall ns typ cname x l now,
  d_env_respects ns typ cname x (mkDS [] (DDone true)) l ->
  let s := d_run ns typ cname x (mkDS [] (DDone true)) l in
  ds_store (d_step ns typ cname x s (DStep now)) <> ds_store s ->
  exists cur, st_get (dkey ns typ x) (ds_store s) = Some cur /\ r_phase cur = true /\ r_owner cur = 0 /\
              r_fins cur = [] /\ st_get (dkey ns typ x) (ds_store (d_step ns typ cname x s (DStep now))) = None.
Proof. exact d_destroy_only_torn_down. Qed.
Print Assumptions C07_destroy_controller_only_torn_down.

(* transform.Controller over the WHOLE input and output lists and ANY mapping of inputs to outputs (many-to-one and
   partial included; TransformList.v keeps the cycle's bookkeeping keyed by output id as the code does): for every
   schedule of runtime calls, transform faults, outcomes of the user's finalizer-removal hook, restarts, release orders
   and operations of other parties that never
   make an output owned by the controller appear - whenever the controller issues RemoveFinalizer on an input, the
   output that input maps to does not exist as an output owned by the controller, before and after the release *)
Theorem C07_transform_any_mapping_release_only_without_output :
  forall ns tin tout cname tf mapf hook, tin <> tout -> forall l now fault sel x,
  l_env_respects ns tin tout cname tf mapf hook (mkLS [] L0) l ->
  let s := l_run ns tin tout cname tf mapf hook (mkLS [] L0) l in
  l_request ns tin tout cname tf (ls_pc s) fault sel = Some (ARemFin (ns, tin, x) [cname]) ->
  exists o, mapf x = Some o /\ ~ owned_out ns tout cname o (ls_store s) /\
            ~ owned_out ns tout cname o (ls_store (l_step ns tin tout cname tf mapf hook s (LStep now fault sel))).
Proof. exact l_remfin_only_without_output. Qed.
Print Assumptions C07_transform_any_mapping_release_only_without_output.

(* ... and Teardown / Destroy are issued only on outputs listed as owned by the controller that are already tearing
   down or were not claimed by a running input in this cycle *)
Theorem C07_transform_any_mapping_teardown_only_unwanted : forall ns tin tout cname tf mapf hook l s,
  LTd cname s -> LTd cname (l_run ns tin tout cname tf mapf hook s l).
Proof. exact l_teardown_only_unwanted. Qed.
Print Assumptions C07_transform_any_mapping_teardown_only_unwanted.

(* third clause for cleanup.Controller with the RemoveOutputs handler (CleanupRO.v: list the dependents, skip owned ones,
   Teardown and Destroy the unowned ones with the empty owner, wait while any is still tearing down): for every schedule of
   runtime calls, restarts and operations of other parties - provided that, between the handler's listing and the end of
   that pass, no new unowned dependent of the input appears - RemoveFinalizer is issued on the torn-down input only while
   no unowned dependent exists (owned dependents are skipped by the handler by design and are their owner's to remove);
   the release touches no dependent *)
Theorem C07_cleanup_remove_outputs_release_only_without_dependents : forall ns tin tout cname lkey x l,
  r_env_respects ns tin tout cname lkey x (mkRS [] R0) l ->
  let s := ro_run ns tin tout cname lkey x (mkRS [] R0) l in
  rs_pc s = RRemFin -> forall id, ~ udep ns tout lkey x id (rs_store s).
Proof. exact ro_release_only_without_unowned_dependents. Qed.
Print Assumptions C07_cleanup_remove_outputs_release_only_without_dependents.

Theorem C07_cleanup_remove_outputs_release_touches_only_input : forall ns tin tout cname, tin <> tout -> forall now x st st' r id,
  a_apply now (rctrl ns tin tout cname) (ARemFin (ns, tin, x) [cname]) st = (st', r) ->
  st_get (ns, tout, id) st' = st_get (ns, tout, id) st.
Proof. exact ro_release_touches_only_input. Qed.
Print Assumptions C07_cleanup_remove_outputs_release_touches_only_input.

(* what the RemoveOutputs flavour may write, in every state (hence on every schedule): a worker step changes at most one
   key - the input itself or the dependent being handled, which the listing showed as unowned - and a dependent
   disappears only through a Destroy that the store grants for an unowned resource without finalizers *)
Theorem C07_cleanup_remove_outputs_touches_one_key : forall ns tin tout cname lkey now x s k',
  key_eqb k' (ro_target ns tin tout x (rs_pc s)) = false ->
  st_get k' (rs_store (ro_step ns tin tout cname lkey x s (RStep now))) = st_get k' (rs_store s).
Proof. exact ro_step_touches_one_key. Qed.
Print Assumptions C07_cleanup_remove_outputs_touches_one_key.

Theorem C07_cleanup_remove_outputs_destroys_only_unowned_without_finalizers : forall ns tin tout cname now id s s',
  a_apply now (rctrl ns tin tout cname) (ADestroy (ns, tout, id) (Some 0)) s = (s', AOk) ->
  exists cur, st_get (ns, tout, id) s = Some cur /\ r_owner cur = 0 /\ r_fins cur = [].
Proof. exact ro_destroy_only_unowned_without_finalizers. Qed.
Print Assumptions C07_cleanup_remove_outputs_destroys_only_unowned_without_finalizers.
