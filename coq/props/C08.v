(* C08 — Controllers are confined to declared inputs/outputs and resources they own. Statements only.
   All statements are for every declaration list, operation, target, store and time. *)
From Verif Require Import Store Helpers DepDB Access AccessProofs Tracker.
Open Scope N_scope.

Theorem C08_write_confined : forall now c o s,
  is_write o = true -> is_output c (op_type o) = false -> a_apply now c o s = (s, ADenied).
Proof. exact write_confined. Qed.
Print Assumptions C08_write_confined.

Theorem C08_read_confined : forall now c ns typ id s,
  check_read c ns typ (Some id) = false ->
  a_apply now c (AGet (ns, typ, id)) s = (s, ADenied) /\ a_apply now c (ACtx (ns, typ, id)) s = (s, ADenied).
Proof. exact read_confined. Qed.
Print Assumptions C08_read_confined.

Theorem C08_list_confined : forall now c ns typ s,
  check_read c ns typ None = false -> a_apply now c (AList ns typ) s = (s, ADenied).
Proof. exact list_confined. Qed.
Print Assumptions C08_list_confined.

(* the read check is exactly: an output type, or a declared input on that (namespace,type) by kind or by that id *)
Theorem C08_check_read_spec : forall c ns typ id,
  check_read c ns typ id = true <->
  (exists o, In o (c_outputs c) /\ o_typ o = typ) \/
  (exists dep, In dep (c_inputs c) /\ i_ns dep = ns /\ i_typ dep = typ /\
               (i_id dep = None \/ (exists x, i_id dep = Some x /\ id = Some x))).
Proof. exact check_read_spec. Qed.
Print Assumptions C08_check_read_spec.

Theorem C08_finalizer_confined : forall now c o s,
  is_fin_op o = true ->
  (match o with AAddFin (ns, typ, id) _ | ARemFin (ns, typ, id) _ => check_finalizer c ns typ id | _ => true end) = false ->
  a_apply now c o s = (s, ADenied).
Proof. exact finalizer_confined. Qed.
Print Assumptions C08_finalizer_confined.

(* finalizers only on strong (1), queue-primary (3) or queue-mapped (4) inputs matching by kind or id *)
Theorem C08_check_finalizer_spec : forall c ns typ id,
  check_finalizer c ns typ id = true <->
  exists dep, In dep (c_inputs c) /\ i_ns dep = ns /\ i_typ dep = typ /\
              (i_kind dep = 1 \/ i_kind dep = 3 \/ i_kind dep = 4) /\ (i_id dep = None \/ i_id dep = Some id).
Proof. exact check_finalizer_spec. Qed.
Print Assumptions C08_check_finalizer_spec.

Theorem C08_create_stamps_owner : forall now c r s w,
  a_res now c (ACreate r false) s = AOkRes w ->
  r_owner w = c_name c /\ st_get (r_key r) (a_st now c (ACreate r false) s) = Some w.
Proof. exact create_stamps_owner. Qed.
Print Assumptions C08_create_stamps_owner.

Theorem C08_foreign_owner_untouchable : forall now c k cur s,
  st_get k s = Some cur -> r_owner cur <> c_name c ->
  is_output c (snd (fst k)) = true ->
  (forall r, r_key r = k -> a_apply now c (AUpdate r) s = (s, AErr (HEStore (EOwnerConflict (r_ns cur) (r_typ cur))))) /\
  a_apply now c (ADestroy k None) s = (s, AErr (HEStore (EOwnerConflict (r_ns cur) (r_typ cur)))) /\
  (r_phase cur = false -> a_apply now c (ATeardown k None) s = (s, AErr (HEStore (EOwnerConflict (r_ns cur) (r_typ cur))))).
Proof. exact foreign_owner_untouchable. Qed.
Print Assumptions C08_foreign_owner_untouchable.

(* any rejected operation leaves the state untouched *)
Theorem C08_rejected_untouched : forall now c o s,
  denied_or_err (a_res now c o s) -> a_st now c o s = s.
Proof. exact rejected_untouched. Qed.
Print Assumptions C08_rejected_untouched.

Example C08_nonvacuous :
  let c := mkCtrl 7 [mkIn 1 2 (Some 3) 1] [mkOut 9 0] in
  let s := [mkRes 1 2 3 (Some 1) 0 false [] [] 0 0 5; mkRes 1 2 4 (Some 1) 0 false [] [] 0 0 5] in
  snd (a_apply 1%Z c (AGet (1, 2, 4)) s) = ADenied /\ snd (a_apply 1%Z c (AList 1 2) s) = ADenied /\
  snd (a_apply 1%Z c (AAddFin (1, 2, 3) [8]) s) = AOk /\ snd (a_apply 1%Z c (AAddFin (1, 2, 4) [8]) s) = ADenied /\
  snd (a_apply 1%Z c (ADestroy (1, 2, 3) None) s) = ADenied.
Proof. vm_compute. repeat split. Qed.

(* the runtime acting on the controller's behalf: CleanupOutputs of the output tracker. For every store, controller
   name, kind and set of touched ids: a key whose content differs afterwards is now absent and the store held under it
   a resource of the cleaned kind, owned by this controller and untouched since StartTrackingOutputs *)
Theorem C08_cleanup_confined : forall name ns typ touched s s' ok k,
  cleanup name ns typ touched s = (s', ok) ->
  st_get k s' = st_get k s \/
  (st_get k s' = None /\ exists r, In r s /\ r_key r = k /\ r_ns r = ns /\ r_typ r = typ /\ r_owner r = name /\
                                    existsb (N.eqb (r_id r)) touched = false).
Proof. exact cleanup_confined. Qed.
Print Assumptions C08_cleanup_confined.

(* so resources of another owner, of nobody, touched ones and other kinds are still there, unchanged *)
Theorem C08_cleanup_spares : forall name ns typ touched s s' ok r,
  cleanup name ns typ touched s = (s', ok) ->
  (forall x, In x s -> r_key x = r_key r -> x = r) ->
  st_get (r_key r) s = Some r ->
  (r_owner r <> name \/ existsb (N.eqb (r_id r)) touched = true \/ in_kind ns typ r = false) ->
  st_get (r_key r) s' = Some r.
Proof. exact cleanup_spares. Qed.
Print Assumptions C08_cleanup_spares.
