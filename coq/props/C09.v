(* C09 — Reconcile queue: per-item exclusion, coalescing, no loss, honoured backoff.
   This file contains only the property statements; every proof is `exact <lemma>`.
   `reach s g` ranges over every history of Put / Get / Release / Requeue(after) events with a
   non-decreasing clock in which only handed-out items are released (any keys, any number of
   workers: a worker is just the party issuing Get and later Release for the item it got).
   The ghost record g is computed from the visible history only (events and Get results). *)
From Verif Require Import Queue QueueProofs.
Open Scope Z_scope.

(* an item handed out and not yet released is never handed out again *)
Theorem C09_exclusion : forall s g now k v,
  reach s g -> g_clock g <= now -> snd (q_step s (EGet now)) = Some (k, v) -> ~ In k (g_held g).
Proof. exact q_exclusion. Qed.
Print Assumptions C09_exclusion.

(* coalescing to the most recent value; a requeue is not delivered before the requested time
   unless a fresh notification arrived; nothing is delivered without a notification or requeue *)
Theorem C09_delivery : forall s g now k v,
  reach s g -> g_clock g <= now -> snd (q_step s (EGet now)) = Some (k, v) ->
  match g_fresh g k with
  | Some v' => v = v'
  | None => exists t, g_req g k = Some (v, t) /\ t <= now
  end.
Proof. exact q_delivery. Qed.
Print Assumptions C09_delivery.

(* no loss: an undelivered notification is parked behind the in-flight item or ready in the queue *)
Theorem C09_no_loss : forall s g k v,
  reach s g -> g_fresh g k = Some v ->
  (In k (g_held g) /\ amap_get k (q_parked s) = Some v) \/
  (~ In k (g_held g) /\ exists i, pq_find k (q_pq s) = Some i /\ pv i = v /\ pra i <= g_clock g).
Proof. exact q_no_loss. Qed.
Print Assumptions C09_no_loss.

(* ... and a ready item is always offered: Get returns nothing only if every undelivered
   notification belongs to an item currently being processed *)
Theorem C09_progress : forall s g now k v,
  reach s g -> g_clock g <= now -> snd (q_step s (EGet now)) = None ->
  g_fresh g k = Some v -> In k (g_held g).
Proof. exact q_get_none_means_idle. Qed.
Print Assumptions C09_progress.

(* reported length = pending + held-back *)
Theorem C09_len : forall s g,
  reach s g -> q_len s = Z.of_nat (length (q_pq s)) + Z.of_nat (length (q_parked s)).
Proof. exact q_len_exact. Qed.
Print Assumptions C09_len.

(* structural invariants of the containers *)
Theorem C09_structure : forall s g,
  reach s g -> sorted (q_pq s) /\ NoDup (keys (q_pq s)) /\ NoDup (pkeys (q_parked s)) /\
  (forall k, In k (q_hold s) -> ~ In k (keys (q_pq s))) /\ q_hold s = g_held g.
Proof. exact q_structure. Qed.
Print Assumptions C09_structure.

(* failed reconciles are retried with growing backoff that resets on success *)
Theorem C09_backoff_schedule : forall k n t,
  bo_get k t = None ->
  snd (decide_many k (repeat OErr n) t) =
  map (fun i => Some (bo_window (bo_iter i bo_initial))) (seq 0 n).
Proof. exact consecutive_failures. Qed.
Print Assumptions C09_backoff_schedule.

Theorem C09_backoff_grows : forall n, bo_iter n bo_initial <= bo_iter (S n) bo_initial.
Proof. exact bo_iter_monotone. Qed.
Print Assumptions C09_backoff_grows.

Theorem C09_backoff_resets : forall k o t,
  match o with OOk | OSkip | ORequeue _ | ORequeueSkip _ => True | _ => False end ->
  bo_cur k (fst (reconcile_decide k o t)) = bo_initial.
Proof. exact decide_resets. Qed.
Print Assumptions C09_backoff_resets.

Theorem C09_requeue_interval_verbatim : forall k d t,
  d <> 0 -> reconcile_decide k (ORequeueErr d) t = (t, Some (d, d)).
Proof. exact decide_requeue_err_verbatim. Qed.
Print Assumptions C09_requeue_interval_verbatim.

(* non-vacuity: a concrete history reaching a state with a parked notification, a held item and
   a requeued item *)
Example C09_nonvacuous :
  let es := [EPut 1%N 10%N 0; EPut 2%N 20%N 0; EGet 0; EPut 1%N 11%N 5; EGet 5; ERelease 2%N 20%N (Some 50) 6] in
  snd (q_run q_init es) = [None; None; Some (1%N, 10%N); None; Some (2%N, 20%N); None] /\
  q_parked (fst (q_run q_init es)) = [(1%N, 11%N)] /\
  q_pq (fst (q_run q_init es)) = [(2%N, 20%N, 50)].
Proof. vm_compute. repeat split. Qed.
