(* C10 — Persistent store: acked writes survive crashes; memory never diverges. Statements only.
   Machine: Persist.pstep over Store.apply (the C01 specification): validate against memory, write the backing
   store (may be rejected), then change memory and publish; crashes keep the backing store only. *)
From Verif Require Import Store Persist PersistProofs.

(* for every history of calls, rejected writes, failed loads and crashes between or inside calls: what the reopened
   state loads is exactly the replay of the calls that took effect — every acknowledged successful write is among
   them, the only others are writes that had reached the backing store when the process died — and memory, whenever
   loaded, equals the backing store *)
Theorem C10_reopened_state_is_replay : forall l,
  let s := prun l in
  p_dur s = replay (p_issued s) /\ loaded s = p_dur s /\
  (forall now o r, In (now, o, SAcked r) (p_issued s) -> ((exists w, r = RWritten w) \/ r = ROk) -> effective (now, o, SAcked r) = true).
Proof. exact reopened_state_is_replay. Qed.
Print Assumptions C10_reopened_state_is_replay.

Theorem C10_invariant : forall l, PInv (prun l).
Proof. exact prun_inv. Qed.
Print Assumptions C10_invariant.

(* if the backing store rejects a write, the call fails and neither memory, nor the backing store, nor any watcher
   (the published event log) observes it *)
Theorem C10_store_error_invisible : forall s now o,
  PInv s -> has_effect now o (loaded s) = true ->
  let s' := pstep s (POp now o true) in
  p_dur s' = p_dur s /\ loaded s' = loaded s /\ (p_mem s <> None -> p_events s' = p_events s).
Proof. exact store_error_invisible. Qed.
Print Assumptions C10_store_error_invisible.

Theorem C10_rejected_never_durable : forall s now o fault,
  has_effect now o (loaded s) = false -> p_dur (pstep s (POp now o fault)) = p_dur s.
Proof. exact rejected_never_durable. Qed.
Print Assumptions C10_rejected_never_durable.

(* later operations behave as if no restart happened: they are answered from the replayed contents (versions,
   owners, phases, finalizers, labels, creation times as the C01 specification left them) *)
Theorem C10_continues_as_if : forall l now o,
  let s := prun l in
  p_issued (pstep s (POp now o false)) = p_issued s ++ [(now, o, SAcked (apply_res now o (replay (p_issued s))))].
Proof. exact continues_as_if. Qed.
Print Assumptions C10_continues_as_if.
