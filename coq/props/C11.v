(* C11 — gRPC transparency: remote state == wrapped state; server never crashes. Statements only. *)
From Verif Require Import Grpc GrpcProofs.

(* for every RPC and every error class its wrapped operation can produce, pushing the error through the server's
   status mapping and the client's class mapping gives back the same class *)
Theorem C11_error_class_roundtrip : forall r k, producible r k = true -> client_map r (server_map r k) = k.
Proof. exact error_class_roundtrip. Qed.
Print Assumptions C11_error_class_roundtrip.

(* including the qualified conflict predicates: the remote error names the request's resource *)
Theorem C11_class_tuple_roundtrip : forall r k, producible r k = true -> cls_of (client_map r (server_map r k)) = cls_of k.
Proof. exact class_tuple_roundtrip. Qed.
Print Assumptions C11_class_tuple_roundtrip.

Theorem C11_other_stays_other : forall r, client_map r (server_map r KOther) = KOther.
Proof. exact other_stays_other. Qed.
Print Assumptions C11_other_stays_other.

(* the one lossy spot, outside the sequential quantifier (needs two racing teardowns): recorded, not claimed *)
Theorem C11_phase_on_teardown_degrades :
  client_map RTeardown (server_map RTeardown KPhase) = KConflict /\
  client_map RTeardownAndDestroy (server_map RTeardownAndDestroy KPhase) = KConflict.
Proof. exact phase_on_teardown_degrades. Qed.
Print Assumptions C11_phase_on_teardown_degrades.
