(* C11 — gRPC transparency: remote state == wrapped state; server never crashes. Statements only. *)
From Verif Require Import Grpc GrpcProofs.
From Verif Require Import Store GrpcOps GrpcOpsProofs.

(* for every RPC and every error class its wrapped operation can produce, pushing the error through the server's
   status mapping and the client's class mapping gives back the same class *)
Theorem C11_error_class_roundtrip : forall r k, producible r k = true -> client_map r (server_map r k) = k.
Proof. exact error_class_roundtrip. Qed.
Print Assumptions C11_error_class_roundtrip.

(* including the qualified conflict predicates: the remote error names the request's resource *)
Theorem C11_class_tuple_roundtrip : forall r k, producible r k = true -> cls_of (client_map r (server_map r k)) = cls_of k.
Proof. exact class_tuple_roundtrip. Qed.
Print Assumptions C11_class_tuple_roundtrip.

Theorem C11_other_stays_other : forall r, client_map r (server_map r KOther) = KOther.
Proof. exact other_stays_other. Qed.
Print Assumptions C11_other_stays_other.

(* the one lossy spot, outside the sequential quantifier (needs two racing teardowns): recorded, not claimed *)
Theorem C11_phase_on_teardown_degrades :
  client_map RTeardown (server_map RTeardown KPhase) = KConflict /\
  client_map RTeardownAndDestroy (server_map RTeardownAndDestroy KPhase) = KConflict.
Proof. exact phase_on_teardown_degrades. Qed.
Print Assumptions C11_phase_on_teardown_degrades.

(* ---- the unary RPCs end to end (GrpcOps.v) ---------------------------------------------------------------------------
   for every resource codec that round-trips (C18), every operation with every owner and expected-phase option, every
   resource and every state of the wrapped store: client request -> server handler -> wrapped state -> response ->
   client gives the same new state and the same caller-visible outcome as the direct call: the same error class, the
   same version / update time / owner written back into the caller's object, the same object returned by Get *)
Theorem C11_remote_transparent : forall (wire : Type) (enc : res -> wire) (dec : wire -> option res),
  (forall r, dec (enc r) = Some r) ->
  forall now o s,
  (match o with OpList _ _ => False | _ => True end) ->
  remote_call wire enc dec now o s = Some (apply_st now o s, direct_outcome (apply_res now o s)).
Proof. exact remote_transparent. Qed.
Print Assumptions C11_remote_transparent.

(* whole operation histories *)
Theorem C11_remote_history_transparent : forall (wire : Type) (enc : res -> wire) (dec : wire -> option res),
  (forall r, dec (enc r) = Some r) ->
  forall ops s,
  Forall (fun no => match snd no with OpList _ _ => False | _ => True end) ops ->
  run_remote wire enc dec ops s = Some (run_direct ops s).
Proof. exact remote_history_transparent. Qed.
Print Assumptions C11_remote_history_transparent.

(* malformed requests (undecodable resource, unparsable expected phase) get an error status and change nothing *)
Theorem C11_malformed_request_rejected : forall (wire : Type) (enc : res -> wire) (dec : wire -> option res) now q s,
  (match q with
   | WCreate w _ => dec w = None
   | WUpdate w _ e => dec w = None \/ server_exp e = None
   | _ => False
   end) ->
  server_handle wire enc dec now q s = (s, WStatus CUnknown).
Proof. exact malformed_request_rejected. Qed.
Print Assumptions C11_malformed_request_rejected.
