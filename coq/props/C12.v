(* C12 — Bookmarks resume exactly; stale/foreign bookmarks rejected; tails exact. Statements only. *)
From Verif Require Import Ring RingProofs WatchProofs TailOne.
Open Scope Z_scope.

Theorem C12_decode_encode : forall cookie p,
  length cookie = 8%nat -> - two63z <= p < two63z ->
  decode_bookmark cookie (encode_bookmark cookie p) = Some p.
Proof. exact decode_encode. Qed.
Print Assumptions C12_decode_encode.

(* malformed or foreign-incarnation bookmarks are rejected *)
Theorem C12_decode_rejects : forall cookie bm,
  (length bm <> 16%nat \/ firstn 8 bm <> cookie) -> decode_bookmark cookie bm = None.
Proof. exact decode_rejects. Qed.
Print Assumptions C12_decode_rejects.

(* an accepted bookmark never leaves a gap: the watch starts right after it and every later event
   is still in the ring; by C02_watch_exact the resumed stream is exactly log(p, ...) *)
Theorem C12_accept_no_gap : forall initcap c log p pos,
  RInv initcap c log -> 0 <= c_gap c < c_cap c ->
  start_all c (SBookmark p) = Some pos ->
  pos = p + 1 /\ 0 <= pos <= c_wpos c /\ c_wpos c - pos < c_cap c - c_gap c /\
  (forall q, pos <= q < c_wpos c -> ring_get c q = log_at log q).
Proof. exact bookmark_accept_no_gap. Qed.
Print Assumptions C12_accept_no_gap.

(* resumed stream = original stream: a watcher started at p+1 after any history delivers log(p, ...) *)
Theorem C12_resume_exact : forall initcap maxcap gap pre p0 acts,
  1 <= initcap <= maxcap ->
  let c0 := publish_all pre (coll_init initcap maxcap gap) in
  0 <= p0 <= c_wpos c0 ->
  let s := wrun (mkW c0 pre p0 false []) acts in
  w_out s = log_slice (w_log s) p0 (w_pos s) /\
  p0 <= w_pos s <= Z.of_nat (length (w_log s)) /\
  (w_dead s = true -> exists lagged_at, lagged_at - w_pos s > initcap).
Proof. exact watch_exact. Qed.
Print Assumptions C12_resume_exact.

Theorem C12_stale_or_ahead_rejected : forall c p,
  (p < c_wpos c - c_cap c + c_gap c \/ p < -1 \/ p >= c_wpos c) -> start_all c (SBookmark p) = None.
Proof. exact bookmark_reject. Qed.
Print Assumptions C12_stale_or_ahead_rejected.

Theorem C12_recent_always_accepted : forall initcap c log p,
  RInv initcap c log -> 0 <= p < c_wpos c -> c_wpos c - p <= initcap - c_gap c ->
  start_all c (SBookmark p) = Some (p + 1) /\ start_one c 0%N (SBookmark p) = Some (p + 1).
Proof. exact recent_always_accepted. Qed.
Print Assumptions C12_recent_always_accepted.

Theorem C12_tail_exact : forall initcap c log n pos,
  RInv initcap c log -> 0 <= c_gap c < c_cap c -> 0 < n ->
  start_all c (STail n) = Some pos ->
  pos = c_wpos c - Z.min n (Z.min (c_cap c - c_gap c) (c_wpos c)) /\
  0 <= pos <= c_wpos c /\ c_wpos c - pos <= c_cap c /\
  pending c pos = (if Z.eqb pos (c_wpos c) then pending c pos else log_slice log pos (c_wpos c)).
Proof. exact tail_all_exact. Qed.
Print Assumptions C12_tail_exact.

(* single-resource tails: within the window, exactly the last min(n, available) events of this id lie at or after the
   start position, the start is the n-th last event of this id unless the window was exhausted, and everything from
   the start on is still live (equals the log) *)
Theorem C12_single_tail_exact : forall initcap c log id n pos,
  RInv initcap c log -> 0 <= c_gap c < c_cap c -> 0 < n ->
  start_one c id (STail n) = Some pos ->
  let minpos := Z.max (c_wpos c - c_cap c + c_gap c) 0 in
  minpos <= pos <= c_wpos c /\
  cntdown c id (Z.to_nat (c_wpos c - pos)) (c_wpos c) =
    Z.min n (cntdown c id (Z.to_nat (c_wpos c - minpos)) (c_wpos c)) /\
  (pos = minpos \/ hit c id pos = 1) /\
  (forall q, pos <= q < c_wpos c -> ring_get c q = log_at log q).
Proof. exact single_tail_exact. Qed.
Print Assumptions C12_single_tail_exact.
Example C12_nonvacuous :
  let cookie := [1;2;3;4;5;6;7;8]%N in
  decode_bookmark cookie (encode_bookmark cookie (-1)) = Some (-1) /\
  decode_bookmark cookie (encode_bookmark [9;2;3;4;5;6;7;8]%N 3) = None /\
  decode_bookmark cookie [1;2;3]%N = None.
Proof. vm_compute. repeat split. Qed.
