(* C13 — Remote watches survive transport failures without gaps or duplicates. Statements only.
   Machine: RemoteWatch.step (client.watchAdapter with recvMessage's retry loop) against the server's log; the
   server side of an accepted resume is C12's theorem (exactly the entries after the bookmark). *)
From Verif Require Import RemoteWatch RemoteWatchProofs.
From Coq Require Import ZArith.
From Verif Require Ring RingProofs WatchProofs RemoteRing RemoteRingProofs RetryBudget RetryBudgetProofs.

(* for every selector, window test, initial part, start position, retry setting and every schedule of commits,
   deliveries, stream failures, failed re-dials, successful re-dials (on the same or a foreign incarnation), giving up
   and server-side overruns: the user has received the initial part once and in order, then exactly the matching log
   entries from the start position on, in order, without gap or duplicate, optionally ended by one Errored *)
Theorem C13_remote_watch_exact : forall sel valid init p0 retries len sched,
  init_wf init p0 -> p0 <= len ->
  let s := run sel valid init p0 retries (start_state init p0 len) sched in
  exists i k, i <= length init /\ p0 + k <= c_len s /\ (k > 0 -> i = length init) /\
    c_out s = inits i ++ logpart sel p0 k ++ (match c_mode s with MDead => [UErr] | _ => [] end).
Proof. exact remote_watch_exact. Qed.
Print Assumptions C13_remote_watch_exact.

(* continues transparently: a live stream with nothing left to send has delivered every matching entry *)
Theorem C13_live_stream_complete : forall sel valid init p0 retries len sched,
  init_wf init p0 -> p0 <= len ->
  let s := run sel valid init p0 retries (start_state init p0 len) sched in
  forall n, c_mode s = MStream n -> next_match sel n (c_len s - n) = None ->
  c_out s = inits (length init) ++ logpart sel p0 (c_len s - p0).
Proof. exact live_stream_complete. Qed.
Print Assumptions C13_live_stream_complete.

(* Errored only: no bookmark seen yet / retries disabled (on a failure), bookmark no longer valid (expired or foreign),
   retries exhausted, or the server itself reported an overrun *)
Theorem C13_errored_has_cause : forall sel valid init p0 retries s c,
  c_mode s <> MDead -> c_mode (step sel valid init p0 retries s c) = MDead ->
  (c = SBreak /\ (retries = false \/ c_last s = None)) \/
  (c = SRedialOK /\ exists b, c_last s = Some b /\ valid b (c_len s) = false) \/
  c = SRedialForeign \/ c = SGiveUp \/ c = SOverrun.
Proof. exact errored_has_cause. Qed.
Print Assumptions C13_errored_has_cause.

(* never a silent gap: an accepted resume continues exactly at the last bookmark and re-delivers nothing *)
Theorem C13_resume_at_last_bookmark : forall sel valid init p0 retries s b,
  c_mode s = MRetry -> c_last s = Some b -> valid b (c_len s) = true ->
  c_mode (step sel valid init p0 retries s SRedialOK) = MStream b /\
  c_out (step sel valid init p0 retries s SRedialOK) = c_out s.
Proof. exact resume_at_last_bookmark. Qed.
Print Assumptions C13_resume_at_last_bookmark.

(* ---- the two ends composed: the server side is the ring of C02/C12 itself (RemoteRing.v), no parameter left --------
   for every buffer configuration, prior history, start position and schedule of commits, server-side fetches,
   deliveries, losses of everything in flight, failed / accepted / refused re-dials and giving up: the user has been
   handed exactly the log from the start position on (no gap, no duplicate, in order), Errored exactly when the
   adapter returned, and lastBookmark is the position of the last event handed over *)
Theorem C13_over_ring_exact : forall initcap maxcap gap pre p0 l0 retries sched,
  RingProofs.wf_cfg initcap maxcap gap ->
  let c0 := RingProofs.publish_all pre (Ring.coll_init initcap maxcap gap) in
  (0 <= p0 <= Ring.c_wpos c0)%Z -> (l0 = None \/ l0 = Some (p0 - 1)%Z) ->
  let s := RemoteRing.rrun retries (RemoteRing.rstart c0 pre p0 l0) sched in
  exists k, (0 <= k)%Z /\ (p0 + k <= Z.of_nat (length (RemoteRing.r_log s)))%Z /\
    RemoteRing.r_out s = RingProofs.log_slice (RemoteRing.r_log s) p0 (p0 + k) /\
    (RemoteRing.r_err s = true <-> RemoteRing.r_mode s = RemoteRing.RDead) /\
    ((k > 0)%Z -> RemoteRing.r_last s = Some (p0 + k - 1)%Z).
Proof. exact RemoteRingProofs.remote_over_ring_exact. Qed.
Print Assumptions C13_over_ring_exact.

Theorem C13_over_ring_complete : forall initcap maxcap gap pre p0 l0 retries sched,
  RingProofs.wf_cfg initcap maxcap gap ->
  let c0 := RingProofs.publish_all pre (Ring.coll_init initcap maxcap gap) in
  (0 <= p0 <= Ring.c_wpos c0)%Z -> (l0 = None \/ l0 = Some (p0 - 1)%Z) ->
  let s := RemoteRing.rrun retries (RemoteRing.rstart c0 pre p0 l0) sched in
  forall spos, RemoteRing.r_mode s = RemoteRing.RStream spos [] false ->
  Ring.fetch_all (RemoteRing.r_coll s) spos = Ring.FBlocked ->
  RemoteRing.r_out s = RingProofs.log_slice (RemoteRing.r_log s) p0 (Z.of_nat (length (RemoteRing.r_log s))).
Proof. exact RemoteRingProofs.remote_over_ring_complete. Qed.
Print Assumptions C13_over_ring_complete.

(* Errored only for a stated cause, in terms of the ring itself: in particular a resume is refused only when the
   bookmark is more than initcap - gap behind the head *)
Theorem C13_over_ring_death_cause : forall initcap p0 retries s c,
  RemoteRingProofs.RRInv initcap p0 s -> RemoteRing.r_mode s <> RemoteRing.RDead ->
  RemoteRing.r_mode (RemoteRing.rstep retries s c) = RemoteRing.RDead ->
  (c = RemoteRing.RBreak /\ (retries = false \/ RemoteRing.r_last s = None)) \/
  (c = RemoteRing.RRedialOK /\ exists b, RemoteRing.r_last s = Some b /\
     (Ring.c_wpos (RemoteRing.r_coll s) - b > initcap - Ring.c_gap (RemoteRing.r_coll s))%Z) \/
  c = RemoteRing.RRedialForeign \/ c = RemoteRing.RGiveUp \/
  (c = RemoteRing.RDeliver /\ exists spos lagged_at,
     RemoteRing.r_mode s = RemoteRing.RStream spos [] true /\ (lagged_at - spos > initcap)%Z).
Proof. exact RemoteRingProofs.remote_over_ring_death_cause. Qed.
Print Assumptions C13_over_ring_death_cause.

(* ---- "retries exhausted" (RetryBudget.v: the backoff's clock, replayed on the retry log of every harness case) ----
   Giving up is accepted by the model only when the time since the last break of an established stream is within
   one maximal jittered interval (90 s) of the 15-minute budget ... *)
Theorem C13_giveup_means_exhausted : forall l b b' t,
  RetryBudgetProofs.cur_ok b -> RetryBudgetProofs.brun true b l = Some b' ->
  RetryBudget.bstep true b' (RetryBudget.BGiveUp t) <> None ->
  (RetryBudget.max_elapsed - (3 * RetryBudget.max_interval + 1) / 2 <
   t - RetryBudgetProofs.last_reset l (RetryBudget.b_start b))%Z.
Proof. exact RetryBudgetProofs.giveup_means_exhausted. Qed.
Print Assumptions C13_giveup_means_exhausted.

(* ... so a watch never ends with "maximum retry attempts" without having tried: in every accepted trace a give-up
   less than 14 min 59.25 s after the last break has a retry decision between the two, however old the watch is *)
Theorem C13_giveup_soon_after_break_has_retry : forall mid l1 l2 b t t',
  RetryBudgetProofs.cur_ok b ->
  RetryBudget.baccepts true b (l1 ++ RetryBudget.BBreak t :: mid ++ RetryBudget.BGiveUp t' :: l2) = true ->
  RetryBudgetProofs.no_reset mid = true ->
  RetryBudgetProofs.nondecreasing_from t (mid ++ [RetryBudget.BGiveUp t']) = true ->
  (t' - t <= RetryBudget.max_elapsed - (3 * RetryBudget.init_interval + 1) / 2)%Z ->
  RetryBudgetProofs.has_retry mid = true.
Proof. exact RetryBudgetProofs.giveup_soon_after_break_has_retry. Qed.
Print Assumptions C13_giveup_soon_after_break_has_retry.

(* the reset policy of the code as found (F13): give-up at the instant of the first failure of a 20-minute-old
   watch, with no attempt, is accepted by that policy and rejected by the repaired one *)
Theorem C13_retry_budget_old_policy_refuted :
  RetryBudget.baccepts false (RetryBudget.bo_new 0) RetryBudgetProofs.old_witness = true /\
  RetryBudget.baccepts true (RetryBudget.bo_new 0) RetryBudgetProofs.old_witness = false.
Proof. exact RetryBudgetProofs.old_policy_gives_up_without_retry. Qed.
Print Assumptions C13_retry_budget_old_policy_refuted.
