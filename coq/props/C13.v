(* C13 — Remote watches survive transport failures without gaps or duplicates. Statements only.
   Machine: RemoteWatch.step (client.watchAdapter with recvMessage's retry loop) against the server's log; the
   server side of an accepted resume is C12's theorem (exactly the entries after the bookmark). *)
From Verif Require Import RemoteWatch RemoteWatchProofs.

(* for every selector, window test, initial part, start position, retry setting and every schedule of commits,
   deliveries, stream failures, failed re-dials, successful re-dials (on the same or a foreign incarnation), giving up
   and server-side overruns: the user has received the initial part once and in order, then exactly the matching log
   entries from the start position on, in order, without gap or duplicate, optionally ended by one Errored *)
Theorem C13_remote_watch_exact : forall sel valid init p0 retries len sched,
  init_wf init p0 -> p0 <= len ->
  let s := run sel valid init p0 retries (start_state init p0 len) sched in
  exists i k, i <= length init /\ p0 + k <= c_len s /\ (k > 0 -> i = length init) /\
    c_out s = inits i ++ logpart sel p0 k ++ (match c_mode s with MDead => [UErr] | _ => [] end).
Proof. exact remote_watch_exact. Qed.
Print Assumptions C13_remote_watch_exact.

(* continues transparently: a live stream with nothing left to send has delivered every matching entry *)
Theorem C13_live_stream_complete : forall sel valid init p0 retries len sched,
  init_wf init p0 -> p0 <= len ->
  let s := run sel valid init p0 retries (start_state init p0 len) sched in
  forall n, c_mode s = MStream n -> next_match sel n (c_len s - n) = None ->
  c_out s = inits (length init) ++ logpart sel p0 (c_len s - p0).
Proof. exact live_stream_complete. Qed.
Print Assumptions C13_live_stream_complete.

(* Errored only: no bookmark seen yet / retries disabled (on a failure), bookmark no longer valid (expired or foreign),
   retries exhausted, or the server itself reported an overrun *)
Theorem C13_errored_has_cause : forall sel valid init p0 retries s c,
  c_mode s <> MDead -> c_mode (step sel valid init p0 retries s c) = MDead ->
  (c = SBreak /\ (retries = false \/ c_last s = None)) \/
  (c = SRedialOK /\ exists b, c_last s = Some b /\ valid b (c_len s) = false) \/
  c = SRedialForeign \/ c = SGiveUp \/ c = SOverrun.
Proof. exact errored_has_cause. Qed.
Print Assumptions C13_errored_has_cause.

(* never a silent gap: an accepted resume continues exactly at the last bookmark and re-delivers nothing *)
Theorem C13_resume_at_last_bookmark : forall sel valid init p0 retries s b,
  c_mode s = MRetry -> c_last s = Some b -> valid b (c_len s) = true ->
  c_mode (step sel valid init p0 retries s SRedialOK) = MStream b /\
  c_out (step sel valid init p0 retries s SRedialOK) = c_out s.
Proof. exact resume_at_last_bookmark. Qed.
Print Assumptions C13_resume_at_last_bookmark.
