(* C14 — Selector-filtered lists/watches are exact views; one selector semantics. Statements only. *)
From Verif Require Import Store Ring WatchCheck Labels LabelsProofs FilterProofs.

(* a selector-filtered kind watch is an exact change log of the filtered set: for every selector,
   every operation history and every snapshot, replaying the delivered (rewritten) events over the
   filtered snapshot reproduces the filtered contents *)
Theorem C14_filtered_watch_exact : forall sel ops s rep p,
  (forall k, st_get k rep = filt sel s k) ->
  let '(s', evs) := run_ops ops s in
  forall k, st_get k (fold_left rep_apply (views sel evs p) rep) = filt sel s' k.
Proof. exact filtered_watch_exact. Qed.
Print Assumptions C14_filtered_watch_exact.

(* inverted terms *)
Theorem C14_invert_negates : forall l t b,
  matches_inner l t = Some b -> term_matches l (invert t) = negb (term_matches l t).
Proof. exact invert_negates. Qed.
Print Assumptions C14_invert_negates.

Theorem C14_undecided_never_matches : forall l t,
  matches_inner l t = None -> term_matches l t = false /\ term_matches l (invert t) = false.
Proof. exact undecided_never_matches. Qed.
Print Assumptions C14_undecided_never_matches.

(* set membership, empty value lists *)
Theorem C14_in_singleton_is_equal : forall l k v inv,
  term_matches l (mkT k [v] OpIn inv) = term_matches l (mkT k [v] OpEqual inv).
Proof. exact in_singleton_is_equal. Qed.
Print Assumptions C14_in_singleton_is_equal.

Theorem C14_empty_values_never_match : forall l k op inv,
  op <> OpExists -> lget k l <> None -> term_matches l (mkT k [] op inv) = inv.
Proof. exact empty_values_never_match. Qed.
Print Assumptions C14_empty_values_never_match.

(* AND within a query, OR across queries *)
Theorem C14_query_and : forall l q1 q2,
  query_matches l (q1 ++ q2) = query_matches l q1 && query_matches l q2.
Proof. exact query_and. Qed.
Print Assumptions C14_query_and.

Theorem C14_queries_or : forall l qs1 qs2,
  qs1 <> [] -> qs2 <> [] ->
  queries_matches l (qs1 ++ qs2) = queries_matches l qs1 || queries_matches l qs2.
Proof. exact queries_or. Qed.
Print Assumptions C14_queries_or.

(* one function everywhere: translation over gRPC preserves evaluation for every term, including
   value-less ones *)
Theorem C14_one_semantics : forall l t,
  term_matches l (convert_term (transform_term t)) = term_matches l t.
Proof. exact one_semantics. Qed.
Print Assumptions C14_one_semantics.

(* numeric operands wrap like int64 and stay in range *)
Theorem C14_parse_value_range : forall s v,
  parse_value s = Some v -> (- two63 <= v < two63)%Z.
Proof. exact parse_value_range. Qed.
Print Assumptions C14_parse_value_range.

From Coq Require Import String Ascii.
Open Scope string_scope.
Example C14_nonvacuous :
  let s b := map (fun c => N.of_nat (Ascii.nat_of_ascii c)) (String.list_ascii_of_string b) in
  parse_value (s " 2Ki ") = Some 2048%Z /\ parse_value (s "5 k") = Some 5000%Z /\
  parse_value (s "1-2") = None /\ parse_value (s "-3") = Some (-3)%Z /\
  parse_value (s "9223372036854775807Ki") = Some (-1024)%Z /\
  term_matches [(s "a", s "10")] (mkT (s "a") [s "9"] OpLT false) = true /\
  term_matches [(s "a", s "10")] (mkT (s "a") [s "9"] OpLTNum false) = false /\
  term_matches [] (mkT (s "a") [s "9"] OpLTNum true) = false.
Proof. vm_compute. repeat split. Qed.
