(* C15 — Runtime read cache is coherent with the state and with notifications. Statements only. *)
From Verif Require Import Store Cache CacheProofs.
Open Scope N_scope.

(* reads block until Bootstrapped has been processed: no partial view *)
Theorem C15_no_partial_view : forall c id f,
  ch_boot c = false -> c_get id c = None /\ c_list f c = None /\ c_ctx id c = None.
Proof. exact no_partial_view. Qed.
Print Assumptions C15_no_partial_view.

Theorem C15_reads_available_after_boot : forall c id f,
  ch_boot c = true -> c_get id c <> None /\ c_list f c <> None /\ c_ctx id c <> None.
Proof. exact reads_available_after_boot. Qed.
Print Assumptions C15_reads_available_after_boot.

(* the cache refines a map keyed by id *)
Theorem C15_put_refines : forall r c,
  id_sorted (ch_items c) ->
  id_sorted (ch_items (fst (c_put r c))) /\
  (forall id, lookup id (ch_items (fst (c_put r c))) = if N.eqb id (r_id r) then Some r else lookup id (ch_items c)) /\
  ch_boot (fst (c_put r c)) = ch_boot c.
Proof. exact cache_put_refines. Qed.
Print Assumptions C15_put_refines.

Theorem C15_remove_refines : forall id0 c,
  id_sorted (ch_items c) ->
  id_sorted (ch_items (fst (c_remove id0 c))) /\
  (forall id, lookup id (ch_items (fst (c_remove id0 c))) = if N.eqb id id0 then None else lookup id (ch_items c)) /\
  ch_boot (fst (c_remove id0 c)) = ch_boot c.
Proof. exact cache_remove_refines. Qed.
Print Assumptions C15_remove_refines.

Theorem C15_get_is_lookup : forall id c,
  id_sorted (ch_items c) ->
  c_get id c = if ch_boot c then Some (lookup id (ch_items c)) else None.
Proof. exact cache_get_is_lookup. Qed.
Print Assumptions C15_get_is_lookup.

(* after the bootstrap snapshot the cache is the snapshot with every processed event applied in order:
   a function of the log prefix, so it never goes backwards *)
Theorem C15_tracks_log : forall snapshot es,
  id_sorted snapshot ->
  let c := process_all (map CvCreated snapshot ++ [CvBootstrapped] ++ es) cache_init in
  ch_boot c = true /\ id_sorted (ch_items c) /\
  forall id, lookup id (ch_items c) = fold_left (fun m e => view_apply e m) es (fun id => lookup id snapshot) id.
Proof. exact cache_tracks_log. Qed.
Print Assumptions C15_tracks_log.

(* the event enters the notification map only in the step that has already updated the cache; events
   seen before Bootstrapped notify nobody *)
Theorem C15_update_before_notify : forall e c,
  snd (process_cached e c) = match e with CvBootstrapped => false | _ => ch_boot c end.
Proof. exact process_cached_notifies. Qed.
Print Assumptions C15_update_before_notify.

(* teardown-bound contexts *)
Theorem C15_ctx_immediate : forall c id,
  id_sorted (ch_items c) -> ch_boot c = true ->
  match c_ctx id c with
  | Some (c', cancelled) =>
      (cancelled = true <-> (lookup id (ch_items c) = None \/ exists r, lookup id (ch_items c) = Some r /\ r_phase r = true)) /\
      (cancelled = false -> In id (ch_waiters c')) /\ ch_items c' = ch_items c
  | None => False
  end.
Proof. exact ctx_immediate. Qed.
Print Assumptions C15_ctx_immediate.

Theorem C15_waiter_released_iff_put : forall r c id,
  In id (ch_waiters c) ->
  (In id (ch_waiters (fst (c_put r c))) <-> ~ (r_id r = id /\ r_phase r = true)).
Proof. exact waiter_released_iff_put. Qed.
Print Assumptions C15_waiter_released_iff_put.

Theorem C15_waiter_released_iff_remove : forall id0 c id,
  In id (ch_waiters c) ->
  (In id (ch_waiters (fst (c_remove id0 c))) <-> id0 <> id).
Proof. exact waiter_released_iff_remove. Qed.
Print Assumptions C15_waiter_released_iff_remove.

Example C15_nonvacuous :
  let r id v td := mkRes 1 2 id (Some v) 0 td [] [] 0 0 9 in
  let c := process_all [CvCreated (r 5 1 false); CvCreated (r 7 1 false); CvBootstrapped; CvUpdated (r 6 1 false); CvDestroyed (r 5 1 false)] cache_init in
  map r_id (ch_items c) = [6; 7] /\ c_get 5 c = Some None /\ c_get 5 cache_init = None.
Proof. vm_compute. repeat split. Qed.
