(* C16 — Fault containment, loud failure and clean shutdown of the controller runtime. Statements only. *)
From Verif Require Import Queue QueueProofs Restart RestartProofs Pipeline PipelineProofs.
Open Scope Z_scope.

(* a controller that keeps failing (error or panic) is restarted after sleeps inside the windows of the
   exponential schedule, and every restart comes with a fresh reconcile *)
Theorem C16_restart_backoff_window : forall n c,
  restart_run KController c (repeat (failing false) n) =
  map (fun i => (Some (bo_window (bo_iter i c)), true)) (seq 0 n).
Proof. exact restart_backoff_window. Qed.
Print Assumptions C16_restart_backoff_window.

Theorem C16_schedule_grows : forall n, bo_iter n bo_initial <= bo_iter (S n) bo_initial.
Proof. exact bo_iter_monotone. Qed.
Print Assumptions C16_schedule_grows.

Theorem C16_restart_retriggers : forall c i,
  ri_out i = RFail -> snd (restart_step KController c i) = true /\ snd (fst (restart_step KController c i)) <> None.
Proof. exact restart_retriggers. Qed.
Print Assumptions C16_restart_retriggers.

(* success-resettable: progress reported by the controller, or a long enough run of a hook, restarts the schedule *)
Theorem C16_restart_reset : forall c,
  restart_step KController c (failing true) = (bo_next bo_initial, Some (bo_window bo_initial), true).
Proof. exact restart_reset. Qed.
Print Assumptions C16_restart_reset.

Theorem C16_hook_reset_after_long_run : forall c d,
  d > one_minute -> restart_step KRunHook c (mkRinv RFail false d) = (bo_next bo_initial, Some (bo_window bo_initial), false).
Proof. exact hook_reset_after_long_run. Qed.
Print Assumptions C16_hook_reset_after_long_run.

Theorem C16_nil_or_cancel_ends : forall k c i is,
  ri_out i <> RFail -> restart_run k c (i :: is) = [(None, false)].
Proof. exact nil_or_cancel_ends. Qed.
Print Assumptions C16_nil_or_cancel_ends.

(* a failing queue item is retried without blocking other items: whenever some item is due, a due item is handed out *)
Theorem C16_failing_item_does_not_block : forall s g now i,
  reach s g -> In i (q_pq s) -> pra i <= now ->
  exists j, snd (q_step s (EGet now)) = Some (pk j, pv j) /\ pra j <= now.
Proof. exact ready_item_delivered. Qed.
Print Assumptions C16_failing_item_does_not_block.

(* a failing item's backoff does not touch other items' backoff state *)
Theorem C16_backoff_isolated : forall k k' o t,
  k' <> k -> bo_get k' (fst (reconcile_decide k o t)) = bo_get k' t.
Proof. exact decide_frame. Qed.
Print Assumptions C16_backoff_isolated.

(* once an underlying watch has failed, the runtime stops and never triggers on later (stale) notifications *)
Theorem C16_watch_error_stops : forall es1 es2,
  (forall e, In e es1 -> e = EvBatch false) ->
  let '(s, ts) := rt_trace RtRunning (es1 ++ EvBatch true :: es2) in
  s = RtStopped true /\ ts = repeat true (length es1) ++ repeat false (S (length es2)).
Proof. exact watch_error_stops. Qed.
Print Assumptions C16_watch_error_stops.

Theorem C16_stopped_never_triggers : forall w es,
  snd (rt_trace (RtStopped w) es) = repeat false (length es) /\ fst (rt_trace (RtStopped w) es) = RtStopped w.
Proof. exact stopped_never_triggers. Qed.
Print Assumptions C16_stopped_never_triggers.

(* once faults cease the system converges as if they had not happened: the pipeline invariant does not depend on
   how often a controller restarted (a restart is just another reconcile start) *)
Theorem C16_faults_cease_converge : forall wants s0 sched,
  PInv wants s0 ->
  let s := prun wants s0 sched in
  quiescent s ->
  forall c k p v, latest k (p_log s) = Some (p, v) -> wants c k v = true -> (p < p_seen s c k)%nat.
Proof. exact quiescent_covered. Qed.
Print Assumptions C16_faults_cease_converge.

Example C16_nonvacuous :
  restart_run KController bo_initial [failing false; failing false; failing true; mkRinv RNil false 0] =
  [(Some (250000000, 750000001), true); (Some (375000000, 1125000001), true); (Some (250000000, 750000001), true); (None, false)].
Proof. vm_compute. reflexivity. Qed.
