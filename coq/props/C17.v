(* C17 — Output exclusivity and dependency graph consistent for any registration history.
   Statements only. *)
From Verif Require Import DepDB DepDBProofs DepDBLookup DepDBExport.
Open Scope N_scope.

(* for every history of database operations: at most one exclusive owner per type, exclusive and
   shared claims never coexist, and a shared claim is held at most once per controller *)
Theorem C17_outputs_consistent : forall ops,
  let d := run_db_ops ops db_empty in
  NoDup (map fst (d_excl d)) /\
  (forall typ, aget N.eqb typ (d_excl d) <> None -> aget N.eqb typ (d_shared d) = None) /\
  (forall typ cs, aget N.eqb typ (d_shared d) = Some cs -> NoDup cs /\ cs <> []).
Proof. exact outputs_consistent. Qed.
Print Assumptions C17_outputs_consistent.

(* a rejected database operation changes nothing *)
Theorem C17_rejected_no_effect : forall d o, db_op_ok d o = false -> db_op_step d o = d.
Proof. exact rejected_no_effect. Qed.
Print Assumptions C17_rejected_no_effect.

(* a rejected registration or input update has no effect on the database or on the set of controllers *)
Theorem C17_rejected_registration_no_effect : forall r o, snd (rt_step r o) = false -> fst (rt_step r o) = r.
Proof. exact rejected_registration_no_effect. Qed.
Print Assumptions C17_rejected_registration_no_effect.

(* conflicting (same namespace/type/id) inputs of one controller are rejected: an input is accepted iff
   no input with equal keys is stored at the positions the sorted insertion inspects, and with a sorted
   duplicate-free list (wf) those positions are exactly where an equal-keyed input can be *)
Theorem C17_conflicting_input_rejected : forall name dep d e,
  inputs_wf (get_list N.eqb name (d_inputs d)) -> input_wf dep ->
  In e (get_list N.eqb name (d_inputs d)) -> equal_keys e dep = true ->
  add_input name dep d = None.
Proof. exact conflicting_input_rejected. Qed.
Print Assumptions C17_conflicting_input_rejected.

(* accepted inputs keep the per-controller list sorted and free of conflicting keys *)
Theorem C17_add_input_keeps_wf : forall name dep d d',
  inputs_wf (get_list N.eqb name (d_inputs d)) -> input_wf dep ->
  add_input name dep d = Some d' ->
  inputs_wf (get_list N.eqb name (d_inputs d')).
Proof. exact add_input_keeps_wf. Qed.
Print Assumptions C17_add_input_keeps_wf.

(* no two stored inputs of one controller have conflicting keys *)
Theorem C17_no_conflicting_inputs : forall l a b,
  inputs_wf l -> In a l -> In b l -> equal_keys a b = true -> a = b.
Proof. exact sorted_no_equal_keys. Qed.
Print Assumptions C17_no_conflicting_inputs.

Example C17_nonvacuous :
  let d := run_db_ops [DbAddOut 1 (mkOut 7 0); DbAddOut 2 (mkOut 7 1); DbAddIn 1 (mkIn 5 6 None 0);
                       DbAddIn 1 (mkIn 5 6 None 1); DbAddIn 2 (mkIn 5 6 (Some 9) 1)] db_empty in
  d_excl d = [(7, 1)] /\ d_shared d = [] /\ get_dependents 5 6 9 d = [1; 2] /\ get_dependents 5 6 8 d = [1].
Proof. vm_compute. repeat split. Qed.

(* change notifications go to exactly the controllers with a matching input: after any history of database operations
   (accepted or rejected; inputs given by id carry a non-empty id) a controller is among the dependents of a resource
   iff one of its stored inputs matches the resource by kind or by that id *)
Theorem C17_lookup_exact : forall ops,
  Forall op_wf ops ->
  let d := run_db_ops ops db_empty in
  forall name ns typ id,
    In name (get_dependents ns typ id d) <->
    exists i, In i (inputs_of name d) /\ i_ns i = ns /\ i_typ i = typ /\ (i_id i = None \/ i_id i = Some id).
Proof. exact lookup_exact. Qed.
Print Assumptions C17_lookup_exact.

(* the exported graph is exactly the stored tables: an edge is exported iff it is an exclusive claim, a shared claim or
   a stored input (with the invariants above: the graph lists exactly the accepted outputs and inputs) *)
Theorem C17_export_exact : forall d e,
  In e (export d) <->
  (exists t name, In (t, name) (d_excl d) /\ e = (name, 0, 0, t, 0)) \/
  (exists t names name, In (t, names) (d_shared d) /\ In name names /\ e = (name, 1, 0, t, 0)) \/
  (exists name ins i, In (name, ins) (d_inputs d) /\ In i ins /\
                      e = (name, input_edge_type (i_kind i), i_ns i, i_typ i, opt_val (i_id i))).
Proof. exact export_exact. Qed.
Print Assumptions C17_export_exact.
