(* C18 — Every codec round-trips or rejects; decoders are total. Statements only. *)
From Verif Require Import Text TextProofs Frame FrameProofs Wire WireProofs.
Open Scope N_scope.

(* every version (undefined or any 64-bit value) parses back from its text form *)
Theorem C18_version_roundtrip : forall v,
  (match v with Some n => n < two64 | None => True end) -> parse_version (ver_string v) = Some v.
Proof. exact version_roundtrip. Qed.
Print Assumptions C18_version_roundtrip.

Theorem C18_parse_version_range : forall s n, parse_version s = Some (Some n) -> n < two64.
Proof. exact parse_version_range. Qed.
Print Assumptions C18_parse_version_range.

(* finding F5 (repaired in /repo): the previous ParseInt-based parser lost the upper half and accepted "-5" *)
Theorem C18_version_roundtrip_old_refuted :
  parse_version_old (ver_string (Some 9223372036854775808)) = None /\
  parse_version_old [45; 53] = Some (Some 18446744073709551611).
Proof. exact version_roundtrip_old_refuted. Qed.
Print Assumptions C18_version_roundtrip_old_refuted.

Theorem C18_phase_roundtrip : forall p, parse_phase (phase_string p) = Some p.
Proof. exact phase_roundtrip. Qed.
Print Assumptions C18_phase_roundtrip.

(* the store marshaler: ANY stacking of compression and encryption wrappers, any thresholds (both sides), any
   nonces, any payload the protobuf marshaler can emit, given a correct compressor and AEAD *)
Theorem C18_stack_roundtrip : forall compress decompress comp_id key seal open,
  (forall b, decompress (compress b) = Some b) ->
  (forall k n b, length n = 12%nat -> open k n (seal k n b) = Some b) ->
  (forall (k : key) n b, (length (seal k n b) >= 1)%nat) ->
  forall ls nonces payload,
  raw_ok payload -> nonces_ok key ls nonces ->
  unmarshal decompress comp_id key open ls (marshal compress comp_id key seal ls nonces payload) = Some payload.
Proof. exact stack_roundtrip. Qed.
Print Assumptions C18_stack_roundtrip.

(* tampering with an encrypted record, or a wrong key, is detected (ideal AEAD) *)
Theorem C18_tamper_detected : forall decompress comp_id key seal open,
  (forall k n c b, open k n c = Some b -> c = seal k n b) ->
  forall (k : key) ls b x,
  unmarshal decompress comp_id key open (LEnc key k :: ls) b = Some x ->
  exists n p, b = 1 :: n ++ seal k n p /\ length n = 12%nat /\ unmarshal decompress comp_id key open ls p = Some x.
Proof. exact tamper_detected. Qed.
Print Assumptions C18_tamper_detected.

Theorem C18_wrong_key_detected : forall compress decompress comp_id key seal open,
  (forall (k : key) n b, (length (seal k n b) >= 1)%nat) ->
  (forall k k' n b, k <> k' -> open k' n (seal k n b) = None) ->
  forall k k' ls nonces payload,
  k <> k' -> nonces_ok key (LEnc key k :: ls) nonces ->
  unmarshal decompress comp_id key open (LEnc key k' :: ls) (marshal compress comp_id key seal (LEnc key k :: ls) nonces payload) = None.
Proof. exact wrong_key_detected. Qed.
Print Assumptions C18_wrong_key_detected.

(* framing decoders are total and reject short / foreign-format / foreign-compressor inputs *)
Theorem C18_short_or_foreign_rejected : forall decompress comp_id key open (k : key) ls b,
  (length b < 14)%nat \/ (exists c rest, b = c :: rest /\ c <> 1) ->
  unmarshal decompress comp_id key open (LEnc key k :: ls) b = None.
Proof. exact short_or_foreign_rejected. Qed.
Print Assumptions C18_short_or_foreign_rejected.

Theorem C18_foreign_compressor_rejected : forall decompress comp_id key open m ls id body,
  id <> comp_id -> unmarshal decompress comp_id key open (LComp key m :: ls) (0 :: id :: body) = None.
Proof. exact foreign_compressor_rejected. Qed.
Print Assumptions C18_foreign_compressor_rejected.

(* wire primitives: varints round-trip over the whole 64-bit range, the decoder is total, and a field tag never
   starts with 0 (so a protobuf payload never looks like a compression header: raw_ok) *)
Theorem C18_varint_roundtrip : forall n rest,
  n < 18446744073709551616 -> decode_varint (encode_varint n ++ rest) = Some (n, rest).
Proof. exact varint_roundtrip. Qed.
Print Assumptions C18_varint_roundtrip.

Theorem C18_varint_decoder_total : forall b,
  decode_varint b = None \/ exists n rest, decode_varint b = Some (n, rest) /\ (length rest < length b)%nat.
Proof. exact varint_decoder_total. Qed.
Print Assumptions C18_varint_decoder_total.

Theorem C18_tag_nonzero : forall field wt, 1 <= field -> wt < 8 ->
  match encode_tag field wt with c :: _ => c <> 0 | [] => False end.
Proof. exact tag_nonzero. Qed.
Print Assumptions C18_tag_nonzero.

(* ---- the protobuf wire form as the generated code writes and reads it (WireMsg: Resource / Metadata / Spec /
   Timestamp, unknown-field skipping, every decoder quirk transcribed) ---- *)
From Verif Require Import WireMsg WireMsgProofs WireStack.

(* every metadata value - any strings, finalizer lists, label / annotation maps (keys unique, as in a Go map),
   timestamps present or absent with any int64 seconds and int32 nanos - reads back as itself *)
Theorem C18_wire_metadata_roundtrip : forall m, md_wf m -> dec_md (enc_md m) = Some m.
Proof. exact md_roundtrip. Qed.
Print Assumptions C18_wire_metadata_roundtrip.

(* ... and so does every resource (metadata and spec each present or absent) *)
Theorem C18_wire_resource_roundtrip : forall x, wr_wf x -> dec_res (enc_res x) = Some x.
Proof. exact res_roundtrip. Qed.
Print Assumptions C18_wire_resource_roundtrip.

(* whatever bytes the decoder accepts, the metadata it builds is well formed: no key twice in a map *)
Theorem C18_wire_decoder_wellformed : forall b m, dec_md b = Some m -> keys_unique m.
Proof. exact dec_md_keys_unique. Qed.
Print Assumptions C18_wire_decoder_wellformed.

(* the whole path of a store record: wire form inside ANY stack of compression / encryption wrappers *)
Theorem C18_store_record_roundtrip : forall compress decompress comp_id key seal open,
  (forall b, decompress (compress b) = Some b) ->
  (forall k n b, length n = 12%nat -> open k n (seal k n b) = Some b) ->
  (forall (k : key) n b, (length (seal k n b) >= 1)%nat) ->
  forall ls nonces x, wr_wf x -> nonces_ok key ls nonces ->
  match unmarshal decompress comp_id key open ls (marshal compress comp_id key seal ls nonces (enc_res x)) with
  | Some p => dec_res p
  | None => None
  end = Some x.
Proof. exact record_roundtrip. Qed.
Print Assumptions C18_store_record_roundtrip.

(* the hypotheses are satisfiable: a resource with every kind of field round-trips by evaluation *)
Theorem C18_wire_example :
  let t := mkTs 1700000000 123456789 in
  let m := mkMd [110; 115] [84] [105; 100] [49] [] [114] (Some t) (Some (mkTs (WireMsg.two64 - 5) (two32 - 1))) [[102; 49]; [102; 50]]
             [([107], [118]); ([], [])] [([97], [98; 99])] [] in
  let x := mkWr (Some m) (Some (mkSp [1; 2; 3] [121] [])) [] in
  (md_wf m /\ wr_wf x) /\ dec_res (enc_res x) = Some x /\ dec_md (enc_md m) = Some m.
Proof. exact (conj wire_wf_example wire_example). Qed.
Print Assumptions C18_wire_example.
