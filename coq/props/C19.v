(* C19 — Caller isolation: objects passed to/returned by the state never alias the store. Statements only. *)
From Verif Require Import Heap HeapProofs.

(* for EVERY program of mutations (labels, annotations, finalizers, phase, version, owner, spec), struct copies,
   hand-overs to the store and reads from it — objects are structs sharing pointers to maps and slices — what every
   object and the store contain equals the value semantics in which all objects are independent *)
Theorem C19_heap_refines_values : forall prog, abs_state (hrun prog) = prun prog.
Proof. exact heap_refines_values. Qed.
Print Assumptions C19_heap_refines_values.

(* hence mutating an object the caller still holds changes no other object and nothing the store holds *)
Theorem C19_mutation_is_local : forall prog v m w,
  w <> v ->
  nth_error (p_vars (prun (prog ++ [PMut v m]))) w = nth_error (p_vars (prun prog)) w /\
  p_store (prun (prog ++ [PMut v m])) = p_store (prun prog).
Proof. exact mutation_is_local. Qed.
Print Assumptions C19_mutation_is_local.

(* the mechanism: a mutation only ever allocates; no existing cell is written *)
Theorem C19_mutation_only_allocates : forall m h o,
  heap_sorted h -> obj_ok h o ->
  let '(h', o') := mut_heap m h o in
  (exists ext, h' = h ++ ext) /\ heap_sorted h' /\ obj_ok h' o' /\ absval h' o' = mut_val m (absval h o).
Proof. exact mut_heap_spec. Qed.
Print Assumptions C19_mutation_only_allocates.

Theorem C19_allocation_preserves_meaning : forall h ext o, obj_ok h o -> absval (h ++ ext) o = absval h o.
Proof. exact absval_ext. Qed.
Print Assumptions C19_allocation_preserves_meaning.
