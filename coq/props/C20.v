(* C20 — Key storage: master key recoverable via live slots only; tampering detected. Statements only.
   The public-key scheme and the MAC are universally quantified; their idealised specification is the hypothesis list. *)
From Verif Require Import KeyStorage KeyStorageProofs.
Open Scope N_scope.

Section C20.
  Variable keypair : Type.
  Variable enc : keypair -> N -> bytes -> bytes.
  Variable dec : keypair -> bytes -> option bytes.
  Variable mac : bytes -> bytes -> bytes.
  Hypothesis dec_enc : forall kp r m, dec kp (enc kp r m) = Some m.
  Hypothesis dec_enc_inv : forall kp kp0 r m m', dec kp (enc kp0 r m) = Some m' -> kp = kp0 /\ m' = m.
  Hypothesis enc_nonempty : forall kp r m, enc kp r m <> [].
  Hypothesis mac_inj : forall k m k' m', mac k m = mac k' m' -> k = k' /\ m = m'.

  (* after ANY sequence of operations the storage is either untouched or initialised with one fixed master key *)
  Theorem C20_reachable_states : forall ops,
    reach keypair enc mac (krun keypair enc dec mac empty ops).
  Proof. exact (fun ops => run_reach keypair enc dec mac dec_enc_inv ops empty (or_introl eq_refl)). Qed.

  Theorem C20_master_key_fixed : forall mk s ops,
    KInv keypair enc mac mk s -> KInv keypair enc mac mk (krun keypair enc dec mac s ops).
  Proof. exact (master_key_fixed keypair enc dec mac dec_enc_inv). Qed.

  (* every live slot's key pair recovers that master key; no other key pair and no absent slot does *)
  Theorem C20_live_slot_recovers : forall mk s i x kp r,
    KInv keypair enc mac mk s -> lookup i (st_slots s) = Some x -> s_blob x = enc kp r mk ->
    get_key keypair dec mac s i (Some kp) = inr mk.
  Proof. exact (live_slot_recovers keypair enc dec mac dec_enc). Qed.

  Theorem C20_other_keypair_fails : forall mk s i x kp kp' r,
    KInv keypair enc mac mk s -> lookup i (st_slots s) = Some x -> s_blob x = enc kp r mk -> kp' <> kp ->
    exists e, get_key keypair dec mac s i (Some kp') = inl e.
  Proof. exact (other_keypair_fails keypair enc dec mac dec_enc_inv). Qed.

  Theorem C20_absent_slot_fails : forall s i priv,
    lookup i (st_slots s) = None -> exists e, get_key keypair dec mac s i priv = inl e.
  Proof. exact (absent_slot_fails keypair dec mac). Qed.

  (* guards *)
  Theorem C20_last_slot_never_deleted : forall s p i priv,
    st_slots s = [p] -> kstep keypair enc dec mac s (KDelete keypair i priv) = (s, KErr ELastKey).
  Proof. exact (last_slot_never_deleted keypair enc dec mac). Qed.

  Theorem C20_existing_slot_never_overwritten : forall s new kp rnd old priv x,
    new <> 0 -> lookup new (st_slots s) = Some x ->
    kstep keypair enc dec mac s (KAdd keypair new (Some kp) rnd old priv) = (s, KErr ESlotExists).
  Proof. exact (existing_slot_never_overwritten keypair enc dec mac). Qed.

  Theorem C20_second_initialise_refused : forall mk s mk' i kp rnd,
    KInv keypair enc mac mk s -> length mk' = 32%nat -> i <> 0 ->
    kstep keypair enc dec mac s (KInit keypair mk' i (Some kp) rnd) = (s, KErr EAlreadyInitialized).
  Proof. exact (second_initialise_refused keypair enc dec mac). Qed.

  Theorem C20_failed_op_changes_nothing : forall s o e,
    snd (kstep keypair enc dec mac s o) = KErr e -> fst (kstep keypair enc dec mac s o) = s.
  Proof. exact (failed_op_changes_nothing keypair enc dec mac). Qed.

  (* tampering: detected on the next retrieval through ANY slot with ANY key *)
  Theorem C20_tag_alteration_detected : forall mk s h' i priv k,
    KInv keypair enc mac mk s -> h' <> st_hmac s ->
    get_key keypair dec mac (mkSt (st_ver s) (st_slots s) h') i priv <> inr k.
  Proof. exact (tag_alteration_detected keypair enc dec mac dec_enc_inv). Qed.

  Theorem C20_blob_alteration_detected : forall mk s i0 x b' i priv k,
    KInv keypair enc mac mk s -> lookup i0 (st_slots s) = Some x -> b' <> s_blob x ->
    get_key keypair dec mac (mkSt (st_ver s) (set_blob i0 b' (st_slots s)) (st_hmac s)) i priv <> inr k.
  Proof. exact (blob_alteration_detected keypair enc dec mac mac_inj). Qed.

  Theorem C20_slot_removal_detected : forall mk s i0 x i priv k,
    KInv keypair enc mac mk s -> lookup i0 (st_slots s) = Some x ->
    get_key keypair dec mac (mkSt (st_ver s) (remove i0 (st_slots s)) (st_hmac s)) i priv <> inr k.
  Proof. exact (slot_removal_detected keypair enc dec mac enc_nonempty mac_inj). Qed.

  (* a slot added behind the API's back is detected only if its blob is not empty: the full clause is refuted below *)
  Theorem C20_slot_addition_detected_partial : forall mk s i0 x i priv k,
    KInv keypair enc mac mk s -> lookup i0 (st_slots s) = None -> s_blob x <> [] ->
    get_key keypair dec mac (mkSt (st_ver s) (insert i0 x (st_slots s)) (st_hmac s)) i priv <> inr k.
  Proof. exact (slot_addition_detected_partial keypair enc dec mac mac_inj). Qed.
End C20.

Print Assumptions C20_reachable_states.
Print Assumptions C20_master_key_fixed.
Print Assumptions C20_live_slot_recovers.
Print Assumptions C20_other_keypair_fails.
Print Assumptions C20_absent_slot_fails.
Print Assumptions C20_last_slot_never_deleted.
Print Assumptions C20_existing_slot_never_overwritten.
Print Assumptions C20_second_initialise_refused.
Print Assumptions C20_failed_op_changes_nothing.
Print Assumptions C20_tag_alteration_detected.
Print Assumptions C20_blob_alteration_detected.
Print Assumptions C20_slot_removal_detected.
Print Assumptions C20_slot_addition_detected_partial.

(* finding F8 (known): a phantom slot with an empty blob is not detected and defeats the last-slot guard; a renamed
   slot is not detected — on an instance of the primitives that satisfies every hypothesis above *)
Theorem C20_slot_addition_refuted :
  let one := krun N toy_enc toy_dec toy_mac empty [KInit N mk32 5 (Some 100) 1] in
  let phantom := mkSt (st_ver one) (insert 8 (mkSlot 1 []) (st_slots one)) (st_hmac one) in
  get_key N toy_dec toy_mac phantom 5 (Some 100) = inr mk32 /\
  snd (kstep N toy_enc toy_dec toy_mac one (KDelete N 5 (Some 100))) = KErr ELastKey /\
  snd (kstep N toy_enc toy_dec toy_mac phantom (KDelete N 5 (Some 100))) = KOk /\
  (forall kp, exists e, get_key N toy_dec toy_mac (fst (kstep N toy_enc toy_dec toy_mac phantom (KDelete N 5 (Some 100)))) 8 (Some kp) = inl e).
Proof. exact slot_addition_refuted. Qed.
Print Assumptions C20_slot_addition_refuted.

Theorem C20_slot_rename_refuted :
  let renamed := mkSt (st_ver ks2) (map (fun p => if N.eqb (fst p) 5 then (6, snd p) else p) (st_slots ks2)) (st_hmac ks2) in
  get_key N toy_dec toy_mac renamed 6 (Some 100) = inr mk32 /\ get_key N toy_dec toy_mac renamed 9 (Some 200) = inr mk32.
Proof. exact slot_rename_refuted. Qed.
Print Assumptions C20_slot_rename_refuted.

Theorem C20_primitives_satisfiable :
  (forall kp r m, toy_dec kp (toy_enc kp r m) = Some m) /\
  (forall kp kp0 r m m', toy_dec kp (toy_enc kp0 r m) = Some m' -> kp = kp0 /\ m' = m) /\
  (forall kp r m, toy_enc kp r m <> []) /\
  (forall k m k' m', toy_mac k m = toy_mac k' m' -> k = k' /\ m = m') /\
  (forall k m, toy_mac k m <> []).
Proof. exact toy_primitives_ok. Qed.
Print Assumptions C20_primitives_satisfiable.
