(* Access.v — controller confinement: controllerstate.StateAdapter checks + owned.State owner injection
   (pkg/controller/runtime/internal/controllerstate/adapter.go, pkg/state/owned/state.go), executed
   sequentially on the store model. *)
From Verif Require Export Store Helpers DepDB.
Open Scope N_scope.

Record ctrl := mkCtrl { c_name : atom; c_inputs : list input; c_outputs : list output }.

Definition is_output (c : ctrl) (typ : atom) : bool := existsb (fun o => N.eqb (o_typ o) typ) (c_outputs c).

(* checkReadAccess *)
Definition check_read (c : ctrl) (ns typ : atom) (id : option atom) : bool :=
  is_output c typ ||
  existsb (fun dep =>
             N.eqb (i_ns dep) ns && N.eqb (i_typ dep) typ &&
             match i_id dep with
             | None => true
             | Some d => match id with Some x => N.eqb d x | None => false end
             end) (c_inputs c).

(* checkFinalizerAccess: strong, q-primary, q-mapped *)
Definition check_finalizer (c : ctrl) (ns typ id : atom) : bool :=
  existsb (fun dep =>
             N.eqb (i_ns dep) ns && N.eqb (i_typ dep) typ &&
             (N.eqb (i_kind dep) 1 || N.eqb (i_kind dep) 3 || N.eqb (i_kind dep) 4) &&
             match i_id dep with None => true | Some d => N.eqb d id end) (c_inputs c).

Inductive aop :=
| AGet (k : key)
| AList (ns typ : atom)
| ACtx (k : key)
| ACreate (r : res) (no_owner : bool)
| AUpdate (r : res)
| AModify (empty : res) (m : mutator) (exp : option bool) (no_owner : bool)
| ATeardown (k : key) (owner : option atom)
| ADestroy (k : key) (owner : option atom)
| AAddFin (k : key) (fs : list atom)
| ARemFin (k : key) (fs : list atom).

Inductive ares :=
| ADenied                       (* refused by the adapter: a plain, unclassified error *)
| AErr (e : herr)
| AOkRes (r : res)
| AOkList (rs : list res)
| AOkReady (b : bool)
| AOk.

(* sequential UpdateWithConflicts (no interleaving: the version read is the version written) *)
Definition s_uwc (now : Z) (k : key) (m : mutator) (owner : atom) (exp : option bool) (s : store) : store * ares :=
  match st_get k s with
  | None => (s, AErr (HEStore ENotFound))
  | Some cur =>
      if (match exp with Some p => negb (Bool.eqb p (r_phase cur)) | None => false end) then (s, AErr HEPhaseLocal)
      else match mutate m cur with
           | None => (s, AErr HEMutator)
           | Some new =>
               if res_equal cur new then (s, AOkRes new)
               else let '(s', r, _) := apply now (OpUpdate new owner exp) s in
                    match r with
                    | RWritten w => (s', AOkRes w)
                    | RErr e => (s', AErr (HEStore e))
                    | _ => (s', AOk)
                    end
           end
  end.

Definition owner_of (c : ctrl) (no_owner : bool) : atom := if no_owner then 0 else c_name c.

Definition a_apply (now : Z) (c : ctrl) (o : aop) (s : store) : store * ares :=
  match o with
  | AGet (ns, typ, id) =>
      if check_read c ns typ (Some id) then
        match st_get (ns, typ, id) s with Some r => (s, AOkRes r) | None => (s, AErr (HEStore ENotFound)) end
      else (s, ADenied)
  | AList ns typ => if check_read c ns typ None then (s, AOkList (st_list ns typ s)) else (s, ADenied)
  | ACtx (ns, typ, id) => if check_read c ns typ (Some id) then (s, AOk) else (s, ADenied)
  | ACreate r no_owner =>
      if is_output c (r_typ r) then
        let '(s', res, _) := apply now (OpCreate r (owner_of c no_owner)) s in
        match res with RWritten w => (s', AOkRes w) | RErr e => (s', AErr (HEStore e)) | _ => (s', AOk) end
      else (s, ADenied)
  | AUpdate r =>
      if is_output c (r_typ r) then
        let '(s', res, _) := apply now (OpUpdate r (c_name c) (Some false)) s in
        match res with RWritten w => (s', AOkRes w) | RErr e => (s', AErr (HEStore e)) | _ => (s', AOk) end
      else (s, ADenied)
  | AModify empty m exp no_owner =>
      if is_output c (r_typ empty) then
        match st_get (r_key empty) s with
        | None =>
            match mutate m empty with
            | None => (s, AErr HEMutator)
            | Some new =>
                let '(s', res, _) := apply now (OpCreate new (owner_of c no_owner)) s in
                match res with RWritten w => (s', AOkRes w) | RErr e => (s', AErr (HEStore e)) | _ => (s', AOk) end
            end
        | Some _ => s_uwc now (r_key empty) m (owner_of c no_owner) exp s
        end
      else (s, ADenied)
  | ATeardown (ns, typ, id) owner =>
      if is_output c typ then
        let ow := match owner with Some o => o | None => c_name c end in
        match st_get (ns, typ, id) s with
        | None => (s, AErr (HEStore ENotFound))
        | Some cur =>
            if r_phase cur then (s, AOkReady (match r_fins cur with [] => true | _ => false end))
            else match s_uwc now (ns, typ, id) MSetTD ow (Some false) s with
                 | (s', AOkRes w) => (s', AOkReady (match r_fins w with [] => true | _ => false end))
                 | x => x
                 end
        end
      else (s, ADenied)
  | ADestroy (ns, typ, id) owner =>
      if is_output c typ then
        let ow := match owner with Some o => o | None => c_name c end in
        let '(s', res, _) := apply now (OpDestroy (ns, typ, id) ow) s in
        match res with ROk => (s', AOk) | RErr e => (s', AErr (HEStore e)) | _ => (s', AOk) end
      else (s, ADenied)
  | AAddFin (ns, typ, id) fs =>
      if check_finalizer c ns typ id then
        match st_get (ns, typ, id) s with
        | None => (s, AErr (HEStore ENotFound))
        | Some cur => match s_uwc now (ns, typ, id) (MAddFin fs) (r_owner cur) None s with
                      | (s', AOkRes _) => (s', AOk)
                      | x => x
                      end
        end
      else (s, ADenied)
  | ARemFin (ns, typ, id) fs =>
      if check_finalizer c ns typ id then
        match st_get (ns, typ, id) s with
        | None => (s, AOk)                     (* not-found is mapped to nil *)
        | Some cur => match s_uwc now (ns, typ, id) (MRemFin fs) (r_owner cur) None s with
                      | (s', AOkRes _) => (s', AOk)
                      | x => x
                      end
        end
      else (s, ADenied)
  end.
