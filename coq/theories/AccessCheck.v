(* AccessCheck.v — exhaustive-matrix checker for controller confinement through the real adapters. *)
From Verif Require Import Store StoreCheck Helpers HelpersCheck DepDB Access.
Open Scope N_scope.

Inductive aobs :=
| OaErr (cls : bool * bool * bool * bool)      (* not_found, owner, phase, conflict *)
| OaRes (r : res)
| OaList (rs : list res)
| OaReady (b : bool)
| OaOk.

Definition aobs_match (o : aop) (r : ares) (ob : aobs) : bool :=
  match r, ob with
  | ADenied, OaErr c => cls4_eqb (false, false, false, false) c
  | AErr e, OaErr c => cls4_eqb (herr_cls e) c
  | AOkRes x, OaRes y => match o with AGet _ | AModify _ _ _ _ => res_eqb x y | _ => false end
  | AOkRes _, OaOk => match o with ACreate _ _ | AUpdate _ => true | _ => false end
  | AOkList xs, OaList ys => list_eqb res_eqb xs ys
  | AOkReady a, OaReady b => Bool.eqb a b
  | AOk, OaOk => true
  | _, _ => false
  end.

(* case = controller, setup (plain store operations at given times), the operation at its time,
   observed result, observed listings of every kind afterwards *)
Definition acase := (ctrl * list (Z * op) * (Z * aop) * aobs * list (atom * atom * list res))%type.

Fixpoint run_setup (s : store) (ops : list (Z * op)) : store :=
  match ops with
  | [] => s
  | (now, o) :: ops' => run_setup (apply_st now o s) ops'
  end.

Definition acase_ok (c : acase) : bool :=
  let '(ct, setup, (now, o), ob, listings) := c in
  let s0 := run_setup [] setup in
  let '(s1, r) := a_apply now ct o s0 in
  aobs_match o r ob &&
  forallb (fun l => let '(ns, typ, rs) := l in list_eqb res_eqb (st_list ns typ s1) rs) listings.

Definition access_mismatches (cs : list acase) : list N := mism_from acase_ok 0 cs.
