(* AccessProofs.v — confinement theorems for every declaration list, operation, target and store. *)
From Verif Require Import Store StoreProofs Helpers HelpersProofs Access.
Open Scope N_scope.

Local Opaque st_put st_del.

Definition a_st now c o s := fst (a_apply now c o s).
Definition a_res now c o s := snd (a_apply now c o s).

Definition denied_or_err (r : ares) : Prop := match r with ADenied | AErr _ => True | _ => False end.

Lemma apply_err_same now o s s' e ev : apply now o s = (s', RErr e, ev) -> s' = s.
Proof.
  intros H. pose proof (failed_unchanged now o s e) as F. unfold apply_res, apply_st in F. rewrite H in F.
  simpl in F. destruct (F eq_refl) as [F1 _]. exact F1.
Qed.

Lemma s_uwc_err now k m owner exp s s' e : s_uwc now k m owner exp s = (s', AErr e) -> s' = s.
Proof.
  unfold s_uwc. destruct (st_get k s) as [cur|]; [|intros H; inversion H; reflexivity].
  destruct (match exp with Some p => negb (Bool.eqb p (r_phase cur)) | None => false end); [intros H; inversion H; reflexivity|].
  destruct (mutate m cur) as [new|]; [|intros H; inversion H; reflexivity].
  destruct (res_equal cur new); [intros H; inversion H|].
  destruct (apply now (OpUpdate new owner exp) s) as [[s1 r] ev] eqn:Ea.
  destruct r; intros H; inversion H; subst. eapply apply_err_same; eauto.
Qed.

Lemma s_uwc_not_denied now k m owner exp s s' : s_uwc now k m owner exp s = (s', ADenied) -> False.
Proof.
  unfold s_uwc. destruct (st_get k s) as [cur|]; [|discriminate].
  destruct (match exp with Some p => negb (Bool.eqb p (r_phase cur)) | None => false end); [discriminate|].
  destruct (mutate m cur) as [new|]; [|discriminate].
  destruct (res_equal cur new); [discriminate|].
  destruct (apply now (OpUpdate new owner exp) s) as [[s1 r] ev]. destruct r; discriminate.
Qed.

(* any rejected operation leaves the state untouched *)
Theorem rejected_untouched now c o s : denied_or_err (a_res now c o s) -> a_st now c o s = s.
Proof.
  unfold a_res, a_st, a_apply. destruct o as [[[ns typ] id]|ns typ|[[ns typ] id]|r no|r|e m exp no|[[ns typ] id] ow|[[ns typ] id] ow|[[ns typ] id] fs|[[ns typ] id] fs].
  all: cbv beta iota zeta.
  - destruct (check_read c ns typ (Some id)); [destruct (st_get (ns, typ, id) s)|]; reflexivity.
  - destruct (check_read c ns typ None); reflexivity.
  - destruct (check_read c ns typ (Some id)); reflexivity.
  - destruct (is_output c (r_typ r)); [|reflexivity].
    destruct (apply now (OpCreate r (owner_of c no)) s) as [[s1 r1] ev] eqn:Ea. destruct r1; simpl; try contradiction.
    intros _. eapply apply_err_same; eauto.
  - destruct (is_output c (r_typ r)); [|reflexivity].
    destruct (apply now (OpUpdate r (c_name c) (Some false)) s) as [[s1 r1] ev] eqn:Ea. destruct r1; simpl; try contradiction.
    intros _. eapply apply_err_same; eauto.
  - destruct (is_output c (r_typ e)); [|reflexivity].
    destruct (st_get (r_key e) s).
    + destruct (s_uwc now (r_key e) m (owner_of c no) exp s) as [s1 r1] eqn:Eu.
      destruct r1; simpl; try contradiction; intros _; [exfalso; eapply s_uwc_not_denied; eauto | eapply s_uwc_err; eauto].
    + destruct (mutate m e) as [new|]; [|reflexivity].
      destruct (apply now (OpCreate new (owner_of c no)) s) as [[s1 r1] ev] eqn:Ea. destruct r1; simpl; try contradiction.
      intros _. eapply apply_err_same; eauto.
  - destruct (is_output c typ); [|reflexivity].
    destruct (st_get (ns, typ, id) s) as [cur|]; [|reflexivity].
    destruct (r_phase cur); [simpl; contradiction|].
    destruct (s_uwc now (ns, typ, id) MSetTD _ (Some false) s) as [s1 r1] eqn:Eu.
    destruct r1; simpl; try contradiction; intros _; [exfalso; eapply s_uwc_not_denied; eauto | eapply s_uwc_err; eauto].
  - destruct (is_output c typ); [|reflexivity].
    destruct (apply now (OpDestroy _ _) s) as [[s1 r1] ev] eqn:Ea.
    destruct r1; simpl; try contradiction. intros _. eapply apply_err_same; eauto.
  - destruct (check_finalizer c ns typ id); [|reflexivity].
    destruct (st_get (ns, typ, id) s) as [cur|]; [|reflexivity].
    destruct (s_uwc now (ns, typ, id) (MAddFin fs) (r_owner cur) None s) as [s1 r1] eqn:Eu.
    destruct r1; simpl; try contradiction; intros _; [exfalso; eapply s_uwc_not_denied; eauto | eapply s_uwc_err; eauto].
  - destruct (check_finalizer c ns typ id); [|reflexivity].
    destruct (st_get (ns, typ, id) s) as [cur|]; [simpl|simpl; contradiction].
    destruct (s_uwc now (ns, typ, id) (MRemFin fs) (r_owner cur) None s) as [s1 r1] eqn:Eu.
    destruct r1; simpl; try contradiction; intros _; [exfalso; eapply s_uwc_not_denied; eauto | eapply s_uwc_err; eauto].
Qed.

Definition op_type (o : aop) : atom :=
  match o with
  | AGet (_, typ, _) | AList _ typ | ACtx (_, typ, _) => typ
  | ACreate r _ | AUpdate r => r_typ r
  | AModify e _ _ _ => r_typ e
  | ATeardown (_, typ, _) _ | ADestroy (_, typ, _) _ | AAddFin (_, typ, _) _ | ARemFin (_, typ, _) _ => typ
  end.

Definition is_write (o : aop) : bool :=
  match o with ACreate _ _ | AUpdate _ | AModify _ _ _ _ | ATeardown _ _ | ADestroy _ _ => true | _ => false end.

Definition is_fin_op (o : aop) : bool := match o with AAddFin _ _ | ARemFin _ _ => true | _ => false end.

(* create/update/modify/teardown/destroy on a type that is not a declared output is refused *)
Theorem write_confined now c o s :
  is_write o = true -> is_output c (op_type o) = false -> a_apply now c o s = (s, ADenied).
Proof.
  destruct o as [[[ns typ] id]|ns typ|[[ns typ] id]|r no|r|e m exp no|[[ns typ] id] ow|[[ns typ] id] ow|[[ns typ] id] fs|[[ns typ] id] fs];
    unfold a_apply, op_type, is_write, is_fin_op; cbv beta iota; intros Hw Ho; try discriminate; rewrite Ho; reflexivity.
Qed.

(* reads are refused unless the target is an output type or matches a declared input by kind or by id *)
Theorem read_confined now c ns typ id s :
  check_read c ns typ (Some id) = false ->
  a_apply now c (AGet (ns, typ, id)) s = (s, ADenied) /\ a_apply now c (ACtx (ns, typ, id)) s = (s, ADenied).
Proof. intros H. unfold a_apply. cbv beta iota. rewrite H. split; reflexivity. Qed.

Theorem list_confined now c ns typ s :
  check_read c ns typ None = false -> a_apply now c (AList ns typ) s = (s, ADenied).
Proof. intros H. unfold a_apply. cbv beta iota. rewrite H. reflexivity. Qed.

Theorem check_read_spec c ns typ id :
  check_read c ns typ id = true <->
  (exists o, In o (c_outputs c) /\ o_typ o = typ) \/
  (exists dep, In dep (c_inputs c) /\ i_ns dep = ns /\ i_typ dep = typ /\
               (i_id dep = None \/ (exists x, i_id dep = Some x /\ id = Some x))).
Proof.
  unfold check_read, is_output. rewrite orb_true_iff, !existsb_exists. split.
  - intros [[o [Ho E]]|[dep [Hd E]]].
    + left. exists o. split; [exact Ho | apply N.eqb_eq; exact E].
    + right. exists dep. apply andb_prop in E. destruct E as [E1 E3]. apply andb_prop in E1. destruct E1 as [E1 E2].
      apply N.eqb_eq in E1, E2. repeat split; try assumption.
      destruct (i_id dep) as [d|]; [|left; reflexivity]. right. exists d. split; [reflexivity|].
      destruct id as [x|]; [|discriminate]. apply N.eqb_eq in E3. congruence.
  - intros [[o [Ho E]]|[dep [Hd [E1 [E2 E3]]]]].
    + left. exists o. split; [exact Ho | apply N.eqb_eq; exact E].
    + right. exists dep. split; [exact Hd|]. rewrite E1, E2, !N.eqb_refl. simpl.
      destruct E3 as [->|[x [-> ->]]]; [reflexivity | apply N.eqb_refl].
Qed.

(* finalizers can be changed only on strong / q-primary / q-mapped inputs *)
Theorem finalizer_confined now c o s :
  is_fin_op o = true ->
  (match o with AAddFin (ns, typ, id) _ | ARemFin (ns, typ, id) _ => check_finalizer c ns typ id | _ => true end) = false ->
  a_apply now c o s = (s, ADenied).
Proof.
  destruct o as [[[ns typ] id]|ns typ|[[ns typ] id]|r no|r|e m exp no|[[ns typ] id] ow|[[ns typ] id] ow|[[ns typ] id] fs|[[ns typ] id] fs];
    unfold a_apply, op_type, is_write, is_fin_op; cbv beta iota; intros Hw Ho; try discriminate; rewrite Ho; reflexivity.
Qed.

Theorem check_finalizer_spec c ns typ id :
  check_finalizer c ns typ id = true <->
  exists dep, In dep (c_inputs c) /\ i_ns dep = ns /\ i_typ dep = typ /\
              (i_kind dep = 1 \/ i_kind dep = 3 \/ i_kind dep = 4) /\ (i_id dep = None \/ i_id dep = Some id).
Proof.
  unfold check_finalizer. rewrite existsb_exists. split.
  - intros [dep [Hd E]]. exists dep. split; [exact Hd|].
    apply andb_prop in E. destruct E as [E E4]. apply andb_prop in E. destruct E as [E E3]. apply andb_prop in E. destruct E as [E1 E2].
    apply N.eqb_eq in E1, E2. repeat split; try assumption.
    + apply orb_prop in E3. destruct E3 as [E3|E3]; [apply orb_prop in E3; destruct E3 as [E3|E3]|]; apply N.eqb_eq in E3; tauto.
    + destruct (i_id dep) as [d|]; [|left; reflexivity]. apply N.eqb_eq in E4. right. congruence.
  - intros [dep [Hd [E1 [E2 [E3 E4]]]]]. exists dep. split; [exact Hd|]. rewrite E1, E2, !N.eqb_refl. simpl.
    assert (K : (i_kind dep =? 1) || (i_kind dep =? 3) || (i_kind dep =? 4) = true).
    { destruct E3 as [->|[->| ->]]; reflexivity. }
    rewrite K. simpl. destruct E4 as [->| ->]; [reflexivity | apply N.eqb_refl].
Qed.

(* every resource a controller creates without an explicit no-owner option is stamped with its name *)
Theorem create_stamps_owner now c r s w :
  a_res now c (ACreate r false) s = AOkRes w -> r_owner w = c_name c /\ st_get (r_key r) (a_st now c (ACreate r false) s) = Some w.
Proof.
  unfold a_res, a_st, a_apply. destruct (is_output c (r_typ r)); [|discriminate].
  destruct (apply now (OpCreate r (owner_of c false)) s) as [[s1 r1] ev] eqn:Ea.
  destruct r1; simpl; try discriminate. intros H; inversion H; subst.
  assert (Hr : apply_res now (OpCreate r (c_name c)) s = RWritten w) by (unfold apply_res; simpl in Ea; rewrite Ea; reflexivity).
  destruct (create_effect _ _ _ _ _ Hr) as [_ [Ho [_ [_ [_ [_ [_ [_ [_ Hst]]]]]]]]].
  split; [exact Ho|]. unfold apply_st in Hst. simpl in Ea. rewrite Ea in Hst. simpl in Hst.
  rewrite Hst, key_eqb_refl. reflexivity.
Qed.

(* without naming another owner, a controller cannot update, tear down or destroy a resource owned by
   anyone else: the operation fails with an owner conflict and the store is unchanged *)
Theorem foreign_owner_untouchable now c k cur s :
  st_get k s = Some cur -> r_owner cur <> c_name c ->
  is_output c (snd (fst k)) = true ->
  (forall r, r_key r = k -> a_apply now c (AUpdate r) s = (s, AErr (HEStore (EOwnerConflict (r_ns cur) (r_typ cur))))) /\
  a_apply now c (ADestroy k None) s = (s, AErr (HEStore (EOwnerConflict (r_ns cur) (r_typ cur)))) /\
  (r_phase cur = false -> a_apply now c (ATeardown k None) s = (s, AErr (HEStore (EOwnerConflict (r_ns cur) (r_typ cur))))).
Proof.
  intros Hg Ho Hout. destruct k as [[ns typ] id]. simpl in Hout.
  assert (Hne : negb (r_owner cur =? c_name c) = true) by (destruct (N.eqb_spec (r_owner cur) (c_name c)); [contradiction | reflexivity]).
  split; [|split].
  - intros r Hk. unfold a_apply. assert (Ht : r_typ r = typ) by (unfold r_key in Hk; congruence). rewrite Ht, Hout.
    unfold apply. rewrite Hk, Hg, Hne. reflexivity.
  - unfold a_apply. rewrite Hout. unfold apply. rewrite Hg, Hne. reflexivity.
  - intros Hp. unfold a_apply. rewrite Hout, Hg, Hp. unfold s_uwc. rewrite Hg, Hp. simpl.
    unfold res_equal. simpl. rewrite Hp. simpl. rewrite !andb_false_r. simpl.
    unfold apply. assert (Hk : r_key (set_fields cur true (r_fins cur) (r_labels cur) (r_spec cur)) = (ns, typ, id)).
    { apply st_get_key in Hg. unfold r_key in *. simpl. exact Hg. }
    rewrite Hk, Hg, Hne. reflexivity.
Qed.
