(* Cache.v — the runtime read cache of one cached kind (runtime/internal/cache/handler.go) and the
   cache branch of Runtime.processEvents (runtime.go).

   The handler keeps the resources sorted by id; slices.BinarySearchFunc is modelled by its
   specification on a sorted slice (smallest index whose id is not less than the target). *)
From Verif Require Export Store.
Open Scope N_scope.

Record cache := mkCache {
  ch_items : list res;          (* sorted by id once bootstrapped *)
  ch_boot : bool;               (* bootstrapped channel closed *)
  ch_waiters : list atom        (* ids with a registered teardown waiter channel *)
}.

Definition cache_init : cache := mkCache [] false [].

Fixpoint find_idx (id : atom) (l : list res) : nat * bool :=
  match l with
  | [] => (O, false)
  | r :: l' =>
      if N.ltb (r_id r) id then let '(i, f) := find_idx id l' in (S i, f)
      else (O, N.eqb (r_id r) id)
  end.

Fixpoint list_insert {A} (n : nat) (x : A) (l : list A) : list A :=
  match n, l with
  | O, _ => x :: l
  | S n', y :: l' => y :: list_insert n' x l'
  | S _, [] => [x]
  end.

Fixpoint list_replace {A} (n : nat) (x : A) (l : list A) : list A :=
  match n, l with
  | _, [] => []
  | O, _ :: l' => x :: l'
  | S n', y :: l' => y :: list_replace n' x l'
  end.

Fixpoint list_delete {A} (n : nat) (l : list A) : list A :=
  match n, l with
  | _, [] => []
  | O, _ :: l' => l'
  | S n', y :: l' => y :: list_delete n' l'
  end.

(* append (during bootstrap) *)
Definition c_append (r : res) (c : cache) : cache := mkCache (ch_items c ++ [r]) (ch_boot c) (ch_waiters c).

Definition c_mark (c : cache) : cache := mkCache (ch_items c) true (ch_waiters c).

Definition remove_atom (x : atom) (l : list atom) : list atom := filter (fun y => negb (N.eqb y x)) l.

(* put: replace or insert; a tearing-down value releases the waiter of that id *)
Definition c_put (r : res) (c : cache) : cache * bool (* released a waiter *) :=
  let '(i, found) := find_idx (r_id r) (ch_items c) in
  let items := if found then list_replace i r (ch_items c) else list_insert i r (ch_items c) in
  if r_phase r && existsb (N.eqb (r_id r)) (ch_waiters c)
  then (mkCache items (ch_boot c) (remove_atom (r_id r) (ch_waiters c)), true)
  else (mkCache items (ch_boot c) (ch_waiters c), false).

(* remove: delete if present; always releases the waiter of that id *)
Definition c_remove (id : atom) (c : cache) : cache * bool :=
  let '(i, found) := find_idx id (ch_items c) in
  let items := if found then list_delete i (ch_items c) else ch_items c in
  if existsb (N.eqb id) (ch_waiters c)
  then (mkCache items (ch_boot c) (remove_atom id (ch_waiters c)), true)
  else (mkCache items (ch_boot c) (ch_waiters c), false).

(* reads: None = the reader blocks (not bootstrapped yet) *)
Definition c_get (id : atom) (c : cache) : option (option res) :=
  if ch_boot c then
    let '(i, found) := find_idx id (ch_items c) in
    Some (if found then nth_error (ch_items c) i else None)
  else None.

Definition c_list (f : res -> bool) (c : cache) : option (list res) :=
  if ch_boot c then Some (filter f (ch_items c)) else None.

(* contextWithTeardown: None = blocks; Some (cache', cancelled_now) *)
Definition c_ctx (id : atom) (c : cache) : option (cache * bool) :=
  if ch_boot c then
    match c_get id c with
    | Some (Some r) =>
        if r_phase r then Some (c, true)
        else Some (mkCache (ch_items c) (ch_boot c)
                           (if existsb (N.eqb id) (ch_waiters c) then ch_waiters c else ch_waiters c ++ [id]), false)
    | _ => Some (c, true)
    end
  else None.

(* the cache branch of processEvents for one event of a cached kind:
   before Bootstrapped: append and do NOT notify; after: put/remove, then notify *)
Inductive cev :=
| CvCreated (r : res)
| CvUpdated (r : res)
| CvDestroyed (r : res)
| CvBootstrapped.

Definition process_cached (e : cev) (c : cache) : cache * bool (* enters the dedup map *) :=
  match e with
  | CvBootstrapped => (c_mark c, false)
  | CvCreated r | CvUpdated r =>
      if ch_boot c then (fst (c_put r c), true) else (c_append r c, false)
  | CvDestroyed r =>
      if ch_boot c then (fst (c_remove (r_id r) c), true) else (c_append r c, false)
  end.
