(* CacheCheck.v — replay observed cache operation strings on the model. *)
From Verif Require Import Store StoreCheck Ring WatchCheck Cache.
Open Scope N_scope.

Inductive cobs :=
| KAppend (r : res)
| KMark
| KPut (r : res)
| KRemove (r : res)
| KGet (id : atom) (obs : option (option res))           (* None = reader blocked *)
| KList (s : sel) (obs : option (list res))
| KCtx (k : N) (id : atom) (obs : option bool)           (* None = blocked; Some b = returned, cancelled-at-once b *)
| KCtxState (k : N) (cancelled : bool)
| KCtxCancel (k : N).                                     (* the parent context of ctx k is cancelled; other waiters on the same id stay *)

Record cstate := mkCs { cs_cache : cache; cs_ctxs : list (N * atom * bool) }.

Definition release (id : atom) (ctxs : list (N * atom * bool)) : list (N * atom * bool) :=
  map (fun x => let '(k, i, c) := x in if N.eqb i id then (k, i, true) else x) ctxs.

Fixpoint ctx_lookup (k : N) (ctxs : list (N * atom * bool)) : option bool :=
  match ctxs with
  | [] => None
  | (k', _, c) :: t => if N.eqb k' k then Some c else ctx_lookup k t
  end.

Definition opt_res_eqb (a b : option res) : bool :=
  match a, b with Some x, Some y => res_eqb x y | None, None => true | _, _ => false end.

Definition cs_step (s : cstate) (o : cobs) : cstate * bool :=
  match o with
  | KAppend r => (mkCs (c_append r (cs_cache s)) (cs_ctxs s), true)
  | KMark => (mkCs (c_mark (cs_cache s)) (cs_ctxs s), true)
  | KPut r =>
      let '(c', rel) := c_put r (cs_cache s) in
      (mkCs c' (if rel then release (r_id r) (cs_ctxs s) else cs_ctxs s), true)
  | KRemove r =>
      let '(c', rel) := c_remove (r_id r) (cs_cache s) in
      (mkCs c' (if rel then release (r_id r) (cs_ctxs s) else cs_ctxs s), true)
  | KGet id obs =>
      (s, match c_get id (cs_cache s), obs with
          | None, None => true
          | Some a, Some b => opt_res_eqb a b
          | _, _ => false
          end)
  | KList sl obs =>
      (s, match c_list (sel_matches sl) (cs_cache s), obs with
          | None, None => true
          | Some a, Some b => list_eqb res_eqb a b
          | _, _ => false
          end)
  | KCtx k id obs =>
      match c_ctx id (cs_cache s), obs with
      | None, None => (s, true)
      | Some (c', cancelled), Some b => (mkCs c' (cs_ctxs s ++ [(k, id, cancelled)]), Bool.eqb cancelled b)
      | _, _ => (s, false)
      end
  | KCtxState k cancelled =>
      (s, match ctx_lookup k (cs_ctxs s) with Some c => Bool.eqb c cancelled | None => false end)
  | KCtxCancel k =>
      (mkCs (cs_cache s) (map (fun x => let '(k', i, c) := x in if N.eqb k' k then (k', i, true) else x) (cs_ctxs s)), true)
  end.

Fixpoint cs_check_from (s : cstate) (c : list cobs) : bool :=
  match c with
  | [] => true
  | o :: c' => let '(s', ok) := cs_step s o in if ok then cs_check_from s' c' else false
  end.

Definition cache_mismatches (cs : list (list cobs)) : list N :=
  mism_from (cs_check_from (mkCs cache_init [])) 0 cs.
