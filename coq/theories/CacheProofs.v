(* CacheProofs.v — the runtime read cache refines a map keyed by id, never exposes a partial view,
   tracks the event log, and releases teardown waiters exactly on teardown/removal. *)
From Verif Require Import Store Cache.
From Coq Require Import ZifyBool ZifyN.
Open Scope N_scope.

Fixpoint id_sorted (l : list res) : Prop :=
  match l with
  | [] => True
  | r :: l' => (forall x, In x l' -> r_id r < r_id x) /\ id_sorted l'
  end.

(* the abstract view: what a lookup by id returns *)
Fixpoint lookup (id : atom) (l : list res) : option res :=
  match l with
  | [] => None
  | r :: l' => if N.eqb (r_id r) id then Some r else lookup id l'
  end.

Lemma lookup_In id l r : lookup id l = Some r -> In r l /\ r_id r = id.
Proof.
  induction l as [|x l IH]; simpl; [discriminate|].
  destruct (N.eqb_spec (r_id x) id) as [E|E]; intros H; [inversion H; subst; tauto | destruct (IH H); tauto].
Qed.

Lemma lookup_none_lt id l : id_sorted l -> (forall x, In x l -> id < r_id x) -> lookup id l = None.
Proof.
  induction l as [|x l IH]; simpl; intros Hs Hlt; [reflexivity|].
  destruct (N.eqb_spec (r_id x) id) as [E|E]; [specialize (Hlt x (or_introl eq_refl)); lia|].
  apply IH; [tauto | intros y Hy; apply Hlt; right; exact Hy].
Qed.

(* find_idx on a sorted slice agrees with lookup *)
Lemma find_idx_spec id l :
  id_sorted l ->
  let '(i, found) := find_idx id l in
  (found = true -> exists r, nth_error l i = Some r /\ r_id r = id /\ lookup id l = Some r) /\
  (found = false -> lookup id l = None).
Proof.
  induction l as [|x l IH]; simpl; intros Hs; [split; [discriminate | reflexivity]|].
  destruct Hs as [Hx Hs]. specialize (IH Hs).
  destruct (N.ltb_spec (r_id x) id) as [L|L].
  - destruct (find_idx id l) as [i f]. destruct IH as [IH1 IH2].
    destruct (N.eqb_spec (r_id x) id) as [E|E]; [lia|]. split; [exact IH1 | exact IH2].
  - destruct (N.eqb_spec (r_id x) id) as [E|E]; split; try discriminate.
    + intros _. exists x. simpl. tauto.
    + intros _. apply lookup_none_lt; [exact Hs|]. intros y Hy. specialize (Hx y Hy). lia.
Qed.

Lemma list_insert_In {A} n (x y : A) l : In y (list_insert n x l) <-> y = x \/ In y l.
Proof.
  revert l; induction n as [|n IH]; intros l; simpl; [intuition|].
  destruct l as [|z l]; simpl; [intuition|]. rewrite IH. intuition.
Qed.

Lemma list_delete_In {A} i (y : A) l : In y (list_delete i l) -> In y l.
Proof.
  revert i; induction l as [|z l IH]; intros [|i]; simpl; try tauto.
  intros [H|H]; [tauto | right; apply (IH i); exact H].
Qed.

Lemma list_replace_In {A} i (x y : A) l : In y (list_replace i x l) -> y = x \/ In y l.
Proof.
  revert i; induction l as [|z l IH]; intros [|i]; simpl; try tauto.
  - intros [H|H]; [left; congruence | tauto].
  - intros [H|H]; [tauto | destruct (IH i H); tauto].
Qed.

(* put keeps the slice sorted and updates exactly one key *)
Lemma put_items_spec r l :
  id_sorted l ->
  let '(i, found) := find_idx (r_id r) l in
  let l' := if found then list_replace i r l else list_insert i r l in
  id_sorted l' /\ forall id, lookup id l' = if N.eqb id (r_id r) then Some r else lookup id l.
Proof.
  induction l as [|x l IH]; simpl; intros Hs.
  - split; [split; [intros ? [] | exact I]|]. intros id. simpl.
    destruct (N.eqb_spec (r_id r) id); destruct (N.eqb_spec id (r_id r)); congruence.
  - destruct Hs as [Hx Hs]. specialize (IH Hs).
    destruct (N.ltb_spec (r_id x) (r_id r)) as [L|L].
    + destruct (find_idx (r_id r) l) as [i f]. destruct IH as [IH1 IH2].
      assert (Hin : forall y, In y (if f then list_replace i r l else list_insert i r l) -> y = r \/ In y l).
      { intros y. destruct f.
        - apply list_replace_In.
        - intros H. apply list_insert_In in H. exact H. }
      destruct f; simpl.
      * split; [split; [|exact IH1]|].
        -- intros y Hy. destruct (Hin y Hy) as [->|Hy']; [lia | apply Hx; exact Hy'].
        -- intros id. rewrite IH2. destruct (N.eqb_spec (r_id x) id); destruct (N.eqb_spec id (r_id r)); try reflexivity; lia.
      * split; [split; [|exact IH1]|].
        -- intros y Hy. destruct (Hin y Hy) as [->|Hy']; [lia | apply Hx; exact Hy'].
        -- intros id. rewrite IH2. destruct (N.eqb_spec (r_id x) id); destruct (N.eqb_spec id (r_id r)); try reflexivity; lia.
    + destruct (N.eqb_spec (r_id x) (r_id r)) as [E|E]; simpl.
      * split; [split; [intros y Hy; rewrite <- E; apply Hx; exact Hy | exact Hs]|].
        intros id. rewrite N.eqb_sym. destruct (N.eqb_spec id (r_id r)) as [E2|E2]; [reflexivity|].
        destruct (N.eqb_spec (r_id x) id); [lia | reflexivity].
      * split; [split; [|split; assumption]|].
        -- intros y [<-|Hy]; [lia | specialize (Hx y Hy); lia].
        -- intros id. rewrite N.eqb_sym. destruct (N.eqb_spec id (r_id r)); reflexivity.
Qed.

Lemma remove_items_spec id0 l :
  id_sorted l ->
  let '(i, found) := find_idx id0 l in
  let l' := if found then list_delete i l else l in
  id_sorted l' /\ forall id, lookup id l' = if N.eqb id id0 then None else lookup id l.
Proof.
  induction l as [|x l IH]; simpl; intros Hs.
  - split; [exact I|]. intros id. destruct (N.eqb id id0); reflexivity.
  - destruct Hs as [Hx Hs]. specialize (IH Hs).
    destruct (N.ltb_spec (r_id x) id0) as [L|L].
    + destruct (find_idx id0 l) as [i f]. destruct IH as [IH1 IH2].
      assert (Hin : forall y, In y (if f then list_delete i l else l) -> In y l).
      { intros y. destruct f; [apply list_delete_In | tauto]. }
      destruct f; simpl.
      * split; [split; [intros y Hy; apply Hx; apply Hin; exact Hy | exact IH1]|].
        intros id. rewrite IH2. destruct (N.eqb_spec (r_id x) id); destruct (N.eqb_spec id id0); try reflexivity; lia.
      * split; [split; assumption|].
        intros id. specialize (IH2 id). simpl in IH2. rewrite IH2.
        destruct (N.eqb_spec (r_id x) id); destruct (N.eqb_spec id id0); try reflexivity; lia.
    + destruct (N.eqb_spec (r_id x) id0) as [E|E]; simpl.
      * split; [exact Hs|]. intros id. destruct (N.eqb_spec id id0) as [E2|E2].
        -- subst. apply lookup_none_lt; [exact Hs|]. intros y Hy. specialize (Hx y Hy). lia.
        -- destruct (N.eqb_spec (r_id x) id); [lia | reflexivity].
      * split; [split; assumption|]. intros id. destruct (N.eqb_spec id id0) as [E2|E2]; [|reflexivity].
        subst. destruct (N.eqb_spec (r_id x) id0); [contradiction|].
        apply lookup_none_lt; [exact Hs|]. intros y Hy. specialize (Hx y Hy). lia.
Qed.

(* ---- the cache refines a map ------------------------------------------------------------------- *)

Theorem cache_put_refines r c :
  id_sorted (ch_items c) ->
  id_sorted (ch_items (fst (c_put r c))) /\
  (forall id, lookup id (ch_items (fst (c_put r c))) = if N.eqb id (r_id r) then Some r else lookup id (ch_items c)) /\
  ch_boot (fst (c_put r c)) = ch_boot c.
Proof.
  intros Hs. pose proof (put_items_spec r (ch_items c) Hs) as H. unfold c_put.
  destruct (find_idx (r_id r) (ch_items c)) as [i f]. destruct H as [H1 H2].
  destruct (r_phase r && existsb (N.eqb (r_id r)) (ch_waiters c)); simpl; repeat split; assumption.
Qed.

Theorem cache_remove_refines id0 c :
  id_sorted (ch_items c) ->
  id_sorted (ch_items (fst (c_remove id0 c))) /\
  (forall id, lookup id (ch_items (fst (c_remove id0 c))) = if N.eqb id id0 then None else lookup id (ch_items c)) /\
  ch_boot (fst (c_remove id0 c)) = ch_boot c.
Proof.
  intros Hs. pose proof (remove_items_spec id0 (ch_items c) Hs) as H. unfold c_remove.
  destruct (find_idx id0 (ch_items c)) as [i f]. destruct H as [H1 H2].
  destruct (existsb (N.eqb id0) (ch_waiters c)); simpl; repeat split; assumption.
Qed.

Theorem cache_get_is_lookup id c :
  id_sorted (ch_items c) ->
  c_get id c = if ch_boot c then Some (lookup id (ch_items c)) else None.
Proof.
  intros Hs. unfold c_get. destruct (ch_boot c); [|reflexivity].
  pose proof (find_idx_spec id (ch_items c) Hs) as H. destruct (find_idx id (ch_items c)) as [i f].
  destruct H as [H1 H2]. destruct f.
  - destruct (H1 eq_refl) as [r [Hn [_ Hl]]]. rewrite Hn, Hl. reflexivity.
  - rewrite (H2 eq_refl). reflexivity.
Qed.

(* ---- no partial view: every read blocks until Bootstrapped has been processed ------------------------ *)

Theorem no_partial_view c id f :
  ch_boot c = false -> c_get id c = None /\ c_list f c = None /\ c_ctx id c = None.
Proof. intros H. unfold c_get, c_list, c_ctx. rewrite H. repeat split. Qed.

Theorem reads_available_after_boot c id f :
  ch_boot c = true -> c_get id c <> None /\ c_list f c <> None /\ c_ctx id c <> None.
Proof.
  intros H. unfold c_list, c_ctx, c_get. rewrite H. destruct (find_idx id (ch_items c)) as [i fd].
  repeat split; try discriminate.
  destruct (if fd then nth_error (ch_items c) i else None) as [r|]; [destruct (r_phase r)|]; discriminate.
Qed.

(* before Bootstrapped nothing is notified; after it every event updates the cache first and is notified *)
Theorem process_cached_notifies e c :
  snd (process_cached e c) = match e with CvBootstrapped => false | _ => ch_boot c end.
Proof. destruct e; simpl; destruct (ch_boot c); reflexivity. Qed.

(* ---- tracking the log ---------------------------------------------------------------------------- *)

(* the abstract effect of a live event on a map keyed by id *)
Definition view_apply (e : cev) (m : atom -> option res) : atom -> option res :=
  match e with
  | CvCreated r | CvUpdated r => fun id => if N.eqb id (r_id r) then Some r else m id
  | CvDestroyed r => fun id => if N.eqb id (r_id r) then None else m id
  | CvBootstrapped => m
  end.

Theorem cache_tracks_event e c :
  ch_boot c = true -> id_sorted (ch_items c) ->
  let c' := fst (process_cached e c) in
  id_sorted (ch_items c') /\ ch_boot c' = true /\
  forall id, lookup id (ch_items c') = view_apply e (fun id => lookup id (ch_items c)) id.
Proof.
  intros Hb Hs. destruct e as [r|r|r|]; unfold process_cached; rewrite ?Hb; cbn [fst].
  - destruct (cache_put_refines r c Hs) as [A [B C]]. repeat split; [exact A | congruence | exact B].
  - destruct (cache_put_refines r c Hs) as [A [B C]]. repeat split; [exact A | congruence | exact B].
  - destruct (cache_remove_refines (r_id r) c Hs) as [A [B C]]. repeat split; [exact A | congruence | exact B].
  - unfold c_mark. simpl. split; [exact Hs|]. split; reflexivity.
Qed.

Fixpoint process_all (es : list cev) (c : cache) : cache :=
  match es with [] => c | e :: es' => process_all es' (fst (process_cached e c)) end.

(* after the sorted bootstrap snapshot and Bootstrapped, the cache equals the snapshot with every later
   event applied, in order: it never goes backwards and is a total function of the log prefix *)
Theorem cache_tracks_log snapshot es :
  id_sorted snapshot ->
  let c := process_all (map CvCreated snapshot ++ [CvBootstrapped] ++ es) cache_init in
  ch_boot c = true /\ id_sorted (ch_items c) /\
  forall id, lookup id (ch_items c) = fold_left (fun m e => view_apply e m) es (fun id => lookup id snapshot) id.
Proof.
  intros Hs.
  assert (A : forall l c0, ch_boot c0 = false -> process_all (map CvCreated l) c0 = mkCache (ch_items c0 ++ l) false (ch_waiters c0)).
  { induction l as [|x l IH]; intros c0 Hb; simpl.
    - rewrite app_nil_r. destruct c0; simpl in *; subst; reflexivity.
    - rewrite Hb. cbn [fst]. rewrite IH by (unfold c_append; simpl; exact Hb). unfold c_append. simpl. rewrite <- app_assoc. reflexivity. }
  assert (B : forall es c0, ch_boot c0 = true -> id_sorted (ch_items c0) ->
              ch_boot (process_all es c0) = true /\ id_sorted (ch_items (process_all es c0)) /\
              forall id, lookup id (ch_items (process_all es c0)) =
                         fold_left (fun m e => view_apply e m) es (fun id => lookup id (ch_items c0)) id).
  { induction es0 as [|e es0 IH]; intros c0 Hb Hso; simpl; [repeat split; assumption|].
    destruct (cache_tracks_event e c0 Hb Hso) as [S1 [S2 S3]].
    destruct (IH _ S2 S1) as [T1 [T2 T3]]. repeat split; [exact T1 | exact T2|].
    intros id. rewrite T3.
    assert (E : forall (m1 m2 : atom -> option res), (forall i, m1 i = m2 i) ->
                forall i, fold_left (fun m e => view_apply e m) es0 m1 i = fold_left (fun m e => view_apply e m) es0 m2 i).
    { clear. induction es0 as [|e es0 IH]; intros m1 m2 H i; simpl; [apply H|].
      apply IH. intros j. destruct e; simpl; try (destruct (N.eqb j (r_id r))); auto. }
    apply E. exact S3. }
  intros c. unfold c.
  assert (P : forall l1 l2 c0, process_all (l1 ++ l2) c0 = process_all l2 (process_all l1 c0)).
  { induction l1 as [|x l1 IH]; intros l2 c0; simpl; [reflexivity | apply IH]. }
  rewrite P, A by reflexivity. rewrite P. cbn [process_all process_cached c_mark ch_items ch_boot ch_waiters cache_init fst app].
  apply (B es (mkCache snapshot true [])); [reflexivity | exact Hs].
Qed.

(* ---- teardown-bound contexts ------------------------------------------------------------------------ *)

(* a context obtained for id is cancelled at once iff the resource is absent or tearing down; otherwise a
   waiter is registered *)
Theorem ctx_immediate c id :
  id_sorted (ch_items c) -> ch_boot c = true ->
  match c_ctx id c with
  | Some (c', cancelled) =>
      (cancelled = true <-> (lookup id (ch_items c) = None \/ exists r, lookup id (ch_items c) = Some r /\ r_phase r = true)) /\
      (cancelled = false -> In id (ch_waiters c')) /\ ch_items c' = ch_items c
  | None => False
  end.
Proof.
  intros Hs Hb. unfold c_ctx. rewrite Hb, (cache_get_is_lookup id c Hs), Hb.
  destruct (lookup id (ch_items c)) as [r|].
  - destruct (r_phase r) eqn:Ep; simpl.
    + repeat split; try discriminate. intros _. right. exists r. tauto.
    + repeat split; try discriminate.
      * intros [H|[x [Hx Hp]]]; [discriminate | inversion Hx; subst; congruence].
      * intros _. destruct (existsb (N.eqb id) (ch_waiters c)) eqn:Ee.
        -- apply existsb_exists in Ee. destruct Ee as [y [Hy E]]. apply N.eqb_eq in E. subst. exact Hy.
        -- apply in_or_app. right. left. reflexivity.
  - repeat split; try discriminate. intros _. left. reflexivity.
Qed.

(* a registered waiter for id is released exactly by a tearing-down put of id or a remove of id *)
Theorem waiter_released_iff_put r c id :
  In id (ch_waiters c) ->
  (In id (ch_waiters (fst (c_put r c))) <-> ~ (r_id r = id /\ r_phase r = true)).
Proof.
  intros Hin. unfold c_put. destruct (find_idx (r_id r) (ch_items c)) as [i f].
  destruct (r_phase r) eqn:Ep; simpl.
  - destruct (existsb (N.eqb (r_id r)) (ch_waiters c)) eqn:Ee; simpl.
    + unfold remove_atom. rewrite filter_In. split.
      * intros [_ H] [E _]. subst. rewrite N.eqb_refl in H. discriminate.
      * intros H. split; [exact Hin|]. destruct (N.eqb_spec id (r_id r)) as [E|E]; [exfalso; apply H; split; congruence | reflexivity].
    + split; [|intros _; exact Hin]. intros _ [E _]. subst.
      assert (existsb (N.eqb (r_id r)) (ch_waiters c) = true) by (apply existsb_exists; exists (r_id r); split; [exact Hin | apply N.eqb_refl]).
      congruence.
  - split; [intros _ [_ H]; discriminate | intros _; exact Hin].
Qed.

Theorem waiter_released_iff_remove id0 c id :
  In id (ch_waiters c) ->
  (In id (ch_waiters (fst (c_remove id0 c))) <-> id0 <> id).
Proof.
  intros Hin. unfold c_remove. destruct (find_idx id0 (ch_items c)) as [i f].
  destruct (existsb (N.eqb id0) (ch_waiters c)) eqn:Ee; simpl.
  - unfold remove_atom. rewrite filter_In. split.
    + intros [_ H] E. subst. rewrite N.eqb_refl in H. discriminate.
    + intros H. split; [exact Hin|]. destruct (N.eqb_spec id id0); [congruence | reflexivity].
  - split; [|intros _; exact Hin]. intros _ E. subst.
    assert (existsb (N.eqb id) (ch_waiters c) = true) by (apply existsb_exists; exists id; split; [exact Hin | apply N.eqb_refl]).
    congruence.
Qed.
