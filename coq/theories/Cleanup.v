(* Cleanup.v — cleanup.Controller.processInput with the HasNoOutputs handler (and Combine of such handlers) as a step
   machine over the runtime API; dependents of an input are the resources of the output kinds carrying the label
   (lkey = input id). *)
From Verif Require Import Store StoreProofs Helpers HelpersProofs DepDB Access AccessProofs GenCtl GenCtlProofs.
Open Scope N_scope.

Section Cleanup.
  Variables (ns tin cname lkey : atom).
  Variable touts : list atom.                  (* the output kinds of the combined handlers, in handler order *)

  Definition cctrl : ctrl :=
    mkCtrl cname (mkIn ns tin None 1 :: map (fun t => mkIn ns t None 0) touts) [].

  Definition dep_of (x : atom) (r : res) : bool :=
    match find (fun p => N.eqb (fst p) lkey) (r_labels r) with Some (_, v) => N.eqb v x | None => false end.

  Definition dependents (x : atom) (t : atom) (st : store) : list res := filter (dep_of x) (st_list ns t st).

  Inductive cpc :=
  | C0
  | CHandler (inp : res) (rest : list atom)    (* FinalizerRemoval: handlers still to run *)
  | CRemFin (inp : res)
  | CAddFin (inp : res)
  | CDone (ok : bool).

  Definition c_request (x : atom) (pc : cpc) : option aop :=
    match pc with
    | C0 => Some (AGet (ns, tin, x))            (* the element of the input list being processed *)
    | CHandler _ (t :: _) => Some (AList ns t)
    | CHandler _ [] => None
    | CRemFin _ => Some (ARemFin (ns, tin, x) [cname])
    | CAddFin _ => Some (AAddFin (ns, tin, x) [cname])
    | CDone _ => None
    end.

  Definition c_resume (x : atom) (pc : cpc) (r : ares) : cpc :=
    match pc with
    | C0 =>
        match r with
        | AOkRes inp =>
            if r_phase inp then (if has_fin cname inp then (match touts with [] => CRemFin inp | _ => CHandler inp touts end) else CDone true)
            else if has_fin cname inp then CDone true else CAddFin inp
        | _ => CDone true                           (* not in the list any more *)
        end
    | CHandler inp (t :: rest) =>
        match r with
        | AOkList l =>
            match filter (dep_of x) l with
            | [] => (match rest with [] => CRemFin inp | _ => CHandler inp rest end)
            | _ => CDone true                       (* SkipReconcile: waiting for resources to be destroyed *)
            end
        | _ => CDone false
        end
    | CHandler inp [] => CRemFin inp
    | CRemFin _ => match r with AOk => CDone true | _ => CDone false end
    | CAddFin _ => match r with AOk => CDone true | _ => CDone false end
    | CDone b => CDone b
    end.

  Record csys := mkCS { cs_store : store; cs_pc : cpc }.

  Inductive cchoice := CStep (now : Z) | CEnv (now : Z) (o : op) | CRestart.

  Definition c_step (x : atom) (s : csys) (ch : cchoice) : csys :=
    match ch with
    | CEnv now o => mkCS (apply_st now o (cs_store s)) (cs_pc s)
    | CRestart => match cs_pc s with CDone _ => mkCS (cs_store s) C0 | _ => s end
    | CStep now =>
        match c_request x (cs_pc s) with
        | None => match cs_pc s with CHandler inp [] => mkCS (cs_store s) (CRemFin inp) | _ => s end
        | Some o => let '(st', r) := a_apply now cctrl o (cs_store s) in mkCS st' (c_resume x (cs_pc s) r)
        end
    end.

  Definition c_run (x : atom) (s : csys) (l : list cchoice) : csys := fold_left (c_step x) l s.

  (* ---- safety: the finalizer is released only when no dependent exists, provided nobody creates a new dependent of
     an input that is already tearing down (what a parent's teardown means to its children's creators) ---- *)

  Definition no_deps (x : atom) (ts : list atom) (st : store) : Prop := forall t, In t ts -> dependents x t st = [].

  Definition CInv (x : atom) (s : csys) : Prop :=
    match cs_pc s with
    | CHandler _ rest => (exists done, touts = done ++ rest /\ no_deps x done (cs_store s))
    | CRemFin _ => no_deps x touts (cs_store s)
    | _ => True
    end.
End Cleanup.
