(* CleanupCheck.v — replay gated-runtime schedules of the real cleanup.Controller on the Cleanup machine. *)
From Verif Require Import Store StoreCheck Helpers DepDB Access GenCtl GenCtlCheck Cleanup.
Open Scope N_scope.

Definition ccall_of (pc : cpc) : gcall :=
  match pc with
  | C0 => GList                        (* the pass lists the input kind; the machine reads its element *)
  | CHandler _ (_ :: _) => GList
  | CHandler _ [] => GNone
  | CRemFin _ => GRemFin
  | CAddFin _ => GAddFin
  | CDone _ => GNone
  end.

(* case: namespace, input kind, controller name, label key, handler kinds, item, schedule with the observed call
   kind of every worker step, final outcome of the pass (None = still inside), final listings per kind *)
Definition ccase := (atom * atom * atom * atom * list atom * atom *
                     list (cchoice * gcall) * option bool * list (atom * list res))%type.

Fixpoint c_check_run ns tin cname lkey touts x (s : csys) (steps : list (cchoice * gcall)) : option csys :=
  match steps with
  | [] => Some s
  | (ch, g) :: t =>
      let ok := match ch with CStep _ => gcall_eqb (ccall_of (cs_pc s)) g | _ => true end in
      if ok then c_check_run ns tin cname lkey touts x (c_step ns tin cname lkey touts x s ch) t else None
  end.

Definition ccase_ok (c : ccase) : bool :=
  let '(ns, tin, cname, lkey, touts, x, steps, final, lists) := c in
  match c_check_run ns tin cname lkey touts x (mkCS [] C0) steps with
  | None => false
  | Some s =>
      (match cs_pc s, final with
       | CDone a, Some b => Bool.eqb a b
       | CDone _, None => false
       | _, None => true
       | _, Some _ => false
       end) &&
      forallb (fun p => list_eqb res_eqb (map strip_t (st_list ns (fst p) (cs_store s))) (map strip_t (snd p))) lists
  end.

Definition cleanup_mismatches (cs : list ccase) : list N := mism_from ccase_ok 0 cs.
