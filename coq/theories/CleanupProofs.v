From Verif Require Import Store StoreProofs Helpers HelpersProofs DepDB Access AccessProofs GenCtl GenCtlProofs.
From Verif Require Import Cleanup.
From Coq Require Import Lia.
Open Scope N_scope.

Local Opaque st_put st_del.

(* structural outcome of the sequential read-modify-write: unchanged, or exactly one put on that key *)
Lemma s_uwc_struct now k m owner exp s s' r :
  s_uwc now k m owner exp s = (s', r) -> s' = s \/ exists w, s' = st_put w s /\ r_key w = k.
Proof.
  unfold s_uwc. destruct (st_get k s) as [cur|] eqn:Hk; [|intros H; inversion H; left; reflexivity].
  destruct (match exp with Some p => negb (Bool.eqb p (r_phase cur)) | None => false end); [intros H; inversion H; left; reflexivity|].
  destruct (mutate m cur) as [new|] eqn:Em; [|intros H; inversion H; left; reflexivity].
  destruct (res_equal cur new); [intros H; inversion H; left; reflexivity|].
  destruct (mutate_preserves _ _ _ Em) as [Mk _]. pose proof (st_get_key _ _ _ Hk) as Kc.
  pose proof (update_outcome now new owner exp s) as U. rewrite Mk, Kc, Hk in U.
  destruct (negb (N.eqb (r_owner cur) owner)); [rewrite U; intros H; inversion H; left; reflexivity|].
  destruct (negb (ver_eqb (r_ver cur) (r_ver new))); [rewrite U; intros H; inversion H; left; reflexivity|].
  destruct (match exp with Some p => negb (Bool.eqb (r_phase cur) p) | None => false end); [rewrite U; intros H; inversion H; left; reflexivity|].
  destruct U as [w [U Hw]]. rewrite U. intros H; inversion H; subst s' r. right. exists w. split; [reflexivity|].
  subst w. unfold with_ver_times, r_key. simpl. fold (r_key new). congruence.
Qed.

Local Transparent st_put st_del.

Lemma filter_del (P : res -> bool) k s :
  (forall r, r_key r = k -> P r = false) -> filter P (st_del k s) = filter P s.
Proof.
  intros HP. induction s as [|r s IH]; [reflexivity|]. simpl.
  destruct (key_eqb_spec (r_key r) k) as [E|E].
  - rewrite (HP r E). exact IH.
  - simpl. rewrite IH. reflexivity.
Qed.

Lemma st_list_put_other ns typ w s : r_typ w <> typ -> st_list ns typ (st_put w s) = st_list ns typ s.
Proof.
  intros Ht. unfold st_list, st_put. simpl.
  destruct (N.eqb_spec (r_typ w) typ) as [E|E]; [contradiction|]. rewrite andb_false_r.
  rewrite filter_del; [reflexivity|]. intros r Hr. unfold r_key in Hr. inversion Hr.
  destruct (N.eqb_spec (r_typ r) typ) as [E2|E2]; [congruence|]. apply andb_false_r.
Qed.

Section Proofs.
  Variables (ns tin cname lkey : atom) (touts : list atom).
  Hypothesis Hkinds : ~ In tin touts.

  Notation cctrl := (cctrl ns tin cname touts).
  Notation dependents := (dependents ns lkey).
  Notation c_step := (c_step ns tin cname lkey touts).
  Notation CInv := (CInv ns lkey touts).
  Notation no_deps := (no_deps ns lkey).

  Lemma fin_step_lists (now : Z) (x : atom) (fs : list atom) (add : bool) (s s' : store) (r : ares) (t : atom) :
    In t touts ->
    a_apply now cctrl (if add then AAddFin (ns, tin, x) fs else ARemFin (ns, tin, x) fs) s = (s', r) ->
    st_list ns t s' = st_list ns t s.
  Proof.
    intros Ht. assert (Hne : tin <> t) by (intros E; subst; contradiction).
    destruct add; cbn [a_apply]; destruct (check_finalizer cctrl ns tin x); try (intros H; inversion H; reflexivity).
    - destruct (st_get (ns, tin, x) s) as [cur|]; [|intros H; inversion H; reflexivity].
      destruct (s_uwc now (ns, tin, x) (MAddFin fs) (r_owner cur) None s) as [s1 r1] eqn:Eu.
      intros H. assert (s' = s1) by (destruct r1; inversion H; reflexivity). subst s1.
      destruct (s_uwc_struct _ _ _ _ _ _ _ _ Eu) as [->|[w [-> Kw]]]; [reflexivity|].
      apply st_list_put_other. unfold r_key in Kw. inversion Kw. congruence.
    - destruct (st_get (ns, tin, x) s) as [cur|]; [|intros H; inversion H; reflexivity].
      destruct (s_uwc now (ns, tin, x) (MRemFin fs) (r_owner cur) None s) as [s1 r1] eqn:Eu.
      intros H. assert (s' = s1) by (destruct r1; inversion H; reflexivity). subst s1.
      destruct (s_uwc_struct _ _ _ _ _ _ _ _ Eu) as [->|[w [-> Kw]]]; [reflexivity|].
      apply st_list_put_other. unfold r_key in Kw. inversion Kw. congruence.
  Qed.

  Lemma rd_kind t : In t touts -> check_read cctrl ns t None = true.
  Proof.
    intros Ht. unfold check_read, Cleanup.cctrl. cbn [c_inputs c_outputs is_output existsb]. rewrite orb_false_l.
    cbn [existsb i_ns i_typ i_id]. apply orb_true_iff. right.
    apply existsb_exists. exists (mkIn ns t None 0). split; [apply in_map_iff; eauto|].
    cbn. rewrite !N.eqb_refl. reflexivity.
  Qed.

  Definition env_ok_c (x : atom) (st st' : store) : Prop :=
    forall t, In t touts -> dependents x t st = [] -> dependents x t st' = [].

  Lemma worker_inv now x s : CInv x s -> CInv x (c_step x s (CStep now)).
  Proof.
    destruct s as [st pc]. unfold Cleanup.CInv, Cleanup.c_step. cbn [cs_store cs_pc].
    destruct pc as [|inp rest|inp|inp|b]; cbn [c_request].
    - intros _. cbn [a_apply]. destruct (check_read cctrl ns tin (Some x)); cbn [cs_pc cs_store]; [|exact I].
      destruct (st_get (ns, tin, x) st) as [inp|]; cbn [c_resume cs_pc cs_store]; [|exact I].
      destruct (r_phase inp); [|destruct (has_fin cname inp); exact I].
      destruct (has_fin cname inp); [|exact I].
      destruct touts as [|t0 ts] eqn:Et; cbn [cs_pc cs_store].
      + intros t [].
      + exists []. split; [reflexivity | intros t []].
    - intros [done [Ed Hn]]. destruct rest as [|t rest].
      + cbn [cs_pc cs_store]. rewrite app_nil_r in Ed. subst done. exact Hn.
      + assert (Ht : In t touts) by (rewrite Ed; apply in_or_app; right; left; reflexivity).
        cbn [a_apply]. rewrite (rd_kind t Ht). cbn [cs_pc cs_store c_resume].
        fold (dependents x t st). destruct (dependents x t st) eqn:Ed2; [|exact I].
        assert (Hn' : no_deps x (done ++ [t]) st).
        { intros t' Ht'. apply in_app_or in Ht'. destruct Ht' as [H|[<-|[]]]; [apply Hn; exact H | exact Ed2]. }
        destruct rest as [|t2 rest2]; cbn [cs_pc cs_store].
        * rewrite Ed. exact Hn'.
        * exists (done ++ [t]). split; [rewrite <- app_assoc; exact Ed | exact Hn'].
    - intros _. destruct (a_apply now cctrl (ARemFin (ns, tin, x) [cname]) st) as [st' r]. cbn [cs_pc c_resume]. destruct r; exact I.
    - intros _. destruct (a_apply now cctrl (AAddFin (ns, tin, x) [cname]) st) as [st' r]. cbn [cs_pc c_resume]. destruct r; exact I.
    - intros _. exact I.
  Qed.

  Lemma env_inv now o x s : CInv x s -> env_ok_c x (cs_store s) (apply_st now o (cs_store s)) -> CInv x (c_step x s (CEnv now o)).
  Proof.
    destruct s as [st pc]. unfold Cleanup.CInv, Cleanup.c_step, env_ok_c. cbn [cs_store cs_pc]. intros Hi He.
    destruct pc as [|inp rest|inp|inp|b]; try exact I.
    - destruct Hi as [done [Ed Hn]]. exists done. split; [exact Ed|]. intros t Ht. apply He; [rewrite Ed; apply in_or_app; left; exact Ht | apply Hn; exact Ht].
    - intros t Ht. apply He; [exact Ht | apply Hi; exact Ht].
  Qed.

  Lemma restart_inv x s : CInv x s -> CInv x (c_step x s CRestart).
  Proof. destruct s as [st pc]. unfold Cleanup.CInv, Cleanup.c_step. cbn [cs_store cs_pc]. destruct pc; auto. Qed.

  Fixpoint env_respects_c (x : atom) (s : csys) (l : list cchoice) : Prop :=
    match l with
    | [] => True
    | ch :: t =>
        match ch with CEnv now o => env_ok_c x (cs_store s) (apply_st now o (cs_store s)) | _ => True end /\
        env_respects_c x (c_step x s ch) t
    end.

  Theorem c_safety x l : forall s, CInv x s -> env_respects_c x s l -> CInv x (c_run ns tin cname lkey touts x s l).
  Proof.
    unfold c_run. induction l as [|ch t IH]; intros s Hi Hr; [exact Hi|]. cbn [fold_left]. destruct Hr as [Hc Ht].
    apply IH; [|exact Ht]. destruct ch; [apply worker_inv | apply env_inv | apply restart_inv]; assumption.
  Qed.

  (* C07, third clause: at the instant the cleanup controller issues RemoveFinalizer on a torn-down input, every
     removal handler has succeeded and no dependent output of any handler kind exists *)
  Theorem c_release_only_without_dependents x l :
    env_respects_c x (mkCS [] C0) l ->
    let s := c_run ns tin cname lkey touts x (mkCS [] C0) l in
    forall inp, cs_pc s = CRemFin inp -> forall t, In t touts -> dependents x t (cs_store s) = [].
  Proof.
    intros Hr s inp Hpc. pose proof (c_safety x l (mkCS [] C0) I Hr) as Hi. fold s in Hi.
    unfold Cleanup.CInv in Hi. rewrite Hpc in Hi. exact Hi.
  Qed.

  (* ... and the release itself leaves the dependents' kinds untouched *)
  Theorem c_release_touches_only_input now x st st' r t :
    In t touts -> a_apply now cctrl (ARemFin (ns, tin, x) [cname]) st = (st', r) -> st_list ns t st' = st_list ns t st.
  Proof. intros Ht H. exact (fin_step_lists now x [cname] false st st' r t Ht H). Qed.
End Proofs.
