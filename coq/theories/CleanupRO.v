(* CleanupRO.v — cleanup.Controller.processInput with the RemoveOutputs handler (no extra owners) as a step machine over
   the runtime API: list the dependents of the torn-down input (outputs of kind tout labelled lkey = input id), skip the
   owned ones, Teardown each unowned one with the empty owner and Destroy it when ready; "waiting" (SkipReconcile) while
   any is still tearing down, an error when a call failed, and only otherwise RemoveFinalizer on the input.  A not-found
   answer of Teardown counts as "still tearing down" (ready is false), of Destroy as success - as in the code. *)
From Verif Require Export Store Helpers DepDB Access GenCtl Cleanup.
Open Scope N_scope.

Section CleanupRO.
  Variables (ns tin tout cname lkey : atom).

  (* inputs(): strong primary kind + destroy-ready input on the output kind; outputs(): the output kind, shared *)
  Definition rctrl : ctrl := mkCtrl cname [mkIn ns tin None 1; mkIn ns tout None 2] [mkOut tout 1].

  Record racc := mkRA { ra_td : bool; ra_err : bool }.       (* inTearDown > 0, multiErr != nil *)
  Definition ra_live (a : racc) : bool := negb (ra_td a) && negb (ra_err a).
  Definition unowned (o : res) : bool := N.eqb (r_owner o) 0.

  Inductive rpc :=
  | R0
  | RList (inp : res)
  | RTeardown (o : res) (todo : list res) (a : racc)
  | RDestroy (o : res) (todo : list res) (a : racc)
  | RRemFin
  | RAddFin
  | RDone (ok : bool).

  (* walk the listed dependents up to the next one that needs a runtime call *)
  Fixpoint ro_adv (todo : list res) (a : racc) : rpc :=
    match todo with
    | [] => if ra_err a then RDone false else if ra_td a then RDone true else RRemFin
    | o :: rest => if unowned o then RTeardown o rest a else ro_adv rest a       (* owned: somebody else's *)
    end.

  Definition ro_request (x : atom) (pc : rpc) : option aop :=
    match pc with
    | R0 => Some (AGet (ns, tin, x))                 (* the element of the input list being processed *)
    | RList _ => Some (AList ns tout)
    | RTeardown o _ _ => Some (ATeardown (ns, tout, r_id o) (Some 0))
    | RDestroy o _ _ => Some (ADestroy (ns, tout, r_id o) (Some 0))
    | RRemFin => Some (ARemFin (ns, tin, x) [cname])
    | RAddFin => Some (AAddFin (ns, tin, x) [cname])
    | RDone _ => None
    end.

  Definition ro_resume (x : atom) (pc : rpc) (r : ares) : rpc :=
    match pc with
    | R0 =>
        match r with
        | AOkRes inp =>
            if r_phase inp then (if has_fin cname inp then RList inp else RDone true)
            else if has_fin cname inp then RDone true else RAddFin
        | _ => RDone true
        end
    | RList _ =>
        match r with
        | AOkList l => ro_adv (filter (dep_of lkey x) l) (mkRA false false)
        | _ => RDone false
        end
    | RTeardown o todo a =>
        match r with
        | AOkReady true => RDestroy o todo a
        | AOkReady false => ro_adv todo (mkRA true (ra_err a))
        | _ => if is_notfound_res r then ro_adv todo (mkRA true (ra_err a)) else ro_adv todo (mkRA (ra_td a) true)
        end
    | RDestroy o todo a =>
        match r with
        | AOk => ro_adv todo a
        | _ => if is_notfound_res r then ro_adv todo a else ro_adv todo (mkRA (ra_td a) true)
        end
    | RRemFin => match r with AOk => RDone true | _ => RDone false end
    | RAddFin => match r with AOk => RDone true | _ => RDone false end
    | RDone b => RDone b
    end.

  Record rsys := mkRS { rs_store : store; rs_pc : rpc }.

  Inductive rchoice := RStep (now : Z) | REnv (now : Z) (o : op) | RRestart.

  Definition ro_step (x : atom) (s : rsys) (ch : rchoice) : rsys :=
    match ch with
    | REnv now o => mkRS (apply_st now o (rs_store s)) (rs_pc s)
    | RRestart => match rs_pc s with RDone _ => mkRS (rs_store s) R0 | _ => s end
    | RStep now =>
        match ro_request x (rs_pc s) with
        | None => s
        | Some o => let '(st', r) := a_apply now rctrl o (rs_store s) in mkRS st' (ro_resume x (rs_pc s) r)
        end
    end.

  Definition ro_run (x : atom) (s : rsys) (l : list rchoice) : rsys := fold_left (ro_step x) l s.
End CleanupRO.
