(* CleanupROCheck.v — replay gated-runtime schedules of the real cleanup.Controller with the RemoveOutputs handler on the
   CleanupRO machine: kind and target of every runtime call, outcome of the pass, final listings. *)
From Verif Require Import Store StoreCheck Helpers DepDB Access GenCtl GenCtlCheck Cleanup CleanupRO.
Open Scope N_scope.

Definition rcall_of (pc : rpc) : gcall :=
  match pc with
  | R0 | RList _ => GList
  | RTeardown _ _ _ => GTeardown
  | RDestroy _ _ _ => GDestroy
  | RRemFin => GRemFin
  | RAddFin => GAddFin
  | RDone _ => GNone
  end.

Definition rtarget_of (x : atom) (pc : rpc) : atom :=
  match pc with
  | RTeardown o _ _ | RDestroy o _ _ => r_id o
  | RRemFin | RAddFin => x
  | _ => 0
  end.

Definition rocase := (atom * atom * atom * atom * atom * atom *
                      list (rchoice * gcall * atom) * option bool * list res * list res)%type.

Fixpoint ro_check_run ns tin tout cname lkey x (s : rsys) (steps : list (rchoice * gcall * atom)) : option rsys :=
  match steps with
  | [] => Some s
  | (ch, g, tg) :: t =>
      let ok := match ch with
                | RStep _ => gcall_eqb (rcall_of (rs_pc s)) g && N.eqb (rtarget_of x (rs_pc s)) tg
                | _ => true
                end in
      if ok then ro_check_run ns tin tout cname lkey x (ro_step ns tin tout cname lkey x s ch) t else None
  end.

Definition rocase_ok (c : rocase) : bool :=
  let '(ns, tin, tout, cname, lkey, x, steps, final, ins, outs) := c in
  match ro_check_run ns tin tout cname lkey x (mkRS [] R0) steps with
  | None => false
  | Some s =>
      (match rs_pc s, final with
       | RDone a, Some b => Bool.eqb a b
       | RDone _, None => false
       | _, None => true
       | _, Some _ => false
       end) &&
      list_eqb res_eqb (map strip_t (st_list ns tin (rs_store s))) (map strip_t ins) &&
      list_eqb res_eqb (map strip_t (st_list ns tout (rs_store s))) (map strip_t outs)
  end.

Definition cleanup_ro_mismatches (cs : list rocase) : list N := mism_from rocase_ok 0 cs.
