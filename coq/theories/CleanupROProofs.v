(* CleanupROProofs.v — the RemoveOutputs flavour of the cleanup controller (CleanupRO.v) releases its finalizer only while
   no unowned dependent of the input exists, for every schedule, provided no other party makes a new unowned dependent
   appear (creates one, relabels one onto the input, strips an owner) while the input is being cleaned up. *)
From Verif Require Import Store StoreProofs Helpers HelpersProofs DepDB Access AccessProofs GenCtl GenCtlProofs Cleanup CleanupRO
  TransformListProofs.
From Coq Require Import Lia.
Open Scope N_scope.

Local Opaque st_put st_del.

Section ROProofs.
  Variables (ns tin tout cname lkey : atom).
  Hypothesis Hty : tin <> tout.

  Notation rc := (rctrl ns tin tout cname).
  Notation ko := (fun id => (ns, tout, id)).
  Notation ro_step := (ro_step ns tin tout cname lkey).
  Notation ro_run := (ro_run ns tin tout cname lkey).
  Notation dep := (dep_of lkey).

  (* an unowned dependent of input x stored under id *)
  Definition udep (x id : atom) (st : store) : Prop :=
    exists d, st_get (ns, tout, id) st = Some d /\ dep x d = true /\ r_owner d = 0.

  Lemma r_is_out : is_output rc tout = true.
  Proof. unfold is_output, rctrl; simpl. rewrite N.eqb_refl. reflexivity. Qed.
  Lemma r_fin_in x : check_finalizer rc ns tin x = true.
  Proof. unfold check_finalizer, rctrl; simpl. rewrite !N.eqb_refl. reflexivity. Qed.

  Lemma r_list_out now s : a_apply now rc (AList ns tout) s = (s, AOkList (st_list ns tout s)).
  Proof. unfold a_apply, check_read. rewrite r_is_out. reflexivity. Qed.

  Lemma ko_neq id id' : id <> id' -> key_eqb (ns, tout, id) (ns, tout, id') = false.
  Proof. intros H. unfold key_eqb. destruct (N.eqb_spec id id'); [contradiction|]. rewrite andb_false_r. reflexivity. Qed.
  Lemma ko_kin id x : key_eqb (ns, tout, id) (ns, tin, x) = false.
  Proof.
    unfold key_eqb. destruct (N.eqb_spec tout tin) as [E|E]; [symmetry in E; contradiction|].
    rewrite andb_false_r. reflexivity.
  Qed.

  (* Teardown with the empty owner touches only its key *)
  Lemma r_teardown_frame now id s s' r :
    a_apply now rc (ATeardown (ns, tout, id) (Some 0)) s = (s', r) ->
    forall k', key_eqb k' (ns, tout, id) = false -> st_get k' s' = st_get k' s.
  Proof.
    unfold a_apply. rewrite r_is_out. destruct (st_get (ns, tout, id) s) as [cur|] eqn:Hk; [|intros H; inversion H; reflexivity].
    destruct (r_phase cur); [intros H; inversion H; reflexivity|].
    destruct (s_uwc now (ns, tout, id) MSetTD 0 (Some false) s) as [s1 r1] eqn:Eu.
    destruct (s_uwc_shape _ _ _ _ _ _ _ _ Eu) as [[Es [e [Er _]]] | [[Es [c [n [_ [_ [_ Er]]]]]] | [c [n [w [_ [_ [_ [_ [Er [_ Hg]]]]]]]]]]];
      subst r1; intros H; inversion H; subst; try reflexivity.
    intros k' Hk'. rewrite Hg, Hk'. reflexivity.
  Qed.

  (* Destroy with the empty owner: frame; success or not-found mean the key is empty afterwards *)
  Lemma r_destroy_spec now id s s' r :
    a_apply now rc (ADestroy (ns, tout, id) (Some 0)) s = (s', r) ->
    (forall k', key_eqb k' (ns, tout, id) = false -> st_get k' s' = st_get k' s) /\
    (r = AOk \/ is_notfound_res r = true -> st_get (ns, tout, id) s' = None).
  Proof.
    unfold a_apply. rewrite r_is_out. unfold apply. destruct (st_get (ns, tout, id) s) as [cur|] eqn:Hk.
    2:{ intros H; inversion H; subst. split; [reflexivity | intros _; exact Hk]. }
    destruct (N.eqb_spec (r_owner cur) 0) as [Eo|Eo]; simpl.
    2:{ intros H; inversion H; subst. split; [reflexivity|]. intros [C|C]; discriminate. }
    destruct (r_fins cur) eqn:Ef.
    2:{ intros H; inversion H; subst. split; [reflexivity|]. intros [C|C]; discriminate. }
    intros H; inversion H; subst s' r; clear H. split.
    - intros k' Hk'. rewrite st_get_del, Hk'. reflexivity.
    - intros _. rewrite st_get_del, key_eqb_refl. reflexivity.
  Qed.

  Lemma r_remfin_frame now x s s' r :
    a_apply now rc (ARemFin (ns, tin, x) [cname]) s = (s', r) ->
    forall k', key_eqb k' (ns, tin, x) = false -> st_get k' s' = st_get k' s.
  Proof.
    unfold a_apply. rewrite r_fin_in.
    destruct (st_get (ns, tin, x) s) as [cur|] eqn:Hk; [|intros H; inversion H; subst; reflexivity].
    destruct (s_uwc now (ns, tin, x) (MRemFin [cname]) (r_owner cur) None s) as [s1 r1] eqn:Eu.
    destruct (s_uwc_shape _ _ _ _ _ _ _ _ Eu) as [[Es [e [Er _]]] | [[Es [c [n [_ [_ [_ Er]]]]]] | [c [n [w [_ [_ [_ [_ [Er [_ Hg]]]]]]]]]]];
      subst r1; intros H; inversion H; subst; try reflexivity.
    intros k' Hk'. rewrite Hg, Hk'. reflexivity.
  Qed.

  Lemma udep_frame x id st st' : st_get (ns, tout, id) st' = st_get (ns, tout, id) st -> udep x id st' -> udep x id st.
  Proof. unfold udep. intros E. rewrite E. tauto. Qed.

  (* ---- invariant ---------------------------------------------------------------------------------------- *)

  Definition pend_ids (o : option res) (todo : list res) : list atom :=
    (match o with Some r => [r_id r] | None => [] end) ++ map r_id (filter unowned todo).

  Definition RInv (x : atom) (s : rsys) : Prop :=
    let st := rs_store s in
    match rs_pc s with
    | RTeardown o todo a | RDestroy o todo a =>
        ra_live a = true -> forall id, udep x id st -> In id (pend_ids (Some o) todo)
    | RRemFin => forall id, ~ udep x id st
    | _ => True
    end.

  Lemma ro_adv_inv x st todo : forall a,
    (ra_live a = true -> forall id, udep x id st -> In id (pend_ids None todo)) -> RInv x (mkRS st (ro_adv todo a)).
  Proof.
    induction todo as [|o rest IH]; intros a H; cbn [ro_adv].
    - unfold RInv. cbn [rs_pc rs_store]. unfold ra_live in H.
      destruct (ra_err a); [exact I|]. destruct (ra_td a); [exact I|]. intros id U. destruct (H eq_refl id U).
    - destruct (unowned o) eqn:Hu.
      + unfold RInv. cbn [rs_pc rs_store]. intros Hl id U. specialize (H Hl id U).
        unfold pend_ids in *. cbn [filter app] in H. rewrite Hu in H. exact H.
      + apply IH. intros Hl id U. specialize (H Hl id U). unfold pend_ids in *. cbn [filter app] in *. rewrite Hu in H. exact H.
  Qed.

  Lemma ro_worker_inv now x s : RInv x s -> RInv x (ro_step x s (RStep now)).
  Proof.
    destruct s as [st pc]. unfold CleanupRO.ro_step. cbn [rs_store rs_pc].
    destruct pc as [|inp|o todo a|o todo a| | |b]; cbn [ro_request]; intros Hi.
    - (* R0 *)
      destruct (a_apply now rc _ st) as [st' r]. cbn [ro_resume]. destruct r as [|e|inp|l|b|]; try exact I.
      destruct (r_phase inp); destruct (has_fin cname inp); exact I.
    - (* RList *)
      rewrite r_list_out. cbn [ro_resume]. apply ro_adv_inv. intros _ id [d [Hd [Hdep Ho]]].
      unfold pend_ids. cbn [app]. apply in_map_iff. exists d. split; [apply st_get_key in Hd; unfold r_key in Hd; inversion Hd; reflexivity|].
      apply filter_In. split; [|unfold unowned; rewrite Ho; reflexivity].
      apply filter_In. split; [|exact Hdep].
      destruct (st_get_In _ _ _ Hd) as [Hin Hk]. unfold r_key in Hk. inversion Hk; subst.
      unfold st_list. apply In_sort_by_id. apply filter_In. split; [exact Hin|]. rewrite !N.eqb_refl. reflexivity.
    - (* RTeardown *)
      destruct (a_apply now rc (ATeardown (ns, tout, r_id o) (Some 0)) st) as [st' r] eqn:Ea.
      pose proof (r_teardown_frame _ _ _ _ _ Ea) as Fr.
      cbn [ro_resume].
      assert (Keep : RInv x (mkRS st' (RDestroy o todo a))).
      { unfold RInv in *. cbn [rs_pc rs_store] in *. intros Hl id U. destruct (N.eq_dec id (r_id o)) as [E|E].
        - subst id. left. reflexivity.
        - apply (Hi Hl). eapply udep_frame; [|exact U]. apply Fr. apply ko_neq. exact E. }
      assert (Dead : forall t e0, (e0 = true \/ t = true) -> RInv x (mkRS st' (ro_adv todo (mkRA t e0)))).
      { intros t e0 Hd. apply ro_adv_inv. intros Hl. exfalso. unfold ra_live in Hl. cbn [ra_td ra_err] in Hl.
        destruct Hd; subst; [rewrite andb_false_r in Hl | cbn in Hl]; discriminate. }
      destruct r as [|e|w|l|rdy|]; try (destruct (is_notfound_res _); apply Dead; auto).
      destruct rdy; [exact Keep | apply Dead; auto].
    - (* RDestroy *)
      destruct (a_apply now rc (ADestroy (ns, tout, r_id o) (Some 0)) st) as [st' r] eqn:Ea.
      destruct (r_destroy_spec _ _ _ _ _ Ea) as [Fr Hgone].
      cbn [ro_resume].
      assert (Next : (r = AOk \/ is_notfound_res r = true) -> RInv x (mkRS st' (ro_adv todo a))).
      { intros Hr. apply ro_adv_inv. intros Hl id U. unfold RInv in Hi. cbn [rs_pc rs_store] in Hi.
        destruct (N.eq_dec id (r_id o)) as [E|E].
        - subst id. destruct U as [d [Hd _]]. rewrite (Hgone Hr) in Hd. discriminate.
        - assert (U0 : udep x id st) by (eapply udep_frame; [|exact U]; apply Fr; apply ko_neq; exact E).
          destruct (Hi Hl id U0) as [E'|Hin]; [congruence | exact Hin]. }
      assert (Dead : RInv x (mkRS st' (ro_adv todo (mkRA (ra_td a) true)))).
      { apply ro_adv_inv. intros Hl. exfalso. unfold ra_live in Hl. cbn [ra_td ra_err] in Hl.
        rewrite andb_false_r in Hl. discriminate. }
      destruct r as [|e|w|l|rdy|]; try (apply Next; left; reflexivity);
        (destruct (is_notfound_res _) eqn:Hn; [apply Next; right; reflexivity | exact Dead]).
    - (* RRemFin *)
      destruct (a_apply now rc _ st) as [st' r]. cbn [ro_resume]. destruct r; exact I.
    - destruct (a_apply now rc _ st) as [st' r]. cbn [ro_resume]. destruct r; exact I.
    - exact Hi.
  Qed.

  (* what is assumed of the other parties: once the handler has listed the dependents (and until the pass ends) no new
     unowned dependent of the input appears *)
  Definition r_env_ok (x : atom) (st st' : store) : Prop := forall id, udep x id st' -> udep x id st.
  Definition in_handler (pc : rpc) : bool :=
    match pc with RTeardown _ _ _ | RDestroy _ _ _ | RRemFin => true | _ => false end.

  Fixpoint r_env_respects (x : atom) (s : rsys) (l : list rchoice) : Prop :=
    match l with
    | [] => True
    | ch :: t =>
        (match ch with
         | REnv now o => in_handler (rs_pc s) = true -> r_env_ok x (rs_store s) (apply_st now o (rs_store s))
         | _ => True
         end) /\
        r_env_respects x (ro_step x s ch) t
    end.

  Theorem ro_safety x l : forall s, RInv x s -> r_env_respects x s l -> RInv x (ro_run x s l).
  Proof.
    induction l as [|ch l IH]; intros s Hi Hr; [exact Hi|]. destruct Hr as [He Hr].
    unfold CleanupRO.ro_run. cbn [fold_left]. apply IH; [|exact Hr].
    destruct ch as [now|now o|].
    - apply ro_worker_inv. exact Hi.
    - destruct s as [st pc]. unfold RInv, CleanupRO.ro_step in *. cbn [rs_store rs_pc] in *.
      destruct pc; try exact Hi.
      + intros Hl id U. apply (Hi Hl). apply (He eq_refl). exact U.
      + intros Hl id U. apply (Hi Hl). apply (He eq_refl). exact U.
      + intros id U. apply (Hi id). apply (He eq_refl). exact U.
    - destruct s as [st pc]. unfold CleanupRO.ro_step. cbn [rs_pc rs_store]. destruct pc; exact Hi.
  Qed.

  (* third clause of C07 for the RemoveOutputs handler: at the instant RemoveFinalizer is issued on the torn-down input
     no unowned dependent of it exists (owned ones are their owner's to remove - the handler skips them by design) *)
  Theorem ro_release_only_without_unowned_dependents x l :
    r_env_respects x (mkRS [] R0) l ->
    let s := ro_run x (mkRS [] R0) l in
    rs_pc s = RRemFin -> forall id, ~ udep x id (rs_store s).
  Proof.
    intros Hr s Hpc. assert (Hi : RInv x s) by (apply ro_safety; [exact I | exact Hr]).
    unfold RInv in Hi. rewrite Hpc in Hi. exact Hi.
  Qed.

  (* and the release itself touches no dependent *)
  Theorem ro_release_touches_only_input now x st st' r id :
    a_apply now rc (ARemFin (ns, tin, x) [cname]) st = (st', r) -> st_get (ns, tout, id) st' = st_get (ns, tout, id) st.
  Proof. intros Ea. eapply r_remfin_frame; [exact Ea|]. apply ko_kin. Qed.
  (* what the handler may write: a worker step changes at most one key - the input itself (finalizer calls) or the
     dependent it is handling, which the listing showed as unowned; and a dependent disappears only by a Destroy with the
     empty owner, which the store grants only for an unowned resource without finalizers *)
  Lemma r_addfin_frame now x s s' r :
    a_apply now rc (AAddFin (ns, tin, x) [cname]) s = (s', r) ->
    forall k', key_eqb k' (ns, tin, x) = false -> st_get k' s' = st_get k' s.
  Proof.
    unfold a_apply. rewrite r_fin_in.
    destruct (st_get (ns, tin, x) s) as [cur|] eqn:Hk; [|intros H; inversion H; subst; reflexivity].
    destruct (s_uwc now (ns, tin, x) (MAddFin [cname]) (r_owner cur) None s) as [s1 r1] eqn:Eu.
    destruct (s_uwc_shape _ _ _ _ _ _ _ _ Eu) as [[Es [e [Er _]]] | [[Es [c [n [_ [_ [_ Er]]]]]] | [c [n [w [_ [_ [_ [_ [Er [_ Hg]]]]]]]]]]];
      subst r1; intros H; inversion H; subst; try reflexivity.
    intros k' Hk'. rewrite Hg, Hk'. reflexivity.
  Qed.

  Definition ro_target (x : atom) (pc : rpc) : key :=
    match pc with
    | RTeardown o _ _ | RDestroy o _ _ => (ns, tout, r_id o)
    | _ => (ns, tin, x)
    end.

  Theorem ro_step_touches_one_key now x s k' :
    key_eqb k' (ro_target x (rs_pc s)) = false ->
    st_get k' (rs_store (ro_step x s (RStep now))) = st_get k' (rs_store s).
  Proof.
    destruct s as [st pc]. unfold CleanupRO.ro_step, ro_target. cbn [rs_store rs_pc].
    destruct pc as [|inp|o todo a|o todo a| | |b]; cbn [ro_request]; intros Hk.
    - unfold a_apply, check_read, rctrl; simpl. rewrite !N.eqb_refl. simpl.
      destruct (is_output _ tin || true) eqn:E; [|rewrite orb_true_r in E; discriminate].
      destruct (st_get (ns, tin, x) st); reflexivity.
    - rewrite r_list_out. reflexivity.
    - destruct (a_apply now rc _ st) as [st' r] eqn:Ea. cbn [rs_store]. eapply r_teardown_frame; eassumption.
    - destruct (a_apply now rc _ st) as [st' r] eqn:Ea. cbn [rs_store].
      destruct (r_destroy_spec _ _ _ _ _ Ea) as [Fr _]. apply Fr. exact Hk.
    - destruct (a_apply now rc _ st) as [st' r] eqn:Ea. cbn [rs_store]. eapply r_remfin_frame; eassumption.
    - destruct (a_apply now rc _ st) as [st' r] eqn:Ea. cbn [rs_store]. eapply r_addfin_frame; eassumption.
    - reflexivity.
  Qed.

  Theorem ro_destroy_only_unowned_without_finalizers now id s s' :
    a_apply now rc (ADestroy (ns, tout, id) (Some 0)) s = (s', AOk) ->
    exists cur, st_get (ns, tout, id) s = Some cur /\ r_owner cur = 0 /\ r_fins cur = [].
  Proof.
    unfold a_apply. rewrite r_is_out. unfold apply. destruct (st_get (ns, tout, id) s) as [cur|] eqn:Hk; [|intros H; inversion H].
    destruct (N.eqb_spec (r_owner cur) 0) as [Eo|Eo]; simpl; [|intros H; inversion H].
    destruct (r_fins cur) eqn:Ef; [|intros H; inversion H]. intros _. exists cur. auto.
  Qed.

End ROProofs.

(* non-vacuity: input 7 with the finalizer and one unowned dependent (label 9 = 7) plus an owned one; the input is torn
   down; the controller tears the unowned dependent down, destroys it, skips the owned one and reaches the release *)
Example ro_release_reached :
  let inp := mkRes 1 2 7 None 0 false [4] [] 0 0 70 in
  let d1 := mkRes 1 3 20 None 0 false [] [(9, 7)] 0 0 1 in
  let d2 := mkRes 1 3 21 None 0 false [] [(9, 7)] 0 0 2 in
  let td := mkRes 1 2 7 (Some 1) 0 true [4] [] 0 0 70 in
  let l := [REnv 1 (OpCreate inp 0); REnv 1 (OpCreate d1 0); REnv 1 (OpCreate d2 55); REnv 2 (OpUpdate td 0 None);
            RStep 3; RStep 3; RStep 3; RStep 3] in
  let s := ro_run 1 2 3 4 9 7 (mkRS [] R0) l in
  r_env_respects 1 2 3 4 9 7 (mkRS [] R0) l /\ rs_pc s = RRemFin /\
  st_get (1, 3, 20) (rs_store s) = None /\ st_get (1, 3, 21) (rs_store s) <> None.
Proof.
  cbv zeta. split; [|repeat split; vm_compute; congruence].
  cbn [r_env_respects]. repeat split; try exact I; vm_compute; discriminate.
Qed.
