(* CodecCheck.v — correspondence tables for the text forms and the framing logic. *)
From Verif Require Import Text Frame.
Open Scope N_scope.

Fixpoint mism_from {A} (f : A -> bool) (i : N) (l : list A) : list N :=
  match l with
  | [] => []
  | x :: t => if f x then mism_from f (N.succ i) t else i :: mism_from f (N.succ i) t
  end.

Definition optN_eqb (a b : option N) : bool :=
  match a, b with Some x, Some y => N.eqb x y | None, None => true | _, _ => false end.

(* ---- text forms ---- *)
Inductive tcase :=
| TParseVersion (s : list N) (ok : bool) (v : option N)     (* ParseVersion(s): accepted?, value (None = undefined) *)
| TVersionString (v : option N) (s : list N)                 (* Version.String() *)
| TParsePhase (s : list N) (r : option bool)
| TPhaseString (p : bool) (s : list N).

Definition tcase_ok (c : tcase) : bool :=
  match c with
  | TParseVersion s ok v =>
      match parse_version s with
      | Some v' => ok && optN_eqb v v'
      | None => negb ok
      end
  | TVersionString v s => bytes_eqb (ver_string v) s
  | TParsePhase s r =>
      match parse_phase s, r with
      | Some a, Some b => Bool.eqb a b
      | None, None => true
      | _, _ => false
      end
  | TPhaseString p s => bytes_eqb (phase_string p) s
  end.

Definition text_mismatches (cs : list tcase) : list N := mism_from tcase_ok 0 cs.

(* ---- framing: stacks of compression layers with the harness' toy compressor (reversal, ID 't') over a fake
   innermost marshaler that emits / receives the payload bytes verbatim ---- *)
Definition toy_id : N := 116.
Definition toy_compress (b : bytes) : bytes := rev b.
Definition toy_decompress (b : bytes) : option bytes := Some (rev b).

(* no encryption layers in these stacks: key type unit *)
Definition no_seal (k : unit) (n b : bytes) : bytes := b.
Definition no_open (k : unit) (n b : bytes) : option bytes := Some b.

Definition mk_stack (mins : list nat) : list (layer unit) := map (LComp unit) mins.

Inductive fcase :=
| FMarshal (mins : list nat) (payload out : bytes)                 (* real stack output *)
| FUnmarshal (mins : list nat) (input : bytes) (r : option bytes). (* what reached the innermost decoder, or error *)

Definition obytes_eqb (a b : option bytes) : bool :=
  match a, b with Some x, Some y => bytes_eqb x y | None, None => true | _, _ => false end.

Definition fcase_ok (c : fcase) : bool :=
  match c with
  | FMarshal mins p out => bytes_eqb (marshal toy_compress toy_id unit no_seal (mk_stack mins) [] p) out
  | FUnmarshal mins i r => obytes_eqb (unmarshal toy_decompress toy_id unit no_open (mk_stack mins) i) r
  end.

Definition frame_mismatches (cs : list fcase) : list N := mism_from fcase_ok 0 cs.
