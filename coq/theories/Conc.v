(* Conc.v — generic linearizability of "atomic body under a lock" objects.

   Every ResourceCollection method has the shape  invoke ; [lock; body; unlock] ; return  where the
   body (check + store + publish) runs entirely inside one critical section of the collection mutex.
   This file proves, for an arbitrary sequential step function, any number of threads, any programs
   and any schedule, that the concurrent history is linearizable with the order of the atomic bodies
   as witness.  That the Go mutex really makes the body atomic is the trusted assumption (sampled by
   the concurrent correspondence runs). *)
From Coq Require Import List Arith Lia.
Import ListNotations.

Section Conc.
  Variables (St Op Res : Type).
  Variable step : Op -> St -> St * Res.
  Variable init : St.

  Definition tid := nat.

  (* history events carry the global time at which they happened *)
  Inductive hev :=
  | Inv (time : nat) (t : tid) (o : Op)
  | Ret (time : nat) (t : tid) (r : Res).

  Inductive phase :=
  | Idle
  | Invoked (t_inv : nat) (o : Op)
  | Done (t_inv t_body : nat) (o : Op) (r : Res).

  (* a linearization entry: the operation, its result and when it was invoked / took effect *)
  Record lent := mkL { l_tid : tid; l_op : Op; l_res : Res; l_inv : nat; l_body : nat }.

  Record cst := mkC {
    c_st : St;
    c_ph : tid -> phase;
    c_time : nat;
    c_hist : list hev;       (* newest first *)
    c_lin : list lent        (* newest first *)
  }.

  Definition upd (f : tid -> phase) (t : tid) (p : phase) : tid -> phase :=
    fun t' => if Nat.eqb t' t then p else f t'.

  Definition c_init : cst := mkC init (fun _ => Idle) 0 [] [].

  (* a schedule is a sequence of choices; any thread may invoke any operation when idle *)
  Inductive cstep : cst -> cst -> Prop :=
  | s_inv c t o :
      c_ph c t = Idle ->
      cstep c (mkC (c_st c) (upd (c_ph c) t (Invoked (c_time c) o)) (S (c_time c))
                   (Inv (c_time c) t o :: c_hist c) (c_lin c))
  | s_body c t ti o :
      c_ph c t = Invoked ti o ->
      cstep c (mkC (fst (step o (c_st c))) (upd (c_ph c) t (Done ti (c_time c) o (snd (step o (c_st c)))))
                   (S (c_time c)) (c_hist c)
                   (mkL t o (snd (step o (c_st c))) ti (c_time c) :: c_lin c))
  | s_ret c t ti tb o r :
      c_ph c t = Done ti tb o r ->
      cstep c (mkC (c_st c) (upd (c_ph c) t Idle) (S (c_time c))
                   (Ret (c_time c) t r :: c_hist c) (c_lin c)).

  Inductive creach : cst -> Prop :=
  | cr_init : creach c_init
  | cr_step c c' : creach c -> cstep c c' -> creach c'.

  (* results recorded in the linearization are exactly what the sequential object returns *)
  Inductive seq_ok : St -> list lent -> St -> Prop :=
  | seq_nil s : seq_ok s [] s
  | seq_cons s e l s' :
      l_res e = snd (step (l_op e) s) ->
      seq_ok (fst (step (l_op e) s)) l s' ->
      seq_ok s (e :: l) s'.

  Lemma seq_ok_snoc s l s' e :
    seq_ok s l s' -> l_res e = snd (step (l_op e) s') ->
    seq_ok s (l ++ [e]) (fst (step (l_op e) s')).
  Proof.
    induction 1 as [s0|s0 e0 l0 s1 Hr Hs IH]; intros He; simpl.
    - constructor; [exact He | constructor].
    - constructor; [exact Hr | apply IH; exact He].
  Qed.

  Record CInv (c : cst) : Prop := mkCInv {
    (* 1. the bodies, in the order they ran, are a legal sequential execution ending in the current state *)
    ci_seq : seq_ok init (rev (c_lin c)) (c_st c);
    (* 2. body times are strictly decreasing along c_lin (newest first) and below the clock *)
    ci_sorted : forall e, In e (c_lin c) -> l_inv e < l_body e /\ l_body e < c_time c;
    ci_order : forall l1 e1 l2, c_lin c = l1 ++ e1 :: l2 -> forall e2, In e2 l2 -> l_body e2 < l_body e1;
    (* 3. every linearized operation was invoked (before its body) *)
    ci_inv : forall e, In e (c_lin c) -> In (Inv (l_inv e) (l_tid e) (l_op e)) (c_hist c);
    (* 4. every return corresponds to a linearized operation whose body precedes the return *)
    ci_ret : forall tr t r, In (Ret tr t r) (c_hist c) ->
             exists e, In e (c_lin c) /\ l_tid e = t /\ l_res e = r /\ l_body e < tr;
    (* 5. history times are below the clock; thread phases are consistent with the clock and c_lin *)
    ci_htime : forall h, In h (c_hist c) -> match h with Inv tm _ _ | Ret tm _ _ => tm < c_time c end;
    ci_phase : forall t, match c_ph c t with
                         | Idle => True
                         | Invoked ti o => ti < c_time c /\ In (Inv ti t o) (c_hist c)
                         | Done ti tb o r => In (mkL t o r ti tb) (c_lin c)
                         end
  }.

  Lemma CInv_init : CInv c_init.
  Proof.
    constructor; simpl; try (intros; contradiction); try constructor.
    intros l1 e1 l2 H. destruct l1; discriminate.
  Qed.

  Lemma upd_same f t p : upd f t p t = p.
  Proof. unfold upd. rewrite Nat.eqb_refl. reflexivity. Qed.
  Lemma upd_other f t p t' : t' <> t -> upd f t p t' = f t'.
  Proof. unfold upd. intros H. destruct (Nat.eqb_spec t' t); [contradiction | reflexivity]. Qed.

  Lemma CInv_step c c' : CInv c -> cstep c c' -> CInv c'.
  Proof.
    intros [I1 I2 I3 I4 I5 I6 I7] Hs.
    destruct Hs as [c t o Hp | c t ti o Hp | c t ti tb o r Hp].
    - (* invoke *)
      constructor; simpl.
      + exact I1.
      + intros e He. destruct (I2 e He). lia.
      + exact I3.
      + intros e He. right. apply I4. exact He.
      + intros tr t' r [H|H]; [discriminate | apply (I5 _ _ _ H)].
      + intros h [<-|H]; [lia|]. specialize (I6 h H). destruct h; lia.
      + intros t'. destruct (Nat.eq_dec t' t) as [->|Hne].
        * rewrite upd_same. split; [lia | left; reflexivity].
        * rewrite upd_other by exact Hne. specialize (I7 t').
          destruct (c_ph c t') as [|ti' o'|ti' tb' o' r']; [exact I | | exact I7].
          destruct I7. split; [lia | right; assumption].
    - (* body *)
      pose proof (I7 t) as Ht. rewrite Hp in Ht. destruct Ht as [Hti Hinv].
      constructor; simpl.
      + apply seq_ok_snoc; [exact I1 | reflexivity].
      + intros e [<-|He]; simpl; [lia|]. destruct (I2 e He). lia.
      + intros l1 e1 l2 Heq e2 He2. destruct l1 as [|x l1]; simpl in Heq; inversion Heq; subst.
        * simpl. destruct (I2 e2 He2). lia.
        * eapply I3; eauto.
      + intros e [<-|He]; simpl; [exact Hinv | apply I4; exact He].
      + intros tr t' r Hr. destruct (I5 _ _ _ Hr) as [e [H1 H2]]. exists e. split; [right; exact H1 | exact H2].
      + intros h H. specialize (I6 h H). destruct h; lia.
      + intros t'. destruct (Nat.eq_dec t' t) as [->|Hne].
        * rewrite upd_same. left. reflexivity.
        * rewrite upd_other by exact Hne. specialize (I7 t').
          destruct (c_ph c t') as [|ti' o'|ti' tb' o' r']; [exact I | | right; exact I7].
          destruct I7. split; [lia | assumption].
    - (* return *)
      pose proof (I7 t) as Ht. rewrite Hp in Ht.
      constructor; simpl.
      + exact I1.
      + intros e He. destruct (I2 e He). lia.
      + exact I3.
      + intros e He. right. apply I4. exact He.
      + intros tr t' r' [H|H].
        * inversion H; subst. exists (mkL t' o r' ti tb). simpl. repeat split; try assumption.
          destruct (I2 _ Ht). simpl in *. lia.
        * apply (I5 _ _ _ H).
      + intros h [<-|H]; [lia|]. specialize (I6 h H). destruct h; lia.
      + intros t'. destruct (Nat.eq_dec t' t) as [->|Hne].
        * rewrite upd_same. exact I.
        * rewrite upd_other by exact Hne. specialize (I7 t').
          destruct (c_ph c t') as [|ti' o'|ti' tb' o' r']; [exact I | | exact I7].
          destruct I7. split; [lia | right; assumption].
  Qed.

  Theorem creach_inv c : creach c -> CInv c.
  Proof. induction 1; [apply CInv_init | eapply CInv_step; eauto]. Qed.

  (* The linearizability theorem: the order of atomic bodies is a sequential witness that
     (a) is a legal sequential execution producing exactly the returned results and the final state,
     (b) contains every returned operation,
     (c) respects real time: if a returned before b was invoked, a precedes b in the witness. *)
  Theorem linearizable c :
    creach c ->
    seq_ok init (rev (c_lin c)) (c_st c) /\
    (forall tr t r, In (Ret tr t r) (c_hist c) ->
       exists e, In e (c_lin c) /\ l_tid e = t /\ l_res e = r /\ l_body e < tr) /\
    (forall ea eb tr, In ea (c_lin c) -> In eb (c_lin c) ->
       In (Ret tr (l_tid ea) (l_res ea)) (c_hist c) -> l_body ea < tr -> tr < l_inv eb ->
       l_body ea < l_body eb) /\
    (forall l1 e1 l2 e2, c_lin c = l1 ++ e1 :: l2 -> In e2 l2 -> l_body e2 < l_body e1).
  Proof.
    intros Hr. apply creach_inv in Hr. destruct Hr as [I1 I2 I3 I4 I5 I6 I7].
    split; [exact I1|]. split; [exact I5|]. split.
    - intros ea eb tr Ha Hb _ H1 H2. destruct (I2 eb Hb). lia.
    - intros l1 e1 l2 e2 Heq He2. eapply I3; eauto.
  Qed.
End Conc.
