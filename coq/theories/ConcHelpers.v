(* ConcHelpers.v — any number of concurrent read-modify-write helper calls on one resource: every call, seen from
   its own side, runs against an environment made of the other callers' store operations, so the single-call
   atomicity theorem (HelpersProofs.rmw_atomic) applies to each of them. *)
From Verif Require Import Store StoreProofs Helpers HelpersProofs.
From Coq Require Import Lia.
Open Scope N_scope.

Section Multi.
  Variable cs : list hcall.                (* the concurrent calls (UpdateWithConflicts, Modify, Add/RemoveFinalizer, Teardown) *)

  Record mst := mkM { m_store : store; m_pcs : list hpc }.

  Definition m_init (s0 : store) : mst := mkM s0 (map (fun _ => P0) cs).

  Fixpoint upd_nth {A} (n : nat) (x : A) (l : list A) : list A :=
    match l, n with
    | [], _ => []
    | _ :: t, O => x :: t
    | y :: t, S n' => y :: upd_nth n' x t
    end.

  (* caller j performs the next CoreState call of its helper *)
  Definition mstep (s : mst) (ch : nat * Z) : mst :=
    let '(j, now) := ch in
    match nth_error cs j, nth_error (m_pcs s) j with
    | Some c, Some pc =>
        match request c pc with
        | QGet k' => mkM (m_store s) (upd_nth j (resume c pc (SGot (st_get k' (m_store s)))) (m_pcs s))
        | QUpdate r owner exp =>
            let '(st', res, _) := apply now (OpUpdate r owner exp) (m_store s) in
            mkM st' (upd_nth j (resume c pc (SRes res)) (m_pcs s))
        | QCreate r owner =>
            let '(st', res, _) := apply now (OpCreate r owner) (m_store s) in
            mkM st' (upd_nth j (resume c pc (SRes res)) (m_pcs s))
        | _ => s
        end
    | _, _ => s
    end.

  Definition mrun (s : mst) (sched : list (nat * Z)) : mst := fold_left mstep sched s.

  (* the store operation behind a caller's next step *)
  Definition thread_op (c : hcall) (pc : hpc) : op :=
    match request c pc with
    | QUpdate r owner exp => OpUpdate r owner exp
    | QCreate r owner => OpCreate r owner
    | QGet k' => OpGet k'
    | _ => OpGet (h_key c)
    end.

  (* the run as caller i sees it *)
  Fixpoint project (i : nat) (s : mst) (sched : list (nat * Z)) : list ochoice :=
    match sched with
    | [] => []
    | (j, now) :: rest =>
        (if Nat.eqb j i then OThread now
         else match nth_error cs j, nth_error (m_pcs s) j with
              | Some c, Some pc => OEnv now (thread_op c pc)
              | _, _ => OEnv now (OpGet (0, 0, 0))
              end) :: project i (mstep s (j, now)) rest
    end.
End Multi.
