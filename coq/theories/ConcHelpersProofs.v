From Verif Require Import Store StoreProofs Helpers HelpersProofs ConcHelpers.
From Coq Require Import Lia Arith.
Open Scope N_scope.

Lemma nth_upd_same {A} n (x : A) l : (n < length l)%nat -> nth_error (upd_nth n x l) n = Some x.
Proof. revert n. induction l as [|y l IH]; intros [|n] H; simpl in *; try lia; [reflexivity | apply IH; lia]. Qed.
Lemma nth_upd_other {A} n m (x : A) l : n <> m -> nth_error (upd_nth n x l) m = nth_error l m.
Proof.
  revert n m. induction l as [|y l IH]; intros [|n] [|m] H; simpl; try reflexivity; try congruence. apply IH. congruence.
Qed.
Lemma upd_length {A} n (x : A) l : length (upd_nth n x l) = length l.
Proof. revert n. induction l as [|y l IH]; intros [|n]; simpl; auto. Qed.

Lemma get_pure now k' s : apply now (OpGet k') s = (s, match st_get k' s with Some r => RGot r | None => RErr ENotFound end, None).
Proof. unfold apply. destruct (st_get k' s); reflexivity. Qed.

Section Proj.
  Variable cs : list hcall.
  Variable i : nat.
  Variable c : hcall.
  Hypothesis Hc : nth_error cs i = Some c.

  Notation mstep := (mstep cs).
  Notation project := (project cs).

  (* one step of the system = one step of caller i's view *)
  Lemma project_step s ch o :
    o_store o = m_store s -> nth_error (m_pcs s) i = Some (o_pc o) ->
    let o' := ostep c o (hd (OThread 0) (project i s [ch])) in
    o_store o' = m_store (mstep s ch) /\ nth_error (m_pcs (mstep s ch)) i = Some (o_pc o').
  Proof.
    intros Hs Hp. destruct ch as [j now]. cbn [ConcHelpers.project hd].
    assert (Li : (i < length (m_pcs s))%nat) by (apply nth_error_Some; congruence).
    destruct (Nat.eqb_spec j i) as [E|E].
    - (* caller i itself *)
      subst j. unfold ConcHelpers.mstep. rewrite Hc, Hp. cbn [ostep]. rewrite Hs.
      destruct (request c (o_pc o)) as [k'|r owner exp|r owner|k' owner|k'| |] eqn:Er.
      + cbn [o_store o_pc m_store m_pcs]. split; [reflexivity | apply nth_upd_same; exact Li].
      + destruct (apply now (OpUpdate r owner exp) (m_store s)) as [[st' res] ev]. cbn [o_store o_pc m_store m_pcs].
        split; [reflexivity | apply nth_upd_same; exact Li].
      + destruct (apply now (OpCreate r owner) (m_store s)) as [[st' res] ev]. cbn [o_store o_pc m_store m_pcs].
        split; [reflexivity | apply nth_upd_same; exact Li].
      + split; [exact Hs | exact Hp].
      + split; [exact Hs | exact Hp].
      + split; [exact Hs | exact Hp].
      + split; [exact Hs | exact Hp].
    - (* another caller: an environment operation for caller i *)
      unfold ConcHelpers.mstep.
      destruct (nth_error cs j) as [cj|] eqn:Ecj; [destruct (nth_error (m_pcs s) j) as [pcj|] eqn:Epj|].
      + cbn [ostep]. unfold thread_op. rewrite Hs.
        destruct (request cj pcj) as [k'|r owner exp|r owner|k' owner|k'| |] eqn:Er.
        * rewrite get_pure. cbn [o_store o_pc m_store m_pcs]. split; [reflexivity | rewrite nth_upd_other by exact E; exact Hp].
        * destruct (apply now (OpUpdate r owner exp) (m_store s)) as [[st' res] ev]. cbn [o_store o_pc m_store m_pcs].
          split; [reflexivity | rewrite nth_upd_other by exact E; exact Hp].
        * destruct (apply now (OpCreate r owner) (m_store s)) as [[st' res] ev]. cbn [o_store o_pc m_store m_pcs].
          split; [reflexivity | rewrite nth_upd_other by exact E; exact Hp].
        * rewrite get_pure. cbn [o_store o_pc]. split; [reflexivity | exact Hp].
        * rewrite get_pure. cbn [o_store o_pc]. split; [reflexivity | exact Hp].
        * rewrite get_pure. cbn [o_store o_pc]. split; [reflexivity | exact Hp].
        * rewrite get_pure. cbn [o_store o_pc]. split; [reflexivity | exact Hp].
      + cbn [ostep]. rewrite get_pure. cbn [o_store o_pc]. split; [exact Hs | exact Hp].
      + cbn [ostep]. rewrite get_pure. cbn [o_store o_pc]. split; [exact Hs | exact Hp].
  Qed.

  Lemma project_run sched : forall s o,
    o_store o = m_store s -> nth_error (m_pcs s) i = Some (o_pc o) ->
    let o' := fold_left (ostep c) (project i s sched) o in
    o_store o' = m_store (mrun cs s sched) /\ nth_error (m_pcs (mrun cs s sched)) i = Some (o_pc o').
  Proof.
    induction sched as [|ch rest IH]; intros s o Hs Hp; [split; assumption|].
    destruct ch as [j now]. cbn [ConcHelpers.project fold_left mrun].
    destruct (project_step s (j, now) o Hs Hp) as [A B]. cbn [ConcHelpers.project hd] in A, B.
    apply IH; assumption.
  Qed.

  (* the other callers never destroy: caller i's view is an admissible environment *)
  Lemma project_env_ok sched : forall s, Forall (env_ok c) (project i s sched).
  Proof.
    induction sched as [|[j now] rest IH]; intros s; cbn [ConcHelpers.project]; constructor; [|apply IH].
    destruct (Nat.eqb j i); [exact I|].
    destruct (nth_error cs j) as [cj|]; [destruct (nth_error (m_pcs s) j) as [pcj|]|]; try exact I.
    unfold thread_op. destruct (request cj pcj); exact I.
  Qed.
End Proj.

Section NCallers.
  Variable cs : list hcall.

  (* C04 for any number of concurrent callers: for every caller i of the read-modify-write family, every schedule of
     all callers' steps: when caller i has finished, either it failed and wrote nothing, or its mutation was applied
     exactly once on the value its committing write replaced and the returned object is the committed one *)
  Theorem rmw_atomic_n i c s0 sched :
    nth_error cs i = Some c ->
    (match h_kind c with KUwc | KTeardown | KFin => True | KModify e => r_key e = h_key c | _ => False end) ->
    (forall r, st_get (h_key c) s0 = Some r -> exists v, r_ver r = Some v) ->
    (* versions do not wrap during the run *)
    (forall pre, (exists post, sched = pre ++ post) ->
                 forall r v, st_get (h_key c) (m_store (mrun cs (m_init cs s0) pre)) = Some r -> r_ver r = Some v -> v + 1 < two64) ->
    exists o, verdict c o /\ o_store o = m_store (mrun cs (m_init cs s0) sched) /\
              nth_error (m_pcs (mrun cs (m_init cs s0) sched)) i = Some (o_pc o).
  Proof.
    intros Hc Hk Hv Hw.
    assert (Hp0 : nth_error (m_pcs (m_init cs s0)) i = Some P0).
    { unfold m_init. cbn [m_pcs]. rewrite nth_error_map, Hc. reflexivity. }
    set (o0 := o_init c s0).
    assert (Hs0 : o_store o0 = m_store (m_init cs s0)) by reflexivity.
    assert (Hpc0 : nth_error (m_pcs (m_init cs s0)) i = Some (o_pc o0)) by exact Hp0.
    exists (fold_left (ostep c) (project cs i (m_init cs s0) sched) o0).
    destruct (project_run cs i c Hc sched _ o0 Hs0 Hpc0) as [A B]. split; [|split; assumption].
    apply (rmw_atomic c Hk s0 _ Hv).
    (* run_ok: environment admissible at every step, no wrap at every prefix *)
    assert (G : forall sched' s o pre, sched = pre ++ sched' -> s = mrun cs (m_init cs s0) pre ->
               o_store o = m_store s -> nth_error (m_pcs s) i = Some (o_pc o) ->
               run_ok c o (project cs i s sched')).
    { induction sched' as [|[j now] rest IH]; intros s o pre Hsplit Hs Hso Hpo; [exact I|].
      cbn [ConcHelpers.project run_ok]. split; [|split].
      - pose proof (project_env_ok cs i c ((j, now) :: rest) s) as F. cbn [ConcHelpers.project] in F. inversion F; assumption.
      - unfold nowrap. rewrite Hso, Hs. apply Hw. eauto.
      - destruct (project_step cs i c Hc s (j, now) o Hso Hpo) as [A' B']. cbn [ConcHelpers.project hd] in A', B'.
        apply (IH _ _ (pre ++ [(j, now)])); [rewrite <- app_assoc; exact Hsplit | | exact A' | exact B'].
        subst s. unfold mrun. rewrite fold_left_app. reflexivity. }
    apply (G sched _ o0 []); auto.
  Qed.
End NCallers.
