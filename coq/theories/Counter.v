(* Counter.v — "no successful mutation is lost or applied twice", counted: any number of concurrent
   UpdateWithConflicts calls that each apply the non-idempotent mutator MBump to one resource, under any schedule of
   their CoreState steps. At every moment the stored counter equals the initial one plus the number of calls that have
   reported success so far, and the version has advanced by the same number. *)
From Verif Require Import Store StoreProofs Helpers HelpersProofs ConcHelpers.
From Coq Require Import Lia ZifyN ZifyNat ZifyBool.
Open Scope N_scope.

Local Opaque st_put st_del.

Definition bumpB : N := 4294967296.

Definition is_ok (pc : hpc) : bool := match pc with PDone (HOk _) => true | _ => false end.
Definition count_ok (pcs : list hpc) : nat := length (filter is_ok pcs).

Lemma count_ok_upd j x l old :
  nth_error l j = Some old ->
  (count_ok (upd_nth j x l) + (if is_ok old then 1 else 0) = count_ok l + (if is_ok x then 1 else 0))%nat.
Proof.
  unfold count_ok. revert j; induction l as [|y l IH]; intros [|j] H; simpl in H; try discriminate.
  - inversion H; subst. simpl. destruct (is_ok old), (is_ok x); simpl; lia.
  - simpl. specialize (IH j H). destruct (is_ok y); simpl; lia.
Qed.

Lemma upd_nth_length {A} j (x : A) l : length (upd_nth j x l) = length l.
Proof. revert j; induction l as [|y l IH]; intros [|j]; simpl; auto. Qed.

Lemma nth_upd_nth {A} j i (x : A) l :
  nth_error (upd_nth j x l) i = if Nat.eqb i j then (match nth_error l j with Some _ => Some x | None => None end) else nth_error l i.
Proof.
  revert j i; induction l as [|y l IH]; intros j i.
  - destruct i, j; simpl; try reflexivity; destruct (Nat.eqb _ _); reflexivity.
  - destruct j, i; simpl; try reflexivity. apply IH.
Qed.

Lemma bump_not_equal cur new : mutate MBump cur = Some new -> res_equal cur new = false.
Proof.
  cbn [mutate]. intros H; inversion H; subst; clear H. unfold res_equal, set_fields; cbn.
  destruct (N.eqb_spec (r_spec cur) 0) as [E|E].
  - rewrite E. rewrite !Bool.andb_false_r. reflexivity.
  - replace (r_spec cur =? r_spec cur + 4294967296) with false by (symmetry; apply N.eqb_neq; lia).
    rewrite !Bool.andb_false_r. reflexivity.
Qed.

Lemma count_ok_init {A} (l : list A) : count_ok (map (fun _ => P0) l) = 0%nat.
Proof. unfold count_ok. induction l as [|c l IHl]; [reflexivity | cbn; exact IHl]. Qed.

Lemma plain_owner ns typ : plain_conflict (EOwnerConflict ns typ) = false.
Proof. reflexivity. Qed.
Lemma plain_phase ns typ : plain_conflict (EPhaseConflict ns typ) = false.
Proof. reflexivity. Qed.
Lemma plain_conf ns typ : plain_conflict (EConflict ns typ) = true.
Proof. reflexivity. Qed.

Section Counter.
  Variable cs : list hcall.
  Variable k : key.
  Hypothesis all_bump : forall j c, nth_error cs j = Some c -> h_kind c = KUwc /\ h_key c = k /\ h_mut c = MBump.

  Variable v0 spec0 : N.
  Hypothesis spec_nz : spec0 <> 0.

  (* a value the resource has held: version v0+m, counter spec0 + m*B *)
  Definition past (n : nat) (r : res) : Prop :=
    r_key r = k /\ exists m, (m <= n)%nat /\ r_ver r = Some (v0 + N.of_nat m) /\ r_spec r = spec0 + N.of_nat m * bumpB.

  Definition pc_ok (n : nat) (pc : hpc) : Prop :=
    match pc with
    | P0 | PU _ _ | PDone _ => True
    | PUpd _ _ cur new => past n cur /\ mutate MBump cur = Some new
    | _ => False
    end.

  Record CInv (s : mst) : Prop := mkCInv {
    ci_len : length (m_pcs s) = length cs;
    ci_cur : exists cur, st_get k (m_store s) = Some cur /\ r_key cur = k /\
               r_ver cur = Some (v0 + N.of_nat (count_ok (m_pcs s))) /\
               r_spec cur = spec0 + N.of_nat (count_ok (m_pcs s)) * bumpB;
    ci_pcs : forall j pc, nth_error (m_pcs s) j = Some pc -> pc_ok (count_ok (m_pcs s)) pc
  }.

  Lemma pc_ok_mono n n' pc : (n <= n')%nat -> pc_ok n pc -> pc_ok n' pc.
  Proof.
    intros Hn. destruct pc; simpl; auto. intros [[Hk [m [Hm Hr]]] Hmu]. split; [|exact Hmu].
    split; [exact Hk|]. exists m. split; [lia | exact Hr].
  Qed.

  Lemma uwc_after_get_bump c owner exp cur n :
    h_mut c = MBump -> past n cur ->
    match uwc_after_get c owner exp cur with
    | PDone (HFail _) => True
    | PUpd o e cur' new => cur' = cur /\ mutate MBump cur = Some new
    | _ => False
    end.
  Proof.
    intros Hm Hp. unfold uwc_after_get. rewrite Hm.
    destruct (match exp with Some p => negb (Bool.eqb p (r_phase cur)) | None => false end); [exact I|].
    destruct (mutate MBump cur) as [new|] eqn:E; [|exact I].
    rewrite (bump_not_equal _ _ E). split; reflexivity.
  Qed.

  Lemma CInv_step s j now :
    CInv s ->
    (v0 + N.of_nat (count_ok (m_pcs s)) + 1 < two64) ->
    CInv (mstep cs s (j, now)).
  Proof.
    intros [Hlen [cur [Hget [Hkey [Hver Hspec]]]] Hpcs] Hwrap. cbn [mstep].
    destruct (nth_error cs j) as [c|] eqn:Ec; [|constructor; eauto].
    destruct (nth_error (m_pcs s) j) as [pc|] eqn:Epc; [|constructor; eauto].
    destruct (all_bump _ _ Ec) as [Hkind [Hk Hmut]].
    pose proof (Hpcs _ _ Epc) as Hok.
    set (n := count_ok (m_pcs s)) in *.
    assert (Hpast_cur : past n cur).
    { split; [exact Hkey|]. exists n. split; [lia|]. split; assumption. }
    (* a step that leaves the store alone and replaces pc by a non-success pc' keeps everything *)
    assert (Keep : forall pc', is_ok pc' = false -> is_ok pc = false -> pc_ok n pc' ->
                   CInv (mkM (m_store s) (upd_nth j pc' (m_pcs s)))).
    { intros pc' Hn' Hn Hok'.
      pose proof (count_ok_upd j pc' (m_pcs s) pc Epc) as Hc. rewrite Hn, Hn' in Hc.
      assert (Hcnt : count_ok (upd_nth j pc' (m_pcs s)) = n) by (unfold n; lia).
      constructor; cbn [m_store m_pcs].
      - rewrite upd_nth_length. exact Hlen.
      - rewrite Hcnt. exists cur. repeat split; assumption.
      - rewrite Hcnt. intros i pci Hi. rewrite nth_upd_nth in Hi.
        destruct (Nat.eqb i j); [rewrite Epc in Hi; inversion Hi; subst; exact Hok' | apply (Hpcs _ _ Hi)]. }
    destruct pc as [|owner exp|owner exp cur' new|new| | | |r]; cbn [request]; rewrite ?Hkind; cbn [pc_ok] in Hok; try contradiction.
    - (* P0: Get *)
      rewrite Hk, Hget. cbn [resume]. rewrite Hkind.
      pose proof (uwc_after_get_bump c (h_owner c) (h_exp c) cur n Hmut Hpast_cur) as Hs.
      destruct (uwc_after_get c (h_owner c) (h_exp c) cur) as [| |o e c' nw| | | | |[e|w| |]]; try contradiction.
      + destruct Hs as [-> Hmu]. apply Keep; [reflexivity | reflexivity | split; assumption].
      + apply Keep; [reflexivity | reflexivity | exact I].
    - (* PU: Get again *)
      rewrite Hk, Hget. cbn [resume].
      pose proof (uwc_after_get_bump c owner exp cur n Hmut Hpast_cur) as Hs.
      destruct (uwc_after_get c owner exp cur) as [| |o e c' nw| | | | |[e|w| |]]; try contradiction.
      + destruct Hs as [-> Hmu]. apply Keep; [reflexivity | reflexivity | split; assumption].
      + apply Keep; [reflexivity | reflexivity | exact I].
    - (* PUpd: Update *)
      destruct Hok as [[Hk' [m [Hm [Hv' Hs']]]] Hmu].
      destruct (mutate_preserves _ _ _ Hmu) as [Knew [Vnew [Onew _]]].
      assert (Snew : r_spec new = r_spec cur' + bumpB).
      { cbn [mutate] in Hmu. inversion Hmu; subst new; cbn.
        destruct (N.eqb_spec (r_spec cur') 0) as [E|E]; [|reflexivity]. rewrite Hs' in E. unfold bumpB in E. lia. }
      unfold apply. rewrite Knew, Hk', Hget.
      destruct (negb (r_owner cur =? owner)) eqn:Eo.
      { cbn [resume]. rewrite plain_owner. apply Keep; [reflexivity | reflexivity | exact I]. }
      destruct (negb (ver_eqb (r_ver cur) (r_ver new))) eqn:Ev.
      { cbn [resume]. rewrite plain_conf. apply Keep; [reflexivity | reflexivity | exact I]. }
      destruct (match exp with Some p => negb (Bool.eqb (r_phase cur) p) | None => false end) eqn:Ep.
      { cbn [resume]. rewrite plain_phase. apply Keep; [reflexivity | reflexivity | exact I]. }
      (* the write commits *)
      cbn [resume]. unfold after_commit. rewrite Hkind.
      apply Bool.negb_false_iff in Ev. rewrite Hver, Vnew, Hv' in Ev. cbn [ver_eqb] in Ev. apply N.eqb_eq in Ev.
      assert (Hmn : m = n) by lia. subst m.
      set (w := with_ver_times new (ver_next (r_ver new)) (r_created cur) now).
      pose proof (count_ok_upd j (PDone (HOk w)) (m_pcs s) _ Epc) as Hc. cbn [is_ok] in Hc.
      assert (Hcnt : count_ok (upd_nth j (PDone (HOk w)) (m_pcs s)) = S n) by (unfold n; lia).
      constructor; cbn [m_store m_pcs].
      + rewrite upd_nth_length. exact Hlen.
      + rewrite Hcnt. exists w. rewrite st_get_put.
        assert (Kw : r_key w = k) by (unfold w, with_ver_times, r_key in *; cbn; exact (eq_trans Knew Hk')).
        replace (key_eqb k (r_key w)) with true by (rewrite Kw; destruct (key_eqb_spec k k); congruence).
        split; [reflexivity|]. split; [exact Kw|]. split.
        * unfold w, with_ver_times; cbn. rewrite Vnew, Hv'. unfold ver_next. f_equal.
          rewrite N.mod_small by (unfold n in *; lia). lia.
        * unfold w, with_ver_times; cbn. rewrite Snew, Hs'. unfold bumpB. lia.
      + rewrite Hcnt. intros i pci Hi. rewrite nth_upd_nth in Hi.
        destruct (Nat.eqb i j); [rewrite Epc in Hi; inversion Hi; subst; exact I|].
        apply (pc_ok_mono n (S n)); [lia | apply (Hpcs _ _ Hi)].
    - (* done *)
      constructor; eauto.
  Qed.

  Theorem bump_counter s0 r0 sched :
    st_get k s0 = Some r0 -> r_ver r0 = Some v0 -> r_spec r0 = spec0 ->
    v0 + N.of_nat (length sched) < two64 ->
    let s := mrun cs (m_init cs s0) sched in
    exists cur, st_get k (m_store s) = Some cur /\
      r_spec cur = spec0 + N.of_nat (count_ok (m_pcs s)) * bumpB /\
      r_ver cur = Some (v0 + N.of_nat (count_ok (m_pcs s))) /\
      (count_ok (m_pcs s) <= length sched)%nat /\ length (m_pcs s) = length cs.
  Proof.
    intros Hg Hv Hs Hw.
    assert (G : forall sched s, CInv s -> (v0 + N.of_nat (count_ok (m_pcs s)) + N.of_nat (length sched) < two64) ->
              CInv (mrun cs s sched) /\ (count_ok (m_pcs (mrun cs s sched)) <= count_ok (m_pcs s) + length sched)%nat).
    { induction sched0 as [|[j now] rest IH]; intros s HI Hb; [split; [exact HI | cbn; lia]|].
      cbn [mrun fold_left length] in *.
      assert (HI' : CInv (mstep cs s (j, now))) by (apply CInv_step; [exact HI | lia]).
      assert (Hstep : (count_ok (m_pcs (mstep cs s (j, now))) <= S (count_ok (m_pcs s)))%nat).
      { cbn [mstep]. destruct (nth_error cs j) as [c|]; [|lia]. destruct (nth_error (m_pcs s) j) as [pc|] eqn:Epc; [|lia].
        assert (forall x st, (count_ok (m_pcs (mkM st (upd_nth j x (m_pcs s)))) <= S (count_ok (m_pcs s)))%nat) as Hu.
        { intros x st. cbn [m_pcs]. pose proof (count_ok_upd j x (m_pcs s) pc Epc). destruct (is_ok pc), (is_ok x); lia. }
        destruct (request c pc); try lia; try apply Hu.
        - destruct (apply now (OpUpdate r owner exp) (m_store s)) as [[st' res] ev]. apply Hu.
        - destruct (apply now (OpCreate r owner) (m_store s)) as [[st' res] ev]. apply Hu. }
      assert (Hb' : v0 + N.of_nat (count_ok (m_pcs (mstep cs s (j, now)))) + N.of_nat (length rest) < two64) by lia.
      destruct (IH _ HI' Hb') as [A B]. split; [exact A |]. unfold mrun in *. lia. }
    assert (H0 : CInv (m_init cs s0)).
    { assert (Hc0 : count_ok (m_pcs (m_init cs s0)) = 0%nat) by apply count_ok_init.
      constructor.
      - cbn [m_init m_pcs]. rewrite map_length. reflexivity.
      - rewrite Hc0. exists r0. cbn [m_init m_store]. split; [exact Hg|]. split; [apply (st_get_key _ _ _ Hg)|].
        split; [rewrite Hv; f_equal; lia | rewrite Hs; lia].
      - intros j pc Hj. cbn [m_init m_pcs] in Hj. rewrite nth_error_map in Hj. destruct (nth_error cs j); inversion Hj; subst. exact I. }
    assert (Hc0 : count_ok (m_pcs (m_init cs s0)) = 0%nat) by apply count_ok_init.
    assert (Hb0 : v0 + N.of_nat (count_ok (m_pcs (m_init cs s0))) + N.of_nat (length sched) < two64) by (rewrite Hc0; lia).
    destruct (G sched _ H0 Hb0) as [[L [cur [A [_ [B C]]]] _] D].
    rewrite Hc0 in D. exists cur. repeat split; try assumption.
  Qed.

  (* when every call has reported success the counter has advanced by exactly the number of calls *)
  Corollary bump_all_succeeded s0 r0 sched :
    st_get k s0 = Some r0 -> r_ver r0 = Some v0 -> r_spec r0 = spec0 ->
    v0 + N.of_nat (length sched) < two64 ->
    let s := mrun cs (m_init cs s0) sched in
    (forall pc, In pc (m_pcs s) -> is_ok pc = true) ->
    exists cur, st_get k (m_store s) = Some cur /\ r_spec cur = spec0 + N.of_nat (length cs) * bumpB.
  Proof.
    intros Hg Hv Hs Hw s Hall.
    destruct (bump_counter s0 r0 sched Hg Hv Hs Hw) as [cur [A [B [_ [_ L]]]]]. fold s in A, B, L.
    exists cur. split; [exact A|]. rewrite B. do 2 f_equal. rewrite <- L. unfold count_ok. f_equal.
    clear -Hall. induction (m_pcs s) as [|pc l IH]; [reflexivity|]. cbn [filter]. rewrite (Hall pc (or_introl eq_refl)).
    cbn [length]. f_equal. apply IH. intros p Hp. apply Hall. right. exact Hp.
  Qed.
End Counter.

(* non-vacuity: three callers, two of them racing on the same version *)
Example counter_example :
  let k := (1, 2, 3) in
  let r0 := mkRes 1 2 3 (Some 5) 0 false [] [] 0%Z 0%Z 7 in
  let c := mkCall KUwc k MBump 0 None in
  let s := mrun [c; c; c] (m_init [c; c; c] [r0])
             [(0%nat, 1%Z); (1%nat, 2%Z); (0%nat, 3%Z); (1%nat, 4%Z); (1%nat, 5%Z); (1%nat, 6%Z); (2%nat, 7%Z); (2%nat, 8%Z)] in
  map is_ok (m_pcs s) = [true; true; true] /\
  option_map r_spec (st_get k (m_store s)) = Some (7 + 3 * bumpB) /\
  option_map r_ver (st_get k (m_store s)) = Some (Some 8).
Proof. vm_compute. repeat split. Qed.
