(* CtrlSpec.v — what each runtime call does to the two resources of an item, for ANY controller declaration that may
   read the input and output kinds, write the output kind and set finalizers on the input kind (shared by the
   QTransform and Transform machines). *)
From Verif Require Import Store StoreProofs Helpers HelpersProofs DepDB Access AccessProofs GenCtl GenCtlProofs.
From Coq Require Import Lia.
Open Scope N_scope.

Local Opaque st_put st_del.

Section CtrlSpec.
  Variables (ns tin tout cname : atom) (gc : ctrl).
  Hypothesis Hty : tin <> tout.
  Hypothesis rd_in : forall x, check_read gc ns tin (Some x) = true.
  Hypothesis rd_out : forall x, check_read gc ns tout (Some x) = true.
  Hypothesis is_out : is_output gc tout = true.
  Hypothesis fin_in : forall x, check_finalizer gc ns tin x = true.
  Hypothesis Hname : N.eqb (c_name gc) cname = true.   (* as a boolean so that subst leaves cname alone *)

  Notation kin := (kin ns tin).
  Notation kout := (kout ns tout).
  Notation has_fin := (has_fin cname).
  Notation in_fin := (in_fin ns tin cname).
  Notation owned_out := (owned_out ns tout cname).

  Lemma get_in_spec now x s :
    a_apply now gc (AGet (kin x)) s =
    (s, match st_get (kin x) s with Some r => AOkRes r | None => AErr (HEStore ENotFound) end).
  Proof. unfold a_apply, kin. rewrite rd_in. destruct (st_get (ns, tin, x) s); reflexivity. Qed.

  Lemma get_out_spec now x s :
    a_apply now gc (AGet (kout x)) s =
    (s, match st_get (kout x) s with Some r => AOkRes r | None => AErr (HEStore ENotFound) end).
  Proof. unfold a_apply, kout. rewrite rd_out. destruct (st_get (ns, tout, x) s); reflexivity. Qed.

  Lemma has_fin_add (l : list atom) : existsb (N.eqb cname) (fin_add cname l) = true.
  Proof.
    unfold fin_add. destruct (existsb (N.eqb cname) l) eqn:E; [exact E|].
    rewrite existsb_app. simpl. rewrite N.eqb_refl. rewrite orb_true_r. reflexivity.
  Qed.

  Lemma addfin_spec now x s s' r :
    a_apply now gc (AAddFin (kin x) [cname]) s = (s', r) ->
    (forall k', key_eqb k' (kin x) = false -> st_get k' s' = st_get k' s) /\
    (r = AOk -> in_fin x s') /\ (in_fin x s -> in_fin x s') /\ (r <> AOk -> s' = s).
  Proof.
    unfold a_apply, kin. rewrite fin_in. fold (kin x).
    destruct (st_get (kin x) s) as [cur|] eqn:Hk.
    2:{ intros H; inversion H; subst. repeat split; auto. discriminate. }
    destruct (s_uwc now (kin x) (MAddFin [cname]) (r_owner cur) None s) as [s1 r1] eqn:Eu.
    destruct (s_uwc_shape _ _ _ _ _ _ _ _ Eu) as [[Es [e [Er Enf]]] | [[Es [c [n [Hc [Hm [Heq Er]]]]]] | [c [n [w [Hc [Hm [Ho [Hw [Er [_ Hg]]]]]]]]]]].
    - subst. intros H; inversion H; subst. repeat split; auto. discriminate.
    - subst. intros H; inversion H; subst. rewrite Hk in Hc; inversion Hc; subst c.
      simpl in Hm. inversion Hm; subst n; clear Hm.
      assert (F : in_fin x s').
      { exists cur. split; [exact Hk|]. unfold GenCtl.has_fin.
        unfold res_equal in Heq. simpl in Heq. rewrite !andb_true_iff in Heq.
        destruct Heq as [[[_ _] Hf] _].
        (* the finalizer multiset did not change, so cname was already there *)
        destruct (existsb (N.eqb cname) (r_fins cur)) eqn:E; [reflexivity|].
        unfold fin_add in Hf. rewrite E in Hf. exfalso.
        assert (L : length (sort_atoms (r_fins cur)) = length (sort_atoms (r_fins cur ++ [cname]))).
        { clear -Hf. revert Hf. generalize (sort_atoms (r_fins cur)) (sort_atoms (r_fins cur ++ [cname])).
          induction l as [|a l IH]; intros [|b l']; simpl; intros H; try discriminate; [reflexivity|].
          apply andb_true_iff in H. f_equal. apply IH. tauto. }
        assert (SL : forall l, length (sort_atoms l) = length l).
        { clear. induction l as [|a l IH]; [reflexivity|]. simpl. rewrite <- IH.
          generalize (sort_atoms l) as l0. clear. induction l0 as [|b l0 IH]; simpl; [reflexivity|].
          destruct (a <=? b); simpl; [reflexivity | rewrite IH; reflexivity]. }
        rewrite !SL, app_length in L. simpl in L. lia. }
      repeat split; auto.
    - subst r1. intros H; inversion H; subst s1 r. rewrite Hk in Hc; inversion Hc; subst c.
      simpl in Hm. inversion Hm; subst n; clear Hm.
      assert (F : in_fin x s').
      { exists w. split; [rewrite Hg, key_eqb_refl; reflexivity|]. subst w. unfold GenCtl.has_fin; simpl. apply has_fin_add. }
      repeat split; auto.
      + intros k' Hk'. rewrite Hg, Hk'. reflexivity.
      + intros C; exfalso; apply C; reflexivity.
  Qed.

  Lemma remfin_spec now x s s' r :
    a_apply now gc (ARemFin (kin x) [cname]) s = (s', r) ->
    forall k', key_eqb k' (kin x) = false -> st_get k' s' = st_get k' s.
  Proof.
    unfold a_apply, kin. rewrite fin_in. fold (kin x).
    destruct (st_get (kin x) s) as [cur|] eqn:Hk; [|intros H; inversion H; subst; reflexivity].
    destruct (s_uwc now (kin x) (MRemFin [cname]) (r_owner cur) None s) as [s1 r1] eqn:Eu.
    destruct (s_uwc_shape _ _ _ _ _ _ _ _ Eu) as [[Es [e [Er Enf]]] | [[Es [c [n [Hc [Hm [Heq Er]]]]]] | [c [n [w [Hc [Hm [Ho [Hw [Er [_ Hg]]]]]]]]]]];
      subst r1; intros H; inversion H; subst; try reflexivity.
    intros k' Hk'. rewrite Hg, Hk'. reflexivity.
  Qed.

  Lemma modify_frame now x m exp s s' r :
    a_apply now gc (AModify (empty_out ns tout x) m exp false) s = (s', r) ->
    forall k', key_eqb k' (kout x) = false -> st_get k' s' = st_get k' s.
  Proof.
    unfold a_apply. cbn [r_typ empty_out]. rewrite is_out.
    change (r_key (empty_out ns tout x)) with (kout x).
    destruct (st_get (kout x) s) as [cur|] eqn:Hk.
    - intros Eu.
      destruct (s_uwc_shape _ _ _ _ _ _ _ _ Eu) as [[Es [e [Er Enf]]] | [[Es [c [n [Hc [Hm [Heq Er]]]]]] | [c [n [w [Hc [Hm [Ho [Hw [Er [_ Hg]]]]]]]]]]];
        subst; try reflexivity.
      intros k' Hk'. rewrite Hg, Hk'. reflexivity.
    - destruct (mutate m (empty_out ns tout x)) as [new|] eqn:Em; [|intros H; inversion H; subst; reflexivity].
      destruct (apply now (OpCreate new (owner_of gc false)) s) as [[s1 r1] ev] eqn:Ea.
      destruct (mutate_preserves _ _ _ Em) as [Mk _].
      destruct (apply_shape _ _ _ _ _ _ Ea) as [[_ [Es _]] | [[w [_ [_ [_ [_ [[x0 [ow [Eo [Kw _]]]] Hg]]]]]] | [[w [cur [_ [_ [_ [[x0 [ow [ex [Eo _]]]] _]]]]]] | [cur [k0 [ow [Eo _]]]]]]].
      + intros H. assert (s' = s1) by (destruct r1; inversion H; reflexivity). subst. reflexivity.
      + intros H. assert (s' = s1) by (destruct r1; inversion H; reflexivity). subst s'.
        inversion Eo; subst x0 ow. intros k' Hk'. rewrite Hg, Kw, Mk.
        change (r_key (empty_out ns tout x)) with (kout x). rewrite Hk'. reflexivity.
      + discriminate.
      + discriminate.
  Qed.

  Lemma teardown_spec now x s s' r :
    a_apply now gc (ATeardown (kout x) None) s = (s', r) ->
    (forall k', key_eqb k' (kout x) = false -> st_get k' s' = st_get k' s) /\
    (forall b, r = AOkReady b ->
       exists w, st_get (kout x) s' = Some w /\ r_phase w = true /\ (b = true <-> r_fins w = []) /\
                 exists cur, st_get (kout x) s = Some cur /\ r_owner w = r_owner cur /\ r_fins w = r_fins cur /\
                             (r_phase cur = false -> r_owner cur = cname)) /\
    ((forall b, r <> AOkReady b) -> s' = s) /\
    (r = AErr (HEStore ENotFound) -> st_get (kout x) s = None).
  Proof.
    unfold a_apply, kout. rewrite is_out. fold (kout x). rewrite (proj1 (N.eqb_eq _ _) Hname).
    destruct (st_get (kout x) s) as [cur|] eqn:Hk.
    2:{ intros H; inversion H; subst. repeat split; auto. intros b Hb; discriminate. }
    destruct (r_phase cur) eqn:Hp.
    { intros H; inversion H; subst. split; [auto | split; [|split; [auto | discriminate]]].
      intros b Hb. inversion Hb; subst b. exists cur. repeat split; auto.
      - destruct (r_fins cur); [reflexivity | discriminate].
      - intros ->. reflexivity.
      - exists cur. repeat split; auto. intros C; congruence. }
    destruct (s_uwc now (kout x) MSetTD cname (Some false) s) as [s1 r1] eqn:Eu.
    destruct (s_uwc_shape _ _ _ _ _ _ _ _ Eu) as [[Es [e [Er Enf]]] | [[Es [c [n [Hc [Hm [Heq Er]]]]]] | [c [n [w [Hc [Hm [Ho [Hw [Er [_ Hg]]]]]]]]]]].
    - subst. cbv beta iota. intros H; inversion H; subst.
      split; [auto | split; [intros b Hb; discriminate | split; [auto | intros C; inversion C; subst e; rewrite (Enf eq_refl) in Hk; discriminate]]].
    - exfalso. rewrite Hk in Hc; inversion Hc; subst c. simpl in Hm. inversion Hm; subst n.
      unfold res_equal in Heq. simpl in Heq. rewrite Hp in Heq. simpl in Heq.
      rewrite !andb_false_r in Heq. simpl in Heq. rewrite ?andb_false_l in Heq. discriminate.
    - subst r1. rewrite Hk in Hc; inversion Hc; subst c. simpl in Hm. inversion Hm; subst n; clear Hm.
      cbv beta iota. intros H; inversion H; subst s1 r; clear H. split; [|split; [|split]].
      + intros k' Hk'. rewrite Hg, Hk'. reflexivity.
      + intros b Hb. inversion Hb; subst b. exists w. rewrite Hg, key_eqb_refl. subst w; simpl.
        repeat split; auto.
        * destruct (r_fins cur); [reflexivity | discriminate].
        * intros ->. reflexivity.
        * exists cur. repeat split; auto.
      + intros C. exfalso. eapply C. reflexivity.
      + discriminate.
  Qed.

  Lemma destroy_spec now x s s' r :
    a_apply now gc (ADestroy (kout x) None) s = (s', r) ->
    (forall k', key_eqb k' (kout x) = false -> st_get k' s' = st_get k' s) /\
    (r = AOk -> (exists cur, st_get (kout x) s = Some cur /\ r_owner cur = cname /\ r_fins cur = []) /\
                st_get (kout x) s' = None) /\
    (r <> AOk -> s' = s).
  Proof.
    unfold a_apply, kout. rewrite is_out. fold (kout x). rewrite (proj1 (N.eqb_eq _ _) Hname).
    unfold apply. destruct (st_get (kout x) s) as [cur|] eqn:Hk.
    2:{ intros H; inversion H; subst. repeat split; auto; discriminate. }
    destruct (N.eqb_spec (r_owner cur) cname) as [Eo|Eo]; simpl.
    2:{ intros H; inversion H; subst. repeat split; auto; discriminate. }
    destruct (r_fins cur) eqn:Ef.
    2:{ intros H; inversion H; subst. repeat split; auto; discriminate. }
    intros H; inversion H; subst s' r; clear H. split; [|split].
    - intros k' Hk'. rewrite st_get_del, Hk'. reflexivity.
    - intros _. split; [exists cur; auto | rewrite st_get_del, key_eqb_refl; reflexivity].
    - intros C; exfalso; apply C; reflexivity.
  Qed.

End CtrlSpec.
