(* DepDB.v — the dependency database (runtime/internal/dependency/database.go), the registration
   paths that fill it (rruntime.NewAdapter + UpdateInputs, qruntime.NewAdapter, Runtime.RegisterController, RegisterQController)
   and event fan-out lookup.

   Names, namespaces, types and ids are atoms (order-preserving encodings of the Go strings, "" = 0).
   slices.BinarySearch(Func) on a sorted slice is modelled by its specification: the smallest index
   whose element is not less than the target (trusted standard-library behaviour). *)
From Coq Require Export List ZArith NArith Bool Lia.
Export ListNotations.
Open Scope N_scope.

Notation atom := N (only parsing).

Record input := mkIn { i_ns : atom; i_typ : atom; i_id : option atom; i_kind : N }.
(* kinds: 0 weak, 1 strong, 2 destroy-ready, 3 q-primary, 4 q-mapped, 5 q-mapped-destroy-ready *)
Record output := mkOut { o_typ : atom; o_kind : N }.   (* 0 exclusive, 1 shared *)

Definition opt_atom_eqb (a b : option atom) : bool :=
  match a, b with
  | None, None => true
  | Some x, Some y => N.eqb x y
  | _, _ => false
  end.
Definition opt_val (a : option atom) : atom := match a with Some x => x | None => 0 end.

(* cmp.Compare as -1/0/1 *)
Definition cmpN (a b : N) : Z := if N.ltb a b then (-1)%Z else if N.ltb b a then 1%Z else 0%Z.

(* controller.Input.Compare *)
Definition in_compare (a b : input) : Z :=
  if negb (N.eqb (i_ns a) (i_ns b)) then cmpN (i_ns a) (i_ns b)
  else if negb (N.eqb (i_typ a) (i_typ b)) then cmpN (i_typ a) (i_typ b)
  else if negb (opt_atom_eqb (i_id a) (i_id b)) then cmpN (opt_val (i_id a)) (opt_val (i_id b))
  else cmpN (i_kind a) (i_kind b).

(* controller.Input.EqualKeys *)
Definition equal_keys (a b : input) : bool :=
  N.eqb (i_ns a) (i_ns b) && N.eqb (i_typ a) (i_typ b) && opt_atom_eqb (i_id a) (i_id b).

Definition in_eqb (a b : input) : bool := equal_keys a b && N.eqb (i_kind a) (i_kind b).

(* smallest index whose element is not less than the target *)
Fixpoint search_idx {A} (cmp : A -> Z) (l : list A) : nat :=
  match l with
  | [] => O
  | x :: l' => if Z.ltb (cmp x) 0 then S (search_idx cmp l') else O
  end.

Fixpoint insert_at {A} (n : nat) (x : A) (l : list A) : list A :=
  match n, l with
  | O, _ => x :: l
  | S n', y :: l' => y :: insert_at n' x l'
  | S _, [] => [x]
  end.

Fixpoint delete_at {A} (n : nat) (l : list A) : list A :=
  match n, l with
  | _, [] => []
  | O, _ :: l' => l'
  | S n', y :: l' => y :: delete_at n' l'
  end.

(* ---- generic association lists ------------------------------------------------------------- *)

Section Assoc.
  Context {K V : Type} (eqb : K -> K -> bool).
  Fixpoint aget (k : K) (m : list (K * V)) : option V :=
    match m with [] => None | (k', v) :: m' => if eqb k' k then Some v else aget k m' end.
  Fixpoint adel (k : K) (m : list (K * V)) : list (K * V) :=
    match m with [] => [] | (k', v) :: m' => if eqb k' k then adel k m' else (k', v) :: adel k m' end.
  Definition aset (k : K) (v : V) (m : list (K * V)) : list (K * V) := (k, v) :: adel k m.
End Assoc.

Definition k2_eqb (a b : atom * atom) : bool := N.eqb (fst a) (fst b) && N.eqb (snd a) (snd b).
Definition k3_eqb (a b : atom * atom * atom) : bool :=
  let '(a1, a2, a3) := a in let '(b1, b2, b3) := b in N.eqb a1 b1 && N.eqb a2 b2 && N.eqb a3 b3.

(* ---- the database --------------------------------------------------------------------------- *)

Record db := mkDb {
  d_excl : list (atom * atom);                        (* type -> exclusive controller *)
  d_shared : list (atom * list atom);                 (* type -> sorted shared controllers *)
  d_look : list ((atom * atom) * list atom);          (* (ns,type) -> controllers with a by-kind input *)
  d_lookid : list ((atom * atom * atom) * list atom); (* (ns,type,id) -> controllers with a by-id input *)
  d_inputs : list (atom * list input)                 (* controller -> sorted inputs *)
}.

Definition db_empty : db := mkDb [] [] [] [] [].

Definition get_list {K V} (eqb : K -> K -> bool) (k : K) (m : list (K * list V)) : list V :=
  match aget eqb k m with Some l => l | None => [] end.

(* AddControllerOutput *)
Definition add_output (name : atom) (o : output) (d : db) : option db :=
  match aget N.eqb (o_typ o) (d_excl d) with
  | Some _ => None
  | None =>
      if N.eqb (o_kind o) 0 then
        match aget N.eqb (o_typ o) (d_shared d) with
        | Some _ => None
        | None => Some (mkDb (aset N.eqb (o_typ o) name (d_excl d)) (d_shared d) (d_look d) (d_lookid d) (d_inputs d))
        end
      else
        let cur := get_list N.eqb (o_typ o) (d_shared d) in
        if existsb (N.eqb name) cur then None
        else Some (mkDb (d_excl d)
                        (aset N.eqb (o_typ o) (insert_at (search_idx (fun x => cmpN x name) cur) name cur) (d_shared d))
                        (d_look d) (d_lookid d) (d_inputs d))
  end.

Definition neighbourhood_dup (idx : nat) (l : list input) (dep : input) : option nat :=
  (* the -1 / 0 / +1 EqualKeys check; returns the matching index *)
  let chk (i : nat) := match nth_error l i with Some e => equal_keys e dep | None => false end in
  if (match idx with O => false | S p => chk p end) then Some (pred idx)
  else if chk idx then Some idx
  else if chk (S idx) then Some (S idx)
  else None.

(* AddControllerInput *)
Definition add_input (name : atom) (dep : input) (d : db) : option db :=
  let existing := get_list N.eqb name (d_inputs d) in
  let idx := search_idx (fun e => in_compare e dep) existing in
  match neighbourhood_dup idx existing dep with
  | Some _ => None
  | None =>
      let inputs' := aset N.eqb name (insert_at idx dep existing) (d_inputs d) in
      match i_id dep with
      | None =>
          let key := (i_ns dep, i_typ dep) in
          Some (mkDb (d_excl d) (d_shared d) (aset k2_eqb key (get_list k2_eqb key (d_look d) ++ [name]) (d_look d)) (d_lookid d) inputs')
      | Some id =>
          let key := (i_ns dep, i_typ dep, id) in
          Some (mkDb (d_excl d) (d_shared d) (d_look d) (aset k3_eqb key (get_list k3_eqb key (d_lookid d) ++ [name]) (d_lookid d)) inputs')
      end
  end.

Definition remove_all (name : atom) (l : list atom) : list atom := filter (fun x => negb (N.eqb x name)) l.

(* DeleteControllerInput *)
Definition delete_input (name : atom) (dep : input) (d : db) : option db :=
  let existing := get_list N.eqb name (d_inputs d) in
  let idx := search_idx (fun e => in_compare e dep) existing in
  match neighbourhood_dup idx existing dep with
  | None => None
  | Some j =>
      let inputs' := aset N.eqb name (delete_at j existing) (d_inputs d) in
      match i_id dep with
      | None =>
          let key := (i_ns dep, i_typ dep) in
          Some (mkDb (d_excl d) (d_shared d) (aset k2_eqb key (remove_all name (get_list k2_eqb key (d_look d))) (d_look d)) (d_lookid d) inputs')
      | Some id =>
          let key := (i_ns dep, i_typ dep, id) in
          Some (mkDb (d_excl d) (d_shared d) (d_look d) (aset k3_eqb key (remove_all name (get_list k3_eqb key (d_lookid d))) (d_lookid d)) inputs')
      end
  end.

(* GetDependentControllers: kind-wide lookup ++ ID lookup *)
Definition get_dependents (ns typ id : atom) (d : db) : list atom :=
  get_list k2_eqb (ns, typ) (d_look d) ++ get_list k3_eqb (ns, typ, id) (d_lookid d).

(* DeleteController (rollback of a rejected registration) *)
Definition delete_controller (name : atom) (d : db) : db :=
  mkDb (filter (fun p => negb (N.eqb (snd p) name)) (d_excl d))
       (filter (fun p => match snd p with [] => false | _ => true end)
               (map (fun p => (fst p, remove_all name (snd p))) (d_shared d)))
       (map (fun p => (fst p, remove_all name (snd p))) (d_look d))
       (map (fun p => (fst p, remove_all name (snd p))) (d_lookid d))
       (adel N.eqb name (d_inputs d)).

(* ---- exported graph: edges as (controller, edge type, ns, type, id) ---------------------------- *)

Definition edge := (atom * N * atom * atom * atom)%type.

Definition input_edge_type (k : N) : N :=
  if N.eqb k 0 then 3 else if N.eqb k 1 then 2 else k + 2.

Definition export (d : db) : list edge :=
  map (fun p => (snd p, 0, 0, fst p, 0)) (d_excl d) ++
  flat_map (fun p => map (fun c => (c, 1, 0, fst p, 0)) (snd p)) (d_shared d) ++
  flat_map (fun p => map (fun i => (fst p, input_edge_type (i_kind i), i_ns i, i_typ i, opt_val (i_id i))) (snd p)) (d_inputs d).

(* ---- registration -------------------------------------------------------------------------------- *)

Fixpoint add_outputs (name : atom) (outs : list output) (d : db) : option db :=
  match outs with
  | [] => Some d
  | o :: outs' => match add_output name o d with Some d' => add_outputs name outs' d' | None => None end
  end.

(* insertion sort by Input.Compare (slices.SortFunc; stable enough for our observables: ties are equal keys+kind) *)
Fixpoint ins_input (x : input) (l : list input) : list input :=
  match l with
  | [] => [x]
  | y :: l' => if Z.leb (in_compare x y) 0 then x :: y :: l' else y :: ins_input x l'
  end.
Definition sort_inputs (l : list input) : list input := fold_right ins_input [] l.

(* the sorted merge of UpdateInputs; fuel = len deps + len dbDeps + 1 *)
Fixpoint merge_inputs (fuel : nat) (name : atom) (deps dbdeps : list input) (d : db) : option db :=
  match fuel with
  | O => Some d
  | S f =>
      match deps, dbdeps with
      | [], [] => Some d
      | [], dj :: dbs =>
          match delete_input name dj d with Some d' => merge_inputs f name [] dbs d' | None => None end
      | di :: ds, [] =>
          match add_input name di d with Some d' => merge_inputs f name ds [] d' | None => None end
      | di :: ds, dj :: dbs =>
          if in_eqb di dj then merge_inputs f name ds dbs d
          else if equal_keys di dj then
            match delete_input name dj d with
            | Some d1 => match add_input name di d1 with Some d2 => merge_inputs f name ds dbs d2 | None => None end
            | None => None
            end
          else if Z.ltb (in_compare di dj) 0 then
            match add_input name di d with Some d' => merge_inputs f name ds dbdeps d' | None => None end
          else
            match delete_input name dj d with Some d' => merge_inputs f name deps dbs d' | None => None end
      end
  end.

Fixpoint has_dup_keys (l : list input) : bool :=
  match l with
  | a :: ((b :: _) as l') => equal_keys a b || has_dup_keys l'
  | _ => false
  end.

(* rruntime.Adapter.UpdateInputs: kinds validated, duplicate keys rejected, then merged *)
Definition r_update_inputs (name : atom) (deps : list input) (d : db) : option db :=
  let sorted := sort_inputs deps in
  if existsb (fun i => N.leb 3 (i_kind i)) sorted then None
  else if has_dup_keys sorted then None
  else merge_inputs (length sorted + length (get_list N.eqb name (d_inputs d)) + 1) name sorted (get_list N.eqb name (d_inputs d)) d.

(* rruntime.NewAdapter *)
Definition r_new_adapter (name : atom) (outs : list output) (ins : list input) (d : db) : option db :=
  match add_outputs name outs d with
  | None => None
  | Some d1 => r_update_inputs name ins d1
  end.

(* qruntime.NewAdapter: concurrency, outputs, then inputs one by one with kind validation interleaved *)
Fixpoint q_add_inputs (name : atom) (ins : list input) (d : db) : option db :=
  match ins with
  | [] => Some d
  | i :: ins' =>
      if N.ltb (i_kind i) 3 then None
      else match add_input name i d with Some d' => q_add_inputs name ins' d' | None => None end
  end.

Definition q_new_adapter (name : atom) (concurrency : N) (outs : list output) (ins : list input) (d : db) : option db :=
  if N.eqb concurrency 0 then None
  else match add_outputs name outs d with
       | None => None
       | Some d1 => q_add_inputs name ins d1
       end.

(* Runtime: registered controller names + database; a rejected registration is rolled back *)
Record rt := mkRt { rt_db : db; rt_ctrls : list atom }.

Inductive reg_op :=
| RegR (name : atom) (outs : list output) (ins : list input)
| RegQ (name : atom) (concurrency : N) (outs : list output) (ins : list input)
| UpdIn (name : atom) (ins : list input).        (* a running controller calls UpdateInputs *)

Definition rt_step (r : rt) (o : reg_op) : rt * bool :=
  match o with
  | RegR name outs ins =>
      if existsb (N.eqb name) (rt_ctrls r) then (r, false)
      else match r_new_adapter name outs ins (rt_db r) with
           | Some d' => (mkRt d' (rt_ctrls r ++ [name]), true)
           | None => (r, false)      (* the partial registration is rolled back: DeleteController(name) *)
           end
  | RegQ name conc outs ins =>
      if existsb (N.eqb name) (rt_ctrls r) then (r, false)
      else match q_new_adapter name conc outs ins (rt_db r) with
           | Some d' => (mkRt d' (rt_ctrls r ++ [name]), true)
           | None => (r, false)
           end
  | UpdIn name ins =>
      match r_update_inputs name ins (rt_db r) with
      | Some d' => (mkRt d' (rt_ctrls r), true)
      | None => (r, false)
      end
  end.
