(* DepDBCheck.v — correspondence checkers for the dependency database and the registration paths. *)
From Verif Require Import DepDB.
Open Scope N_scope.

Fixpoint atoms_eqb (a b : list atom) : bool :=
  match a, b with
  | [], [] => true
  | x :: a', y :: b' => N.eqb x y && atoms_eqb a' b'
  | _, _ => false
  end.

Fixpoint inputs_eqb (a b : list input) : bool :=
  match a, b with
  | [], [] => true
  | x :: a', y :: b' => in_eqb x y && inputs_eqb a' b'
  | _, _ => false
  end.

Definition edge_leb (a b : edge) : bool :=
  let '(a1, a2, a3, a4, a5) := a in let '(b1, b2, b3, b4, b5) := b in
  if N.ltb a1 b1 then true else if N.ltb b1 a1 then false else
  if N.ltb a2 b2 then true else if N.ltb b2 a2 then false else
  if N.ltb a3 b3 then true else if N.ltb b3 a3 then false else
  if N.ltb a4 b4 then true else if N.ltb b4 a4 then false else N.leb a5 b5.

Fixpoint ins_edge (x : edge) (l : list edge) : list edge :=
  match l with [] => [x] | y :: l' => if edge_leb x y then x :: y :: l' else y :: ins_edge x l' end.
Definition sort_edges (l : list edge) : list edge := fold_right ins_edge [] l.

Definition edge_eqb (a b : edge) : bool := edge_leb a b && edge_leb b a.
Fixpoint edges_eqb (a b : list edge) : bool :=
  match a, b with
  | [], [] => true
  | x :: a', y :: b' => edge_eqb x y && edges_eqb a' b'
  | _, _ => false
  end.

Inductive dbobs :=
| DAddOut (name : atom) (o : output) (ok : bool)
| DAddIn (name : atom) (i : input) (ok : bool)
| DDelIn (name : atom) (i : input) (ok : bool)
| DDependents (ns typ id : atom) (obs : list atom)
| DInputs (name : atom) (obs : list input)
| DExport (obs : list edge).      (* sorted canonically by the harness *)

Definition db_obs_step (d : db) (o : dbobs) : db * bool :=
  match o with
  | DAddOut name out ok => match add_output name out d with Some d' => (d', ok) | None => (d, negb ok) end
  | DAddIn name i ok => match add_input name i d with Some d' => (d', ok) | None => (d, negb ok) end
  | DDelIn name i ok => match delete_input name i d with Some d' => (d', ok) | None => (d, negb ok) end
  | DDependents ns typ id obs => (d, atoms_eqb (get_dependents ns typ id d) obs)
  | DInputs name obs => (d, inputs_eqb (get_list N.eqb name (d_inputs d)) obs)
  | DExport obs => (d, edges_eqb (sort_edges (export d)) obs)
  end.

Fixpoint db_check_from (d : db) (c : list dbobs) : bool :=
  match c with
  | [] => true
  | o :: c' => let '(d', ok) := db_obs_step d o in if ok then db_check_from d' c' else false
  end.

Fixpoint mism_from {A} (chk : A -> bool) (i : N) (cs : list A) : list N :=
  match cs with
  | [] => []
  | c :: cs' => if chk c then mism_from chk (N.succ i) cs' else i :: mism_from chk (N.succ i) cs'
  end.

Definition db_mismatches (cs : list (list dbobs)) : list N := mism_from (db_check_from db_empty) 0 cs.

(* registration histories through the public runtime API *)
Inductive rtobs :=
| ROp (o : reg_op) (ok : bool)
| RGraph (obs : list edge)
| RWake (ns typ id : atom) (woken : list atom).    (* sorted set of controllers notified of a change *)

Fixpoint ins_atom (x : atom) (l : list atom) : list atom :=
  match l with [] => [x] | y :: l' => if N.eqb x y then l else if N.ltb x y then x :: l else y :: ins_atom x l' end.
Definition sort_set (l : list atom) : list atom := fold_right ins_atom [] l.

Definition rt_obs_step (r : rt) (o : rtobs) : rt * bool :=
  match o with
  | ROp op ok => let '(r', ok') := rt_step r op in (r', Bool.eqb ok ok')
  | RGraph obs => (r, edges_eqb (sort_edges (export (rt_db r))) obs)
  | RWake ns typ id woken => (r, atoms_eqb (sort_set (get_dependents ns typ id (rt_db r))) woken)
  end.

Fixpoint rt_check_from (r : rt) (c : list rtobs) : bool :=
  match c with
  | [] => true
  | o :: c' => let '(r', ok) := rt_obs_step r o in if ok then rt_check_from r' c' else false
  end.

Definition rt_mismatches (cs : list (list rtobs)) : list N := mism_from (rt_check_from (mkRt db_empty [])) 0 cs.
