(* DepDBExport.v — the exported dependency graph is exactly the stored tables: an edge is exported iff it is an exclusive
   claim, a shared claim or an input held in the database - nothing else, nothing missing. Together with the invariants
   of DepDBProofs (claims consistent, rejected operations without effect) and DepDBLookup (lookup tables exact) this
   makes the graph a faithful picture of every registration history. *)
From Verif Require Import DepDB.
Open Scope N_scope.

Theorem export_exact d e :
  In e (export d) <->
  (exists t name, In (t, name) (d_excl d) /\ e = (name, 0, 0, t, 0)) \/
  (exists t names name, In (t, names) (d_shared d) /\ In name names /\ e = (name, 1, 0, t, 0)) \/
  (exists name ins i, In (name, ins) (d_inputs d) /\ In i ins /\
                      e = (name, input_edge_type (i_kind i), i_ns i, i_typ i, opt_val (i_id i))).
Proof.
  unfold export. rewrite !in_app_iff, in_map_iff, !in_flat_map. split.
  - intros [[[t name] [He Hin]] | [[[t names] [Hin Hm]] | [[name ins] [Hin Hm]]]].
    + left. exists t, name. split; [exact Hin | symmetry; exact He].
    + right; left. apply in_map_iff in Hm. destruct Hm as [c [He Hc]]. exists t, names, c. repeat split; [exact Hin | exact Hc | symmetry; exact He].
    + right; right. apply in_map_iff in Hm. destruct Hm as [i [He Hi]]. exists name, ins, i. repeat split; [exact Hin | exact Hi | symmetry; exact He].
  - intros [[t [name [Hin ->]]] | [[t [names [name [Hin [Hn ->]]]]] | [name [ins [i [Hin [Hi ->]]]]]]].
    + left. exists (t, name). split; [reflexivity | exact Hin].
    + right; left. exists (t, names). split; [exact Hin|]. apply in_map_iff. exists name. split; [reflexivity | exact Hn].
    + right; right. exists (name, ins). split; [exact Hin|]. apply in_map_iff. exists i. split; [reflexivity | exact Hi].
Qed.
