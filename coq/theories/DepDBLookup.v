(* DepDBLookup.v — the lookup tables of the dependency database are exact: after any history of accepted and rejected
   operations GetDependentControllers names exactly the controllers holding an input that matches the resource. *)
From Verif Require Import DepDB DepDBProofs.
From Coq Require Import ZifyBool ZifyN Lia.
Open Scope N_scope.

(* ---- association lists over any key type with a correct equality test ---- *)
Section Gen.
  Context {K V : Type} (eqb : K -> K -> bool).
  Hypothesis eqb_ok : forall a b, eqb a b = true <-> a = b.

  Lemma eqb_refl_gen a : eqb a a = true. Proof. apply eqb_ok. reflexivity. Qed.

  Lemma aget_adel_gen (k k' : K) (m : list (K * V)) :
    aget eqb k' (adel eqb k m) = if eqb k k' then None else aget eqb k' m.
  Proof.
    induction m as [|[a b] m IH]; simpl; [destruct (eqb k k'); reflexivity|].
    destruct (eqb a k) eqn:E; simpl.
    - apply eqb_ok in E. subst a. rewrite IH. destruct (eqb k k'); reflexivity.
    - rewrite IH. destruct (eqb a k') eqn:E2; [|reflexivity].
      apply eqb_ok in E2. subst a. destruct (eqb k k') eqn:E3; [|reflexivity].
      apply eqb_ok in E3. subst. rewrite eqb_refl_gen in E. discriminate.
  Qed.

End Gen.

Lemma get_list_aset_gen {K V} (eqb : K -> K -> bool) (eqb_ok : forall a b, eqb a b = true <-> a = b)
  (k k' : K) (v : list V) (m : list (K * list V)) :
  get_list eqb k' (aset eqb k v m) = if eqb k k' then v else get_list eqb k' m.
Proof.
  unfold get_list, aset. cbn [aget]. destruct (eqb k k') eqn:E; [reflexivity|].
  rewrite (aget_adel_gen eqb eqb_ok), E. reflexivity.
Qed.

Lemma k2_ok a b : k2_eqb a b = true <-> a = b.
Proof.
  destruct a as [a1 a2], b as [b1 b2]. unfold k2_eqb; simpl. rewrite andb_true_iff, !N.eqb_eq. split; [intros [-> ->]; reflexivity | intros H; inversion H; auto].
Qed.
Lemma k3_ok a b : k3_eqb a b = true <-> a = b.
Proof.
  destruct a as [[a1 a2] a3], b as [[b1 b2] b3]. unfold k3_eqb. rewrite !andb_true_iff, !N.eqb_eq.
  split; [intros [[-> ->] ->]; reflexivity | intros H; inversion H; auto].
Qed.
Lemma N_ok a b : N.eqb a b = true <-> a = b. Proof. apply N.eqb_eq. Qed.

Lemma In_remove_all name n l : In n (remove_all name l) <-> In n l /\ n <> name.
Proof.
  unfold remove_all. rewrite filter_In. split; intros [A B]; split; auto.
  - destruct (N.eqb_spec n name); [discriminate | assumption].
  - destruct (N.eqb_spec n name); [contradiction | reflexivity].
Qed.

Lemma In_delete_at {A} j (l : list A) x : In x (delete_at j l) -> In x l.
Proof.
  revert j. induction l as [|y l IH]; intros [|j]; simpl; try tauto. intros [H|H]; [auto | right; eapply IH; exact H].
Qed.
Lemma In_delete_at_other {A} j (l : list A) x e : nth_error l j = Some e -> In x l -> x <> e -> In x (delete_at j l).
Proof.
  revert j. induction l as [|y l IH]; intros [|j]; simpl; try discriminate.
  - intros H [E|E] Hn; [inversion H; congruence | exact E].
  - intros H [E|E] Hn; [left; exact E | right; eapply IH; eauto].
Qed.

Lemma delete_at_sorted j l : inputs_sorted l -> inputs_sorted (delete_at j l).
Proof.
  revert j. induction l as [|a l IH]; intros [|j] Hs; simpl; try exact I.
  - destruct Hs; assumption.
  - destruct Hs as [Ha Hs]. split; [|apply IH; exact Hs]. intros b Hb. apply Ha. eapply In_delete_at. exact Hb.
Qed.
Lemma delete_at_wf j l : inputs_wf l -> inputs_wf (delete_at j l).
Proof.
  intros [Hs Hw]. split; [apply delete_at_sorted; exact Hs|]. rewrite Forall_forall in *. intros x Hx. apply Hw. eapply In_delete_at. exact Hx.
Qed.

(* in a strictly sorted list the deleted element is gone *)
Lemma delete_at_removes j l e : inputs_wf l -> nth_error l j = Some e -> ~ In e (delete_at j l).
Proof.
  intros [Hs Hw]. revert j. induction l as [|a l IH]; intros [|j] Hn; simpl in *; try discriminate.
  - inversion Hn; subst a. destruct Hs as [Ha _]. inversion Hw as [|? ? Hwa Hwl]; subst. intros Hin.
    destruct (key_lt_irrefl_eq e e Hwa Hwa) as [C _].
    + unfold equal_keys. rewrite !N.eqb_refl. destruct (i_id e); simpl; [rewrite N.eqb_refl|]; reflexivity.
    + apply C. apply Ha. exact Hin.
  - destruct Hs as [Ha Hs]. inversion Hw as [|? ? Hwa Hwl]; subst. intros [E|E].
    + subst a. destruct (key_lt_irrefl_eq e e Hwa Hwa) as [C _].
      * unfold equal_keys. rewrite !N.eqb_refl. destruct (i_id e); simpl; [rewrite N.eqb_refl|]; reflexivity.
      * apply C. apply Ha. eapply nth_error_In. exact Hn.
    + eapply IH; eauto.
Qed.

Definition inputs_of (name : atom) (d : db) : list input := get_list N.eqb name (d_inputs d).

Definition matches_kind (i : input) (ns typ : atom) : Prop := i_ns i = ns /\ i_typ i = typ /\ i_id i = None.
Definition matches_id (i : input) (ns typ id : atom) : Prop := i_ns i = ns /\ i_typ i = typ /\ i_id i = Some id.

Definition LookInv (d : db) : Prop :=
  (forall name ns typ, In name (get_list k2_eqb (ns, typ) (d_look d)) <-> exists i, In i (inputs_of name d) /\ matches_kind i ns typ) /\
  (forall name ns typ id, In name (get_list k3_eqb (ns, typ, id) (d_lookid d)) <-> exists i, In i (inputs_of name d) /\ matches_id i ns typ id) /\
  (forall name, inputs_wf (inputs_of name d)).

Lemma LookInv_empty : LookInv db_empty.
Proof.
  unfold LookInv, inputs_of, db_empty, get_list. cbn. split; [|split].
  - intros name ns typ. split; [intros [] | intros [i [[] _]]].
  - intros name ns typ id. split; [intros [] | intros [i [[] _]]].
  - intros name. split; [exact I | constructor].
Qed.

Lemma inputs_of_aset name name' v d :
  get_list N.eqb name' (aset N.eqb name v (d_inputs d)) = if N.eqb name name' then v else inputs_of name' d.
Proof. unfold inputs_of. apply (get_list_aset_gen N.eqb N_ok). Qed.

Lemma equal_keys_fields a b : equal_keys a b = true -> i_ns a = i_ns b /\ i_typ a = i_typ b /\ i_id a = i_id b.
Proof.
  unfold equal_keys. rewrite !andb_true_iff, !N.eqb_eq. intros [[A B] C]. repeat split; auto.
  unfold opt_atom_eqb in C. destruct (i_id a), (i_id b); try discriminate; [apply N.eqb_eq in C; congruence | reflexivity].
Qed.

(* an accepted AddControllerInput keeps the tables exact *)
Lemma LookInv_add_input name dep d d' : LookInv d -> input_wf dep -> add_input name dep d = Some d' -> LookInv d'.
Proof.
  intros [Hk [Hi Hw]] Hdep Ha. pose proof (add_input_keeps_wf name dep d d' (Hw name) Hdep Ha) as Hw'.
  unfold add_input in Ha. fold (inputs_of name d) in Ha.
  destruct (neighbourhood_dup _ _ _) eqn:En; [discriminate|].
  set (idx := search_idx (fun e => in_compare e dep) (inputs_of name d)) in *.
  assert (Hin : forall n i, In i (if N.eqb name n then insert_at idx dep (inputs_of name d) else inputs_of n d) <->
                            (n = name /\ i = dep) \/ In i (inputs_of n d)).
  { intros n i. destruct (N.eqb_spec name n) as [E|E].
    - subst n. rewrite insert_at_In. split; [intros [->|H]; auto | intros [[_ ->]|H]; auto].
    - split; [auto | intros [[C _]|H]; [congruence | exact H]]. }
  destruct (i_id dep) as [id|] eqn:Eid; inversion Ha; subst d'; clear Ha; unfold LookInv, inputs_of; cbn [d_look d_lookid d_inputs].
  - (* by id *)
    split; [|split].
    + intros n ns typ. rewrite Hk. split; intros [i [Hi' Hm]]; exists i; (split; [|exact Hm]).
      * rewrite inputs_of_aset. apply Hin. right. exact Hi'.
      * rewrite inputs_of_aset in Hi'. apply Hin in Hi'. destruct Hi' as [[_ ->]|H]; [|exact H].
        destruct Hm as [_ [_ C]]. congruence.
    + intros n ns typ id'. rewrite (get_list_aset_gen k3_eqb k3_ok).
      destruct (k3_eqb (i_ns dep, i_typ dep, id) (ns, typ, id')) eqn:Ek.
      * apply k3_ok in Ek. inversion Ek; subst ns typ id'. rewrite in_app_iff, Hi. split.
        -- intros [[i [Hi' Hm]]|[<-|[]]].
           ++ exists i. split; [rewrite inputs_of_aset; apply Hin; right; exact Hi' | exact Hm].
           ++ exists dep. split; [rewrite inputs_of_aset; apply Hin; left; auto | repeat split; auto].
        -- intros [i [Hi' Hm]]. rewrite inputs_of_aset in Hi'. apply Hin in Hi'. destruct Hi' as [[-> ->]|H]; [right; left; reflexivity | left; eauto].
      * rewrite Hi. split; intros [i [Hi' Hm]].
        -- exists i. split; [rewrite inputs_of_aset; apply Hin; right; exact Hi' | exact Hm].
        -- rewrite inputs_of_aset in Hi'. apply Hin in Hi'. destruct Hi' as [[-> ->]|H]; [|eauto].
           exfalso. destruct Hm as [A [B C]]. rewrite Eid in C. inversion C; subst.
           assert (k3_eqb (i_ns dep, i_typ dep, id') (i_ns dep, i_typ dep, id') = true) by (apply k3_ok; reflexivity). congruence.
    + intros n. rewrite inputs_of_aset. destruct (N.eqb_spec name n) as [E|E]; [|apply Hw].
      subst n. unfold inputs_of in Hw'. cbn [d_inputs] in Hw'. rewrite inputs_of_aset, N.eqb_refl in Hw'. exact Hw'.
  - (* by kind *)
    split; [|split].
    + intros n ns typ. rewrite (get_list_aset_gen k2_eqb k2_ok).
      destruct (k2_eqb (i_ns dep, i_typ dep) (ns, typ)) eqn:Ek.
      * apply k2_ok in Ek. inversion Ek; subst ns typ. rewrite in_app_iff, Hk. split.
        -- intros [[i [Hi' Hm]]|[<-|[]]].
           ++ exists i. split; [rewrite inputs_of_aset; apply Hin; right; exact Hi' | exact Hm].
           ++ exists dep. split; [rewrite inputs_of_aset; apply Hin; left; auto | repeat split; auto].
        -- intros [i [Hi' Hm]]. rewrite inputs_of_aset in Hi'. apply Hin in Hi'. destruct Hi' as [[-> ->]|H]; [right; left; reflexivity | left; eauto].
      * rewrite Hk. split; intros [i [Hi' Hm]].
        -- exists i. split; [rewrite inputs_of_aset; apply Hin; right; exact Hi' | exact Hm].
        -- rewrite inputs_of_aset in Hi'. apply Hin in Hi'. destruct Hi' as [[-> ->]|H]; [|eauto].
           exfalso. destruct Hm as [A [B C]]. subst.
           assert (k2_eqb (i_ns dep, i_typ dep) (i_ns dep, i_typ dep) = true) by (apply k2_ok; reflexivity). congruence.
    + intros n ns typ id'. rewrite Hi. split; intros [i [Hi' Hm]]; exists i; (split; [|exact Hm]).
      * rewrite inputs_of_aset. apply Hin. right. exact Hi'.
      * rewrite inputs_of_aset in Hi'. apply Hin in Hi'. destruct Hi' as [[_ ->]|H]; [|exact H].
        destruct Hm as [_ [_ C]]. congruence.
    + intros n. rewrite inputs_of_aset. destruct (N.eqb_spec name n) as [E|E]; [|apply Hw].
      subst n. unfold inputs_of in Hw'. cbn [d_inputs] in Hw'. rewrite inputs_of_aset, N.eqb_refl in Hw'. exact Hw'.
Qed.

(* what the neighbourhood check returns is the index of a stored input with the same key *)
Lemma neighbourhood_some idx l dep j :
  neighbourhood_dup idx l dep = Some j -> exists e, nth_error l j = Some e /\ equal_keys e dep = true.
Proof.
  unfold neighbourhood_dup. intros H. destruct idx as [|p]; cbn [pred] in H.
  all: repeat match type of H with
              | context[match nth_error ?l0 ?i with _ => _ end] => let E := fresh "E" in destruct (nth_error l0 i) eqn:E
              | context[if equal_keys ?a ?b then _ else _] => let K := fresh "K" in destruct (equal_keys a b) eqn:K
              end; try discriminate; inversion H; subst; eauto.
Qed.

Lemma LookInv_delete_input name dep d d' : LookInv d -> delete_input name dep d = Some d' -> LookInv d'.
Proof.
  intros [Hk [Hi Hw]] Ha. unfold delete_input in Ha. fold (inputs_of name d) in Ha.
  destruct (neighbourhood_dup _ _ _) as [j|] eqn:En; [|discriminate].
  destruct (neighbourhood_some _ _ _ _ En) as [e [Hj Hek]].
  destruct (equal_keys_fields _ _ Hek) as [Ens [Etyp Eid']].
  pose proof (Hw name) as Hwn.
  assert (Hin : forall n i, In i (if N.eqb name n then delete_at j (inputs_of name d) else inputs_of n d) <->
                            In i (inputs_of n d) /\ ~ (n = name /\ i = e)).
  { intros n i. destruct (N.eqb_spec name n) as [E|E].
    - subst n. split.
      + intros H. split; [eapply In_delete_at; exact H|]. intros [_ ->]. eapply delete_at_removes; eauto.
      + intros [H C]. eapply In_delete_at_other; eauto; intros ->; apply C; auto.
    - split; [intros H; split; [exact H | intros [C _]; congruence] | tauto]. }
  assert (Huniq : forall i, In i (inputs_of name d) -> i_ns i = i_ns dep -> i_typ i = i_typ dep -> i_id i = i_id dep -> i = e).
  { intros i Hi' A B C. eapply sorted_no_equal_keys; [exact Hwn | exact Hi' | eapply nth_error_In; exact Hj |].
    unfold equal_keys. rewrite A, B, C, <- Ens, <- Etyp, <- Eid', !N.eqb_refl. destruct (i_id e); simpl; [rewrite N.eqb_refl|]; reflexivity. }
  destruct (i_id dep) as [id|] eqn:Eid; inversion Ha; subst d'; clear Ha; unfold LookInv, inputs_of; cbn [d_look d_lookid d_inputs].
  - split; [|split].
    + intros n ns typ. rewrite Hk. split; intros [i [Hi' Hm]]; exists i; (split; [|exact Hm]).
      * rewrite inputs_of_aset. apply Hin. split; [exact Hi'|]. intros [_ ->]. destruct Hm as [_ [_ C]]. congruence.
      * rewrite inputs_of_aset in Hi'. apply Hin in Hi'. tauto.
    + intros n ns typ id'. rewrite (get_list_aset_gen k3_eqb k3_ok).
      destruct (k3_eqb (i_ns dep, i_typ dep, id) (ns, typ, id')) eqn:Ek.
      * apply k3_ok in Ek. inversion Ek; subst ns typ id'. rewrite In_remove_all, Hi. split.
        -- intros [[i [Hi' Hm]] Hne]. exists i. split; [|exact Hm]. rewrite inputs_of_aset. apply Hin. split; [exact Hi' | intros [C _]; contradiction].
        -- intros [i [Hi' Hm]]. rewrite inputs_of_aset in Hi'. apply Hin in Hi'. destruct Hi' as [Hi' Hne]. split; [eauto|].
           intros ->. apply Hne. split; [reflexivity|]. destruct Hm as [A [B C]]. apply Huniq; auto.
      * rewrite Hi. split; intros [i [Hi' Hm]]; exists i; (split; [|exact Hm]).
        -- rewrite inputs_of_aset. apply Hin. split; [exact Hi'|]. intros [-> ->]. destruct Hm as [A [B C]].
           rewrite Eid' in C. inversion C; subst. rewrite Ens, Etyp in Ek.
           assert (k3_eqb (i_ns dep, i_typ dep, id') (i_ns dep, i_typ dep, id') = true) by (apply k3_ok; reflexivity). congruence.
        -- rewrite inputs_of_aset in Hi'. apply Hin in Hi'. tauto.
    + intros n. rewrite inputs_of_aset. destruct (N.eqb_spec name n) as [E|E]; [apply delete_at_wf; exact Hwn | apply Hw].
  - split; [|split].
    + intros n ns typ. rewrite (get_list_aset_gen k2_eqb k2_ok).
      destruct (k2_eqb (i_ns dep, i_typ dep) (ns, typ)) eqn:Ek.
      * apply k2_ok in Ek. inversion Ek; subst ns typ. rewrite In_remove_all, Hk. split.
        -- intros [[i [Hi' Hm]] Hne]. exists i. split; [|exact Hm]. rewrite inputs_of_aset. apply Hin. split; [exact Hi' | intros [C _]; contradiction].
        -- intros [i [Hi' Hm]]. rewrite inputs_of_aset in Hi'. apply Hin in Hi'. destruct Hi' as [Hi' Hne]. split; [eauto|].
           intros ->. apply Hne. split; [reflexivity|]. destruct Hm as [A [B C]]. apply Huniq; auto.
      * rewrite Hk. split; intros [i [Hi' Hm]]; exists i; (split; [|exact Hm]).
        -- rewrite inputs_of_aset. apply Hin. split; [exact Hi'|]. intros [-> ->]. destruct Hm as [A [B C]]. subst.
           rewrite Ens, Etyp in Ek.
           assert (k2_eqb (i_ns dep, i_typ dep) (i_ns dep, i_typ dep) = true) by (apply k2_ok; reflexivity). congruence.
        -- rewrite inputs_of_aset in Hi'. apply Hin in Hi'. tauto.
    + intros n ns typ id'. rewrite Hi. split; intros [i [Hi' Hm]]; exists i; (split; [|exact Hm]).
      * rewrite inputs_of_aset. apply Hin. split; [exact Hi'|]. intros [_ ->]. destruct Hm as [_ [_ C]]. congruence.
      * rewrite inputs_of_aset in Hi'. apply Hin in Hi'. tauto.
    + intros n. rewrite inputs_of_aset. destruct (N.eqb_spec name n) as [E|E]; [apply delete_at_wf; exact Hwn | apply Hw].
Qed.

Lemma LookInv_add_output name o d d' : LookInv d -> add_output name o d = Some d' -> LookInv d'.
Proof.
  intros H Ha. unfold add_output in Ha. destruct (aget N.eqb (o_typ o) (d_excl d)); [discriminate|].
  destruct (N.eqb (o_kind o) 0).
  - destruct (aget N.eqb (o_typ o) (d_shared d)); [discriminate|]. inversion Ha; subst. exact H.
  - destruct (existsb _ _); [discriminate|]. inversion Ha; subst. exact H.
Qed.

Definition op_wf (o : db_op) : Prop := match o with DbAddIn _ i => input_wf i | _ => True end.

(* C17: for every history of database operations (accepted or rejected) with well-formed inputs, a controller is
   among the dependents of a resource exactly if one of its stored inputs matches it by kind or by that id *)
Theorem lookup_exact ops :
  Forall op_wf ops ->
  let d := run_db_ops ops db_empty in
  forall name ns typ id,
    In name (get_dependents ns typ id d) <->
    exists i, In i (inputs_of name d) /\ i_ns i = ns /\ i_typ i = typ /\ (i_id i = None \/ i_id i = Some id).
Proof.
  intros Hf d.
  assert (Hinv : LookInv d).
  { unfold d, run_db_ops. revert Hf. generalize db_empty LookInv_empty. induction ops as [|o ops IH]; intros d0 H0 Hf; [exact H0|].
    inversion Hf as [|? ? Ho Hrest]; subst. cbn [fold_left]. apply IH; [|exact Hrest].
    unfold db_op_step, db_op_try. destruct o as [n out|n i|n i].
    - destruct (add_output n out d0) eqn:E; [eapply LookInv_add_output; eauto | exact H0].
    - destruct (add_input n i d0) eqn:E; [eapply LookInv_add_input; eauto | exact H0].
    - destruct (delete_input n i d0) eqn:E; [eapply LookInv_delete_input; eauto | exact H0]. }
  destruct Hinv as [Hk [Hi _]]. intros name ns typ id. unfold get_dependents. rewrite in_app_iff, Hk, Hi. split.
  - intros [[i [A [B [C D]]]]|[i [A [B [C D]]]]]; exists i; auto.
  - intros [i [A [B [C [D|D]]]]]; [left | right]; exists i; repeat split; auto.
Qed.
