(* DepDBProofs.v — invariants of the dependency database for every operation / registration history. *)
From Verif Require Import DepDB.
From Coq Require Import ZifyBool ZifyN.
Open Scope N_scope.

Inductive db_op :=
| DbAddOut (name : atom) (o : output)
| DbAddIn (name : atom) (i : input)
| DbDelIn (name : atom) (i : input).

Definition db_op_try (d : db) (o : db_op) : option db :=
  match o with
  | DbAddOut name out => add_output name out d
  | DbAddIn name i => add_input name i d
  | DbDelIn name i => delete_input name i d
  end.

Definition db_op_ok (d : db) (o : db_op) : bool := match db_op_try d o with Some _ => true | None => false end.
Definition db_op_step (d : db) (o : db_op) : db := match db_op_try d o with Some d' => d' | None => d end.
Definition run_db_ops (ops : list db_op) (d : db) : db := fold_left db_op_step ops d.

(* ---- association-list facts ------------------------------------------------------------------ *)

Lemma aget_adel_N {V} (k k' : atom) (m : list (atom * V)) :
  aget N.eqb k' (adel N.eqb k m) = if N.eqb k' k then None else aget N.eqb k' m.
Proof.
  induction m as [|[a b] m IH]; simpl; [destruct (N.eqb k' k); reflexivity|].
  destruct (N.eqb_spec a k) as [E|E]; simpl.
  - rewrite IH. destruct (N.eqb_spec k' k) as [E'|E']; [reflexivity|].
    destruct (N.eqb_spec a k'); [congruence | reflexivity].
  - destruct (N.eqb_spec a k') as [E''|E''].
    + destruct (N.eqb_spec k' k); [congruence | reflexivity].
    + exact IH.
Qed.

Lemma aget_aset_N {V} (k k' : atom) (v : V) m :
  aget N.eqb k' (aset N.eqb k v m) = if N.eqb k' k then Some v else aget N.eqb k' m.
Proof.
  unfold aset. simpl. rewrite aget_adel_N.
  destruct (N.eqb_spec k k'); destruct (N.eqb_spec k' k); congruence.
Qed.

Lemma adel_keys_N {V} (k x : atom) (m : list (atom * V)) : In x (map fst (adel N.eqb k m)) -> x <> k /\ In x (map fst m).
Proof.
  induction m as [|[a b] m IH]; simpl; [tauto|].
  destruct (N.eqb_spec a k) as [E|E]; simpl.
  - intros H. destruct (IH H). tauto.
  - intros [H|H]; [subst; tauto|]. destruct (IH H). tauto.
Qed.

Lemma adel_NoDup_N {V} (k : atom) (m : list (atom * V)) : NoDup (map fst m) -> NoDup (map fst (adel N.eqb k m)).
Proof.
  induction m as [|[a b] m IH]; simpl; [tauto|]. intros H. inversion H; subst.
  destruct (N.eqb a k); [apply IH; assumption|]. simpl. constructor; [|apply IH; assumption].
  intros Hin. apply adel_keys_N in Hin. tauto.
Qed.

Lemma aset_NoDup_N {V} (k : atom) (v : V) m : NoDup (map fst m) -> NoDup (map fst (aset N.eqb k v m)).
Proof.
  intros H. unfold aset. simpl. constructor; [|apply adel_NoDup_N; exact H].
  intros Hin. apply adel_keys_N in Hin. tauto.
Qed.

Lemma aget_In_N {V} (k : atom) (m : list (atom * V)) : aget N.eqb k m <> None <-> In k (map fst m).
Proof.
  induction m as [|[a b] m IH]; simpl; [tauto|].
  destruct (N.eqb_spec a k) as [E|E]; [split; [tauto | discriminate]|]. rewrite IH. tauto.
Qed.

(* ---- outputs ---------------------------------------------------------------------------------- *)

Record OutInv (d : db) : Prop := mkOutInv {
  oi_excl_nodup : NoDup (map fst (d_excl d));
  oi_xor : forall typ, aget N.eqb typ (d_excl d) <> None -> aget N.eqb typ (d_shared d) = None;
  oi_shared : forall typ cs, aget N.eqb typ (d_shared d) = Some cs -> NoDup cs /\ cs <> []
}.

Lemma insert_at_In {A} n (x y : A) l : In y (insert_at n x l) <-> y = x \/ In y l.
Proof.
  revert l; induction n as [|n IH]; intros l; simpl; [intuition|].
  destruct l as [|z l]; simpl; [intuition|]. rewrite IH. intuition.
Qed.

Lemma insert_at_NoDup {A} n (x : A) l : NoDup l -> ~ In x l -> NoDup (insert_at n x l).
Proof.
  revert l; induction n as [|n IH]; intros l Hl Hx; simpl; [constructor; assumption|].
  destruct l as [|z l]; simpl; [constructor; [tauto | constructor]|].
  inversion Hl; subst. constructor.
  - rewrite insert_at_In. simpl in Hx. intuition.
  - apply IH; [assumption | simpl in Hx; tauto].
Qed.

Lemma existsb_eqb_false name l : existsb (N.eqb name) l = false -> ~ In name l.
Proof.
  intros H Hin. assert (existsb (N.eqb name) l = true) by (apply existsb_exists; exists name; split; [exact Hin | apply N.eqb_refl]).
  congruence.
Qed.

Lemma OutInv_add_output name o d d' : OutInv d -> add_output name o d = Some d' -> OutInv d'.
Proof.
  intros [I1 I2 I3]. unfold add_output.
  destruct (aget N.eqb (o_typ o) (d_excl d)) eqn:Ee; [discriminate|].
  destruct (N.eqb (o_kind o) 0).
  - destruct (aget N.eqb (o_typ o) (d_shared d)) eqn:Es; [discriminate|].
    intros H; inversion H; subst; clear H. constructor; cbn [d_excl d_shared d_look d_lookid d_inputs].
    + apply aset_NoDup_N. exact I1.
    + intros typ. rewrite aget_aset_N. destruct (N.eqb_spec typ (o_typ o)) as [->|E]; [intros _; exact Es | apply I2].
    + exact I3.
  - destruct (existsb (N.eqb name) (get_list N.eqb (o_typ o) (d_shared d))) eqn:Ex; [discriminate|].
    intros H; inversion H; subst; clear H. constructor; cbn [d_excl d_shared d_look d_lookid d_inputs].
    + exact I1.
    + intros typ Ht. rewrite aget_aset_N. destruct (N.eqb_spec typ (o_typ o)) as [->|E]; [congruence | apply I2; exact Ht].
    + intros typ cs. rewrite aget_aset_N. destruct (N.eqb_spec typ (o_typ o)) as [->|E]; [|apply I3].
      intros H; inversion H; subst; clear H. apply existsb_eqb_false in Ex. split.
      * apply insert_at_NoDup; [|exact Ex]. unfold get_list in *.
        destruct (aget N.eqb (o_typ o) (d_shared d)) as [cur|] eqn:Ec; [apply (I3 _ _ Ec) | constructor].
      * intros Hn. assert (In name (insert_at (search_idx (fun x => cmpN x name) (get_list N.eqb (o_typ o) (d_shared d))) name (get_list N.eqb (o_typ o) (d_shared d))))
          by (apply insert_at_In; left; reflexivity). rewrite Hn in H. contradiction.
Qed.

Lemma OutInv_step d o : OutInv d -> OutInv (db_op_step d o).
Proof.
  intros HI. unfold db_op_step, db_op_try. destruct o as [name out|name i|name i].
  - destruct (add_output name out d) eqn:E; [eapply OutInv_add_output; eauto | exact HI].
  - destruct (add_input name i d) as [d'|] eqn:E; [|exact HI].
    unfold add_input in E. destruct (neighbourhood_dup _ _ _); [discriminate|].
    destruct HI as [I1 I2 I3]. destruct (i_id i); inversion E; subst; constructor; simpl; assumption.
  - destruct (delete_input name i d) as [d'|] eqn:E; [|exact HI].
    unfold delete_input in E. destruct (neighbourhood_dup _ _ _); [|discriminate].
    destruct HI as [I1 I2 I3]. destruct (i_id i); inversion E; subst; constructor; simpl; assumption.
Qed.

Theorem outputs_consistent ops :
  let d := run_db_ops ops db_empty in
  NoDup (map fst (d_excl d)) /\
  (forall typ, aget N.eqb typ (d_excl d) <> None -> aget N.eqb typ (d_shared d) = None) /\
  (forall typ cs, aget N.eqb typ (d_shared d) = Some cs -> NoDup cs /\ cs <> []).
Proof.
  intros d.
  assert (G : forall ops d0, OutInv d0 -> OutInv (run_db_ops ops d0)).
  { induction ops0 as [|o ops0 IH]; intros d0 H; simpl; [exact H | apply IH, OutInv_step, H]. }
  assert (H0 : OutInv db_empty) by (constructor; simpl; [constructor | intros; congruence | intros; discriminate]).
  destruct (G ops _ H0) as [I1 I2 I3]. tauto.
Qed.

(* ---- rejected operations have no effect ------------------------------------------------------- *)

Theorem rejected_no_effect d o : db_op_ok d o = false -> db_op_step d o = d.
Proof. unfold db_op_ok, db_op_step. destruct (db_op_try d o); [discriminate | reflexivity]. Qed.

Theorem rejected_registration_no_effect r o : snd (rt_step r o) = false -> fst (rt_step r o) = r.
Proof.
  unfold rt_step. destruct o as [name outs ins|name conc outs ins|name ins].
  - destruct (existsb (N.eqb name) (rt_ctrls r)); [reflexivity|].
    destruct (r_new_adapter name outs ins (rt_db r)); simpl; [discriminate | reflexivity].
  - destruct (existsb (N.eqb name) (rt_ctrls r)); [reflexivity|].
    destruct (q_new_adapter name conc outs ins (rt_db r)); simpl; [discriminate | reflexivity].
  - destruct (r_update_inputs name ins (rt_db r)); simpl; [discriminate | reflexivity].
Qed.

(* ---- conflicting inputs ------------------------------------------------------------------------ *)

(* identifiers given by ID are non-empty (the "" / absent corner is exercised against the code only) *)
Definition input_wf (i : input) : Prop := i_id i <> Some 0.

Definition key_lt (a b : input) : Prop :=
  i_ns a < i_ns b \/ (i_ns a = i_ns b /\ (i_typ a < i_typ b \/ (i_typ a = i_typ b /\ opt_val (i_id a) < opt_val (i_id b) ))).

(* sorted by key, strictly: hence no two inputs with equal keys *)
Fixpoint inputs_sorted (l : list input) : Prop :=
  match l with
  | [] => True
  | a :: l' => (forall b, In b l' -> key_lt a b) /\ inputs_sorted l'
  end.

Definition inputs_wf (l : list input) : Prop := inputs_sorted l /\ Forall input_wf l.

Lemma opt_val_inj a b : a <> Some 0 -> b <> Some 0 -> opt_val a = opt_val b -> a = b.
Proof. destruct a as [x|], b as [y|]; simpl; intros Ha Hb E; subst; try congruence. Qed.

Lemma equal_keys_iff a b : input_wf a -> input_wf b ->
  (equal_keys a b = true <-> i_ns a = i_ns b /\ i_typ a = i_typ b /\ opt_val (i_id a) = opt_val (i_id b)).
Proof.
  intros Ha Hb. unfold equal_keys. rewrite !andb_true_iff, !N.eqb_eq. split.
  - intros [[H1 H2] H3]. repeat split; try assumption.
    destruct (i_id a), (i_id b); simpl in *; try discriminate; try reflexivity. apply N.eqb_eq in H3. exact H3.
  - intros [H1 [H2 H3]]. repeat split; try assumption.
    rewrite (opt_val_inj _ _ Ha Hb H3). destruct (i_id b); simpl; [apply N.eqb_refl | reflexivity].
Qed.

Lemma in_compare_lt a b : input_wf a -> input_wf b -> (in_compare a b < 0)%Z <-> (key_lt a b \/ (equal_keys a b = true /\ i_kind a < i_kind b)).
Proof.
  intros Ha Hb. unfold in_compare, key_lt, cmpN.
  destruct (N.eqb_spec (i_ns a) (i_ns b)) as [En|En]; simpl.
  - destruct (N.eqb_spec (i_typ a) (i_typ b)) as [Et|Et]; simpl.
    + destruct (opt_atom_eqb (i_id a) (i_id b)) eqn:Ei; simpl.
      * assert (Ek : equal_keys a b = true) by (unfold equal_keys; rewrite En, Et, !N.eqb_refl, Ei; reflexivity).
        assert (Ev : opt_val (i_id a) = opt_val (i_id b)) by (apply (equal_keys_iff a b Ha Hb); exact Ek).
        destruct (N.ltb_spec (i_kind a) (i_kind b)); [split; [intros _; right; split; [exact Ek | assumption] | lia]|].
        destruct (N.ltb_spec (i_kind b) (i_kind a)); split; try lia; intros [H'|[_ H']]; lia.
      * assert (Ek : equal_keys a b = false) by (unfold equal_keys; rewrite Ei, andb_false_r; reflexivity).
        assert (Ev : opt_val (i_id a) <> opt_val (i_id b)).
        { intros E. pose proof (opt_val_inj _ _ Ha Hb E) as E'. rewrite E' in Ei. destruct (i_id b); simpl in Ei; [rewrite N.eqb_refl in Ei|]; discriminate. }
        destruct (N.ltb_spec (opt_val (i_id a)) (opt_val (i_id b))); [split; [intros _; left; lia | lia]|].
        destruct (N.ltb_spec (opt_val (i_id b)) (opt_val (i_id a))); split; try lia; intros [H'|[H' _]]; try congruence; lia.
    + assert (Ek : equal_keys a b = false).
      { unfold equal_keys. destruct (N.eqb_spec (i_typ a) (i_typ b)); [contradiction|]. rewrite andb_false_r. reflexivity. }
      destruct (N.ltb_spec (i_typ a) (i_typ b)); [split; [intros _; left; lia | lia]|].
      destruct (N.ltb_spec (i_typ b) (i_typ a)); split; try lia; intros [H'|[H' _]]; try congruence; lia.
  - assert (Ek : equal_keys a b = false).
    { unfold equal_keys. destruct (N.eqb_spec (i_ns a) (i_ns b)); [contradiction | reflexivity]. }
    destruct (N.ltb_spec (i_ns a) (i_ns b)); [split; [intros _; left; lia | lia]|].
    destruct (N.ltb_spec (i_ns b) (i_ns a)); split; try lia; intros [H'|[H' _]]; try congruence; lia.
Qed.

Lemma key_lt_trans a b c : key_lt a b -> key_lt b c -> key_lt a c.
Proof. unfold key_lt. intros; lia. Qed.

Lemma key_lt_irrefl_eq a b : input_wf a -> input_wf b -> equal_keys a b = true -> ~ key_lt a b /\ ~ key_lt b a.
Proof. intros Ha Hb E. apply (equal_keys_iff a b Ha Hb) in E. unfold key_lt. lia. Qed.

(* in a sorted list an input with the keys of dep sits at the insertion index or just before it *)
Lemma search_idx_pos dep l :
  input_wf dep -> inputs_sorted l -> Forall input_wf l ->
  forall j e, nth_error l j = Some e -> equal_keys e dep = true ->
  search_idx (fun x => in_compare x dep) l = j \/ search_idx (fun x => in_compare x dep) l = S j.
Proof.
  intros Hdep. induction l as [|x l IH]; intros Hs Hw j e Hj Hek; [destruct j; discriminate|].
  destruct Hs as [Hx Hs]. inversion Hw as [|x' l' Hwx Hwl]; subst.
  cbn [search_idx]. destruct (Z.ltb_spec (in_compare x dep) 0) as [L|L].
  - destruct j as [|j]; cbn [nth_error] in Hj.
    + inversion Hj; subst e. right. f_equal.
      destruct l as [|y l]; [reflexivity|]. cbn [search_idx].
      destruct (Z.ltb_spec (in_compare y dep) 0) as [L2|L2]; [|reflexivity]. exfalso.
      assert (Hwy : input_wf y) by (inversion Hwl; assumption).
      apply (in_compare_lt y dep Hwy Hdep) in L2.
      pose proof (Hx y (or_introl eq_refl)) as Hxy.
      apply (equal_keys_iff x dep Hwx Hdep) in Hek.
      destruct L2 as [L2|[L2 _]]; [unfold key_lt in *; lia|].
      apply (equal_keys_iff y dep Hwy Hdep) in L2. unfold key_lt in *. lia.
    + destruct (IH Hs Hwl j e Hj Hek) as [E|E]; [left | right]; congruence.
  - destruct j as [|j]; [left; reflexivity|]. exfalso. cbn [nth_error] in Hj.
    assert (Hin : In e l) by (eapply nth_error_In; eauto).
    assert (Hwe : input_wf e) by (rewrite Forall_forall in Hwl; apply Hwl; exact Hin).
    pose proof (Hx e Hin) as Hxe.
    assert (~ (in_compare x dep < 0)%Z) by lia.
    apply H. apply (in_compare_lt x dep Hwx Hdep). left.
    apply (equal_keys_iff e dep Hwe Hdep) in Hek. unfold key_lt in *. lia.
Qed.

Lemma neighbourhood_finds idx l dep j e :
  nth_error l j = Some e -> equal_keys e dep = true -> (idx = j \/ idx = S j) ->
  neighbourhood_dup idx l dep <> None.
Proof.
  intros Hj Hek Hi. unfold neighbourhood_dup. destruct Hi as [Hi|Hi]; subst idx.
  - destruct j as [|p].
    + rewrite Hj, Hek. discriminate.
    + destruct (nth_error l p) as [e0|]; [destruct (equal_keys e0 dep); [discriminate|]|]; rewrite Hj, Hek; discriminate.
  - cbn [pred]. rewrite Hj, Hek. discriminate.
Qed.

(* where the sorted insertion looks, an equal-keyed input is found if there is one *)
Theorem conflicting_input_rejected name dep d e :
  inputs_wf (get_list N.eqb name (d_inputs d)) -> input_wf dep ->
  In e (get_list N.eqb name (d_inputs d)) -> equal_keys e dep = true ->
  add_input name dep d = None.
Proof.
  intros [Hs Hw] Hdep Hin Hek. unfold add_input.
  set (l := get_list N.eqb name (d_inputs d)) in *.
  destruct (In_nth_error _ _ Hin) as [j Hj].
  pose proof (search_idx_pos dep l Hdep Hs Hw j e Hj Hek) as Hpos.
  pose proof (neighbourhood_finds _ l dep j e Hj Hek Hpos) as Hn.
  destruct (neighbourhood_dup (search_idx (fun x => in_compare x dep) l) l dep); [reflexivity | contradiction].
Qed.

Lemma key_total a b : input_wf a -> input_wf b -> key_lt a b \/ key_lt b a \/ equal_keys a b = true.
Proof.
  intros Ha Hb. destruct (equal_keys a b) eqn:E; [tauto|].
  assert (H : ~ (i_ns a = i_ns b /\ i_typ a = i_typ b /\ opt_val (i_id a) = opt_val (i_id b))).
  { intros H. apply (equal_keys_iff a b Ha Hb) in H. congruence. }
  unfold key_lt. lia.
Qed.

Lemma insert_sorted dep l :
  input_wf dep -> inputs_sorted l -> Forall input_wf l -> (forall e, In e l -> equal_keys e dep = false) ->
  inputs_sorted (insert_at (search_idx (fun x => in_compare x dep) l) dep l).
Proof.
  intros Hdep. induction l as [|x l IH]; intros Hs Hw Hne; [simpl; split; [intros ? []|exact I]|].
  destruct Hs as [Hx Hs]. inversion Hw as [|x' l' Hwx Hwl]; subst.
  assert (Hxe : equal_keys x dep = false) by (apply Hne; left; reflexivity).
  cbn [search_idx]. destruct (Z.ltb_spec (in_compare x dep) 0) as [L|L]; cbn [insert_at].
  - apply (in_compare_lt x dep Hwx Hdep) in L. destruct L as [L|[L _]]; [|congruence].
    split.
    + intros b Hb. apply insert_at_In in Hb. destruct Hb as [->|Hb]; [exact L | apply Hx; exact Hb].
    + apply IH; [exact Hs | exact Hwl | intros e He; apply Hne; right; exact He].
  - assert (Hlt : key_lt dep x).
    { destruct (key_total x dep Hwx Hdep) as [H|[H|H]]; [|exact H | congruence].
      exfalso. assert (in_compare x dep < 0)%Z by (apply (in_compare_lt x dep Hwx Hdep); left; exact H). lia. }
    split.
    + intros b [<-|Hb]; [exact Hlt | eapply key_lt_trans; [exact Hlt | apply Hx; exact Hb]].
    + split; assumption.
Qed.

Lemma neighbourhood_none_no_dup dep l :
  input_wf dep -> inputs_sorted l -> Forall input_wf l ->
  neighbourhood_dup (search_idx (fun x => in_compare x dep) l) l dep = None ->
  forall e, In e l -> equal_keys e dep = false.
Proof.
  intros Hdep Hs Hw Hn e Hin. destruct (equal_keys e dep) eqn:E; [|reflexivity]. exfalso.
  destruct (In_nth_error _ _ Hin) as [j Hj].
  apply (neighbourhood_finds _ l dep j e Hj E (search_idx_pos dep l Hdep Hs Hw j e Hj E)). exact Hn.
Qed.

Lemma get_list_aset {V} name (v : list V) m : get_list N.eqb name (aset N.eqb name v m) = v.
Proof. unfold get_list. rewrite aget_aset_N, N.eqb_refl. reflexivity. Qed.

(* accepted inputs keep the per-controller list sorted by key, hence free of conflicting keys *)
Theorem add_input_keeps_wf name dep d d' :
  inputs_wf (get_list N.eqb name (d_inputs d)) -> input_wf dep ->
  add_input name dep d = Some d' ->
  inputs_wf (get_list N.eqb name (d_inputs d')).
Proof.
  intros [Hs Hw] Hdep. unfold add_input.
  destruct (neighbourhood_dup _ _ _) eqn:En; [discriminate|].
  pose proof (neighbourhood_none_no_dup dep _ Hdep Hs Hw En) as Hne.
  assert (G : inputs_wf (insert_at (search_idx (fun e => in_compare e dep) (get_list N.eqb name (d_inputs d))) dep (get_list N.eqb name (d_inputs d)))).
  { split; [apply insert_sorted; assumption|]. rewrite Forall_forall in *. intros x Hx. apply insert_at_In in Hx.
    destruct Hx as [->|Hx]; [exact Hdep | apply Hw; exact Hx]. }
  destruct (i_id dep); intros H; inversion H; subst; cbn [d_inputs]; rewrite get_list_aset; exact G.
Qed.

(* no two stored inputs of a controller have equal keys *)
Theorem sorted_no_equal_keys l a b :
  inputs_wf l -> In a l -> In b l -> equal_keys a b = true -> a = b.
Proof.
  intros [Hs Hw]. revert a b. induction l as [|x l IH]; intros a b Ha Hb E; [contradiction|].
  destruct Hs as [Hx Hs]. inversion Hw as [|x' l' Hwx Hwl]; subst. rewrite Forall_forall in Hwl.
  destruct Ha as [<-|Ha]; destruct Hb as [<-|Hb]; try reflexivity.
  - exfalso. destruct (key_lt_irrefl_eq x b Hwx (Hwl b Hb) E) as [H _]. apply H. apply Hx. exact Hb.
  - exfalso. destruct (key_lt_irrefl_eq a x (Hwl a Ha) Hwx E) as [_ H]. apply H. apply Hx. exact Ha.
  - apply IH; try assumption. rewrite Forall_forall. exact Hwl.
Qed.
