(* Destroy.v — destroy.Controller.Reconcile (pkg/controller/generic/destroy/destroy.go) as a step machine over the
   runtime API: Get the item; if it is tearing down, has no owner and no finalizers, Destroy it with the empty owner.
   One step = one call of the controller.QRuntime API executed atomically by Access.a_apply; any store operation of any
   other party between the two calls.  The reconcile returns the error of Destroy unchanged (also not-found). *)
From Verif Require Export Store Helpers DepDB Access.
Open Scope N_scope.

Section Destroy.
  Variables (ns typ cname : atom).

  (* Settings(): q-primary input on the kind, shared output on the same type *)
  Definition dctrl : ctrl := mkCtrl cname [mkIn ns typ None 3] [mkOut typ 1].
  Definition dkey (x : atom) : key := (ns, typ, x).

  Inductive dpc := D0 | DDestroy (inp : res) | DDone (ok : bool).

  (* the three guards of Reconcile, in the order of the code *)
  Definition d_ready (inp : res) : bool :=
    r_phase inp && N.eqb (r_owner inp) 0 && match r_fins inp with [] => true | _ => false end.

  Definition d_request (x : atom) (pc : dpc) : option aop :=
    match pc with
    | D0 => Some (AGet (dkey x))
    | DDestroy _ => Some (ADestroy (dkey x) (Some 0))      (* controller.WithOwner("") *)
    | DDone _ => None
    end.

  Definition d_resume (pc : dpc) (r : ares) : dpc :=
    match pc with
    | D0 =>
        match r with
        | AOkRes inp => if d_ready inp then DDestroy inp else DDone true
        | AErr (HEStore e) => if is_not_found e then DDone true else DDone false
        | _ => DDone false
        end
    | DDestroy _ => match r with AOk => DDone true | _ => DDone false end
    | DDone b => DDone b
    end.

  Record dsys := mkDS { ds_store : store; ds_pc : dpc }.

  Inductive dchoice := DStep (now : Z) | DEnv (now : Z) (o : op) | DRestart.

  Definition d_step (x : atom) (s : dsys) (ch : dchoice) : dsys :=
    match ch with
    | DEnv now o => mkDS (apply_st now o (ds_store s)) (ds_pc s)
    | DRestart => match ds_pc s with DDone _ => mkDS (ds_store s) D0 | _ => s end
    | DStep now =>
        match d_request x (ds_pc s) with
        | None => s
        | Some o => let '(st', r) := a_apply now dctrl o (ds_store s) in mkDS st' (d_resume (ds_pc s) r)
        end
    end.

  Definition d_run (x : atom) (s : dsys) (l : list dchoice) : dsys := fold_left (d_step x) l s.

  (* an undisturbed reconcile: at most two worker steps *)
  Definition d_reconcile (now : Z) (x : atom) (st : store) : dsys :=
    d_run x (mkDS st D0) [DStep now; DStep now].
End Destroy.
