(* DestroyCheck.v — replay gated-runtime schedules of the real destroy.Controller on the Destroy machine. *)
From Verif Require Import Store StoreCheck Helpers DepDB Access GenCtl GenCtlCheck Destroy.
Open Scope N_scope.

Definition dcall_of (pc : dpc) : gcall :=
  match pc with D0 => GGet | DDestroy _ => GDestroy | DDone _ => GNone end.

(* case: namespace, kind, controller name, item, schedule with the observed call kind of every worker step,
   outcome of the reconcile (None = still inside), final listing of the kind *)
Definition dcase := (atom * atom * atom * atom * list (dchoice * gcall) * option bool * list res)%type.

Fixpoint d_check_run ns typ cname x (s : dsys) (steps : list (dchoice * gcall)) : option dsys :=
  match steps with
  | [] => Some s
  | (ch, g) :: t =>
      let ok := match ch with DStep _ => gcall_eqb (dcall_of (ds_pc s)) g | _ => true end in
      if ok then d_check_run ns typ cname x (d_step ns typ cname x s ch) t else None
  end.

Definition dcase_ok (c : dcase) : bool :=
  let '(ns, typ, cname, x, steps, final, lst) := c in
  match d_check_run ns typ cname x (mkDS [] (DDone true)) steps with
  | None => false
  | Some s =>
      (match ds_pc s, final with
       | DDone a, Some b => Bool.eqb a b
       | DDone _, None => false
       | _, None => true
       | _, Some _ => false
       end) &&
      list_eqb res_eqb (map strip_t (st_list ns typ (ds_store s))) (map strip_t lst)
  end.

Definition destroy_mismatches (cs : list dcase) : list N := mism_from dcase_ok 0 cs.
