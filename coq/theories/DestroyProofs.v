(* DestroyProofs.v — theorems about the destroy.Controller machine (Destroy.v): what a reconcile may write for every
   schedule and every environment (C07 flavour), and what an undisturbed reconcile achieves (C06 flavour). *)
From Verif Require Import Store StoreProofs Helpers DepDB Access AccessProofs Destroy.
Open Scope N_scope.

Section DestroyProofs.
  Variables (ns typ cname : atom).
  Notation dc := (dctrl ns typ cname).
  Notation dk := (dkey ns typ).
  Notation dstep := (d_step ns typ cname).
  Notation drun := (d_run ns typ cname).

  Lemma d_is_out : is_output dc typ = true.
  Proof. unfold is_output, dctrl. cbn. rewrite N.eqb_refl. reflexivity. Qed.

  Lemma d_get_spec now x st :
    a_apply now dc (AGet (dk x)) st =
    (st, match st_get (dk x) st with Some r => AOkRes r | None => AErr (HEStore ENotFound) end).
  Proof.
    unfold a_apply, dkey, check_read. rewrite d_is_out. cbn [orb].
    destruct (st_get (ns, typ, x) st); reflexivity.
  Qed.

  Lemma d_destroy_spec now x st st' r :
    a_apply now dc (ADestroy (dk x) (Some 0)) st = (st', r) ->
    (r = AOk -> exists cur, st_get (dk x) st = Some cur /\ r_owner cur = 0 /\ r_fins cur = [] /\ st' = st_del (dk x) st) /\
    (r <> AOk -> st' = st) /\
    ((exists cur, st_get (dk x) st = Some cur /\ r_owner cur = 0 /\ r_fins cur = []) -> r = AOk).
  Proof.
    unfold a_apply, dkey. rewrite d_is_out. fold (dk x). unfold apply.
    destruct (st_get (dk x) st) as [cur|] eqn:Hk.
    2:{ intros H; inversion H; subst. repeat split; try discriminate; auto. intros [c [Hc _]]. discriminate. }
    destruct (N.eqb_spec (r_owner cur) 0) as [Eo|Eo]; simpl.
    2:{ intros H; inversion H; subst. repeat split; try discriminate; auto.
        intros [c [Hc [Ho _]]]. inversion Hc; subst c. contradiction. }
    destruct (r_fins cur) eqn:Ef.
    2:{ intros H; inversion H; subst. repeat split; try discriminate; auto.
        intros [c [Hc [_ Hf]]]. inversion Hc; subst c. congruence. }
    intros H; inversion H; subst st' r; clear H. split; [|split].
    - intros _. exists cur. auto.
    - intros C. exfalso. apply C. reflexivity.
    - intros _. reflexivity.
  Qed.

  (* ---- what the controller may write, in every state (hence on every schedule, whatever the environment does) ---- *)

  (* a worker step either leaves the store alone or removes item x, which at that instant has no owner and no
     finalizers; and it does so only from the Destroy call, reached only after a read that showed the item
     tearing down, unowned and without finalizers *)
  Theorem d_step_writes now x s :
    ds_store (dstep x s (DStep now)) = ds_store s \/
    (exists inp cur, ds_pc s = DDestroy inp /\ st_get (dk x) (ds_store s) = Some cur /\
                     r_owner cur = 0 /\ r_fins cur = [] /\
                     ds_store (dstep x s (DStep now)) = st_del (dk x) (ds_store s)).
  Proof.
    destruct s as [st pc]. unfold d_step. cbn [ds_store ds_pc]. destruct pc as [|inp|b]; cbn [d_request].
    - rewrite d_get_spec. cbn [ds_store]. left. reflexivity.
    - destruct (a_apply now dc (ADestroy (dk x) (Some 0)) st) as [st' r] eqn:Ea. cbn [ds_store].
      destruct (d_destroy_spec _ _ _ _ _ Ea) as [Hok [Herr _]].
      destruct r; try (left; apply Herr; discriminate).
      right. destruct (Hok eq_refl) as [cur [Hc [Ho [Hf Hs]]]]. exists inp, cur. auto.
    - left. reflexivity.
  Qed.

  (* the Destroy call is issued only after a read that passed the three guards *)
  Definition DPc (s : dsys) : Prop :=
    match ds_pc s with DDestroy inp => d_ready inp = true /\ r_key inp = dk (r_id inp) | _ => True end.

  Lemma d_pc_inv x s ch : DPc s -> DPc (dstep x s ch).
  Proof.
    destruct s as [st pc]. unfold DPc. destruct ch as [now|now o|]; unfold d_step; cbn [ds_store ds_pc].
    - destruct pc as [|inp|b]; cbn [d_request].
      + rewrite d_get_spec. cbn [ds_pc d_resume]. intros _.
        destruct (st_get (dk x) st) as [r|] eqn:Hg; cbn; [|exact I].
        destruct (d_ready r) eqn:Hr; [|exact I]. split; [exact Hr|].
        apply st_get_key in Hg. rewrite Hg. unfold dkey. unfold r_key in Hg. inversion Hg. reflexivity.
      + intros _. destruct (a_apply now dc _ st) as [st' r]. cbn [ds_pc d_resume]. destruct r; exact I.
      + intros _. exact I.
    - auto.
    - destruct pc; auto.
  Qed.

  Theorem d_pc_reachable x l : DPc (drun x (mkDS [] (DDone true)) l).
  Proof.
    assert (G : forall s, DPc s -> DPc (drun x s l)).
    { induction l as [|ch l IH]; intros s Hs; [exact Hs|]. apply IH. apply d_pc_inv. exact Hs. }
    apply G. exact I.
  Qed.

  (* ---- phase: under an environment that neither removes nor revives a tearing-down item (it is the destroy
     controller's to remove) every Destroy that succeeds removes an item that is marked tearing down ---- *)

  Definition d_env_ok (x : atom) (st st' : store) : Prop :=
    forall cur, st_get (dk x) st = Some cur -> r_phase cur = true ->
    exists cur', st_get (dk x) st' = Some cur' /\ r_phase cur' = true.

  Fixpoint d_env_respects (x : atom) (s : dsys) (l : list dchoice) : Prop :=
    match l with
    | [] => True
    | ch :: t =>
        (match ch with DEnv now o => d_env_ok x (ds_store s) (apply_st now o (ds_store s)) | _ => True end) /\
        d_env_respects x (dstep x s ch) t
    end.

  Definition DInv (x : atom) (s : dsys) : Prop :=
    match ds_pc s with
    | DDestroy _ => exists cur, st_get (dk x) (ds_store s) = Some cur /\ r_phase cur = true
    | _ => True
    end.

  Lemma d_inv_step x s ch :
    DInv x s -> (match ch with DEnv now o => d_env_ok x (ds_store s) (apply_st now o (ds_store s)) | _ => True end) ->
    DInv x (dstep x s ch).
  Proof.
    destruct s as [st pc]. unfold DInv. destruct ch as [now|now o|]; unfold d_step; cbn [ds_store ds_pc]; intros Hi He.
    - destruct pc as [|inp|b]; cbn [d_request].
      + rewrite d_get_spec. cbn [ds_pc ds_store d_resume].
        destruct (st_get (dk x) st) as [r|] eqn:Hg; cbn; [|exact I].
        destruct (d_ready r) eqn:Hr; [|exact I]. exists r. split; [first [exact Hg | reflexivity]|].
        unfold d_ready in Hr. destruct (r_phase r); [reflexivity | discriminate].
      + destruct (a_apply now dc _ st) as [st' r]. cbn [ds_pc d_resume]. destruct r; exact I.
      + exact I.
    - destruct pc as [|inp|b]; try exact I. destruct Hi as [cur [Hc Hp]]. apply (He cur Hc Hp).
    - destruct pc; cbn [ds_pc ds_store] in *; auto.
  Qed.

  Theorem d_inv_run x l : forall s, DInv x s -> d_env_respects x s l -> DInv x (drun x s l).
  Proof.
    induction l as [|ch l IH]; intros s Hi Hr; [exact Hi|]. destruct Hr as [He Hr].
    cbn [d_run fold_left]. apply IH; [apply d_inv_step; assumption | exact Hr].
  Qed.

  Theorem d_destroy_only_torn_down x l now :
    d_env_respects x (mkDS [] (DDone true)) l ->
    let s := drun x (mkDS [] (DDone true)) l in
    ds_store (dstep x s (DStep now)) <> ds_store s ->
    exists cur, st_get (dk x) (ds_store s) = Some cur /\ r_phase cur = true /\ r_owner cur = 0 /\ r_fins cur = [] /\
                st_get (dk x) (ds_store (dstep x s (DStep now))) = None.
  Proof.
    intros Hr s Hneq. assert (Hi : DInv x s) by (apply d_inv_run; [exact I | exact Hr]).
    destruct (d_step_writes now x s) as [E | [inp [cur [Hpc [Hc [Ho [Hf Hs]]]]]]]; [contradiction|].
    unfold DInv in Hi. rewrite Hpc in Hi. destruct Hi as [cur' [Hc' Hp]]. rewrite Hc in Hc'. inversion Hc'; subst cur'.
    exists cur. repeat split; auto. rewrite Hs, st_get_del, key_eqb_refl. reflexivity.
  Qed.

  (* ---- an undisturbed reconcile (C06 flavour): it succeeds, removes the item iff it was ready to be destroyed and
     touches nothing else ---- *)

  Lemma d_first_step now x st :
    dstep x (mkDS st D0) (DStep now) =
    mkDS st (d_resume D0 (match st_get (dk x) st with Some r => AOkRes r | None => AErr (HEStore ENotFound) end)).
  Proof. unfold d_step. cbn [ds_pc ds_store d_request]. rewrite d_get_spec. reflexivity. Qed.

  Theorem d_converges now x st :
    let s := d_reconcile ns typ cname now x st in
    ds_pc s = DDone true /\
    ds_store s = (match st_get (dk x) st with
                  | Some cur => if d_ready cur then st_del (dk x) st else st
                  | None => st
                  end) /\
    (forall cur, st_get (dk x) (ds_store s) = Some cur -> d_ready cur = false).
  Proof.
    unfold d_reconcile, d_run. cbn [fold_left]. rewrite d_first_step. cbn [d_resume]. destruct (st_get (dk x) st) as [cur|] eqn:Hg.
    - destruct (d_ready cur) eqn:Hr.
      + unfold d_step. cbn [ds_pc ds_store d_request].
        destruct (a_apply now dc (ADestroy (dk x) (Some 0)) st) as [st' r] eqn:Ea.
        destruct (d_destroy_spec _ _ _ _ _ Ea) as [Hok [_ Hiff]].
        assert (r = AOk).
        { apply Hiff. exists cur. unfold d_ready in Hr. destruct (r_phase cur); [|discriminate].
          destruct (N.eqb_spec (r_owner cur) 0); [|discriminate]. destruct (r_fins cur); [|discriminate]. auto. }
        subst r. cbn [ds_pc ds_store d_resume]. destruct (Hok eq_refl) as [c [_ [_ [_ Hs]]]]. subst st'.
        split; [reflexivity | split; [reflexivity|]]. intros c'. rewrite st_get_del, key_eqb_refl. discriminate.
      + cbn [ds_pc ds_store d_step fold_left d_request]. split; [reflexivity | split; [reflexivity|]].
        intros c' Hc'. rewrite Hg in Hc'. inversion Hc'; subst c'. exact Hr.
    - cbn [ds_pc ds_store d_step fold_left d_request is_not_found]. split; [reflexivity | split; [reflexivity|]].
      intros c' Hc'. rewrite Hg in Hc'. discriminate.
  Qed.
End DestroyProofs.

(* non-vacuity: a schedule that respects the environment hypothesis and ends with the item destroyed *)
Example d_destroys_somewhere :
  let r := mkRes 1 2 7 None 0 false [] [] 0 0 5 in
  let rtd := mkRes 1 2 7 (Some 1) 0 true [] [] 0 0 5 in
  let l := [DEnv 1 (OpCreate r 0); DEnv 2 (OpUpdate rtd 0 None); DRestart; DStep 3; DStep 4] in
  d_env_respects 1 2 9 7 (mkDS [] (DDone true)) l /\
  st_get (1, 2, 7) (ds_store (d_run 1 2 9 7 (mkDS [] (DDone true)) (firstn 4 l))) <> None /\
  ds_store (d_run 1 2 9 7 (mkDS [] (DDone true)) l) = [] /\ ds_pc (d_run 1 2 9 7 (mkDS [] (DDone true)) l) = DDone true.
Proof.
  cbv zeta. repeat split; try (vm_compute; congruence).
  all: unfold d_env_ok; intros cur; vm_compute; try discriminate.
  all: intros H; inversion H; subst; vm_compute; intros; try discriminate; eauto.
Qed.

(* observation (not a finding against a listed property): Destroy goes by pointer, not by version.  Without the
   environment hypothesis - another party removes the torn-down item between the controller's Get and its Destroy and
   re-creates it - the controller removes the new, running item *)
Example d_destroys_running_without_env_hypothesis :
  let r := mkRes 1 2 7 None 0 false [] [] 0 0 5 in
  let rtd := mkRes 1 2 7 (Some 1) 0 true [] [] 0 0 5 in
  let l := [DEnv 1 (OpCreate r 0); DEnv 2 (OpUpdate rtd 0 None); DRestart; DStep 3;
            DEnv 4 (OpDestroy (1, 2, 7) 0); DEnv 5 (OpCreate r 0)] in
  let s := d_run 1 2 9 7 (mkDS [] (DDone true)) l in
  (exists cur, st_get (1, 2, 7) (ds_store s) = Some cur /\ r_phase cur = false) /\
  ds_store (d_step 1 2 9 7 s (DStep 6)) = [].
Proof. cbv zeta. split; [eexists; split; vm_compute; reflexivity | vm_compute; reflexivity]. Qed.
