(* FilterProofs.v — replaying (selector-filtered) watch events over the (filtered) snapshot reproduces
   the (filtered) store contents, for every selector predicate and every operation history.
   With the trivial selector this is "replay of the event log equals the state" (C02); with an
   arbitrary one it is the exact-view property of filtered kind watches (C14). *)
From Verif Require Import Store StoreProofs StoreCheck Ring WatchCheck.
Open Scope N_scope.

Local Opaque st_put st_del.

Definition ev_apply (s : store) (e : event) : store :=
  match e with
  | EvCreated r => st_put r s
  | EvUpdated r _ => st_put r s
  | EvDestroyed r => st_del (r_key r) s
  end.

Definition consistent (s : store) (e : event) : Prop :=
  match e with
  | EvCreated r => st_get (r_key r) s = None
  | EvUpdated r old => st_get (r_key r) s = Some old
  | EvDestroyed r => st_get (r_key r) s = Some r
  end.

(* the events published by the store describe exactly its transitions *)
Theorem apply_event_consistent now o s s' r e :
  apply now o s = (s', r, Some e) ->
  consistent s e /\ forall k, st_get k s' = st_get k (ev_apply s e).
Proof.
  unfold apply. destruct o as [x owner|x owner exp|k0 owner|k0|ns typ].
  - pose proof (set_owner_spec x owner) as Hso. destruct (set_owner x owner) as [r1|]; [|discriminate].
    destruct (st_get (r_key r1) s) eqn:Eg; [discriminate|].
    intros H; inversion H; subst; clear H. split; [exact Eg | reflexivity].
  - destruct (st_get (r_key x) s) as [cur|] eqn:Eg; [|discriminate].
    destruct (negb (r_owner cur =? owner)); [discriminate|].
    destruct (negb (ver_eqb (r_ver cur) (r_ver x))); [discriminate|].
    destruct (match exp with Some p => negb (Bool.eqb (r_phase cur) p) | None => false end); [discriminate|].
    intros H; inversion H; subst; clear H. split; [exact Eg | reflexivity].
  - destruct (st_get k0 s) as [cur|] eqn:Eg; [|discriminate].
    destruct (negb (r_owner cur =? owner)); [discriminate|].
    destruct (r_fins cur); [|discriminate].
    intros H; inversion H; subst; clear H. pose proof (st_get_key _ _ _ Eg) as Hk.
    split; [simpl; rewrite Hk; exact Eg | simpl; rewrite Hk; reflexivity].
  - destruct (st_get k0 s); discriminate.
  - discriminate.
Qed.

Section Filter.
  Variable sel : WatchCheck.sel.

  Definition m (r : res) : bool := sel_matches sel r.

  Definition filt (s : store) (k : key) : option res :=
    match st_get k s with
    | Some r => if m r then Some r else None
    | None => None
    end.

  (* how a subscriber applies a delivered event to its replica *)
  Definition rep_apply (rep : store) (v : wev) : store :=
    match v with
    | WE t (Some r) _ _ => if N.eqb t 2 then st_del (r_key r) rep else st_put r rep
    | WE _ None _ _ => rep
    end.

  Theorem filtered_step rep s e p :
    (forall k, st_get k rep = filt s k) -> consistent s e ->
    (match e with EvUpdated r old => r_key old = r_key r | _ => True end) ->
    forall k, st_get k (fold_left rep_apply (kind_view sel (Some e, p)) rep) = filt (ev_apply s e) k.
  Proof.
    intros Hrep Hc Hk k. unfold filt in *. destruct e as [r|r old|r]; simpl in *.
    - fold (m r). destruct (m r) eqn:Em; simpl.
      + rewrite !st_get_put. destruct (key_eqb k (r_key r)); [rewrite Em; reflexivity | apply Hrep].
      + rewrite st_get_put. destruct (key_eqb_spec k (r_key r)) as [->|Hne]; [|apply Hrep].
        rewrite Em, Hrep, Hc. reflexivity.
    - fold (m r) (m old).
      assert (Hold : st_get (r_key r) rep = if m old then Some old else None) by (rewrite Hrep, Hc; reflexivity).
      destruct (m old) eqn:Eo; destruct (m r) eqn:En; simpl.
      + rewrite !st_get_put. destruct (key_eqb k (r_key r)); [rewrite En; reflexivity | apply Hrep].
      + rewrite st_get_del, st_get_put. destruct (key_eqb_spec k (r_key r)) as [->|Hne]; [rewrite En; reflexivity | apply Hrep].
      + rewrite !st_get_put. destruct (key_eqb k (r_key r)); [rewrite En; reflexivity | apply Hrep].
      + rewrite st_get_put. destruct (key_eqb_spec k (r_key r)) as [->|Hne]; [|apply Hrep].
        rewrite En, Hold. reflexivity.
    - fold (m r). destruct (m r) eqn:Em; simpl.
      + rewrite !st_get_del. destruct (key_eqb k (r_key r)); [reflexivity | apply Hrep].
      + rewrite st_get_del. destruct (key_eqb_spec k (r_key r)) as [->|Hne]; [|apply Hrep].
        rewrite Hrep, Hc, Em. reflexivity.
  Qed.

  (* a whole history: ops applied one after another, each published event viewed through the selector *)
  Fixpoint run_ops (ops : list (Z * op)) (s : store) : store * list event :=
    match ops with
    | [] => (s, [])
    | (now, o) :: ops' =>
        let '(s1, _, ev) := apply now o s in
        let '(s2, evs) := run_ops ops' s1 in
        (s2, match ev with Some e => e :: evs | None => evs end)
    end.

  Fixpoint views (evs : list event) (p : Z) : list wev :=
    match evs with
    | [] => []
    | e :: evs' => kind_view sel (Some e, p) ++ views evs' (p + 1)%Z
    end.

  Theorem filtered_watch_exact ops s rep p :
    (forall k, st_get k rep = filt s k) ->
    let '(s', evs) := run_ops ops s in
    forall k, st_get k (fold_left rep_apply (views evs p) rep) = filt s' k.
  Proof.
    revert s rep p. induction ops as [|[now o] ops IH]; intros s rep p Hrep; simpl; [exact Hrep|].
    destruct (apply now o s) as [[s1 r] ev] eqn:Ea.
    specialize (IH s1).
    destruct (run_ops ops s1) as [s2 evs] eqn:Er.
    destruct ev as [e|].
    - destruct (apply_event_consistent _ _ _ _ _ _ Ea) as [Hc Hs1].
      assert (Hk : match e with EvUpdated x old => r_key old = r_key x | _ => True end).
      { destruct e as [x|x old|x]; try exact I. simpl in Hc. apply st_get_key in Hc. exact Hc. }
      simpl. rewrite fold_left_app.
      specialize (IH (fold_left rep_apply (kind_view sel (Some e, p)) rep) (p + 1)%Z).
      apply IH. intros k.
      rewrite (filtered_step rep s e p Hrep Hc Hk k). unfold filt. rewrite Hs1. reflexivity.
    - assert (Hs : s1 = s).
      { destruct r as [er| | | |].
        - pose proof (failed_unchanged now o s er) as Hf. unfold apply_res, apply_st in Hf. rewrite Ea in Hf. simpl in Hf.
          destruct (Hf eq_refl) as [H _]. exact H.
        - unfold apply in Ea. destruct o as [x owner|x owner exp|k0 owner|k0|ns typ]; simpl in Ea;
            repeat match type of Ea with context [match ?X with _ => _ end] => destruct X end;
            try discriminate; inversion Ea; reflexivity.
        - unfold apply in Ea. destruct o as [x owner|x owner exp|k0 owner|k0|ns typ]; simpl in Ea;
            repeat match type of Ea with context [match ?X with _ => _ end] => destruct X end;
            try discriminate; inversion Ea; reflexivity.
        - unfold apply in Ea. destruct o as [x owner|x owner exp|k0 owner|k0|ns typ]; simpl in Ea;
            repeat match type of Ea with context [match ?X with _ => _ end] => destruct X end;
            try discriminate; inversion Ea; reflexivity.
        - unfold apply in Ea. destruct o as [x owner|x owner exp|k0 owner|k0|ns typ]; simpl in Ea;
            repeat match type of Ea with context [match ?X with _ => _ end] => destruct X end;
            try discriminate; inversion Ea; reflexivity. }
      subst s1. specialize (IH rep p). apply IH. exact Hrep.
  Qed.
End Filter.

(* each Updated event's old value is the value the store held, and the new version is old + 1 *)
Theorem updated_old_chain now o s s' r w old :
  apply now o s = (s', r, Some (EvUpdated w old)) ->
  st_get (r_key w) s = Some old /\ r_ver w = ver_next (r_ver old) /\ st_get (r_key w) s' = Some w.
Proof.
  intros Ha. destruct (apply_event_consistent _ _ _ _ _ _ Ha) as [Hc Hs].
  split; [exact Hc|]. split.
  - unfold apply in Ha. destruct o as [x owner|x owner exp|k0 owner|k0|ns typ];
      repeat match type of Ha with context [match ?X with _ => _ end] => destruct X eqn:? end; try discriminate.
    inversion Ha; subst; clear Ha. simpl.
    match goal with H : negb (ver_eqb _ _) = false |- _ => apply negb_false_iff in H; destruct (ver_eqb_spec (r_ver old) (r_ver x)); [congruence | discriminate] end.
  - rewrite Hs. simpl. rewrite st_get_put, key_eqb_refl. reflexivity.
Qed.
