(* Frame.v — the store marshaler stack (pkg/state/impl/store: protobuf.go, compression/compression.go,
   encryption/marshaler.go): any stacking of compression and encryption wrappers around the protobuf marshaler.
   The compressor and the AEAD are section variables with their specification as hypotheses (zstd, AES-GCM are
   trusted libraries; the harness runs the real ones and a toy compressor that the model can evaluate). *)
From Coq Require Export List NArith Bool Lia.
Export ListNotations.
Open Scope N_scope.

Definition bytes := list N.

Section Frame.
  (* Compressor: Compress(prefix, data) = prefix ++ compress data; Decompress; ID *)
  Variable compress : bytes -> bytes.
  Variable decompress : bytes -> option bytes.
  Variable comp_id : N.
  (* AEAD under a key: seal nonce plaintext, open nonce ciphertext *)
  Variable key : Type.
  Variable seal : key -> bytes -> bytes -> bytes.
  Variable open : key -> bytes -> bytes -> option bytes.

  Inductive layer :=
  | LComp (minsize : nat)      (* compression.NewMarshaler(_, c, minsize) *)
  | LEnc (k : key).            (* encryption.NewMarshaler(_, cipher(k)) *)

  Definition has_header (b : bytes) : bool :=
    match b with 0 :: _ :: _ => true | _ => false end.     (* len(b) > 1 && b[0] == 0 *)

  (* one layer's MarshalResource applied to the bytes of the layer below; enc layers draw a 12-byte nonce *)
  Definition wrap (l : layer) (nonce : bytes) (b : bytes) : bytes :=
    match l with
    | LComp m => if Nat.ltb (length b) m then b else 0 :: comp_id :: compress b
    | LEnc k => 1 :: nonce ++ seal k nonce b
    end.

  (* the stack is listed outermost first; nonces are consumed innermost first *)
  Fixpoint marshal (ls : list layer) (nonces : list bytes) (payload : bytes) : bytes :=
    match ls with
    | [] => payload
    | l :: ls' => wrap l (nth (length ls') nonces []) (marshal ls' nonces payload)
    end.

  (* one layer's UnmarshalResource in front of the decoder of the layers below *)
  Definition unwrap (l : layer) (inner : bytes -> option bytes) (b : bytes) : option bytes :=
    match l with
    | LComp _ =>
        if has_header b then
          match b with
          | _ :: id :: body =>
              if N.eqb id comp_id then match decompress body with Some d => inner d | None => None end
              else None                                   (* unknown compression ID *)
          | _ => None
          end
        else inner b
    | LEnc k =>
        if Nat.ltb (length b) 14 then None                (* encrypted data is too short *)
        else match b with
             | 1 :: rest => match open k (firstn 12 rest) (skipn 12 rest) with Some d => inner d | None => None end
             | _ => None                                  (* unknown data format *)
             end
    end.

  Fixpoint unmarshal (ls : list layer) (b : bytes) : option bytes :=
    match ls with
    | [] => Some b                                         (* handed to the protobuf decoder *)
    | l :: ls' => unwrap l (unmarshal ls') b
    end.
End Frame.
