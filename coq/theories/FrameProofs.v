(* FrameProofs.v — every stacking round-trips on both sides of every size threshold; tampering and wrong keys are
   detected, given a correct compressor and an ideal AEAD. *)
From Verif Require Import Frame.
From Coq Require Import Arith.
Open Scope N_scope.

Section Proofs.
  Variable compress : bytes -> bytes.
  Variable decompress : bytes -> option bytes.
  Variable comp_id : N.
  Variable key : Type.
  Variable seal : key -> bytes -> bytes -> bytes.
  Variable open : key -> bytes -> bytes -> option bytes.

  Hypothesis decompress_compress : forall b, decompress (compress b) = Some b.
  Hypothesis open_seal : forall k n b, length n = 12%nat -> open k n (seal k n b) = Some b.
  (* GCM appends a 16-byte tag *)
  Hypothesis seal_length : forall k n b, (length (seal k n b) >= 1)%nat.

  Notation layer := (layer key).
  Notation marshal := (marshal compress comp_id key seal).
  Notation unmarshal := (unmarshal decompress comp_id key open).
  Notation wrap := (wrap compress comp_id key seal).

  (* what the protobuf marshaler emits never looks like a compression header: a non-empty message starts with a
     field tag, and tag bytes are non-zero (Wire.tag_nonzero) *)
  Definition raw_ok (b : bytes) : Prop := has_header b = false.

  Definition nonces_ok (ls : list layer) (nonces : list bytes) : Prop :=
    forall i, (i < length ls)%nat -> length (nth i nonces []) = 12%nat.

  Definition all_comp (cs : list layer) : Prop := forall l, In l cs -> exists m, l = LComp key m.

  Lemma unmarshal_comp_noheader cs ls b :
    all_comp cs -> has_header b = false -> unmarshal (cs ++ ls) b = unmarshal ls b.
  Proof.
    induction cs as [|c cs IH]; intros Hc Hh; [reflexivity|]. cbn [app Frame.unmarshal].
    destruct (Hc c (or_introl eq_refl)) as [m ->]. cbn [unwrap]. rewrite Hh.
    apply IH; [|exact Hh]. intros l Hl. apply Hc. right. exact Hl.
  Qed.

  (* extra compression decoders on top of a stack still decode what the stack produced *)
  Lemma stack_roundtrip_gen ls : forall nonces payload cs,
    raw_ok payload -> nonces_ok ls nonces -> all_comp cs ->
    unmarshal (cs ++ ls) (marshal ls nonces payload) = Some payload.
  Proof.
    induction ls as [|l ls IH]; intros nonces payload cs Hr Hn Hc.
    - cbn [Frame.marshal]. rewrite unmarshal_comp_noheader by assumption. reflexivity.
    - assert (Hn' : nonces_ok ls nonces) by (intros i Hi; apply Hn; cbn; lia).
      cbn [Frame.marshal]. destruct l as [m|k]; cbn [Frame.wrap].
      + destruct (Nat.ltb (length (marshal ls nonces payload)) m).
        * (* below the threshold: passed through unchanged; this layer's decoder is one more compression decoder *)
          replace (cs ++ LComp key m :: ls) with ((cs ++ [LComp key m]) ++ ls) by (rewrite <- app_assoc; reflexivity).
          apply IH; auto; intros l Hl; apply in_app_or in Hl; destruct Hl as [Hl|[Hl|[]]]; [apply Hc; exact Hl | eauto].
        * (* compressed: the first compression decoder on the way peels the header *)
          destruct cs as [|c cs].
          -- cbn [app Frame.unmarshal unwrap has_header]. rewrite N.eqb_refl, decompress_compress.
             apply (IH nonces payload []); auto; intros l [].
          -- destruct (Hc c (or_introl eq_refl)) as [m' ->].
             cbn [app Frame.unmarshal unwrap has_header]. rewrite N.eqb_refl, decompress_compress.
             replace (cs ++ LComp key m :: ls) with ((cs ++ [LComp key m]) ++ ls) by (rewrite <- app_assoc; reflexivity).
             apply IH; auto; intros l Hl; apply in_app_or in Hl;
             destruct Hl as [Hl|[Hl|[]]]; [apply Hc; right; exact Hl | eauto].
      + (* encrypted: starts with the format byte 1, so compression decoders above pass it on *)
        set (n := nth (length ls) nonces []).
        assert (Ln : length n = 12%nat) by (apply Hn; cbn; lia).
        rewrite unmarshal_comp_noheader; [|exact Hc|reflexivity].
        cbn [Frame.unmarshal unwrap].
        assert (Hlen : Nat.ltb (length (1 :: n ++ seal k n (marshal ls nonces payload))) 14 = false).
        { apply Nat.ltb_ge. cbn [length]. rewrite app_length, Ln. pose proof (seal_length k n (marshal ls nonces payload)). lia. }
        rewrite Hlen.
        replace (firstn 12 (n ++ seal k n (marshal ls nonces payload))) with n
          by (rewrite <- Ln, firstn_app, Nat.sub_diag, firstn_all; cbn; rewrite app_nil_r; reflexivity).
        replace (skipn 12 (n ++ seal k n (marshal ls nonces payload))) with (seal k n (marshal ls nonces payload))
          by (rewrite <- Ln, skipn_app, Nat.sub_diag, skipn_all; reflexivity).
        rewrite open_seal by exact Ln. apply (IH nonces payload []); auto; intros l [].
  Qed.

  (* C18: decode(encode(x)) = x for every stacking, every payload, every threshold, every nonce choice *)
  Theorem stack_roundtrip ls nonces payload :
    raw_ok payload -> nonces_ok ls nonces ->
    unmarshal ls (marshal ls nonces payload) = Some payload.
  Proof. intros Hr Hn. apply (stack_roundtrip_gen ls nonces payload []); auto. intros l []. Qed.

  (* ideal AEAD: whatever opens under k was sealed under k with that nonce; nothing sealed under k opens under k' *)
  Hypothesis open_authentic : forall k n c b, open k n c = Some b -> c = seal k n b.
  Hypothesis open_wrong_key : forall k k' n b, k <> k' -> open k' n (seal k n b) = None.

  (* any byte string accepted by an encrypting marshaler is a genuine record: tampering is detected *)
  Theorem tamper_detected k ls b x :
    unmarshal (LEnc key k :: ls) b = Some x ->
    exists n p, b = 1 :: n ++ seal k n p /\ length n = 12%nat /\ unmarshal ls p = Some x.
  Proof.
    cbn [Frame.unmarshal unwrap]. destruct (Nat.ltb (length b) 14) eqn:L; [discriminate|].
    destruct b as [|c rest]; [discriminate|].
    destruct c as [|[p|p|]]; try discriminate.
    destruct (open k (firstn 12 rest) (skipn 12 rest)) as [d|] eqn:O; [|discriminate].
    intros H. exists (firstn 12 rest), d. split; [|split; [|exact H]].
    - rewrite <- (open_authentic _ _ _ _ O), firstn_skipn. reflexivity.
    - apply Nat.ltb_ge in L. cbn [length] in L. rewrite firstn_length. lia.
  Qed.

  Theorem wrong_key_detected k k' ls nonces payload :
    k <> k' -> nonces_ok (LEnc key k :: ls) nonces ->
    unmarshal (LEnc key k' :: ls) (marshal (LEnc key k :: ls) nonces payload) = None.
  Proof.
    intros Hk Hn. cbn [Frame.marshal Frame.wrap Frame.unmarshal unwrap].
    set (n := nth (length ls) nonces []).
    assert (Ln : length n = 12%nat) by (apply Hn; cbn; lia).
    assert (Hlen : Nat.ltb (length (1 :: n ++ seal k n (marshal ls nonces payload))) 14 = false).
    { apply Nat.ltb_ge. cbn [length]. rewrite app_length, Ln. pose proof (seal_length k n (marshal ls nonces payload)). lia. }
    rewrite Hlen.
    replace (firstn 12 (n ++ seal k n (marshal ls nonces payload))) with n
      by (rewrite <- Ln, firstn_app, Nat.sub_diag, firstn_all; cbn; rewrite app_nil_r; reflexivity).
    replace (skipn 12 (n ++ seal k n (marshal ls nonces payload))) with (seal k n (marshal ls nonces payload))
      by (rewrite <- Ln, skipn_app, Nat.sub_diag, skipn_all; reflexivity).
    rewrite open_wrong_key by exact Hk. reflexivity.
  Qed.

  (* the framing decoders are total functions: short, foreign-format and foreign-compressor inputs are errors *)
  Theorem short_or_foreign_rejected k ls b :
    (length b < 14)%nat \/ (exists c rest, b = c :: rest /\ c <> 1) -> unmarshal (LEnc key k :: ls) b = None.
  Proof.
    intros [H|[c [rest [-> Hc]]]]; cbn [Frame.unmarshal unwrap].
    - apply Nat.ltb_lt in H. rewrite H. reflexivity.
    - destruct (Nat.ltb (length (c :: rest)) 14); [reflexivity|].
      destruct c as [|[p|p|]]; try reflexivity. contradiction.
  Qed.

  Theorem foreign_compressor_rejected m ls id body :
    id <> comp_id -> unmarshal (LComp key m :: ls) (0 :: id :: body) = None.
  Proof.
    intros H. cbn [Frame.unmarshal unwrap has_header]. destruct (N.eqb_spec id comp_id); [contradiction | reflexivity].
  Qed.
End Proofs.

(* non-vacuity: a toy instance satisfying every hypothesis (identity "compression", XOR-free tagging "AEAD") *)
Definition toy_seal (k : N) (n b : bytes) : bytes := k :: b.
Definition toy_open (k : N) (n c : bytes) : option bytes :=
  match c with k' :: b => if N.eqb k k' then Some b else None | [] => None end.

Example toy_instance_ok :
  (forall b : bytes, (fun x : bytes => Some x) ((fun x : bytes => x) b) = Some b) /\
  (forall k n b, toy_open k n (toy_seal k n b) = Some b) /\
  (forall k n c b, toy_open k n c = Some b -> c = toy_seal k n b) /\
  (forall k k' n b, k <> k' -> toy_open k' n (toy_seal k n b) = None).
Proof.
  repeat split.
  - intros k n b. unfold toy_open, toy_seal. rewrite N.eqb_refl. reflexivity.
  - intros k n c b. unfold toy_open, toy_seal. destruct c as [|k' c]; [discriminate|].
    destruct (N.eqb_spec k k'); [|discriminate]. intros H; inversion H; subst. reflexivity.
  - intros k k' n b H. unfold toy_open, toy_seal. destruct (N.eqb_spec k' k); [congruence | reflexivity].
Qed.

Example stack_example :
  let n := [1;2;3;4;5;6;7;8;9;10;11;12] in
  unmarshal (fun b => Some b) 122 N toy_open [LComp N 0; LEnc N 7; LComp N 100; LComp N 0]
    (marshal (fun b => b) 122 N toy_seal [LComp N 0; LEnc N 7; LComp N 100; LComp N 0] [n; n; n; n] [10; 20; 30])
  = Some [10; 20; 30].
Proof. vm_compute. reflexivity. Qed.
