(* GenCtl.v — the generic controllers as step machines over the runtime API:
   qtransform.QController.Reconcile (reconcileRunning / handleOutputTearingDown / reconcileTearingDown),
   one reconcile cycle of transform.Controller.Run (processInputs / reconcileTearingDownInput / cleanupOutputs),
   cleanup.Controller.processInput.

   Granularity: one step = one call of the controller.Runtime API (Get, List, AddFinalizer, Modify,
   Teardown, Destroy, RemoveFinalizer), executed atomically by Access.a_apply.  That a successful helper
   call acts as one atomic application on the then-current value is theorem C04 (rmw_atomic); the
   environment may interleave any store operations between two calls. *)
From Verif Require Export Store Helpers DepDB Access.
Open Scope N_scope.

Section Gen.
  Variables (ns tin tout cname : atom).

  Definition kin (x : atom) : key := (ns, tin, x).
  Definition kout (x : atom) : key := (ns, tout, x).

  (* the controller's declaration: primary/strong input kind, exclusive output kind *)
  Definition gctrl : ctrl :=
    mkCtrl cname [mkIn ns tin None 3; mkIn ns tout None 5] [mkOut tout 0].

  (* the transformed content of an input value (the user's transform function, injective on contents here) *)
  Variable tf : atom -> atom.

  Definition empty_out (x : atom) : res := mkRes ns tout x None 0 false [] [] 0 0 0.

  Definition has_fin (r : res) : bool := existsb (N.eqb cname) (r_fins r).

  (* ---- qtransform ---------------------------------------------------------------------------------- *)

  Inductive qmode := QPlain | QUntil | QWhile (f : atom).

  (* the ignore-teardown scan over the input's finalizers *)
  Definition ignore_td (m : qmode) (inp : res) : bool :=
    match m with
    | QPlain => false
    | QUntil => existsb (fun f => negb (N.eqb f cname)) (r_fins inp)      (* an unexpected finalizer is still there *)
    | QWhile w => existsb (fun f => negb (N.eqb f cname) && N.eqb f w) (r_fins inp)
    end.

  Inductive qpc :=
  | Q0
  | QAddFin (inp : res)
  | QGetOut (inp : res)
  | QDestroyOutTD (inp : res)
  | QModify (inp : res)
  | QTeardownOut (inp : res)
  | QDestroyOut (inp : res)
  | QRemFin (inp : res)
  | QDone (ok : bool).

  Definition q_request (x : atom) (pc : qpc) (fault : bool) : option aop :=
    match pc with
    | Q0 => Some (AGet (kin x))
    | QAddFin _ => Some (AAddFin (kin x) [cname])
    | QGetOut _ => Some (AGet (kout x))
    | QDestroyOutTD _ | QDestroyOut _ => Some (ADestroy (kout x) None)
    | QModify inp =>
        Some (AModify (empty_out x) (if fault then MFail else MSetSpec (tf (r_spec inp))) (Some false) false)
    | QTeardownOut _ => Some (ATeardown (kout x) None)
    | QRemFin _ => Some (ARemFin (kin x) [cname])
    | QDone _ => None
    end.

  Definition is_conflict_res (r : ares) : bool :=
    match r with AErr (HEStore e) => is_conflict e 0 0 | AErr HEPhaseLocal => false | _ => false end.
  Definition is_notfound_res (r : ares) : bool :=
    match r with AErr (HEStore e) => is_not_found e | _ => false end.

  Definition q_resume (m : qmode) (pc : qpc) (r : ares) : qpc :=
    match pc with
    | Q0 =>
        match r with
        | AOkRes inp =>
            if r_phase inp then
              if ignore_td m inp then QGetOut inp       (* reconcileRunning on a tearing-down input: no AddFinalizer *)
              else QTeardownOut inp
            else if has_fin inp then QGetOut inp else QAddFin inp
        | _ => if is_notfound_res r then QDone true else QDone false
        end
    | QAddFin inp => match r with AOk => QGetOut inp | _ => QDone false end
    | QGetOut inp =>
        match r with
        | AOkRes o =>
            if r_phase o then (match r_fins o with [] => QDestroyOutTD inp | _ => QDone true end)
            else QModify inp
        | _ => if is_notfound_res r then QModify inp else QDone false
        end
    | QDestroyOutTD inp => match r with AOk => QModify inp | _ => QDone false end
    | QModify _ =>
        match r with
        | AOkRes _ => QDone true
        | AErr HEPhaseLocal => QDone false
        | _ => if is_conflict_res r then QDone true else QDone false
        end
    | QTeardownOut inp =>
        match r with
        | AOkReady true => QDestroyOut inp
        | AOkReady false => QDone true
        | _ => if is_notfound_res r then QRemFin inp else QDone false
        end
    | QDestroyOut inp => match r with AOk => QRemFin inp | _ => QDone false end
    | QRemFin _ => match r with AOk => QDone true | _ => QDone false end
    | QDone b => QDone b
    end.

  (* system: store + one reconcile of item x (the queue guarantees per-item exclusion, C09) + environment *)
  Record qsys := mkQS { qs_store : store; qs_pc : qpc }.

  Inductive qchoice :=
  | QStep (now : Z) (fault : bool)       (* the worker performs its next runtime call *)
  | QEnv (now : Z) (o : op)              (* any other party performs a store operation *)
  | QRestart.                            (* a new reconcile of the item begins (only when the previous one is done) *)

  Definition q_step (m : qmode) (x : atom) (s : qsys) (ch : qchoice) : qsys :=
    match ch with
    | QEnv now o => mkQS (apply_st now o (qs_store s)) (qs_pc s)
    | QRestart => match qs_pc s with QDone _ => mkQS (qs_store s) Q0 | _ => s end
    | QStep now fault =>
        match q_request x (qs_pc s) fault with
        | None => s
        | Some o =>
            let '(st', r) := a_apply now gctrl o (qs_store s) in
            mkQS st' (q_resume m (qs_pc s) r)
        end
    end.

  Definition q_run (m : qmode) (x : atom) (s : qsys) (sched : list qchoice) : qsys := fold_left (q_step m x) sched s.
End Gen.
