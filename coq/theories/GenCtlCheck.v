(* GenCtlCheck.v — replay gated-runtime schedules of the real generic controllers on the machines. *)
From Verif Require Import Store StoreCheck Helpers HelpersCheck DepDB Access GenCtl.
Open Scope N_scope.

Inductive gcall := GGet | GList | GAddFin | GRemFin | GModify | GTeardown | GDestroy | GNone.

Definition gcall_of (o : option aop) : gcall :=
  match o with
  | Some (AGet _) => GGet
  | Some (AList _ _) => GList
  | Some (AAddFin _ _) => GAddFin
  | Some (ARemFin _ _) => GRemFin
  | Some (AModify _ _ _ _) => GModify
  | Some (ATeardown _ _) => GTeardown
  | Some (ADestroy _ _) => GDestroy
  | _ => GNone
  end.

Definition gcall_eqb (a b : gcall) : bool :=
  match a, b with
  | GGet, GGet | GList, GList | GAddFin, GAddFin | GRemFin, GRemFin | GModify, GModify
  | GTeardown, GTeardown | GDestroy, GDestroy | GNone, GNone => true
  | _, _ => false
  end.

Definition strip_t (r : res) : res :=
  mkRes (r_ns r) (r_typ r) (r_id r) (r_ver r) (r_owner r) (r_phase r) (r_fins r) (r_labels r) 0 0 (r_spec r).

(* content transform used by the harness: "t:" ++ payload, as atoms: supplied as an association table *)
Fixpoint tf_table (tbl : list (atom * atom)) (v : atom) : atom :=
  match tbl with [] => 0 | (a, b) :: t => if N.eqb a v then b else tf_table t v end.

(* case: namespace, input type, output type, controller name, mode, item id, content table,
   schedule with the observed call kind of every worker step, final reconcile result (None = still running),
   final listings of inputs and outputs *)
Definition qcase := (atom * atom * atom * atom * qmode * atom * list (atom * atom) *
                     list (qchoice * gcall) * option bool * list res * list res)%type.

Fixpoint q_check_run ns tin tout cname tf m x (s : qsys) (steps : list (qchoice * gcall)) : option qsys :=
  match steps with
  | [] => Some s
  | (ch, g) :: steps' =>
      let ok := match ch with
                | QStep _ fault => gcall_eqb (gcall_of (q_request ns tin tout cname tf x (qs_pc s) fault)) g
                | _ => true
                end in
      if ok then q_check_run ns tin tout cname tf m x (q_step ns tin tout cname tf m x s ch) steps' else None
  end.

Definition qcase_ok (c : qcase) : bool :=
  let '(ns, tin, tout, cname, m, x, tbl, steps, final, ins, outs) := c in
  match q_check_run ns tin tout cname (tf_table tbl) m x (mkQS [] Q0) steps with
  | None => false
  | Some s =>
      (match qs_pc s, final with
       | QDone a, Some b => Bool.eqb a b
       | QDone _, None => false
       | _, None => true
       | _, Some _ => false
       end) &&
      list_eqb res_eqb (map strip_t (st_list ns tin (qs_store s))) (map strip_t ins) &&
      list_eqb res_eqb (map strip_t (st_list ns tout (qs_store s))) (map strip_t outs)
  end.

Definition gen_q_mismatches (cs : list qcase) : list N := mism_from qcase_ok 0 cs.
