(* GenCtlConv.v — convergence (C06) of the QTransform reconcile machine: a reconcile that runs with no
   interference from any store state satisfying the safety invariant ends in the mapped image. *)
From Verif Require Import Store StoreProofs Helpers HelpersProofs DepDB Access AccessProofs GenCtl GenCtlProofs.
From Coq Require Import Lia.
Open Scope N_scope.

Local Opaque st_put st_del.

Lemma s_uwc_ok now k m owner exp s cur new :
  st_get k s = Some cur -> mutate m cur = Some new -> r_owner cur = owner ->
  (match exp with Some p => r_phase cur = p | None => True end) ->
  exists s' w, s_uwc now k m owner exp s = (s', AOkRes w) /\
    ((s' = s /\ res_equal cur new = true /\ w = new) \/
     (res_equal cur new = false /\ w = with_ver_times new (ver_next (r_ver new)) (r_created cur) now /\
      forall k', st_get k' s' = if key_eqb k' k then Some w else st_get k' s)).
Proof.
  intros Hk Hm Ho Hp. unfold s_uwc. rewrite Hk.
  assert (Ep : (match exp with Some p => negb (Bool.eqb p (r_phase cur)) | None => false end) = false).
  { destruct exp as [p|]; [|reflexivity]. rewrite Hp. destruct p; reflexivity. }
  rewrite Ep, Hm. destruct (res_equal cur new) eqn:Eq.
  - exists s, new. split; [reflexivity|]. left. auto.
  - destruct (mutate_preserves _ _ _ Hm) as [Mk [Mv [Mo Mc]]].
    pose proof (st_get_key _ _ _ Hk) as Kc.
    pose proof (update_outcome now new owner exp s) as U. rewrite Mk, Kc, Hk in U.
    rewrite Ho, N.eqb_refl in U. simpl in U.
    assert (Ev : negb (ver_eqb (r_ver cur) (r_ver new)) = false).
    { rewrite Mv. destruct (ver_eqb_spec (r_ver cur) (r_ver cur)); [reflexivity | congruence]. }
    rewrite Ev in U.
    assert (Ep2 : (match exp with Some p => negb (Bool.eqb (r_phase cur) p) | None => false end) = false).
    { destruct exp as [p|]; [|reflexivity]. rewrite Hp. destruct p; reflexivity. }
    rewrite Ep2 in U. destruct U as [w [U Hw]]. rewrite U. exists (st_put w s), w. split; [reflexivity|]. right.
    split; [reflexivity|]. split; [exact Hw|].
    intros k'. rewrite st_get_put. subst w. unfold with_ver_times, r_key; simpl.
    fold (r_key new). rewrite Mk, Kc. reflexivity.
Qed.

Lemma sort_atoms_length l : length (sort_atoms l) = length l.
Proof.
  induction l as [|a l IH]; [reflexivity|]. simpl. rewrite <- IH.
  generalize (sort_atoms l) as l0. clear. induction l0 as [|b l0 IH]; simpl; [reflexivity|].
  destruct (a <=? b); simpl; [reflexivity | rewrite IH; reflexivity].
Qed.
Lemma atoms_eqb_length a b : atoms_eqb a b = true -> length a = length b.
Proof.
  revert b. induction a as [|x a IH]; intros [|y b]; simpl; intros H; try discriminate; [reflexivity|].
  apply andb_true_iff in H. f_equal. apply IH. tauto.
Qed.
Lemma res_equal_fields a b :
  res_equal a b = true ->
  r_phase a = r_phase b /\ r_owner a = r_owner b /\ r_spec a = r_spec b /\ length (r_fins a) = length (r_fins b).
Proof.
  unfold res_equal. rewrite !andb_true_iff. intros [[[[[[[[_ _] _] Hp] Ho] _] _] Hf] Hs].
  repeat split.
  - destruct (r_phase a), (r_phase b); simpl in Hp; congruence.
  - apply N.eqb_eq; exact Ho.
  - apply N.eqb_eq; exact Hs.
  - apply atoms_eqb_length in Hf. rewrite !sort_atoms_length in Hf. exact Hf.
Qed.

Lemma fin_remove_length f l :
  length (fin_remove f l) = if existsb (N.eqb f) l then pred (length l) else length l.
Proof.
  induction l as [|a l IH]; [reflexivity|]. simpl. rewrite (N.eqb_sym f a).
  destruct (N.eqb a f); simpl; [reflexivity|]. rewrite IH.
  destruct (existsb (N.eqb f) l) eqn:E; [|reflexivity].
  destruct l; [discriminate | reflexivity].
Qed.
Lemma fin_remove_nodup f l : NoDup l -> existsb (N.eqb f) (fin_remove f l) = false.
Proof.
  induction l as [|a l IH]; intros Hn; [reflexivity|]. inversion Hn as [|? ? Hna Hnl]; subst. simpl.
  destruct (N.eqb_spec a f) as [E|E].
  - subst a. destruct (existsb (N.eqb f) l) eqn:Ex; [|reflexivity].
    apply existsb_exists in Ex. destruct Ex as [y [Hy Ey]]. apply N.eqb_eq in Ey. subst y. contradiction.
  - simpl. destruct (N.eqb_spec f a) as [E2|E2]; [congruence|]. simpl. apply IH. exact Hnl.
Qed.

Section Conv.
  Variables (ns tin tout cname : atom) (tf : atom -> atom).
  Hypothesis Hty : tin <> tout.

  Notation kin := (kin ns tin).
  Notation kout := (kout ns tout).
  Notation gc := (gctrl ns tin tout cname).
  Notation has_fin := (has_fin cname).

  Definition frame_in (x : atom) (st st' : store) := forall k', key_eqb k' (kin x) = false -> st_get k' st' = st_get k' st.
  Definition frame_out (x : atom) (st st' : store) := forall k', key_eqb k' (kout x) = false -> st_get k' st' = st_get k' st.

  Lemma addfin_ok now x st inp :
    st_get (kin x) st = Some inp ->
    exists st' inp', a_apply now gc (AAddFin (kin x) [cname]) st = (st', AOk) /\
      st_get (kin x) st' = Some inp' /\ has_fin inp' = true /\ r_phase inp' = r_phase inp /\
      r_spec inp' = r_spec inp /\ frame_in x st st'.
  Proof.
    intros Hi. unfold a_apply, GenCtl.kin. rewrite (fin_in ns tin tout cname). fold (kin x). rewrite Hi.
    destruct (s_uwc_ok now (kin x) (MAddFin [cname]) (r_owner inp) None st inp _ Hi eq_refl eq_refl I)
      as [st' [w [Eu [[Es [Eq Ew]] | [Eq [Ew Hg]]]]]]; rewrite Eu.
    - subst st'. exists st, inp. split; [reflexivity|]. split; [exact Hi|].
      split; [|split; [reflexivity | split; [reflexivity | intros k' _; reflexivity]]].
      apply res_equal_fields in Eq. destruct Eq as [_ [_ [_ Hl]]]. simpl in Hl.
      unfold GenCtl.has_fin. destruct (existsb (N.eqb cname) (r_fins inp)) eqn:E; [reflexivity|].
      unfold fin_add in Hl. rewrite E, app_length in Hl. simpl in Hl. lia.
    - exists st', w. split; [reflexivity|]. split; [rewrite Hg, key_eqb_refl; reflexivity|].
      subst w. simpl. split; [apply has_fin_add|]. split; [reflexivity|]. split; [reflexivity|].
      intros k' Hk'. rewrite Hg, Hk'. reflexivity.
  Qed.

  Lemma remfin_ok now x st inp :
    st_get (kin x) st = Some inp -> NoDup (r_fins inp) ->
    exists st' inp', a_apply now gc (ARemFin (kin x) [cname]) st = (st', AOk) /\
      st_get (kin x) st' = Some inp' /\ has_fin inp' = false /\ r_phase inp' = r_phase inp /\ frame_in x st st'.
  Proof.
    intros Hi Hn. unfold a_apply, GenCtl.kin. rewrite (fin_in ns tin tout cname). fold (kin x). rewrite Hi.
    destruct (s_uwc_ok now (kin x) (MRemFin [cname]) (r_owner inp) None st inp _ Hi eq_refl eq_refl I)
      as [st' [w [Eu [[Es [Eq Ew]] | [Eq [Ew Hg]]]]]]; rewrite Eu.
    - subst st'. exists st, inp. split; [reflexivity|]. split; [exact Hi|].
      split; [|split; [reflexivity | intros k' _; reflexivity]].
      apply res_equal_fields in Eq. destruct Eq as [_ [_ [_ Hl]]]. simpl in Hl.
      rewrite fin_remove_length in Hl. unfold GenCtl.has_fin.
      destruct (existsb (N.eqb cname) (r_fins inp)) eqn:E; [|reflexivity].
      destruct (r_fins inp); [discriminate | simpl in Hl; lia].
    - exists st', w. split; [reflexivity|]. split; [rewrite Hg, key_eqb_refl; reflexivity|].
      subst w. simpl. split; [apply fin_remove_nodup; exact Hn|]. split; [reflexivity|].
      intros k' Hk'. rewrite Hg, Hk'. reflexivity.
  Qed.

  Lemma modify_create now x v st :
    st_get (kout x) st = None ->
    exists st' w, a_apply now gc (AModify (empty_out ns tout x) (MSetSpec v) (Some false) false) st = (st', AOkRes w) /\
      st_get (kout x) st' = Some w /\ r_owner w = cname /\ r_phase w = false /\ r_spec w = v /\ frame_out x st st'.
  Proof.
    intros Ho. unfold a_apply. cbn [r_typ empty_out]. rewrite (is_out ns tin tout cname).
    change (r_key (empty_out ns tout x)) with (kout x). rewrite Ho. cbn [mutate].
    unfold apply, set_owner. cbn [r_owner set_fields empty_out owner_of c_name gctrl]. rewrite N.eqb_refl. cbn [orb].
    match goal with |- context[st_get (r_key ?r) st] => change (r_key r) with (kout x) end. rewrite Ho.
    eexists _, _. split; [reflexivity|]. rewrite st_get_put.
    match goal with |- context[key_eqb (kout x) (r_key ?r)] => change (r_key r) with (kout x) end.
    rewrite key_eqb_refl. split; [reflexivity|]. split; [reflexivity|]. split; [reflexivity|]. split; [reflexivity|].
    intros k' Hk'. rewrite st_get_put.
    match goal with |- context[key_eqb k' (r_key ?r)] => change (r_key r) with (kout x) end.
    rewrite Hk'. reflexivity.
  Qed.

  Lemma modify_update now x v st o :
    st_get (kout x) st = Some o -> r_owner o = cname -> r_phase o = false ->
    exists st' w o', a_apply now gc (AModify (empty_out ns tout x) (MSetSpec v) (Some false) false) st = (st', AOkRes w) /\
      st_get (kout x) st' = Some o' /\ r_owner o' = cname /\ r_phase o' = false /\ r_spec o' = v /\ frame_out x st st'.
  Proof.
    intros Ho Hown Hp. unfold a_apply. cbn [r_typ empty_out]. rewrite (is_out ns tin tout cname).
    change (r_key (empty_out ns tout x)) with (kout x). rewrite Ho. cbn [owner_of c_name gctrl].
    destruct (s_uwc_ok now (kout x) (MSetSpec v) cname (Some false) st o _ Ho eq_refl Hown Hp)
      as [st' [w [Eu [[Es [Eq Ew]] | [Eq [Ew Hg]]]]]]; rewrite Eu.
    - subst st'. exists st, w, o. split; [reflexivity|]. split; [exact Ho|].
      apply res_equal_fields in Eq. destruct Eq as [_ [_ [Hs _]]]. simpl in Hs.
      repeat split; auto; intros k' _; reflexivity.
    - exists st', w, w. split; [reflexivity|]. split; [rewrite Hg, key_eqb_refl; reflexivity|].
      subst w. simpl. repeat split; auto; intros k' Hk'; rewrite Hg, Hk'; reflexivity.
  Qed.

  Definition is_nil {A} (l : list A) : bool := match l with [] => true | _ => false end.

  Lemma teardown_ok now x st o :
    st_get (kout x) st = Some o -> r_owner o = cname ->
    exists st' o', a_apply now gc (ATeardown (kout x) None) st = (st', AOkReady (is_nil (r_fins o))) /\
      st_get (kout x) st' = Some o' /\ r_phase o' = true /\ r_fins o' = r_fins o /\ r_owner o' = cname /\ frame_out x st st'.
  Proof.
    intros Ho Hown. unfold a_apply, GenCtl.kout. rewrite (is_out ns tin tout cname). fold (kout x).
    change (c_name gc) with cname. rewrite Ho. destruct (r_phase o) eqn:Hp.
    - exists st, o. repeat split; auto; intros k' _; reflexivity.
    - destruct (s_uwc_ok now (kout x) MSetTD cname (Some false) st o _ Ho eq_refl Hown Hp)
        as [st' [w [Eu [[Es [Eq Ew]] | [Eq [Ew Hg]]]]]]; rewrite Eu.
      + exfalso. apply res_equal_fields in Eq. destruct Eq as [Hph _]. simpl in Hph. congruence.
      + exists st', w. subst w. simpl. split; [reflexivity|]. split; [rewrite Hg, key_eqb_refl; reflexivity|].
        repeat split; auto; intros k' Hk'; rewrite Hg, Hk'; reflexivity.
  Qed.

  Lemma teardown_notfound now x st :
    st_get (kout x) st = None ->
    a_apply now gc (ATeardown (kout x) None) st = (st, AErr (HEStore ENotFound)).
  Proof.
    intros Ho. unfold a_apply, GenCtl.kout. rewrite (is_out ns tin tout cname). fold (kout x). rewrite Ho. reflexivity.
  Qed.

  Lemma destroy_ok now x st o :
    st_get (kout x) st = Some o -> r_owner o = cname -> r_fins o = [] ->
    exists st', a_apply now gc (ADestroy (kout x) None) st = (st', AOk) /\
      st_get (kout x) st' = None /\ frame_out x st st'.
  Proof.
    intros Ho Hown Hf. unfold a_apply, GenCtl.kout. rewrite (is_out ns tin tout cname). fold (kout x).
    change (c_name gc) with cname. unfold apply. rewrite Ho, Hown, N.eqb_refl, Hf. simpl.
    eexists. split; [reflexivity|]. split; [rewrite st_get_del, key_eqb_refl; reflexivity|].
    intros k' Hk'. rewrite st_get_del, Hk'. reflexivity.
  Qed.

  (* ---- a reconcile that runs undisturbed -------------------------------------------------------------- *)

  Notation q_step := (q_step ns tin tout cname tf).
  Notation q_run := (q_run ns tin tout cname tf).

  Definition quiet (now : Z) (n : nat) : list qchoice := repeat (QStep now false) n.

  Lemma q_step_eq m x now fault st pc o st' r :
    q_request ns tin tout cname tf x pc fault = Some o -> a_apply now gc o st = (st', r) ->
    q_step m x (mkQS st pc) (QStep now fault) = mkQS st' (q_resume cname m pc r).
  Proof. intros Hq Ha. unfold GenCtl.q_step. cbn [qs_pc qs_store]. rewrite Hq, Ha. reflexivity. Qed.

  Lemma run_cons m x s c l : q_run m x s (c :: l) = q_run m x (q_step m x s c) l.
  Proof. reflexivity. Qed.

  Lemma run_done m x st b now n : q_run m x (mkQS st (QDone b)) (quiet now n) = mkQS st (QDone b).
  Proof. induction n as [|n IH]; [reflexivity|]. unfold quiet in *. cbn [repeat]. rewrite run_cons. exact IH. Qed.

  Ltac refold now :=
    repeat match goal with
           | |- context[QStep now false :: quiet now ?n] => change (QStep now false :: quiet now n) with (quiet now (S n))
           end.

  Definition held (x : atom) (st : store) : Prop :=
    exists o, st_get (kout x) st = Some o /\ r_phase o = true /\ r_fins o <> [].

  (* the state the property describes for item x *)
  Definition converged (x : atom) (st : store) : Prop :=
    match st_get (kin x) st with
    | Some inp =>
        if r_phase inp
        then (st_get (kout x) st = None /\ has_fin inp = false) \/ held x st
        else (exists o, st_get (kout x) st = Some o /\ r_owner o = cname /\ r_phase o = false /\
                        r_spec o = tf (r_spec inp) /\ has_fin inp = true) \/ held x st
    | None => st_get (kout x) st = None
    end.

  Definition exclusive_out (x : atom) (st : store) : Prop :=
    forall o, st_get (kout x) st = Some o -> r_owner o = cname.
  Definition fins_wf (x : atom) (st : store) : Prop :=
    forall inp, st_get (kin x) st = Some inp -> NoDup (r_fins inp).

  Lemma from_getout now x st inp inp0 k :
    exclusive_out x st ->
    st_get (kin x) st = Some inp -> has_fin inp = true -> r_phase inp = false -> r_spec inp0 = r_spec inp ->
    let s' := q_run QPlain x (mkQS st (QGetOut inp0)) (quiet now (S (S (S k)))) in
    qs_pc s' = QDone true /\ converged x (qs_store s').
  Proof.
    intros Hex Hi Hf Hp Hs. unfold quiet. cbn [repeat]. fold (quiet now k).
    assert (KI : forall y, key_eqb (kin x) (kout y) = false) by (intros; apply kin_kout; exact Hty).
    rewrite run_cons. erewrite q_step_eq; [|reflexivity|apply get_out_spec]. cbn zeta.
    destruct (st_get (kout x) st) as [o|] eqn:Ho.
    - pose proof (Hex o Ho) as Hown. cbn [q_resume]. destruct (r_phase o) eqn:Hpo.
      + destruct (r_fins o) as [|f fs] eqn:Hfo.
        * (* tearing down, no finalizers: destroy, then create afresh *)
          destruct (destroy_ok now x st o Ho Hown Hfo) as [st1 [E1 [Hn1 Fr1]]].
          rewrite run_cons. erewrite q_step_eq; [|reflexivity|exact E1]. cbn [q_resume].
          destruct (modify_create now x (tf (r_spec inp0)) st1 Hn1) as [st2 [w [E2 [Hw [Ow [Pw [Sw Fr2]]]]]]].
          rewrite run_cons. erewrite q_step_eq; [|reflexivity|exact E2]. cbn [q_resume].
          refold now; rewrite run_done. cbn [qs_pc qs_store]. split; [reflexivity|].
          unfold converged. rewrite (Fr2 _ (KI x)), (Fr1 _ (KI x)), Hi, Hp. left. exists w. rewrite Hs in Sw. auto.
        * refold now; rewrite run_done. cbn [qs_pc qs_store]. split; [reflexivity|].
          unfold converged. rewrite Hi, Hp. right. exists o. rewrite Hfo. repeat split; auto. discriminate.
      + destruct (modify_update now x (tf (r_spec inp0)) st o Ho Hown Hpo) as [st2 [w [o' [E2 [Hw [Ow [Pw [Sw Fr2]]]]]]]].
        rewrite run_cons. erewrite q_step_eq; [|reflexivity|exact E2]. cbn [q_resume].
        refold now; rewrite run_done. cbn [qs_pc qs_store]. split; [reflexivity|].
        unfold converged. rewrite (Fr2 _ (KI x)), Hi, Hp. left. exists o'. rewrite Hs in Sw. auto.
    - cbn [q_resume is_notfound_res is_not_found].
      destruct (modify_create now x (tf (r_spec inp0)) st Ho) as [st2 [w [E2 [Hw [Ow [Pw [Sw Fr2]]]]]]].
      rewrite run_cons. erewrite q_step_eq; [|reflexivity|exact E2]. cbn [q_resume].
      refold now; rewrite run_done. cbn [qs_pc qs_store]. split; [reflexivity|].
      unfold converged. rewrite (Fr2 _ (KI x)), Hi, Hp. left. exists w. rewrite Hs in Sw. auto.
  Qed.

  Lemma from_teardown now x st inp inp0 k :
    exclusive_out x st -> st_get (kin x) st = Some inp -> r_phase inp = true -> NoDup (r_fins inp) ->
    let s' := q_run QPlain x (mkQS st (QTeardownOut inp0)) (quiet now (S (S (S k)))) in
    qs_pc s' = QDone true /\ converged x (qs_store s').
  Proof.
    intros Hex Hi Hp Hn. unfold quiet. cbn [repeat]. fold (quiet now k).
    assert (KI : forall y, key_eqb (kin x) (kout y) = false) by (intros; apply kin_kout; exact Hty).
    assert (KO : forall y, key_eqb (kout x) (kin y) = false) by (intros; apply kout_kin; exact Hty).
    destruct (st_get (kout x) st) as [o|] eqn:Ho.
    - pose proof (Hex o Ho) as Hown.
      destruct (teardown_ok now x st o Ho Hown) as [st1 [o1 [E1 [Ho1 [Po1 [Fo1 [Oo1 Fr1]]]]]]].
      rewrite run_cons. erewrite q_step_eq; [|reflexivity|exact E1]. cbn [q_resume].
      destruct (r_fins o) as [|f fs] eqn:Hfo; cbn [is_nil].
      + destruct (destroy_ok now x st1 o1 Ho1 Oo1 Fo1) as [st2 [E2 [Hn2 Fr2]]].
        rewrite run_cons. erewrite q_step_eq; [|reflexivity|exact E2]. cbn [q_resume].
        assert (Hi2 : st_get (kin x) st2 = Some inp) by (rewrite (Fr2 _ (KI x)), (Fr1 _ (KI x)); exact Hi).
        destruct (remfin_ok now x st2 inp Hi2 Hn) as [st3 [inp3 [E3 [Hi3 [Hf3 [Hp3 Fr3]]]]]].
        rewrite run_cons. erewrite q_step_eq; [|reflexivity|exact E3]. cbn [q_resume].
        refold now; rewrite run_done. cbn [qs_pc qs_store]. split; [reflexivity|].
        unfold converged. rewrite Hi3, Hp3, Hp. left. rewrite (Fr3 _ (KO x)). auto.
      + refold now; rewrite run_done. cbn [qs_pc qs_store]. split; [reflexivity|].
        unfold converged. rewrite (Fr1 _ (KI x)), Hi, Hp. right. exists o1. rewrite Fo1. repeat split; auto. discriminate.
    - rewrite run_cons. erewrite q_step_eq; [|reflexivity|apply teardown_notfound; exact Ho].
      cbn [q_resume is_notfound_res is_not_found].
      destruct (remfin_ok now x st inp Hi Hn) as [st3 [inp3 [E3 [Hi3 [Hf3 [Hp3 Fr3]]]]]].
      rewrite run_cons. erewrite q_step_eq; [|reflexivity|exact E3]. cbn [q_resume].
      refold now; rewrite run_done. cbn [qs_pc qs_store]. split; [reflexivity|].
      unfold converged. rewrite Hi3, Hp3, Hp. left. rewrite (Fr3 _ (KO x)). auto.
  Qed.

  (* C06 for one item: from ANY store state that satisfies the safety invariant, one reconcile that runs
     without interference and without transform faults ends successfully in the converged state *)
  Theorem q_converges now x st k :
    (owned_out ns tout cname x st -> in_fin ns tin cname x st) -> exclusive_out x st -> fins_wf x st ->
    let s' := q_run QPlain x (mkQS st Q0) (quiet now (5 + k)) in
    qs_pc s' = QDone true /\ converged x (qs_store s').
  Proof.
    intros I1 Hex Hwf. cbn [Nat.add]. unfold quiet. cbn [repeat]. fold (quiet now k).
    assert (KO : forall y, key_eqb (kout x) (kin y) = false) by (intros; apply kout_kin; exact Hty).
    rewrite run_cons. erewrite q_step_eq; [|reflexivity|apply get_in_spec].
    destruct (st_get (kin x) st) as [inp|] eqn:Hi.
    - cbn [q_resume]. destruct (r_phase inp) eqn:Hp.
      + cbn [ignore_td]. refold now.
        apply (from_teardown now x st inp inp (S k)); auto.
      + destruct (GenCtl.has_fin cname inp) eqn:Hf.
        * refold now. apply (from_getout now x st inp inp (S k)); auto.
        * destruct (addfin_ok now x st inp Hi) as [st1 [inp1 [E1 [Hi1 [Hf1 [Hp1 [Hs1 Fr1]]]]]]].
          rewrite run_cons. erewrite q_step_eq; [|reflexivity|exact E1]. cbn [q_resume]. refold now.
          apply (from_getout now x st1 inp1 inp k); auto; try congruence.
          intros o Ho. apply Hex. rewrite <- (Fr1 _ (KO x)). exact Ho.
    - cbn [q_resume is_notfound_res is_not_found]. refold now; rewrite run_done. cbn [qs_pc qs_store]. split; [reflexivity|].
      unfold converged. rewrite Hi. destruct (st_get (kout x) st) as [o|] eqn:Ho; [|reflexivity].
      exfalso. destruct I1 as [i [Hi' _]]; [exists o; split; [exact Ho | apply Hex; exact Ho]|]. congruence.
  Qed.

  (* the converged state is a fixpoint: reconciling it again changes neither resource's content *)
End Conv.
