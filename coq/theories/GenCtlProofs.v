(* GenCtlProofs.v — finalizer-ordering safety (C07) of the QTransform reconcile machine against an arbitrary
   environment, for every schedule. *)
From Verif Require Import Store StoreProofs Helpers HelpersProofs DepDB Access AccessProofs GenCtl.
From Coq Require Import Lia.
Open Scope N_scope.

Local Opaque st_put st_del.

(* ---- shape of the sequential read-modify-write ------------------------------------------------------ *)

Lemma s_uwc_shape now k m owner exp s s' r :
  s_uwc now k m owner exp s = (s', r) ->
  (s' = s /\ exists e, r = AErr e /\ (e = HEStore ENotFound -> st_get k s = None)) \/
  (s' = s /\ exists cur new, st_get k s = Some cur /\ mutate m cur = Some new /\ res_equal cur new = true /\ r = AOkRes new) \/
  (exists cur new w, st_get k s = Some cur /\ mutate m cur = Some new /\ r_owner cur = owner /\
                     w = with_ver_times new (ver_next (r_ver new)) (r_created cur) now /\ r = AOkRes w /\
                     (match exp with Some p => r_phase cur = p | None => True end) /\
                     forall k', st_get k' s' = if key_eqb k' k then Some w else st_get k' s).
Proof.
  unfold s_uwc. destruct (st_get k s) as [cur|] eqn:Hk; [|intros H; inversion H; left; eauto].
  destruct (match exp with Some p => negb (Bool.eqb p (r_phase cur)) | None => false end) eqn:Ep;
    [intros H; inversion H; left; split; [reflexivity|]; eexists; split; [reflexivity | discriminate]|].
  destruct (mutate m cur) as [new|] eqn:Em;
    [|intros H; inversion H; left; split; [reflexivity|]; eexists; split; [reflexivity | discriminate]].
  destruct (res_equal cur new) eqn:Eq.
  - intros H; inversion H; subst. right; left. split; [reflexivity|]. exists cur, new. auto.
  - destruct (mutate_preserves _ _ _ Em) as [Mk [Mv [Mo Mc]]].
    pose proof (st_get_key _ _ _ Hk) as Kc.
    pose proof (update_outcome now new owner exp s) as U. rewrite Mk, Kc, Hk in U.
    destruct (N.eqb_spec (r_owner cur) owner) as [Eo|Eo]; simpl in U.
    2:{ rewrite U. intros H; inversion H; left; split; [reflexivity|]; eexists; split; [reflexivity | discriminate]. }
    destruct (negb (ver_eqb (r_ver cur) (r_ver new))) eqn:Ev;
      [rewrite U; intros H; inversion H; left; split; [reflexivity|]; eexists; split; [reflexivity | discriminate]|].
    destruct (match exp with Some p => negb (Bool.eqb (r_phase cur) p) | None => false end) eqn:Ep2;
      [rewrite U; intros H; inversion H; left; split; [reflexivity|]; eexists; split; [reflexivity | discriminate]|].
    destruct U as [w [U Hw]]. rewrite U. intros H; inversion H; subst s' r. right; right.
    exists cur, new, w. repeat split; auto.
    + destruct exp as [p|]; [|exact I]. destruct (r_phase cur), p; simpl in Ep2; try discriminate; reflexivity.
    + intros k'. rewrite st_get_put. subst w. unfold with_ver_times, r_key; simpl.
      fold (r_key new). rewrite Mk, Kc. reflexivity.
Qed.

Section GenProofs.
  Variables (ns tin tout cname : atom) (tf : atom -> atom).
  Hypothesis Hty : tin <> tout.

  Notation kin := (kin ns tin).
  Notation kout := (kout ns tout).
  Notation gc := (gctrl ns tin tout cname).
  Notation has_fin := (has_fin cname).
  Notation q_step := (q_step ns tin tout cname tf).
  Notation q_request := (q_request ns tin tout cname tf).

  Lemma kin_kout x y : key_eqb (kin x) (kout y) = false.
  Proof.
    unfold kin, kout, key_eqb. destruct (N.eqb_spec tin tout) as [E|E]; [contradiction|].
    rewrite andb_false_r. reflexivity.
  Qed.
  Lemma kout_kin x y : key_eqb (kout x) (kin y) = false.
  Proof.
    unfold kin, kout, key_eqb. destruct (N.eqb_spec tout tin) as [E|E]; [symmetry in E; contradiction|].
    rewrite andb_false_r. reflexivity.
  Qed.

  Definition in_fin (x : atom) (st : store) : Prop :=
    exists inp, st_get (kin x) st = Some inp /\ has_fin inp = true.
  Definition owned_out (x : atom) (st : store) : Prop :=
    exists o, st_get (kout x) st = Some o /\ r_owner o = cname.
  Definition out_td_if_owned (x : atom) (st : store) : Prop :=
    forall o, st_get (kout x) st = Some o -> r_owner o = cname -> r_phase o = true.

  (* ---- what each runtime call of the machine does to the two resources of item x ------------------- *)

  Lemma rd_in x : check_read gc ns tin (Some x) = true.
  Proof. unfold check_read, gctrl; simpl. rewrite !N.eqb_refl. simpl. apply orb_true_r. Qed.
  Lemma rd_out x : check_read gc ns tout (Some x) = true.
  Proof. unfold check_read, gctrl, is_output; simpl. rewrite !N.eqb_refl. reflexivity. Qed.
  Lemma is_out : is_output gc tout = true.
  Proof. unfold is_output, gctrl; simpl. rewrite N.eqb_refl. reflexivity. Qed.
  Lemma fin_in x : check_finalizer gc ns tin x = true.
  Proof. unfold check_finalizer, gctrl; simpl. rewrite !N.eqb_refl. reflexivity. Qed.

  Lemma get_in_spec now x s :
    a_apply now gc (AGet (kin x)) s =
    (s, match st_get (kin x) s with Some r => AOkRes r | None => AErr (HEStore ENotFound) end).
  Proof. unfold a_apply, kin. rewrite rd_in. destruct (st_get (ns, tin, x) s); reflexivity. Qed.

  Lemma get_out_spec now x s :
    a_apply now gc (AGet (kout x)) s =
    (s, match st_get (kout x) s with Some r => AOkRes r | None => AErr (HEStore ENotFound) end).
  Proof. unfold a_apply, kout. rewrite rd_out. destruct (st_get (ns, tout, x) s); reflexivity. Qed.

  Lemma has_fin_add (l : list atom) : existsb (N.eqb cname) (fin_add cname l) = true.
  Proof.
    unfold fin_add. destruct (existsb (N.eqb cname) l) eqn:E; [exact E|].
    rewrite existsb_app. simpl. rewrite N.eqb_refl. rewrite orb_true_r. reflexivity.
  Qed.

  Lemma addfin_spec now x s s' r :
    a_apply now gc (AAddFin (kin x) [cname]) s = (s', r) ->
    (forall k', key_eqb k' (kin x) = false -> st_get k' s' = st_get k' s) /\
    (r = AOk -> in_fin x s') /\ (in_fin x s -> in_fin x s') /\ (r <> AOk -> s' = s).
  Proof.
    unfold a_apply, kin. rewrite fin_in. fold (kin x).
    destruct (st_get (kin x) s) as [cur|] eqn:Hk.
    2:{ intros H; inversion H; subst. repeat split; auto. discriminate. }
    destruct (s_uwc now (kin x) (MAddFin [cname]) (r_owner cur) None s) as [s1 r1] eqn:Eu.
    destruct (s_uwc_shape _ _ _ _ _ _ _ _ Eu) as [[Es [e [Er Enf]]] | [[Es [c [n [Hc [Hm [Heq Er]]]]]] | [c [n [w [Hc [Hm [Ho [Hw [Er [_ Hg]]]]]]]]]]].
    - subst. intros H; inversion H; subst. repeat split; auto. discriminate.
    - subst. intros H; inversion H; subst. rewrite Hk in Hc; inversion Hc; subst c.
      simpl in Hm. inversion Hm; subst n; clear Hm.
      assert (F : in_fin x s').
      { exists cur. split; [exact Hk|]. unfold GenCtl.has_fin.
        unfold res_equal in Heq. simpl in Heq. rewrite !andb_true_iff in Heq.
        destruct Heq as [[[_ _] Hf] _].
        (* the finalizer multiset did not change, so cname was already there *)
        destruct (existsb (N.eqb cname) (r_fins cur)) eqn:E; [reflexivity|].
        unfold fin_add in Hf. rewrite E in Hf. exfalso.
        assert (L : length (sort_atoms (r_fins cur)) = length (sort_atoms (r_fins cur ++ [cname]))).
        { clear -Hf. revert Hf. generalize (sort_atoms (r_fins cur)) (sort_atoms (r_fins cur ++ [cname])).
          induction l as [|a l IH]; intros [|b l']; simpl; intros H; try discriminate; [reflexivity|].
          apply andb_true_iff in H. f_equal. apply IH. tauto. }
        assert (SL : forall l, length (sort_atoms l) = length l).
        { clear. induction l as [|a l IH]; [reflexivity|]. simpl. rewrite <- IH.
          generalize (sort_atoms l) as l0. clear. induction l0 as [|b l0 IH]; simpl; [reflexivity|].
          destruct (a <=? b); simpl; [reflexivity | rewrite IH; reflexivity]. }
        rewrite !SL, app_length in L. simpl in L. lia. }
      repeat split; auto.
    - subst r1. intros H; inversion H; subst s1 r. rewrite Hk in Hc; inversion Hc; subst c.
      simpl in Hm. inversion Hm; subst n; clear Hm.
      assert (F : in_fin x s').
      { exists w. split; [rewrite Hg, key_eqb_refl; reflexivity|]. subst w. unfold GenCtl.has_fin; simpl. apply has_fin_add. }
      repeat split; auto.
      + intros k' Hk'. rewrite Hg, Hk'. reflexivity.
      + intros C; exfalso; apply C; reflexivity.
  Qed.

  Lemma remfin_spec now x s s' r :
    a_apply now gc (ARemFin (kin x) [cname]) s = (s', r) ->
    forall k', key_eqb k' (kin x) = false -> st_get k' s' = st_get k' s.
  Proof.
    unfold a_apply, kin. rewrite fin_in. fold (kin x).
    destruct (st_get (kin x) s) as [cur|] eqn:Hk; [|intros H; inversion H; subst; reflexivity].
    destruct (s_uwc now (kin x) (MRemFin [cname]) (r_owner cur) None s) as [s1 r1] eqn:Eu.
    destruct (s_uwc_shape _ _ _ _ _ _ _ _ Eu) as [[Es [e [Er Enf]]] | [[Es [c [n [Hc [Hm [Heq Er]]]]]] | [c [n [w [Hc [Hm [Ho [Hw [Er [_ Hg]]]]]]]]]]];
      subst r1; intros H; inversion H; subst; try reflexivity.
    intros k' Hk'. rewrite Hg, Hk'. reflexivity.
  Qed.

  Lemma modify_frame now x m exp s s' r :
    a_apply now gc (AModify (empty_out ns tout x) m exp false) s = (s', r) ->
    forall k', key_eqb k' (kout x) = false -> st_get k' s' = st_get k' s.
  Proof.
    unfold a_apply. cbn [r_typ empty_out]. rewrite is_out.
    change (r_key (empty_out ns tout x)) with (kout x).
    destruct (st_get (kout x) s) as [cur|] eqn:Hk.
    - intros Eu.
      destruct (s_uwc_shape _ _ _ _ _ _ _ _ Eu) as [[Es [e [Er Enf]]] | [[Es [c [n [Hc [Hm [Heq Er]]]]]] | [c [n [w [Hc [Hm [Ho [Hw [Er [_ Hg]]]]]]]]]]];
        subst; try reflexivity.
      intros k' Hk'. rewrite Hg, Hk'. reflexivity.
    - destruct (mutate m (empty_out ns tout x)) as [new|] eqn:Em; [|intros H; inversion H; subst; reflexivity].
      destruct (apply now (OpCreate new (owner_of gc false)) s) as [[s1 r1] ev] eqn:Ea.
      destruct (mutate_preserves _ _ _ Em) as [Mk _].
      destruct (apply_shape _ _ _ _ _ _ Ea) as [[_ [Es _]] | [[w [_ [_ [_ [_ [[x0 [ow [Eo [Kw _]]]] Hg]]]]]] | [[w [cur [_ [_ [_ [[x0 [ow [ex [Eo _]]]] _]]]]]] | [cur [k0 [ow [Eo _]]]]]]].
      + intros H. assert (s' = s1) by (destruct r1; inversion H; reflexivity). subst. reflexivity.
      + intros H. assert (s' = s1) by (destruct r1; inversion H; reflexivity). subst s'.
        inversion Eo; subst x0 ow. intros k' Hk'. rewrite Hg, Kw, Mk.
        change (r_key (empty_out ns tout x)) with (kout x). rewrite Hk'. reflexivity.
      + discriminate.
      + discriminate.
  Qed.

  Lemma teardown_spec now x s s' r :
    a_apply now gc (ATeardown (kout x) None) s = (s', r) ->
    (forall k', key_eqb k' (kout x) = false -> st_get k' s' = st_get k' s) /\
    (forall b, r = AOkReady b ->
       exists w, st_get (kout x) s' = Some w /\ r_phase w = true /\ (b = true <-> r_fins w = []) /\
                 exists cur, st_get (kout x) s = Some cur /\ r_owner w = r_owner cur /\ r_fins w = r_fins cur /\
                             (r_phase cur = false -> r_owner cur = cname)) /\
    ((forall b, r <> AOkReady b) -> s' = s) /\
    (r = AErr (HEStore ENotFound) -> st_get (kout x) s = None).
  Proof.
    unfold a_apply, kout. rewrite is_out. fold (kout x). change (c_name gc) with cname.
    destruct (st_get (kout x) s) as [cur|] eqn:Hk.
    2:{ intros H; inversion H; subst. repeat split; auto. intros b Hb; discriminate. }
    destruct (r_phase cur) eqn:Hp.
    { intros H; inversion H; subst. split; [auto | split; [|split; [auto | discriminate]]].
      intros b Hb. inversion Hb; subst b. exists cur. repeat split; auto.
      - destruct (r_fins cur); [reflexivity | discriminate].
      - intros ->. reflexivity.
      - exists cur. repeat split; auto. intros C; congruence. }
    destruct (s_uwc now (kout x) MSetTD cname (Some false) s) as [s1 r1] eqn:Eu.
    destruct (s_uwc_shape _ _ _ _ _ _ _ _ Eu) as [[Es [e [Er Enf]]] | [[Es [c [n [Hc [Hm [Heq Er]]]]]] | [c [n [w [Hc [Hm [Ho [Hw [Er [_ Hg]]]]]]]]]]].
    - subst. cbv beta iota. intros H; inversion H; subst.
      split; [auto | split; [intros b Hb; discriminate | split; [auto | intros C; inversion C; subst e; rewrite (Enf eq_refl) in Hk; discriminate]]].
    - exfalso. rewrite Hk in Hc; inversion Hc; subst c. simpl in Hm. inversion Hm; subst n.
      unfold res_equal in Heq. simpl in Heq. rewrite Hp in Heq. simpl in Heq.
      rewrite !andb_false_r in Heq. simpl in Heq. rewrite ?andb_false_l in Heq. discriminate.
    - subst r1. rewrite Hk in Hc; inversion Hc; subst c. simpl in Hm. inversion Hm; subst n; clear Hm.
      cbv beta iota. intros H; inversion H; subst s1 r; clear H. split; [|split; [|split]].
      + intros k' Hk'. rewrite Hg, Hk'. reflexivity.
      + intros b Hb. inversion Hb; subst b. exists w. rewrite Hg, key_eqb_refl. subst w; simpl.
        repeat split; auto.
        * destruct (r_fins cur); [reflexivity | discriminate].
        * intros ->. reflexivity.
        * exists cur. repeat split; auto.
      + intros C. exfalso. eapply C. reflexivity.
      + discriminate.
  Qed.

  Lemma destroy_spec now x s s' r :
    a_apply now gc (ADestroy (kout x) None) s = (s', r) ->
    (forall k', key_eqb k' (kout x) = false -> st_get k' s' = st_get k' s) /\
    (r = AOk -> (exists cur, st_get (kout x) s = Some cur /\ r_owner cur = cname /\ r_fins cur = []) /\
                st_get (kout x) s' = None) /\
    (r <> AOk -> s' = s).
  Proof.
    unfold a_apply, kout. rewrite is_out. fold (kout x). change (c_name gc) with cname.
    unfold apply. destruct (st_get (kout x) s) as [cur|] eqn:Hk.
    2:{ intros H; inversion H; subst. repeat split; auto; discriminate. }
    destruct (N.eqb_spec (r_owner cur) cname) as [Eo|Eo]; simpl.
    2:{ intros H; inversion H; subst. repeat split; auto; discriminate. }
    destruct (r_fins cur) eqn:Ef.
    2:{ intros H; inversion H; subst. repeat split; auto; discriminate. }
    intros H; inversion H; subst s' r; clear H. split; [|split].
    - intros k' Hk'. rewrite st_get_del, Hk'. reflexivity.
    - intros _. split; [exists cur; auto | rewrite st_get_del, key_eqb_refl; reflexivity].
    - intros C; exfalso; apply C; reflexivity.
  Qed.

  (* ---- the environment ------------------------------------------------------------------------------ *)

  (* what the property assumes of every other party, stated on the effect of one of its store operations:
     it does not make an output owned by the controller appear, does not take the controller's finalizer off
     the input, and does not revive a controller-owned output that is tearing down *)
  Definition env_ok (x : atom) (st st' : store) : Prop :=
    (owned_out x st' -> owned_out x st) /\
    (in_fin x st -> in_fin x st') /\
    (out_td_if_owned x st -> out_td_if_owned x st').

  (* a concrete class of such environments, stated on the operation itself *)
  Definition env_op_ok (x : atom) (st : store) (o : op) : Prop :=
    match o with
    | OpCreate r ow => r_key r = kout x -> ow <> cname
    | OpUpdate r ow exp =>
        (r_key r = kin x -> forall cur, st_get (kin x) st = Some cur -> has_fin cur = true -> has_fin r = true) /\
        (r_key r = kout x -> forall cur, st_get (kout x) st = Some cur -> r_owner r = cname ->
                             r_owner cur = cname /\ (r_phase cur = true -> r_phase r = true))
    | _ => True          (* Destroy is never harmful: the store refuses it while a finalizer is set *)
    end.

  Lemma env_op_ok_sound now x st eop : env_op_ok x st eop -> env_ok x st (apply_st now eop st).
  Proof.
    intros Hok. unfold apply_st. destruct (apply now eop st) as [[st' r] ev] eqn:Ea. simpl.
    destruct (apply_shape _ _ _ _ _ _ Ea) as [[_ [Es _]] | [[w [_ [_ [Hn [_ [[x0 [ow [Eo [Kw [Ow _]]]]] Hg]]]]]] | [[w [cur [_ [_ [Hc [[x0 [ow [ex [Eo [_ Hw]]]]] Hg]]]]]] | [cur [k0 [ow [Eo [_ [_ [Kc Hg]]]]]]]]]].
    - subst st'. unfold env_ok. tauto.
    - subst eop. simpl in Hok. unfold env_ok, owned_out, in_fin, out_td_if_owned. split; [|split].
      + intros [o [Ho Hown]]. rewrite Hg in Ho. destruct (key_eqb_spec (kout x) (r_key w)) as [E|E].
        * inversion Ho; subst o. exfalso. apply Hok; [congruence | congruence].
        * eauto.
      + intros [inp [Hi Hf]]. exists inp. split; [|exact Hf]. rewrite Hg.
        destruct (key_eqb_spec (kin x) (r_key w)) as [E|E]; [|exact Hi]. rewrite <- E in Hn. congruence.
      + intros Htd o Ho Hown. rewrite Hg in Ho. destruct (key_eqb_spec (kout x) (r_key w)) as [E|E].
        * inversion Ho; subst o. exfalso. apply Hok; [congruence | congruence].
        * eauto.
    - subst eop. simpl in Hok. destruct Hok as [Hin Hout].
      assert (Kx : r_key w = r_key x0) by (subst w; reflexivity).
      assert (Fw : r_fins w = r_fins x0) by (subst w; reflexivity).
      assert (Ow : r_owner w = r_owner x0) by (subst w; reflexivity).
      assert (Pw : r_phase w = r_phase x0) by (subst w; reflexivity).
      unfold env_ok, owned_out, in_fin, out_td_if_owned. split; [|split].
      + intros [o [Ho Hown]]. rewrite Hg in Ho. destruct (key_eqb_spec (kout x) (r_key w)) as [E|E].
        * inversion Ho; subst o. rewrite <- E in Hc. exists cur. split; [exact Hc|].
          eapply Hout; eauto; congruence.
        * eauto.
      + intros [inp [Hi Hf]]. rewrite Hg. destruct (key_eqb_spec (kin x) (r_key w)) as [E|E].
        * exists w. split; [reflexivity|]. rewrite <- E in Hc. rewrite Hi in Hc. inversion Hc; subst cur.
          unfold GenCtl.has_fin. rewrite Fw. eapply Hin; eauto. congruence.
        * exists inp. auto.
      + intros Htd o Ho Hown. rewrite Hg in Ho. destruct (key_eqb_spec (kout x) (r_key w)) as [E|E].
        * inversion Ho; subst o. rewrite <- E in Hc.
          destruct (Hout (eq_trans (eq_sym Kx) (eq_sym E)) cur Hc (eq_trans (eq_sym Ow) Hown)) as [Oc Pc].
          rewrite Pw. apply Pc. apply Htd; assumption.
        * eauto.
    - unfold env_ok, owned_out, in_fin, out_td_if_owned. split; [|split].
      + intros [o [Ho Hown]]. rewrite Hg in Ho. destruct (key_eqb (kout x) k0); [discriminate | eauto].
      + intros [inp [Hi Hf]]. rewrite Hg. destruct (key_eqb_spec (kin x) k0) as [E|E]; [|eauto].
        exfalso. assert (Nf : r_fins inp <> []).
        { unfold GenCtl.has_fin in Hf. destruct (r_fins inp); [discriminate | discriminate]. }
        pose proof (never_removed_with_finalizer now eop st (kin x) inp Hi Nf) as NR.
        unfold apply_st in NR. rewrite Ea in NR. simpl in NR. apply NR. rewrite Hg, E, key_eqb_refl. reflexivity.
      + intros Htd o Ho Hown. rewrite Hg in Ho. destruct (key_eqb (kout x) k0); [discriminate | eauto].
  Qed.

  (* ---- the invariant ---------------------------------------------------------------------------------- *)

  Definition QInv (x : atom) (s : qsys) : Prop :=
    let st := qs_store s in
    (owned_out x st -> in_fin x st) /\
    match qs_pc s with
    | QGetOut _ | QModify _ => in_fin x st
    | QDestroyOutTD _ => in_fin x st /\ out_td_if_owned x st
    | QDestroyOut _ => out_td_if_owned x st
    | QRemFin _ => ~ owned_out x st
    | _ => True
    end.

  Lemma in_fin_frame x st st' :
    st_get (kin x) st' = st_get (kin x) st -> in_fin x st -> in_fin x st'.
  Proof. unfold in_fin. intros E. rewrite E. tauto. Qed.
  Lemma owned_frame x st st' :
    st_get (kout x) st' = st_get (kout x) st -> owned_out x st' -> owned_out x st.
  Proof. unfold owned_out. intros E. rewrite E. tauto. Qed.

  Lemma worker_step_inv now fault x s :
    QInv x s -> QInv x (q_step QPlain x s (QStep now fault)).
  Proof.
    destruct s as [st pc]. unfold QInv, GenCtl.q_step. cbn [qs_store qs_pc].
    intros [I1 I2]. destruct pc as [|inp|inp|inp|inp|inp|inp|inp|b]; cbn [GenCtl.q_request].
    - (* Q0 *)
      rewrite get_in_spec. cbn [qs_store qs_pc]. split; [exact I1|].
      destruct (st_get (kin x) st) as [inp|] eqn:Hi; cbn [q_resume].
      + destruct (r_phase inp); [cbn [ignore_td]; exact I|].
        destruct (GenCtl.has_fin cname inp) eqn:Hf; [|exact I]. exists inp. auto.
      + simpl. exact I.
    - (* QAddFin *)
      destruct (a_apply now gc (AAddFin (kin x) [cname]) st) as [st' r] eqn:Ea. cbn [qs_store qs_pc].
      destruct (addfin_spec _ _ _ _ _ Ea) as [Fr [Hok [Hmono Herr]]]. split.
      + intros Ho. apply Hmono. apply I1. eapply owned_frame; [|exact Ho]. apply Fr. apply kout_kin.
      + cbn [q_resume]. destruct r; try exact I. apply Hok. reflexivity.
    - (* QGetOut *)
      rewrite get_out_spec. cbn [qs_store qs_pc]. split; [exact I1|].
      destruct (st_get (kout x) st) as [o|] eqn:Ho; cbn [q_resume].
      + destruct (r_phase o) eqn:Hp; [|exact I2].
        destruct (r_fins o); [|exact I]. split; [exact I2|].
        intros o' Ho' _. rewrite Ho in Ho'. inversion Ho'; subst o'. exact Hp.
      + simpl. exact I2.
    - (* QDestroyOutTD *)
      destruct (a_apply now gc (ADestroy (kout x) None) st) as [st' r] eqn:Ea. cbn [qs_store qs_pc].
      destruct (destroy_spec _ _ _ _ _ Ea) as [Fr [Hok Herr]]. destruct I2 as [I2 I3].
      assert (F : in_fin x st') by (eapply in_fin_frame; [apply Fr; apply kin_kout | exact I2]).
      split; [intros _; exact F|]. cbn [q_resume]. destruct r; try exact I. exact F.
    - (* QModify *)
      destruct (a_apply now gc _ st) as [st' r] eqn:Ea. cbn [qs_store qs_pc].
      pose proof (modify_frame _ _ _ _ _ _ _ Ea) as Fr.
      assert (F : in_fin x st') by (eapply in_fin_frame; [apply Fr; apply kin_kout | exact I2]).
      split; [intros _; exact F|]. cbn [q_resume].
      destruct r as [|e|w|l|b|]; try exact I;
        repeat (match goal with
                | |- match (match ?e with _ => _ end) with _ => _ end => destruct e
                | |- match (if ?b then _ else _) with _ => _ end => destruct b
                end); exact I.
    - (* QTeardownOut *)
      destruct (a_apply now gc (ATeardown (kout x) None) st) as [st' r] eqn:Ea. cbn [qs_store qs_pc].
      destruct (teardown_spec _ _ _ _ _ Ea) as [Fr [Hrd [Herr Hnf]]].
      assert (FI : in_fin x st -> in_fin x st') by (apply in_fin_frame; apply Fr; apply kin_kout).
      split.
      + intros [o [Ho Hown]]. apply FI. apply I1.
        destruct r as [|e|w|l|b|]; try (rewrite Herr in Ho by (intros b0; discriminate); exists o; auto).
        destruct (Hrd b eq_refl) as [w [Hw [_ [_ [cur [Hc [Ow _]]]]]]]. rewrite Ho in Hw. inversion Hw; subst w.
        exists cur. split; [exact Hc | congruence].
      + cbn [q_resume]. destruct r as [|e|w|l|b|]; try exact I.
        * destruct (is_notfound_res (AErr e)) eqn:Enf; [|exact I].
          destruct e as [e| | |]; try discriminate. destruct e; try discriminate.
          rewrite Herr by (intros b0; discriminate). intros [o [Ho _]]. rewrite Hnf in Ho by reflexivity. discriminate.
        * destruct b; [|exact I]. destruct (Hrd true eq_refl) as [w [Hw [Hp _]]].
          intros o Ho _. rewrite Ho in Hw. inversion Hw; subst w. exact Hp.
    - (* QDestroyOut *)
      destruct (a_apply now gc (ADestroy (kout x) None) st) as [st' r] eqn:Ea. cbn [qs_store qs_pc].
      destruct (destroy_spec _ _ _ _ _ Ea) as [Fr [Hok Herr]].
      assert (FI : in_fin x st -> in_fin x st') by (apply in_fin_frame; apply Fr; apply kin_kout).
      split.
      + intros [o [Ho Hown]]. apply FI. apply I1.
        destruct r; try (rewrite Herr in Ho by discriminate; exists o; auto).
        destruct (Hok eq_refl) as [_ Hn]. rewrite Hn in Ho. discriminate.
      + cbn [q_resume]. destruct r; try exact I.
        destruct (Hok eq_refl) as [_ Hn]. intros [o [Ho _]]. rewrite Hn in Ho. discriminate.
    - (* QRemFin *)
      destruct (a_apply now gc (ARemFin (kin x) [cname]) st) as [st' r] eqn:Ea. cbn [qs_store qs_pc].
      pose proof (remfin_spec _ _ _ _ _ Ea) as Fr.
      assert (N : ~ owned_out x st').
      { intros Ho. apply I2. eapply owned_frame; [|exact Ho]. apply Fr. apply kout_kin. }
      split; [intros Ho; contradiction|]. cbn [q_resume]. destruct r; exact I.
    - (* QDone *)
      cbn [qs_store qs_pc]. split; [exact I1 | exact I].
  Qed.

  (* a reconcile of item x touches nothing but x's input and x's output *)
  Theorem q_worker_frame m now fault x s k' :
    key_eqb k' (kin x) = false -> key_eqb k' (kout x) = false ->
    st_get k' (qs_store (q_step m x s (QStep now fault))) = st_get k' (qs_store s).
  Proof.
    intros Ki Ko. destruct s as [st pc]. unfold GenCtl.q_step. cbn [qs_store qs_pc].
    destruct pc as [|inp|inp|inp|inp|inp|inp|inp|b]; cbn [GenCtl.q_request].
    - rewrite get_in_spec. reflexivity.
    - destruct (a_apply now gc (AAddFin (kin x) [cname]) st) as [st' r] eqn:Ea. cbn [qs_store].
      destruct (addfin_spec _ _ _ _ _ Ea) as [Fr _]. apply Fr. exact Ki.
    - rewrite get_out_spec. reflexivity.
    - destruct (a_apply now gc (ADestroy (kout x) None) st) as [st' r] eqn:Ea. cbn [qs_store].
      destruct (destroy_spec _ _ _ _ _ Ea) as [Fr _]. apply Fr. exact Ko.
    - destruct (a_apply now gc _ st) as [st' r] eqn:Ea. cbn [qs_store].
      eapply modify_frame; eauto.
    - destruct (a_apply now gc (ATeardown (kout x) None) st) as [st' r] eqn:Ea. cbn [qs_store].
      destruct (teardown_spec _ _ _ _ _ Ea) as [Fr _]. apply Fr. exact Ko.
    - destruct (a_apply now gc (ADestroy (kout x) None) st) as [st' r] eqn:Ea. cbn [qs_store].
      destruct (destroy_spec _ _ _ _ _ Ea) as [Fr _]. apply Fr. exact Ko.
    - destruct (a_apply now gc (ARemFin (kin x) [cname]) st) as [st' r] eqn:Ea. cbn [qs_store].
      eapply remfin_spec; eauto.
    - reflexivity.
  Qed.

  Lemma env_step_inv now o x s :
    QInv x s -> env_ok x (qs_store s) (apply_st now o (qs_store s)) -> QInv x (q_step QPlain x s (QEnv now o)).
  Proof.
    destruct s as [st pc]. unfold QInv, GenCtl.q_step. cbn [qs_store qs_pc].
    intros [I1 I2] [E1 [E2 E3]]. split; [tauto|].
    destruct pc; try exact I; try tauto.
  Qed.

  Lemma restart_step_inv x s : QInv x s -> QInv x (q_step QPlain x s QRestart).
  Proof.
    destruct s as [st pc]. unfold QInv, GenCtl.q_step. cbn [qs_store qs_pc].
    intros [I1 I2]. destruct pc; cbn [qs_store qs_pc]; split; auto.
  Qed.

  (* the environment keeps its side of the bargain along a schedule *)
  Fixpoint env_respects (m : qmode) (x : atom) (s : qsys) (sched : list qchoice) : Prop :=
    match sched with
    | [] => True
    | ch :: t =>
        match ch with
        | QEnv now o => env_ok x (qs_store s) (apply_st now o (qs_store s))
        | _ => True
        end /\ env_respects m x (q_step m x s ch) t
    end.

  Theorem q_safety x sched : forall s,
    QInv x s -> env_respects QPlain x s sched -> QInv x (q_run ns tin tout cname tf QPlain x s sched).
  Proof.
    unfold q_run. induction sched as [|ch t IH]; intros s Hi Hr; [exact Hi|].
    cbn [fold_left]. destruct Hr as [Hc Ht]. apply IH; [|exact Ht].
    destruct ch as [now fault|now o|]; [apply worker_step_inv | apply env_step_inv | apply restart_step_inv]; assumption.
  Qed.

  Lemma er_env m x s now o t :
    env_op_ok x (qs_store s) o -> env_respects m x (q_step m x s (QEnv now o)) t ->
    env_respects m x s (QEnv now o :: t).
  Proof. intros H1 H2. cbn [env_respects]. split; [apply env_op_ok_sound; exact H1 | exact H2]. Qed.
  Lemma er_step m x s now f t :
    env_respects m x (q_step m x s (QStep now f)) t -> env_respects m x s (QStep now f :: t).
  Proof. intros H. cbn [env_respects]. split; [exact I | exact H]. Qed.
  Lemma er_restart m x s t :
    env_respects m x (q_step m x s QRestart) t -> env_respects m x s (QRestart :: t).
  Proof. intros H. cbn [env_respects]. split; [exact I | exact H]. Qed.

  Lemma QInv_init x : QInv x (mkQS [] Q0).
  Proof. unfold QInv, owned_out; simpl. split; [intros [o [H _]]; discriminate | exact I]. Qed.

  (* C07, first and last clause: at every instant an output owned by the controller implies that its input
     exists and carries the controller's finalizer *)
  Theorem q_finalizer_brackets_output x sched :
    env_respects QPlain x (mkQS [] Q0) sched ->
    let st := qs_store (q_run ns tin tout cname tf QPlain x (mkQS [] Q0) sched) in
    forall o, st_get (kout x) st = Some o -> r_owner o = cname ->
    exists inp, st_get (kin x) st = Some inp /\ has_fin inp = true.
  Proof.
    intros Hr st o Ho Hown. destruct (q_safety x sched _ (QInv_init x) Hr) as [I1 _].
    apply I1. exists o. auto.
  Qed.

  (* C07, second clause: whenever the controller's Destroy of an output succeeds, that output was marked
     tearing down and had no finalizers; and the finalizer comes off the input only when no owned output exists *)
  Theorem q_destroy_only_torn_down now fault x s st' :
    QInv x s ->
    q_request x (qs_pc s) fault = Some (ADestroy (kout x) None) ->
    a_apply now gc (ADestroy (kout x) None) (qs_store s) = (st', AOk) ->
    exists o, st_get (kout x) (qs_store s) = Some o /\ r_phase o = true /\ r_fins o = [] /\ st_get (kout x) st' = None.
  Proof.
    destruct s as [st pc]. unfold QInv. cbn [qs_store qs_pc]. intros [I1 I2] Hpc Ha.
    destruct (destroy_spec _ _ _ _ _ Ha) as [_ [Hok _]]. destruct (Hok eq_refl) as [[cur [Hc [Ow Hf]]] Hn].
    destruct pc; cbn [GenCtl.q_request] in Hpc; try discriminate;
      exists cur; repeat split; auto;
      try (destruct I2 as [_ I3]; apply I3; assumption); try (apply I2; assumption).
  Qed.

  Theorem q_remfin_only_without_output now x s inp :
    QInv x s -> qs_pc s = QRemFin inp ->
    ~ owned_out x (qs_store s) /\
    ~ owned_out x (qs_store (q_step QPlain x s (QStep now false))).
  Proof.
    intros Hi Hpc. pose proof (worker_step_inv now false x s Hi) as Hi'.
    destruct s as [st pc]. cbn [qs_pc] in Hpc. subst pc. destruct Hi as [_ I2]. cbn [qs_pc qs_store] in I2.
    split; [exact I2|]. intros Ho. destruct Hi' as [I1' _].
    unfold GenCtl.q_step in *. cbn [qs_store qs_pc GenCtl.q_request] in *.
    destruct (a_apply now gc (ARemFin (kin x) [cname]) st) as [st' r] eqn:Ea. cbn [qs_store] in *.
    apply I2. eapply owned_frame; [|exact Ho]. eapply remfin_spec; [exact Ea | apply kout_kin].
  Qed.
End GenProofs.

(* ---- non-vacuity and the ignore-teardown options ------------------------------------------------------- *)

Section Witness.
  Let ns := 1. Let tin := 2. Let tout := 3. Let cname := 4. Let ext := 5. Let x := 6.
  Let tf (v : atom) := v + 100.

  Let inp0 := mkRes ns tin x None 0 false [] [] 0 0 7.
  Let inp_td := mkRes ns tin x (Some 1) 0 true [ext] [] 0 0 7.
  Let inp_td2 := mkRes ns tin x (Some 2) 0 true [cname] [] 0 0 7.
  Let step := QStep 0 false.

  (* a full life cycle under the plain configuration: the hypotheses of q_safety are met along the way, the
     output exists in between and both are gone at the end *)
  Let life : list qchoice :=
    [QEnv 0 (OpCreate inp0 0); step; step; step; step; QRestart;
     QEnv 0 (OpUpdate (mkRes ns tin x (Some 2) 0 true [cname] [] 0 0 7) 0 None); step; step; step; step;
     QEnv 0 (OpDestroy (ns, tin, x) 0)].

  Ltac env_op_tac :=
    vm_compute; try exact I; try (intros; discriminate);
    try (split; intros; try discriminate; try reflexivity;
         repeat (match goal with H : Some _ = Some _ |- _ => inversion H; subst; clear H end);
         simpl in *; try discriminate; try reflexivity).
  Ltac sched_tac :=
    repeat (apply er_step || apply er_restart || (apply er_env; [env_op_tac|])); exact I.

  Example plain_life_cycle :
    env_respects ns tin tout cname tf QPlain x (mkQS [] Q0) life /\
    owned_out ns tout cname x (qs_store (q_run ns tin tout cname tf QPlain x (mkQS [] Q0) (firstn 5 life))) /\
    qs_store (q_run ns tin tout cname tf QPlain x (mkQS [] Q0) life) = [].
  Proof.
    split; [|split].
    - assert (Hty : tin <> tout) by discriminate. unfold life, step.
      sched_tac.
    - vm_compute. eexists. split; reflexivity.
    - vm_compute. reflexivity.
  Qed.

  (* finding F7: with WithIgnoreTeardownWhile / WithIgnoreTeardownUntil a tearing-down input that never got the
     controller's finalizer is reconciled as if it were running: an owned output appears while the input does
     not carry the finalizer.  The environment here only creates the input, adds a foreign finalizer and tears
     the input down. *)
  Let f7 : list qchoice := [QEnv 0 (OpCreate inp0 0); QEnv 0 (OpUpdate inp_td 0 None); step; step; step].

  Theorem q_ignore_teardown_refuted m :
    m = QUntil \/ m = QWhile ext ->
    env_respects ns tin tout cname tf m x (mkQS [] Q0) f7 /\
    let st := qs_store (q_run ns tin tout cname tf m x (mkQS [] Q0) f7) in
    owned_out ns tout cname x st /\ ~ in_fin ns tin cname x st.
  Proof.
    assert (Hty : tin <> tout) by discriminate.
    intros [-> | ->].
    all: split; [unfold f7, step; sched_tac | split].
    all: try (vm_compute; eexists; split; reflexivity).
    all: vm_compute; intros [i [Hi Hf]]; inversion Hi; subst i; discriminate.
  Qed.
End Witness.

Theorem q_ignore_teardown_refuted_ex : forall m, m = QUntil \/ m = QWhile 5 ->
  exists sched,
    env_respects 1 2 3 4 (fun v => v + 100) m 6 (mkQS [] Q0) sched /\
    let st := qs_store (q_run 1 2 3 4 (fun v => v + 100) m 6 (mkQS [] Q0) sched) in
    owned_out 1 3 4 6 st /\ ~ in_fin 1 2 4 6 st.
Proof. intros m H. eexists. exact (q_ignore_teardown_refuted m H). Qed.
