(* Grpc.v — status-code <-> error-class mapping of the gRPC pair (pkg/state/protobuf/server/server.go switch blocks,
   pkg/state/protobuf/client/client.go switch status.Code blocks), in the order the cases are written. *)
From Coq Require Export List NArith Bool.
Export ListNotations.

Inductive ekind := KNotFound | KOwner | KPhase | KConflict | KOther.     (* the error classes of pkg/state/errors.go *)
Inductive rpc := RGet | RList | RCreate | RUpdate | RDestroy | RTeardown | RTeardownAndDestroy.
Inductive code := CNotFound | CPermissionDenied | CAlreadyExists | CInvalidArgument | CFailedPrecondition | CUnknown.

(* predicates as the server's switch sees them: owner and phase conflicts are conflicts too *)
Definition is_nf (k : ekind) := match k with KNotFound => true | _ => false end.
Definition is_owner (k : ekind) := match k with KOwner => true | _ => false end.
Definition is_phase (k : ekind) := match k with KPhase => true | _ => false end.
Definition is_conf (k : ekind) := match k with KOwner | KPhase | KConflict => true | _ => false end.

Definition server_map (r : rpc) (k : ekind) : code :=
  match r with
  | RGet | RList => if is_nf k then CNotFound else CUnknown
  | RCreate =>
      if is_nf k then CNotFound else if is_owner k then CPermissionDenied else if is_conf k then CAlreadyExists else CUnknown
  | RUpdate =>
      if is_nf k then CNotFound else if is_owner k then CPermissionDenied else if is_phase k then CInvalidArgument
      else if is_conf k then CFailedPrecondition else CUnknown
  | RDestroy | RTeardown | RTeardownAndDestroy =>
      if is_nf k then CNotFound else if is_owner k then CPermissionDenied else if is_conf k then CFailedPrecondition else CUnknown
  end.

Definition client_map (r : rpc) (c : code) : ekind :=
  match r, c with
  | _, CNotFound => KNotFound
  | (RCreate | RUpdate | RDestroy | RTeardown | RTeardownAndDestroy), CPermissionDenied => KOwner
  | RCreate, CAlreadyExists => KConflict
  | RUpdate, CInvalidArgument => KPhase
  | (RUpdate | RDestroy | RTeardown | RTeardownAndDestroy), CFailedPrecondition => KConflict
  | _, _ => KOther
  end.

(* which error classes the wrapped operation behind each RPC can produce sequentially (C01 / C03 / C04 specifications:
   reads only fail with not-found; Create and Destroy never report a phase conflict; a sequential Teardown never does) *)
Definition producible (r : rpc) (k : ekind) : bool :=
  match r, k with
  | (RGet | RList), (KNotFound | KOther) => true
  | (RGet | RList), _ => false
  | RUpdate, _ => true
  | _, KPhase => false
  | _, _ => true
  end.

(* the observation tuple of the harness: not-found, owner, phase, conflict under (no qualifier, right namespace,
   wrong namespace, right type, wrong type, both right) — the remote error carries the request's own resource *)
Definition cls_of (k : ekind) : bool * bool * bool * list bool :=
  (is_nf k, is_owner k, is_phase k,
   let c := is_conf k in [c; c; false; c; false; c]).
