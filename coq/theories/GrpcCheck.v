(* GrpcCheck.v — the error-map table observed on the real server + client pair. *)
From Verif Require Import Grpc.
From Coq Require Import NArith.

Definition tuple := (bool * bool * bool * list bool)%type.

Fixpoint bl_eqb (a b : list bool) : bool :=
  match a, b with [], [] => true | x :: a', y :: b' => Bool.eqb x y && bl_eqb a' b' | _, _ => false end.
Definition tuple_eqb (a b : tuple) : bool :=
  let '(a1, a2, a3, a4) := a in let '(b1, b2, b3, b4) := b in Bool.eqb a1 b1 && Bool.eqb a2 b2 && Bool.eqb a3 b3 && bl_eqb a4 b4.

Definition kind_of_tuple (t : tuple) : ekind :=
  let '(nf, ow, ph, cs) := t in
  if nf then KNotFound else if ow then KOwner else if ph then KPhase else
  match cs with true :: _ => KConflict | _ => KOther end.

(* a row: the RPC, what the direct call's error looked like, what the remote call's error looked like *)
Definition grow := (rpc * tuple * tuple)%type.

Definition grow_ok (g : grow) : bool :=
  let '(r, direct, remote) := g in
  let k := kind_of_tuple direct in
  tuple_eqb (cls_of k) direct &&                                  (* the direct error is one of the modelled classes *)
  tuple_eqb (cls_of (client_map r (server_map r k))) remote.      (* and the remote one is what the two maps give *)

Fixpoint mism_from {A} (f : A -> bool) (i : N) (l : list A) : list N :=
  match l with
  | [] => []
  | x :: t => if f x then mism_from f (N.succ i) t else i :: mism_from f (N.succ i) t
  end.
Definition grpc_mismatches (cs : list grow) : list N := mism_from grow_ok 0%N cs.
