(* GrpcOps.v — the unary RPCs end to end: what the client adapter puts on the wire for an operation (client.go Create /
   Update / Destroy / Get), what the server does with it (server.go handlers: decode, translate options, call the
   wrapped state, map the error to a status code or encode the result), and what the client makes of the response
   (status code -> error class, updateResourceMetadata write-back of version / update time / owner).

   The wrapped state is the sequential specification Store.apply (C01). The resource codec on the wire
   (protobuf.FromResource / Marshal, Unmarshal / UnmarshalResource) is a parameter with its round trip as hypothesis
   (C18's subject); the expected phase travels as its text form (Text.phase_string / parse_phase). *)
From Verif Require Export Store Text Grpc.
Open Scope N_scope.

Definition kind_of (e : err) : ekind :=
  match e with
  | ENotFound => KNotFound
  | EConflict _ _ => KConflict
  | EOwnerConflict _ _ => KOwner
  | EPhaseConflict _ _ => KPhase
  | EOther => KOther
  end.

Definition rpc_of (o : op) : rpc :=
  match o with OpCreate _ _ => RCreate | OpUpdate _ _ _ => RUpdate | OpDestroy _ _ => RDestroy | OpGet _ => RGet | OpList _ _ => RList end.

Section Wire.
  Variable wire : Type.
  Variable enc : res -> wire.
  Variable dec : wire -> option res.

  Inductive wreq :=
  | WCreate (w : wire) (owner : atom)
  | WUpdate (w : wire) (owner : atom) (exp : option (list N))   (* UpdateOptions.ExpectedPhase: optional string *)
  | WDestroy (k : key) (owner : atom)
  | WGet (k : key).

  Inductive wresp :=
  | WRes (w : wire)          (* Create/Update/Get response: the resource *)
  | WEmpty                   (* Destroy response *)
  | WStatus (c : code).      (* error status *)

  (* client.go: the request formed for an operation. state.DefaultUpdateOptions expects phase running; WithExpectedPhaseAny
     clears it (None here), and only a set phase is sent, as its String() *)
  Definition client_request (o : op) : option wreq :=
    match o with
    | OpCreate r owner => Some (WCreate (enc r) owner)
    | OpUpdate r owner exp => Some (WUpdate (enc r) owner (option_map phase_string exp))
    | OpDestroy k owner => Some (WDestroy k owner)
    | OpGet k => Some (WGet k)
    | OpList _ _ => None
    end.

  Definition respond (r : rpc) (res : result) : wresp :=
    match res with
    | RErr e => WStatus (server_map r (kind_of e))
    | ROk => WEmpty
    | RWritten w => WRes (enc w)
    | RGot w => WRes (enc w)
    | Store.RList _ => WEmpty
    end.

  (* server.go: absent ExpectedPhase means any phase, a present one must parse *)
  Definition server_exp (e : option (list N)) : option (option bool) :=
    match e with
    | None => Some None
    | Some str => match parse_phase str with Some p => Some (Some p) | None => None end
    end.

  Definition server_handle (now : Z) (q : wreq) (s : store) : store * wresp :=
    match q with
    | WCreate w owner =>
        match dec w with
        | None => (s, WStatus CUnknown)
        | Some r => let '(s', res, _) := apply now (OpCreate r owner) s in (s', respond RCreate res)
        end
    | WUpdate w owner e =>
        match dec w with
        | None => (s, WStatus CUnknown)
        | Some r =>
            match server_exp e with
            | None => (s, WStatus CUnknown)
            | Some exp => let '(s', res, _) := apply now (OpUpdate r owner exp) s in (s', respond RUpdate res)
            end
        end
    | WDestroy k owner => let '(s', res, _) := apply now (OpDestroy k owner) s in (s', respond RDestroy res)
    | WGet k => let '(s', res, _) := apply now (OpGet k) s in (s', respond RGet res)
    end.

  (* what the caller can observe of a call: the error class, or the fields written back into its object, or the
     object returned *)
  Inductive cout :=
  | CErr (k : ekind)
  | CDone
  | CWrote (ver : option N) (updated : Z) (owner : atom)
  | CGot (r : res)
  | CBad.                  (* undecodable response *)

  Definition client_outcome (r : rpc) (resp : wresp) : cout :=
    match resp with
    | WStatus c => CErr (client_map r c)
    | WEmpty => CDone
    | WRes w =>
        match dec w with
        | None => CBad
        | Some x => match r with RGet => CGot x | _ => CWrote (r_ver x) (r_updated x) (r_owner x) end
        end
    end.

  Definition direct_outcome (res : result) : cout :=
    match res with
    | RErr e => CErr (kind_of e)
    | ROk => CDone
    | RWritten w => CWrote (r_ver w) (r_updated w) (r_owner w)
    | RGot x => CGot x
    | Store.RList _ => CDone
    end.

  Definition remote_call (now : Z) (o : op) (s : store) : option (store * cout) :=
    match client_request o with
    | None => None
    | Some q => let '(s', resp) := server_handle now q s in Some (s', client_outcome (rpc_of o) resp)
    end.
End Wire.

Arguments WCreate {wire}. Arguments WUpdate {wire}. Arguments WDestroy {wire}. Arguments WGet {wire}.
Arguments WRes {wire}. Arguments WEmpty {wire}. Arguments WStatus {wire}.
