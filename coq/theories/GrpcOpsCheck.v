(* GrpcOpsCheck.v — what actually travels between the real client adapter and the real server, against GrpcOps:
   the options the client puts into Create / Update / Destroy requests and the status code the server answers with. *)
From Verif Require Import Store Text Grpc GrpcCheck GrpcOps.
From Coq Require Import NArith.
Open Scope N_scope.

Definition wreq_opts {wire} (q : @wreq wire) : atom * option (list N) :=
  match q with
  | WCreate _ owner => (owner, None)
  | WUpdate _ owner e => (owner, e)
  | WDestroy _ owner => (owner, None)
  | WGet _ => (0, None)
  end.

Definition dummy : res := mkRes 1 1 1 None 0 false [] [] 0%Z 0%Z 0.

Definition op_for (r : rpc) (owner : atom) (exp : option bool) : option op :=
  match r with
  | RCreate => Some (OpCreate dummy owner)
  | RUpdate => Some (OpUpdate dummy owner exp)
  | RDestroy => Some (OpDestroy (1, 1, 1) owner)
  | _ => None
  end.

Fixpoint bytes_eq (a b : list N) : bool :=
  match a, b with [], [] => true | x :: a', y :: b' => N.eqb x y && bytes_eq a' b' | _, _ => false end.

Definition oexp_eqb (a b : option (list N)) : bool :=
  match a, b with None, None => true | Some x, Some y => bytes_eq x y | _, _ => false end.

Definition code_eqb (a b : code) : bool :=
  match a, b with
  | CNotFound, CNotFound | CPermissionDenied, CPermissionDenied | CAlreadyExists, CAlreadyExists
  | CInvalidArgument, CInvalidArgument | CFailedPrecondition, CFailedPrecondition | CUnknown, CUnknown => true
  | _, _ => false
  end.

(* a row: the RPC, the caller's owner option and expected phase (None = any), the options seen on the wire, the direct
   call's error (None = success) and the status code seen on the wire (None = OK) *)
Definition wrow := (rpc * atom * option bool * (atom * option (list N)) * option tuple * option code)%type.

Definition wrow_ok (w : wrow) : bool :=
  let '(r, owner, exp, (wowner, wexp), direct, wcode) := w in
  match op_for r owner exp with
  | None => false
  | Some o =>
      match client_request res (fun x => x) o with
      | None => false
      | Some q => let '(mo, me) := wreq_opts q in N.eqb mo wowner && oexp_eqb me wexp
      end
  end &&
  match direct, wcode with
  | None, None => true
  | Some t, Some c => code_eqb (server_map r (kind_of_tuple t)) c
  | _, _ => false
  end.

Definition wire_mismatches (ws : list wrow) : list N := mism_from wrow_ok 0%N ws.
