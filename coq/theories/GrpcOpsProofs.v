(* GrpcOpsProofs.v — transparency of the unary RPCs: for every operation, every state and every resource, going
   through client -> wire -> server -> wrapped state -> wire -> client gives the state and the caller-visible outcome
   of the direct call. *)
From Verif Require Import Store Text TextProofs Grpc GrpcOps.
Open Scope N_scope.

Section WireProofs.
  Variable wire : Type.
  Variable enc : res -> wire.
  Variable dec : wire -> option res.
  Hypothesis dec_enc : forall r, dec (enc r) = Some r.

  Lemma server_exp_roundtrip exp : server_exp (option_map phase_string exp) = Some exp.
  Proof. destruct exp as [p|]; simpl; [rewrite phase_roundtrip|]; reflexivity. Qed.

  (* which results each operation can produce *)
  Lemma apply_shape now o s :
    match o, apply_res now o s with
    | OpCreate _ _, (RErr EOther | RErr (EConflict _ _) | RWritten _) => True
    | OpUpdate _ _ _, (RErr ENotFound | RErr (EOwnerConflict _ _) | RErr (EConflict _ _) | RErr (EPhaseConflict _ _) | RWritten _) => True
    | OpDestroy _ _, (RErr ENotFound | RErr (EOwnerConflict _ _) | RErr (EConflict _ _) | ROk) => True
    | OpGet _, (RErr ENotFound | RGot _) => True
    | OpList _ _, Store.RList _ => True
    | _, _ => False
    end.
  Proof.
    unfold apply_res, apply. destruct o as [x owner|x owner exp|k owner|k|ns typ]; simpl.
    - destruct (set_owner x owner) as [r1|]; simpl; [|exact I]. destruct (st_get (r_key r1) s); simpl; exact I.
    - destruct (st_get (r_key x) s) as [cur|]; simpl; [|exact I].
      destruct (negb (r_owner cur =? owner)); simpl; [exact I|].
      destruct (negb (ver_eqb (r_ver cur) (r_ver x))); simpl; [exact I|].
      destruct (match exp with Some p => negb (Bool.eqb (r_phase cur) p) | None => false end); simpl; exact I.
    - destruct (st_get k s) as [cur|]; simpl; [|exact I].
      destruct (negb (r_owner cur =? owner)); simpl; [exact I|]. destruct (r_fins cur); simpl; exact I.
    - destruct (st_get k s); simpl; exact I.
    - exact I.
  Qed.

  Theorem remote_transparent now o s :
    (match o with OpList _ _ => False | _ => True end) ->
    remote_call wire enc dec now o s = Some (apply_st now o s, direct_outcome (apply_res now o s)).
  Proof.
    intros Hl. pose proof (apply_shape now o s) as Hs. unfold apply_st, apply_res in *.
    unfold remote_call. destruct o as [x owner|x owner exp|k owner|k|ns typ]; [| | | |contradiction];
      cbn [client_request server_handle rpc_of]; rewrite ?dec_enc, ?server_exp_roundtrip.
    - destruct (apply now (OpCreate x owner) s) as [[s' res] ev]; cbn [fst snd] in *. f_equal. f_equal.
      destruct res as [[| | | |]| |w|w|l]; try contradiction; cbn [respond client_outcome direct_outcome]; rewrite ?dec_enc; reflexivity.
    - destruct (apply now (OpUpdate x owner exp) s) as [[s' res] ev]; cbn [fst snd] in *. f_equal. f_equal.
      destruct res as [[| | | |]| |w|w|l]; try contradiction; cbn [respond client_outcome direct_outcome]; rewrite ?dec_enc; reflexivity.
    - destruct (apply now (OpDestroy k owner) s) as [[s' res] ev]; cbn [fst snd] in *. f_equal. f_equal.
      destruct res as [[| | | |]| |w|w|l]; try contradiction; cbn [respond client_outcome direct_outcome]; rewrite ?dec_enc; reflexivity.
    - destruct (apply now (OpGet k) s) as [[s' res] ev]; cbn [fst snd] in *. f_equal. f_equal.
      destruct res as [[| | | |]| |w|w|l]; try contradiction; cbn [respond client_outcome direct_outcome]; rewrite ?dec_enc; reflexivity.
  Qed.

  (* whole histories: a client working only through the adapter drives the wrapped state exactly as a direct caller *)
  Fixpoint run_direct (ops : list (Z * op)) (s : store) : store * list cout :=
    match ops with
    | [] => (s, [])
    | (now, o) :: t => let '(s', outs) := run_direct t (apply_st now o s) in (s', direct_outcome (apply_res now o s) :: outs)
    end.

  Fixpoint run_remote (ops : list (Z * op)) (s : store) : option (store * list cout) :=
    match ops with
    | [] => Some (s, [])
    | (now, o) :: t =>
        match remote_call wire enc dec now o s with
        | None => None
        | Some (s1, out) => match run_remote t s1 with Some (s', outs) => Some (s', out :: outs) | None => None end
        end
    end.

  Theorem remote_history_transparent ops : forall s,
    Forall (fun no => match snd no with OpList _ _ => False | _ => True end) ops ->
    run_remote ops s = Some (run_direct ops s).
  Proof.
    induction ops as [|[now o] t IH]; intros s Hf; [reflexivity|]. inversion Hf as [|? ? Ho Ht]; subst.
    cbn [run_remote run_direct]. rewrite (remote_transparent now o s Ho), (IH _ Ht).
    destruct (run_direct t (apply_st now o s)). reflexivity.
  Qed.

  (* a malformed request (undecodable resource, unparsable phase) is answered with an error status and changes nothing *)
  Theorem malformed_request_rejected now q s :
    (match q with
     | WCreate w _ => dec w = None
     | WUpdate w _ e => dec w = None \/ server_exp e = None
     | _ => False
     end) ->
    server_handle wire enc dec now q s = (s, WStatus CUnknown).
  Proof.
    destruct q as [w owner|w owner e|k owner|k]; cbn [server_handle]; intros H; try contradiction.
    - rewrite H. reflexivity.
    - destruct H as [H|H]; [rewrite H; reflexivity|]. destruct (dec w); [rewrite H|]; reflexivity.
  Qed.
End WireProofs.

(* non-vacuity, with the identity codec: an update with expected phase running on a tearing-down resource *)
Example remote_nonvacuous :
  let r := mkRes 1 2 3 (Some 1) 0 true [] [] 0%Z 0%Z 9 in
  let s := [r] in
  remote_call res (fun x => x) Some 5%Z (OpUpdate r 0 (Some false)) s = Some (s, CErr KPhase) /\
  remote_call res (fun x => x) Some 5%Z (OpUpdate r 0 None) s =
    Some ([mkRes 1 2 3 (Some 2) 0 true [] [] 0%Z 5%Z 9], CWrote (Some 2) 5%Z 0) /\
  remote_call res (fun x => x) Some 5%Z (OpDestroy (1, 2, 3) 7) s = Some (s, CErr KOwner).
Proof. vm_compute. repeat split. Qed.
