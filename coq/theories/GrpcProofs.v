From Verif Require Import Grpc.

(* identical error classes on both sides of the wire, for every RPC and every error its operation can produce *)
Theorem error_class_roundtrip r k : producible r k = true -> client_map r (server_map r k) = k.
Proof. destruct r, k; simpl; intros H; try discriminate; reflexivity. Qed.

(* where the mapping is lossy: a phase conflict on the lifecycle RPCs comes back as a plain conflict (F9: only
   reachable when two teardowns race, outside the sequential quantifier) *)
Theorem phase_on_teardown_degrades :
  client_map RTeardown (server_map RTeardown KPhase) = KConflict /\
  client_map RTeardownAndDestroy (server_map RTeardownAndDestroy KPhase) = KConflict.
Proof. split; reflexivity. Qed.

(* the mapping never invents a class: an unclassified error stays unclassified *)
Theorem other_stays_other r : client_map r (server_map r KOther) = KOther.
Proof. destruct r; reflexivity. Qed.

(* the six-way conflict qualification is preserved: the remote error is qualified by the request's resource, which is
   the resource the direct error names (StoreProofs.errors_classified) *)
Theorem class_tuple_roundtrip r k : producible r k = true -> cls_of (client_map r (server_map r k)) = cls_of k.
Proof. intros H. rewrite error_class_roundtrip by exact H. reflexivity. Qed.
