(* Handoff.v — the two goroutines behind Runtime.processWatched (pkg/controller/runtime/runtime.go):
     A = deduplicateWatchEvents: receive a batch from watchCh, acquire THE map (from `empty` or from `ch`), merge the
         batch, park the map in `empty` if it is empty, otherwise drain watchCh without blocking and send the map on `ch`;
     B = deliverDeduplicatedEvents: receive the map from `ch`, takeOne (panics on an empty map), send the map back on
         `ch` if keys remain, else on `empty`, then notify the controllers of the taken key.
   One map travels between them through two channels of capacity one.  Pipeline.v treats this as "the map lives
   somewhere"; here the protocol itself is the model, one step per channel operation, any interleaving. *)
From Coq Require Export List NArith Bool Lia.
Export ListNotations.
Open Scope N_scope.

Definition hkey := N.
Definition dmap := list (hkey * N).                 (* reduced.Key -> reduced.Value, keys unique *)

Inductive hev := EvChange (k : hkey) (v : N) | EvNoop | EvErrored.   (* Noop also stands for events that only feed the cache *)
Definition batch := list hev.

Fixpoint dm_set (m : dmap) (k : hkey) (v : N) : dmap :=
  match m with
  | [] => [(k, v)]
  | (k', v') :: m' => if k' =? k then (k', v) :: m' else (k', v') :: dm_set m' k v
  end.
Fixpoint dm_remove (m : dmap) (k : hkey) : dmap :=
  match m with
  | [] => []
  | (k', v') :: m' => if k' =? k then m' else (k', v') :: dm_remove m' k
  end.
Fixpoint dm_get (m : dmap) (k : hkey) : option N :=
  match m with
  | [] => None
  | (k', v') :: m' => if k' =? k then Some v' else dm_get m' k
  end.

(* processEvents: merge until an Errored event; false = the watch failed, the goroutine returns *)
Fixpoint process (b : batch) (m : dmap) : dmap * bool :=
  match b with
  | [] => (m, true)
  | EvChange k v :: b' => process b' (dm_set m k v)
  | EvNoop :: b' => process b' m
  | EvErrored :: _ => (m, false)
  end.

Inductive apc :=
| AWait                          (* select on watchCh *)
| AAcquire (b : batch)           (* select on empty / ch for the map *)
| ADrain (m : dmap)              (* map is non-empty: non-blocking receive loop on watchCh *)
| ASendEmpty (m : dmap)
| ASendCh (m : dmap)
| ADone (m : option dmap).       (* returned after an Errored event (keeps whatever it held) *)

Inductive bpc :=
| BWait
| BHold (m : dmap)               (* about to takeOne *)
| BSend (m : dmap) (k : hkey) (v : N)
| BNotify (k : hkey) (v : N)
| BPanic.                        (* takeOne on an empty map *)

Record hstate := mkH {
  h_queue : list batch;          (* watchCh, capacity 16 *)
  h_ch : option dmap;            (* ch, capacity 1 *)
  h_empty : option dmap;         (* empty, capacity 1 *)
  h_a : apc;
  h_b : bpc;
  h_delivered : list (hkey * N)  (* keys handed to the controllers, newest last *)
}.

Definition h_init : hstate := mkH [] None (Some []) AWait BWait [].
Definition watch_cap : nat := 16.

Inductive hact :=
| HPush (b : batch)              (* the watch goroutine sends a batch *)
| HA                             (* goroutine A performs its next channel operation *)
| HBRecv | HBTake (k : hkey) | HBSend | HBNotify.

Definition after_process (r : dmap * bool) : apc :=
  let '(m, ok) := r in
  if ok then match m with [] => ASendEmpty m | _ => ADrain m end else ADone (Some m).

Definition a_step (s : hstate) : hstate :=
  let '(mkH q ch em a b d) := s in
  match a with
  | AWait => match q with
             | bt :: q' => mkH q' ch em (AAcquire bt) b d
             | [] => s
             end
  | AAcquire bt =>
      match em, ch with
      | Some m, _ => mkH q ch None (after_process (process bt m)) b d
      | None, Some m => mkH q None em (after_process (process bt m)) b d
      | None, None => s
      end
  | ADrain m =>
      match q with
      | bt :: q' => let '(m', ok) := process bt m in mkH q' ch em (if ok then ADrain m' else ADone (Some m')) b d
      | [] => mkH q ch em (ASendCh m) b d
      end
  | ASendEmpty m => match em with None => mkH q ch (Some m) AWait b d | Some _ => s end
  | ASendCh m => match ch with None => mkH q (Some m) em AWait b d | Some _ => s end
  | ADone _ => s
  end.

Definition hstep (s : hstate) (x : hact) : hstate :=
  let '(mkH q ch em a b d) := s in
  match x with
  | HPush bt => if Nat.ltb (length q) watch_cap then mkH (q ++ [bt]) ch em a b d else s
  | HA => a_step s
  | HBRecv => match b, ch with
              | BWait, Some m => mkH q None em a (BHold m) d
              | _, _ => s
              end
  | HBTake k => match b with
                | BHold [] => mkH q ch em a BPanic d
                | BHold m => match dm_get m k with
                             | Some v => mkH q ch em a (BSend (dm_remove m k) k v) d
                             | None => s
                             end
                | _ => s
                end
  | HBSend => match b with
              | BSend [] k v => match em with None => mkH q ch (Some []) a (BNotify k v) d | Some _ => s end
              | BSend m k v => match ch with None => mkH q (Some m) em a (BNotify k v) d | Some _ => s end
              | _ => s
              end
  | HBNotify => match b with
                | BNotify k v => mkH q ch em a BWait (d ++ [(k, v)])
                | _ => s
                end
  end.

Definition hrun (s : hstate) (sched : list hact) : hstate := fold_left hstep sched s.

(* goroutine A runs until it blocks (what synctest.Wait() lets the real one do); fuel: one step per queued batch + 4 *)
Fixpoint a_settle (fuel : nat) (s : hstate) : hstate :=
  match fuel with
  | O => s
  | S f => a_settle f (a_step s)
  end.
(* likewise goroutine B with the key it takes given *)
Definition b_settle (k : hkey) (s : hstate) : hstate :=
  hstep (hstep (hstep (hstep s HBRecv) (HBTake k)) HBSend) HBNotify.

(* where the map is *)
Definition a_holds (a : apc) : nat :=
  match a with ADrain _ | ASendEmpty _ | ASendCh _ | ADone (Some _) => 1 | _ => 0 end.
Definition b_holds (b : bpc) : nat := match b with BHold _ | BSend _ _ _ => 1 | _ => 0 end.
Definition slot (o : option dmap) : nat := match o with Some _ => 1 | None => 0 end.
Definition tokens (s : hstate) : nat := slot (h_ch s) + slot (h_empty s) + a_holds (h_a s) + b_holds (h_b s).
