(* HandoffCheck.v — correspondence of Handoff.v with the two real goroutines, each driven alone on harness-owned
   channels (build tag verif): the harness plays the other goroutine and the watch, and records after every one of its
   own actions (the real goroutine has then run until it blocked) how many items each channel holds and what it
   received. *)
From Verif Require Import Handoff.
Open Scope N_scope.

Inductive hobs :=
| OPush (b : batch) (q ch em : nat)     (* batch sent on watchCh; afterwards len(watchCh), len(ch), len(empty) *)
| ORecv (m : dmap) (q ch em : nat)      (* harness (as goroutine B) received this map from ch *)
| OBack (k : hkey) (q ch em : nat)      (* harness removed k and sent the map back where B would; then notified *)
| ODone (done : bool).                  (* has goroutine A returned (it does after an Errored event) *)

Definition slotn (o : option dmap) : nat := match o with Some _ => 1 | None => 0 end.
Definition shape_ok (s : hstate) (q ch em : nat) : bool :=
  Nat.eqb (length (h_queue s)) q && Nat.eqb (slotn (h_ch s)) ch && Nat.eqb (slotn (h_empty s)) em.

Definition dm_eqb (obs model : dmap) : bool :=
  Nat.eqb (length obs) (length model) &&
  forallb (fun kv => match dm_get model (fst kv) with Some v => v =? snd kv | None => false end) obs.

Definition settle (s : hstate) : hstate := a_settle 40 s.

(* replay one observation; None = disagreement *)
Definition hreplay1 (s : hstate) (o : hobs) : option hstate :=
  match o with
  | OPush b q ch em =>
      let s' := settle (hstep s (HPush b)) in
      if shape_ok s' q ch em then Some s' else None
  | ORecv m q ch em =>
      let s' := settle (hstep s HBRecv) in
      match h_b s' with
      | BHold m' => if dm_eqb m m' && shape_ok s' q ch em then Some s' else None
      | _ => None
      end
  | OBack k q ch em =>
      let s' := settle (hstep (hstep (hstep s (HBTake k)) HBSend) HBNotify) in
      match h_b s' with
      | BWait => if shape_ok s' q ch em then Some s' else None
      | _ => None
      end
  | ODone dn =>
      if Bool.eqb dn (match h_a s with ADone _ => true | _ => false end) then Some s else None
  end.

Fixpoint hreplay (s : hstate) (os : list hobs) (i : nat) : option nat :=   (* index of the first disagreement *)
  match os with
  | [] => None
  | o :: os' => match hreplay1 s o with
                | Some s' => hreplay s' os' (S i)
                | None => Some i
                end
  end.

(* goroutine B alone: the harness (as A) sent `sent` on ch and let B run until it blocked: B receives its own map
   back from ch until no key is left; afterwards len(ch), len(empty) and the size of the map found there *)
Inductive bobs := BDrain (sent : dmap) (ch em nleft : nat).
Fixpoint b_drain (fuel : nat) (s : hstate) : hstate :=
  match fuel with
  | O => s
  | S f => match h_ch s with
           | Some ((k, _) :: _) => b_drain f (b_settle k s)
           | _ => s
           end
  end.
Definition bobs_ok (o : bobs) : bool :=
  let (sent, ch, em, nleft) := o in
  let s := b_drain (S (length sent)) (mkH [] (Some sent) None AWait BWait []) in
  Nat.eqb (slotn (h_ch s)) ch && Nat.eqb (slotn (h_empty s)) em &&
  Nat.eqb (length (h_delivered s)) (length sent) &&
  match h_empty s with Some m => Nat.eqb (length m) nleft | None => false end.

Inductive hcase := HScript (os : list hobs) | HB (o : bobs).
Definition hcase_ok (c : hcase) : bool :=
  match c with
  | HScript os => match hreplay (settle h_init) os 0 with None => true | Some _ => false end
  | HB o => bobs_ok o
  end.

Fixpoint h_mism_from (i : N) (l : list hcase) : list N :=
  match l with
  | [] => []
  | c :: t => if hcase_ok c then h_mism_from (N.succ i) t else i :: h_mism_from (N.succ i) t
  end.
Definition handoff_mismatches (cs : list hcase) : list N := h_mism_from 0 cs.
