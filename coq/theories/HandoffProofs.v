(* HandoffProofs.v — the map hand-off protocol of Runtime.processWatched, for every interleaving of the watch
   goroutine, goroutine A and goroutine B: there is always exactly one map; a map waiting on `ch` has keys, a map
   parked on `empty` has none (so takeOne never panics and no key waits where nobody looks); no send ever blocks;
   a pending key leaves the protocol only by being handed to the controllers. *)
From Verif Require Import Handoff.
Open Scope N_scope.

Lemma dm_set_nonempty m k v : dm_set m k v <> [].
Proof. destruct m as [|[k' v'] m]; cbn; [discriminate|]. destruct (k' =? k); discriminate. Qed.

Lemma process_nonempty b : forall m, m <> [] -> fst (process b m) <> [].
Proof.
  induction b as [|e b IH]; intros m H; cbn [process]; [exact H|].
  destruct e; cbn [fst]; [apply IH, dm_set_nonempty | apply IH, H | exact H].
Qed.

Definition a_ok (a : apc) : Prop :=
  match a with
  | ADrain m | ASendCh m => m <> []
  | ASendEmpty m => m = []
  | _ => True
  end.
Definition b_ok (b : bpc) : Prop :=
  match b with
  | BHold m => m <> []
  | BPanic => False
  | _ => True
  end.

Record HInv (s : hstate) : Prop := {
  inv_tokens : tokens s = 1%nat;
  inv_ch : forall m, h_ch s = Some m -> m <> [];
  inv_empty : forall m, h_empty s = Some m -> m = [];
  inv_a : a_ok (h_a s);
  inv_b : b_ok (h_b s) }.

Lemma inv_init : HInv h_init.
Proof. constructor; cbn; try reflexivity; try tauto; try discriminate. intros m [= <-]. reflexivity. Qed.

Lemma after_process_ok r : a_ok (after_process r) /\ a_holds (after_process r) = 1%nat.
Proof. destruct r as [[|kv m] [|]]; cbn; split; try reflexivity; try discriminate; tauto. Qed.

Ltac inv_tac :=
  repeat match goal with
  | H : Some _ = Some _ |- _ => injection H as H; try subst
  | H : Some _ = None |- _ => discriminate H
  | H : None = Some _ |- _ => discriminate H
  end.

Ltac fin :=
  unfold tokens in *; cbn [h_ch h_empty h_a h_b h_queue slot a_holds b_holds a_ok b_ok] in *;
  first [ lia | tauto | discriminate | assumption
        | (intros ? [= <-]; first [reflexivity | assumption | tauto | discriminate])
        | (intros ? ?; first [discriminate | solve [auto]])
        | (match goal with H : forall x, Some _ = Some x -> _ |- _ => apply H; reflexivity end) | solve [auto] ].

Lemma a_step_inv s : HInv s -> HInv (a_step s).
Proof.
  intros [Ht Hc He Ha Hb]. destruct s as [q ch em a b d]. cbn [h_ch h_empty h_a h_b h_queue] in *.
  destruct a as [|bt|m|m|m|om]; cbn [a_step].
  - destruct q as [|bt q']; constructor; fin.
  - destruct em as [m|]; [|destruct ch as [m|]].
    + pose proof (after_process_ok (process bt m)) as [Ho Hh]. constructor; fin.
    + pose proof (after_process_ok (process bt m)) as [Ho Hh]. constructor; fin.
    + constructor; fin.
  - cbn [a_ok] in Ha. destruct q as [|bt q'].
    + constructor; fin.
    + pose proof (process_nonempty bt m Ha) as Hn. destruct (process bt m) as [m' ok]. cbn [fst] in Hn.
      destruct ok; constructor; fin.
  - cbn [a_ok] in Ha. subst m. destruct em as [m|]; constructor; fin.
  - cbn [a_ok] in Ha. destruct ch as [m0|]; constructor; fin.
  - constructor; fin.
Qed.

Lemma hstep_inv s x : HInv s -> HInv (hstep s x).
Proof.
  intros H. destruct x as [bt| | |k| |]; [| destruct s; apply (a_step_inv _ H) | | | |];
    destruct H as [Ht Hc He Ha Hb]; destruct s as [q ch em a b d]; cbn [h_ch h_empty h_a h_b h_queue] in *; cbn [hstep].
  - destruct (Nat.ltb (length q) watch_cap); constructor; fin.
  - destruct b as [|m|m k v|k v|]; try (constructor; fin). destruct ch as [m|]; constructor; fin.
  - destruct b as [|m|m k0 v|k0 v|]; try (constructor; fin). destruct m as [|kv m]; [cbn [b_ok] in Hb; congruence|].
    destruct (dm_get (kv :: m) k) as [v|]; constructor; fin.
  - destruct b as [|m|m k v|k v|]; try (constructor; fin). destruct m as [|kv m].
    + destruct em as [m0|]; constructor; fin.
    + destruct ch as [m0|]; constructor; fin.
  - destruct b as [|m|m k v|k v|]; constructor; fin.
Qed.

Theorem handoff_invariant sched : HInv (hrun h_init sched).
Proof.
  unfold hrun. assert (G : forall s, HInv s -> HInv (fold_left hstep sched s)).
  { induction sched as [|x sched IH]; intros s H; cbn [fold_left]; [exact H | apply IH, hstep_inv, H]. }
  apply G, inv_init.
Qed.

(* takeOne never meets an empty map *)
Theorem handoff_no_panic sched : h_b (hrun h_init sched) <> BPanic.
Proof. pose proof (inv_b _ (handoff_invariant sched)) as H. intros E. rewrite E in H. exact H. Qed.

(* exactly one map, always *)
Theorem handoff_one_map sched : tokens (hrun h_init sched) = 1%nat.
Proof. apply inv_tokens, handoff_invariant. Qed.

(* a send never blocks: whoever is about to send finds the channel free *)
Theorem handoff_sends_never_block sched :
  let s := hrun h_init sched in
  (forall m, h_a s = ASendCh m -> h_ch s = None) /\
  (forall m, h_a s = ASendEmpty m -> h_empty s = None) /\
  (forall m k v, h_b s = BSend m k v -> h_ch s = None /\ h_empty s = None).
Proof.
  cbv zeta. pose proof (inv_tokens _ (handoff_invariant sched)) as Ht. unfold tokens in Ht.
  destruct (hrun h_init sched) as [q ch em a b d]. cbn [h_ch h_empty h_a h_b] in *.
  repeat split; intros; subst; cbn [a_holds b_holds] in Ht; destruct ch, em; cbn [slot] in Ht; try reflexivity; lia.
Qed.

(* no key waits where nobody looks: when both goroutines are idle and keys are pending, the map is on `ch`, where
   goroutine B's receive is enabled; a map parked on `empty` holds no key *)
Theorem handoff_no_parked_keys sched :
  let s := hrun h_init sched in
  (forall m, h_empty s = Some m -> m = []) /\
  (h_a s = AWait -> h_b s = BWait -> (exists m, h_ch s = Some m /\ m <> []) \/ h_empty s = Some []).
Proof.
  cbv zeta. pose proof (handoff_invariant sched) as [Ht Hc He Ha Hb]. split; [exact He|].
  unfold tokens in Ht. destruct (hrun h_init sched) as [q ch em a b d]. cbn [h_ch h_empty h_a h_b] in *.
  intros -> ->. cbn [a_holds b_holds] in Ht. destruct ch as [m|]; [left; exists m; split; [reflexivity | apply Hc; reflexivity]|].
  destruct em as [m|]; [right; rewrite (He m eq_refl); reflexivity | cbn in Ht; lia].
Qed.

(* ---- no key is dropped by the protocol ---- *)
Definition batch_keys (b : batch) : list hkey :=
  flat_map (fun e => match e with EvChange k _ => [k] | _ => [] end) b.
Definition okeys (o : option dmap) : list hkey := match o with Some m => map fst m | None => [] end.
Definition a_keys (a : apc) : list hkey :=
  match a with
  | AAcquire b => batch_keys b
  | ADrain m | ASendEmpty m | ASendCh m | ADone (Some m) => map fst m
  | _ => []
  end.
Definition b_keys (b : bpc) : list hkey :=
  match b with
  | BHold m => map fst m
  | BSend m k _ => k :: map fst m
  | BNotify k _ => [k]
  | _ => []
  end.
(* every key that has been sent by the watch and not yet handed to the controllers *)
Definition pending (s : hstate) : list hkey :=
  flat_map batch_keys (h_queue s) ++ okeys (h_ch s) ++ okeys (h_empty s) ++ a_keys (h_a s) ++ b_keys (h_b s).

Definition clean (b : batch) : Prop := forall e, In e b -> e <> EvErrored.     (* the watch has not failed *)
Definition all_clean (s : hstate) : Prop :=
  Forall clean (h_queue s) /\ match h_a s with AAcquire b => clean b | ADone _ => False | _ => True end.

Lemma dm_set_keys m k v : forall x, In x (map fst (dm_set m k v)) <-> In x (map fst m) \/ x = k.
Proof.
  induction m as [|[k' v'] m IH]; intros x; cbn [dm_set map fst In]; [intuition congruence|].
  destruct (N.eqb_spec k' k); cbn [map fst In]; [subst; intuition congruence | rewrite IH; intuition congruence].
Qed.

Lemma dm_remove_keys m k : forall x, In x (map fst m) -> x = k \/ In x (map fst (dm_remove m k)).
Proof.
  induction m as [|[k' v'] m IH]; intros x; cbn [dm_remove map fst In]; [tauto|].
  destruct (N.eqb_spec k' k); cbn [map fst In]; [subst; intuition congruence|].
  intros [E|HI]; [right; left; exact E | destruct (IH x HI); [left | right; right]; assumption].
Qed.

Lemma process_clean b : forall m, clean b ->
  snd (process b m) = true /\
  forall x, In x (map fst m) \/ In x (batch_keys b) -> In x (map fst (fst (process b m))).
Proof.
  induction b as [|e b IH]; intros m Hc; cbn [process]; [split; [reflexivity | cbn; tauto]|].
  assert (Hc' : clean b) by (intros e' HI; apply Hc; right; exact HI).
  destruct e as [k v| |].
  - destruct (IH (dm_set m k v) Hc') as [H1 H2]. split; [exact H1|].
    intros x Hx. apply H2. cbn [batch_keys flat_map app In] in Hx. rewrite dm_set_keys. fold (batch_keys b) in Hx.
    intuition congruence.
  - destruct (IH m Hc') as [H1 H2]. split; [exact H1|]. intros x Hx. apply H2. exact Hx.
  - exfalso. apply (Hc EvErrored); [left; reflexivity | reflexivity].
Qed.

Lemma after_process_keys r : snd r = true -> forall x, In x (map fst (fst r)) -> In x (a_keys (after_process r)).
Proof. destruct r as [[|kv m] ok]; cbn; intros -> x H; exact H. Qed.

Lemma after_process_not_done r : snd r = true -> match after_process r with AAcquire _ | ADone _ => False | _ => True end.
Proof. destruct r as [[|kv m] ok]; cbn; intros ->; exact I. Qed.

Ltac inapp := unfold pending in *; cbn [h_queue h_ch h_empty h_a h_b h_delivered okeys a_keys b_keys flat_map map fst] in *;
  rewrite ?in_app_iff in *; cbn [In] in *.

Lemma a_step_conserves s k : all_clean s -> In k (pending s) -> In k (pending (a_step s)) /\ all_clean (a_step s).
Proof.
  intros [Hq Ha] Hk. destruct s as [q ch em a b d]. cbn [h_queue h_a] in *.
  destruct a as [|bt|m|m|m|om]; cbn [a_step]; try contradiction.
  - destruct q as [|bt q']; [split; [exact Hk | split; assumption]|].
    inversion Hq; subst. split; [inapp; tauto | split; assumption].
  - destruct em as [m|]; [|destruct ch as [m|]]; [| |split; [exact Hk | split; assumption]].
    + destruct (process_clean bt m Ha) as [H1 H2]. pose proof (after_process_keys _ H1) as H3.
      pose proof (after_process_not_done _ H1) as H4. split.
      * inapp. destruct Hk as [Hk|[Hk|[Hk|[Hk|Hk]]]]; auto. all: right; right; right; left; apply H3, H2; tauto.
      * split; [exact Hq|]. cbn [h_a]. destruct (after_process (process bt m)); tauto.
    + destruct (process_clean bt m Ha) as [H1 H2]. pose proof (after_process_keys _ H1) as H3.
      pose proof (after_process_not_done _ H1) as H4. split.
      * inapp. destruct Hk as [Hk|[Hk|[Hk|[Hk|Hk]]]]; auto. all: right; right; right; left; apply H3, H2; tauto.
      * split; [exact Hq|]. cbn [h_a]. destruct (after_process (process bt m)); tauto.
  - destruct q as [|bt q']; [split; [exact Hk | split; [assumption | exact I]]|].
    inversion Hq as [|? ? Hcb Hq']; subst. destruct (process_clean bt m Hcb) as [H1 H2].
    destruct (process bt m) as [m' ok]. cbn [fst snd] in *. subst ok. split; [|split; [exact Hq' | exact I]].
    inapp. destruct Hk as [[Hk|Hk]|[Hk|[Hk|[Hk|Hk]]]]; auto; right; right; right; left; apply H2; tauto.
  - destruct em as [m0|]; [split; [exact Hk | split; assumption]|]. split; [inapp; tauto | split; [assumption | exact I]].
  - destruct ch as [m0|]; [split; [exact Hk | split; assumption]|]. split; [inapp; tauto | split; [assumption | exact I]].
Qed.

Definition act_clean (x : hact) : Prop := match x with HPush b => clean b | _ => True end.

Lemma hstep_conserves s x k : all_clean s -> act_clean x -> In k (pending s) ->
  (In k (pending (hstep s x)) \/ In k (map fst (h_delivered (hstep s x)))) /\ all_clean (hstep s x).
Proof.
  intros Hc Hx Hk. destruct x as [bt| | |k0| |].
  - destruct Hc as [Hq Ha]. destruct s as [q ch em a b d]. cbn [hstep h_queue h_a] in *.
    destruct (Nat.ltb (length q) watch_cap); [|split; [left; exact Hk | split; assumption]].
    split; [left; inapp; rewrite flat_map_app, in_app_iff; tauto|].
    split; [apply Forall_app; split; [exact Hq | constructor; [exact Hx | constructor]] | exact Ha].
  - destruct s as [q ch em a b d]. destruct (a_step_conserves _ k Hc Hk) as [H1 H2]. split; [left; exact H1 | exact H2].
  - destruct s as [q ch em a b d]. cbn [hstep].
    destruct b as [|m|m k1 v|k1 v|]; try (split; [left; exact Hk | exact Hc]).
    destruct ch as [m|]; [|split; [left; exact Hk | exact Hc]]. split; [left; inapp; tauto | exact Hc].
  - destruct s as [q ch em a b d]. cbn [hstep].
    destruct b as [|m|m k1 v|k1 v|]; try (split; [left; exact Hk | exact Hc]).
    destruct m as [|kv m]; [split; [left; inapp; tauto | exact Hc]|].
    destruct (dm_get (kv :: m) k0) as [v|]; [|split; [left; exact Hk | exact Hc]].
    split; [|exact Hc]. left. inapp.
    destruct Hk as [Hk|[Hk|[Hk|[Hk|Hk]]]]; auto.
    destruct (dm_remove_keys (kv :: m) k0 k) as [E|HI]; [cbn [map fst In]; exact Hk | subst; auto 10 | auto 10].
  - destruct s as [q ch em a b d]. cbn [hstep].
    destruct b as [|m|m k1 v|k1 v|]; try (split; [left; exact Hk | exact Hc]).
    destruct m as [|kv m].
    + destruct em as [m0|]; split; try exact Hc; left; [exact Hk | inapp; tauto].
    + destruct ch as [m0|]; split; try exact Hc; left; [exact Hk | inapp; tauto].
  - destruct s as [q ch em a b d]. cbn [hstep].
    destruct b as [|m|m k1 v|k1 v|]; try (split; [left; exact Hk | exact Hc]).
    split; [|exact Hc]. inapp. cbn [h_delivered]. rewrite map_app, in_app_iff. cbn [map fst In].
    destruct Hk as [Hk|[Hk|[Hk|[Hk|[Hk|[]]]]]]; auto 10.
Qed.

Lemma delivered_grows s x kv : In kv (h_delivered s) -> In kv (h_delivered (hstep s x)).
Proof.
  intros H. destruct s as [q ch em a b d]. cbn [h_delivered] in H. destruct x as [bt| | |k0| |]; cbn [hstep].
  - destruct (Nat.ltb (length q) watch_cap); exact H.
  - cbn [a_step]. destruct a as [|bt|m|m|m|om].
    + destruct q; exact H.
    + destruct em; [exact H | destruct ch; exact H].
    + destruct q as [|bt q']; [exact H | destruct (process bt m) as [m' ok]; exact H].
    + destruct em; exact H.
    + destruct ch; exact H.
    + exact H.
  - destruct b; try exact H. destruct ch; exact H.
  - destruct b as [|m|m k1 v|k1 v|]; try exact H. destruct m; [exact H|]. destruct (dm_get _ k0); exact H.
  - destruct b as [|m|m k1 v|k1 v|]; try exact H. destruct m; [destruct em; exact H | destruct ch; exact H].
  - destruct b; try exact H. cbn [h_delivered]. apply in_or_app. left. exact H.
Qed.

(* while the watch is healthy: whatever is pending at some point is, at every later point, still pending or has been
   handed to the controllers - in every interleaving of the three goroutines *)
Theorem handoff_no_key_lost sched : forall s k,
  all_clean s -> Forall act_clean sched -> In k (pending s) ->
  In k (pending (hrun s sched)) \/ In k (map fst (h_delivered (hrun s sched))).
Proof.
  unfold hrun. induction sched as [|x sched IH]; intros s k Hc Hs Hk; cbn [fold_left]; [left; exact Hk|].
  inversion Hs as [|? ? Hx Hs']; subst. destruct (hstep_conserves s x k Hc Hx Hk) as [[H|H] Hc'].
  - apply IH; assumption.
  - right. clear - H. revert H. generalize (hstep s x) as s'. induction sched as [|y sched IH]; intros s' H; cbn [fold_left]; [exact H|].
    apply IH. apply in_map_iff in H. destruct H as [kv [E HI]]. apply in_map_iff. exists kv. split; [exact E | apply delivered_grows; exact HI].
Qed.

Example handoff_example :
  let s := hrun h_init [HPush [EvChange 1 0; EvChange 2 1]; HA; HA; HA; HA; HBRecv; HBTake 1; HBSend; HPush [EvNoop]; HA; HA] in
  all_clean s /\ pending s = [2; 1] /\ h_ch s = None /\ h_a s = ADrain [(2, 1)].
Proof. vm_compute. repeat split; try reflexivity; repeat constructor. Qed.
