(* Heap.v — aliasing model for C19: resources are structs holding POINTERS to maps (labels, annotations:
   pkg/resource/internal/kv) and slices (finalizers: pkg/resource/finalizer.go); struct copies (Metadata.Copy,
   DeepCopy on the way into and out of the store and the cache) share those pointers.  The discipline the code
   follows is clone-before-write: every mutation allocates a fresh cell and redirects only the mutated object. *)
From Coq Require Export List NArith Bool Arith Lia.
Export ListNotations.
Open Scope N_scope.

Definition addr := nat.

Inductive cell :=
| CMap (m : list (N * N))      (* a Go map, kept sorted by key for comparison *)
| CArr (a : list N).           (* the backing array of a slice *)

Definition heap := list cell.

Record obj := mkObj {
  o_labels : option addr;      (* nil map or pointer *)
  o_annot : option addr;
  o_fins : option addr;        (* nil slice or pointer to its array *)
  o_phase : bool;
  o_ver : option N;
  o_owner : N;
  o_spec : N
}.

(* ---- pure values: what an object means ---- *)
Record val := mkVal {
  v_labels : list (N * N); v_annot : list (N * N); v_fins : list N;
  v_phase : bool; v_ver : option N; v_owner : N; v_spec : N
}.

Definition get_map (h : heap) (p : option addr) : list (N * N) :=
  match p with
  | None => []
  | Some a => match nth_error h a with Some (CMap m) => m | _ => [] end
  end.
Definition get_arr (h : heap) (p : option addr) : list N :=
  match p with
  | None => []
  | Some a => match nth_error h a with Some (CArr l) => l | _ => [] end
  end.

Definition absval (h : heap) (o : obj) : val :=
  mkVal (get_map h (o_labels o)) (get_map h (o_annot o)) (get_arr h (o_fins o)) (o_phase o) (o_ver o) (o_owner o) (o_spec o).

(* ---- sorted association lists ---- *)
Fixpoint m_get (k : N) (m : list (N * N)) : option N :=
  match m with [] => None | (k', v) :: t => if N.eqb k k' then Some v else m_get k t end.
Fixpoint m_set (k v : N) (m : list (N * N)) : list (N * N) :=
  match m with
  | [] => [(k, v)]
  | (k', v') :: t => if N.ltb k k' then (k, v) :: (k', v') :: t else if N.eqb k k' then (k, v) :: t else (k', v') :: m_set k v t
  end.
Fixpoint m_del (k : N) (m : list (N * N)) : list (N * N) :=
  match m with [] => [] | (k', v') :: t => if N.eqb k k' then t else (k', v') :: m_del k t end.

Definition f_add (f : N) (l : list N) : list N := if existsb (N.eqb f) l then l else l ++ [f].
Fixpoint f_rem (f : N) (l : list N) : list N :=
  match l with [] => [] | x :: t => if N.eqb x f then t else x :: f_rem f t end.

(* ---- mutations of one object, on values ---- *)
Inductive mut :=
| MSetLabel (k v : N) | MDelLabel (k : N) | MSetAnnot (k v : N) | MDelAnnot (k : N)
| MAddFin (f : N) | MRemFin (f : N) | MSetPhase (p : bool) | MSetVer (v : option N) | MSetOwner (o : N) | MSetSpec (s : N).

Definition mut_val (m : mut) (x : val) : val :=
  match m with
  | MSetLabel k v => mkVal (m_set k v (v_labels x)) (v_annot x) (v_fins x) (v_phase x) (v_ver x) (v_owner x) (v_spec x)
  | MDelLabel k => mkVal (m_del k (v_labels x)) (v_annot x) (v_fins x) (v_phase x) (v_ver x) (v_owner x) (v_spec x)
  | MSetAnnot k v => mkVal (v_labels x) (m_set k v (v_annot x)) (v_fins x) (v_phase x) (v_ver x) (v_owner x) (v_spec x)
  | MDelAnnot k => mkVal (v_labels x) (m_del k (v_annot x)) (v_fins x) (v_phase x) (v_ver x) (v_owner x) (v_spec x)
  | MAddFin f => mkVal (v_labels x) (v_annot x) (f_add f (v_fins x)) (v_phase x) (v_ver x) (v_owner x) (v_spec x)
  | MRemFin f => mkVal (v_labels x) (v_annot x) (f_rem f (v_fins x)) (v_phase x) (v_ver x) (v_owner x) (v_spec x)
  | MSetPhase p => mkVal (v_labels x) (v_annot x) (v_fins x) p (v_ver x) (v_owner x) (v_spec x)
  | MSetVer v => mkVal (v_labels x) (v_annot x) (v_fins x) (v_phase x) v (v_owner x) (v_spec x)
  | MSetOwner o => mkVal (v_labels x) (v_annot x) (v_fins x) (v_phase x) (v_ver x) o (v_spec x)
  | MSetSpec s => mkVal (v_labels x) (v_annot x) (v_fins x) (v_phase x) (v_ver x) (v_owner x) s
  end.

(* ---- the same mutations on the heap: KV.Set / KV.Delete / Finalizers.Add / Finalizers.Remove ---- *)
Definition kv_set (h : heap) (p : option addr) (k v : N) : heap * option addr :=
  match p with
  | None => (h ++ [CMap [(k, v)]], Some (length h))                       (* kv.m == nil: fresh map *)
  | Some _ =>
      let m := get_map h p in
      match m_get k m with
      | Some v' => if N.eqb v v' then (h, p)                               (* no change *)
                   else (h ++ [CMap (m_set k v m)], Some (length h))       (* maps.Clone, then write the clone *)
      | None => (h ++ [CMap (m_set k v m)], Some (length h))
      end
  end.
Definition kv_del (h : heap) (p : option addr) (k : N) : heap * option addr :=
  match m_get k (get_map h p) with
  | None => (h, p)                                                         (* no change *)
  | Some _ => (h ++ [CMap (m_del k (get_map h p))], Some (length h))       (* copy without the key *)
  end.
(* Finalizers.Add/Remove clone unconditionally, then append / splice the clone *)
Definition fin_add_h (h : heap) (p : option addr) (f : N) : heap * option addr :=
  (h ++ [CArr (f_add f (get_arr h p))], Some (length h)).
Definition fin_rem_h (h : heap) (p : option addr) (f : N) : heap * option addr :=
  (h ++ [CArr (f_rem f (get_arr h p))], Some (length h)).

Definition mut_heap (m : mut) (h : heap) (o : obj) : heap * obj :=
  match m with
  | MSetLabel k v => let '(h', p) := kv_set h (o_labels o) k v in (h', mkObj p (o_annot o) (o_fins o) (o_phase o) (o_ver o) (o_owner o) (o_spec o))
  | MDelLabel k => let '(h', p) := kv_del h (o_labels o) k in (h', mkObj p (o_annot o) (o_fins o) (o_phase o) (o_ver o) (o_owner o) (o_spec o))
  | MSetAnnot k v => let '(h', p) := kv_set h (o_annot o) k v in (h', mkObj (o_labels o) p (o_fins o) (o_phase o) (o_ver o) (o_owner o) (o_spec o))
  | MDelAnnot k => let '(h', p) := kv_del h (o_annot o) k in (h', mkObj (o_labels o) p (o_fins o) (o_phase o) (o_ver o) (o_owner o) (o_spec o))
  | MAddFin f => let '(h', p) := fin_add_h h (o_fins o) f in (h', mkObj (o_labels o) (o_annot o) p (o_phase o) (o_ver o) (o_owner o) (o_spec o))
  | MRemFin f => let '(h', p) := fin_rem_h h (o_fins o) f in (h', mkObj (o_labels o) (o_annot o) p (o_phase o) (o_ver o) (o_owner o) (o_spec o))
  | MSetPhase p => (h, mkObj (o_labels o) (o_annot o) (o_fins o) p (o_ver o) (o_owner o) (o_spec o))
  | MSetVer v => (h, mkObj (o_labels o) (o_annot o) (o_fins o) (o_phase o) v (o_owner o) (o_spec o))
  | MSetOwner w => (h, mkObj (o_labels o) (o_annot o) (o_fins o) (o_phase o) (o_ver o) w (o_spec o))
  | MSetSpec s => (h, mkObj (o_labels o) (o_annot o) (o_fins o) (o_phase o) (o_ver o) (o_owner o) s)
  end.

(* ---- programs over variables: objects the caller holds, objects inside the store / cache ---- *)
Inductive pop :=
| PNew (spec : N)                 (* a fresh object *)
| PMut (v : nat) (m : mut)        (* mutate the object in variable v through the metadata/spec API *)
| PCopy (v : nat)                 (* struct copy: Metadata.Copy, DeepCopy into / out of the store, the cache or an event *)
| PPut (slot v : nat)             (* the store keeps a DeepCopy of v under slot *)
| PGet (slot : nat).              (* the caller receives a DeepCopy of what the store holds under slot *)

Record hstate := mkH { h_heap : heap; h_vars : list obj; h_store : list (nat * obj) }.
Record pstate := mkP { p_vars : list val; p_store : list (nat * val) }.

Definition empty_obj (s : N) : obj := mkObj None None None false None 0 s.
Definition empty_val (s : N) : val := mkVal [] [] [] false None 0 s.

Fixpoint upd {A} (n : nat) (x : A) (l : list A) : list A :=
  match l, n with
  | [], _ => []
  | _ :: t, O => x :: t
  | y :: t, S n' => y :: upd n' x t
  end.

Fixpoint s_get {A} (k : nat) (l : list (nat * A)) : option A :=
  match l with [] => None | (k', x) :: t => if Nat.eqb k k' then Some x else s_get k t end.
Fixpoint s_put {A} (k : nat) (x : A) (l : list (nat * A)) : list (nat * A) :=
  match l with [] => [(k, x)] | (k', y) :: t => if Nat.eqb k k' then (k, x) :: t else (k', y) :: s_put k x t end.

Definition hstep (s : hstate) (o : pop) : hstate :=
  match o with
  | PNew sp => mkH (h_heap s) (h_vars s ++ [empty_obj sp]) (h_store s)
  | PMut v m =>
      match nth_error (h_vars s) v with
      | Some ob => let '(h', ob') := mut_heap m (h_heap s) ob in mkH h' (upd v ob' (h_vars s)) (h_store s)
      | None => s
      end
  | PCopy v =>
      match nth_error (h_vars s) v with
      | Some ob => mkH (h_heap s) (h_vars s ++ [ob]) (h_store s)          (* shares every pointer *)
      | None => s
      end
  | PPut k v =>
      match nth_error (h_vars s) v with
      | Some ob => mkH (h_heap s) (h_vars s) (s_put k ob (h_store s))
      | None => s
      end
  | PGet k =>
      match s_get k (h_store s) with
      | Some ob => mkH (h_heap s) (h_vars s ++ [ob]) (h_store s)
      | None => s
      end
  end.

(* the reference semantics: every object is an independent value *)
Definition pstep (s : pstate) (o : pop) : pstate :=
  match o with
  | PNew sp => mkP (p_vars s ++ [empty_val sp]) (p_store s)
  | PMut v m =>
      match nth_error (p_vars s) v with
      | Some x => mkP (upd v (mut_val m x) (p_vars s)) (p_store s)
      | None => s
      end
  | PCopy v => match nth_error (p_vars s) v with Some x => mkP (p_vars s ++ [x]) (p_store s) | None => s end
  | PPut k v => match nth_error (p_vars s) v with Some x => mkP (p_vars s) (s_put k x (p_store s)) | None => s end
  | PGet k => match s_get k (p_store s) with Some x => mkP (p_vars s ++ [x]) (p_store s) | None => s end
  end.

Definition hrun (prog : list pop) : hstate := fold_left hstep prog (mkH [] [] []).
Definition prun (prog : list pop) : pstate := fold_left pstep prog (mkP [] []).

Definition abs_state (s : hstate) : pstate :=
  mkP (map (absval (h_heap s)) (h_vars s)) (map (fun p => (fst p, absval (h_heap s) (snd p))) (h_store s)).
