(* HeapCheck.v — replay mutate-copy-store programs executed on real resources / states on the heap model. *)
From Verif Require Import Heap.
Open Scope N_scope.

Fixpoint pairs_eqb (a b : list (N * N)) : bool :=
  match a, b with
  | [], [] => true
  | (k, v) :: a', (k', v') :: b' => N.eqb k k' && N.eqb v v' && pairs_eqb a' b'
  | _, _ => false
  end.
Fixpoint ns_eqb (a b : list N) : bool :=
  match a, b with
  | [], [] => true
  | x :: a', y :: b' => N.eqb x y && ns_eqb a' b'
  | _, _ => false
  end.
Definition optn_eqb (a b : option N) : bool :=
  match a, b with Some x, Some y => N.eqb x y | None, None => true | _, _ => false end.

(* full: compare version and owner too (plain flavour); otherwise the store stamps them *)
Definition val_eqb (full : bool) (a b : val) : bool :=
  pairs_eqb (v_labels a) (v_labels b) && pairs_eqb (v_annot a) (v_annot b) && ns_eqb (v_fins a) (v_fins b) &&
  Bool.eqb (v_phase a) (v_phase b) && N.eqb (v_spec a) (v_spec b) &&
  (negb full || (optn_eqb (v_ver a) (v_ver b) && N.eqb (v_owner a) (v_owner b))).

Fixpoint vals_eqb (full : bool) (a b : list val) : bool :=
  match a, b with
  | [], [] => true
  | x :: a', y :: b' => val_eqb full x y && vals_eqb full a' b'
  | _, _ => false
  end.

Fixpoint store_eqb (full : bool) (a b : list (nat * val)) : bool :=
  match a, b with
  | [], [] => true
  | (k, x) :: a', (k', y) :: b' => Nat.eqb k k' && val_eqb full x y && store_eqb full a' b'
  | _, _ => false
  end.

Fixpoint sort_store (l : list (nat * val)) : list (nat * val) :=
  let fix ins (p : nat * val) (l : list (nat * val)) :=
    match l with [] => [p] | q :: t => if Nat.leb (fst p) (fst q) then p :: q :: t else q :: ins p t end in
  match l with [] => [] | p :: t => ins p (sort_store t) end.

Definition hcase := (bool * list pop * list val * list (nat * val))%type.

Definition hcase_ok (c : hcase) : bool :=
  let '(full, prog, vars, store) := c in
  let s := abs_state (hrun prog) in
  vals_eqb full (p_vars s) vars && store_eqb full (sort_store (p_store s)) store.

Fixpoint mism_from {A} (f : A -> bool) (i : N) (l : list A) : list N :=
  match l with
  | [] => []
  | x :: t => if f x then mism_from f (N.succ i) t else i :: mism_from f (N.succ i) t
  end.
Definition heap_mismatches (cs : list hcase) : list N := mism_from hcase_ok 0 cs.
