(* HeapProofs.v — C19: under the clone-before-write discipline every program over shared-pointer objects behaves
   exactly as if every object were an independent value. *)
From Verif Require Import Heap.
Open Scope N_scope.

Definition ptr_ok (h : heap) (p : option addr) : Prop := match p with Some a => (a < length h)%nat | None => True end.
Definition obj_ok (h : heap) (o : obj) : Prop := ptr_ok h (o_labels o) /\ ptr_ok h (o_annot o) /\ ptr_ok h (o_fins o).
Definition wf (s : hstate) : Prop :=
  (forall o, In o (h_vars s) -> obj_ok (h_heap s) o) /\ (forall k o, In (k, o) (h_store s) -> obj_ok (h_heap s) o).

Lemma get_map_ext h ext p : ptr_ok h p -> get_map (h ++ ext) p = get_map h p.
Proof. destruct p as [a|]; simpl; [|reflexivity]. intros H. rewrite nth_error_app1 by exact H. reflexivity. Qed.
Lemma get_arr_ext h ext p : ptr_ok h p -> get_arr (h ++ ext) p = get_arr h p.
Proof. destruct p as [a|]; simpl; [|reflexivity]. intros H. rewrite nth_error_app1 by exact H. reflexivity. Qed.

(* allocation never changes what an existing object means *)
Lemma absval_ext h ext o : obj_ok h o -> absval (h ++ ext) o = absval h o.
Proof.
  intros [A [B C]]. unfold absval. rewrite !get_map_ext, get_arr_ext by assumption. reflexivity.
Qed.
Lemma ptr_ok_ext h ext p : ptr_ok h p -> ptr_ok (h ++ ext) p.
Proof. destruct p; simpl; [|tauto]. rewrite app_length. lia. Qed.
Lemma obj_ok_ext h ext o : obj_ok h o -> obj_ok (h ++ ext) o.
Proof. intros [A [B C]]. repeat split; apply ptr_ok_ext; assumption. Qed.

Lemma get_map_new h m : get_map (h ++ [CMap m]) (Some (length h)) = m.
Proof. simpl. rewrite nth_error_app2 by lia. rewrite Nat.sub_diag. reflexivity. Qed.
Lemma get_arr_new h a : get_arr (h ++ [CArr a]) (Some (length h)) = a.
Proof. simpl. rewrite nth_error_app2 by lia. rewrite Nat.sub_diag. reflexivity. Qed.
Lemma ptr_new h c : ptr_ok (h ++ [c]) (Some (length h)).
Proof. simpl. rewrite app_length. simpl. lia. Qed.

Lemma m_set_same k v m : m_get k m = Some v -> m_set k v m = m.
Proof.
  induction m as [|[k' v'] t IH]; simpl; [discriminate|].
  destruct (N.eqb_spec k k') as [E|E].
  - intros H; inversion H; subst. destruct (N.ltb_spec k' k'); [lia | reflexivity].
  - intros H. destruct (N.ltb k k'); [|rewrite IH by exact H; reflexivity].
    (* k < k' but k occurs later: impossible for sorted maps; without sortedness we keep the general statement weaker *)
Abort.

(* sortedness is what makes "no change" really no change *)
Fixpoint sorted (m : list (N * N)) : Prop :=
  match m with
  | [] => True
  | (k, _) :: t => (forall k' v', In (k', v') t -> k < k') /\ sorted t
  end.

Lemma m_get_In k m v : m_get k m = Some v -> In (k, v) m.
Proof.
  induction m as [|[k' v'] t IH]; simpl; [discriminate|]. destruct (N.eqb_spec k k').
  - intros H; inversion H; subst. left; reflexivity.
  - intros H. right. apply IH. exact H.
Qed.

Lemma m_set_same k v m : sorted m -> m_get k m = Some v -> m_set k v m = m.
Proof.
  induction m as [|[k' v'] t IH]; simpl; [discriminate|]. intros [Hlt Hs].
  destruct (N.eqb_spec k k') as [E|E].
  - intros H; inversion H; subst. destruct (N.ltb_spec k' k'); [lia | reflexivity].
  - intros H. pose proof (Hlt _ _ (m_get_In _ _ _ H)) as L. destruct (N.ltb_spec k k'); [lia|].
    rewrite IH by assumption. reflexivity.
Qed.
Lemma m_del_absent k m : m_get k m = None -> m_del k m = m.
Proof.
  induction m as [|[k' v'] t IH]; simpl; [reflexivity|]. destruct (N.eqb k k'); [discriminate|].
  intros H. rewrite IH by exact H. reflexivity.
Qed.
Lemma m_set_In k v m p : In p (m_set k v m) -> p = (k, v) \/ In p m.
Proof.
  induction m as [|[k' v'] t IH]; simpl; [intros [H|[]]; left; symmetry; exact H|].
  destruct (N.ltb k k'); [simpl; intros [H|H]; [left; symmetry; exact H | right; exact H]|].
  destruct (N.eqb k k'); simpl; [intros [H|H]; [left; symmetry; exact H | right; right; exact H]|].
  intros [H|H]; [right; left; exact H|]. destruct (IH H) as [E|E]; [left; exact E | right; right; exact E].
Qed.
Lemma m_set_sorted k v m : sorted m -> sorted (m_set k v m).
Proof.
  induction m as [|[k' v'] t IH]; simpl; [intros _; split; [intros ? ? [] | exact I]|]. intros [Hlt Hs].
  destruct (N.ltb_spec k k') as [L|L].
  - simpl. split; [|split; assumption]. intros k2 v2 [H|H]; [inversion H; subst; exact L|]. pose proof (Hlt _ _ H). lia.
  - destruct (N.eqb_spec k k') as [E|E].
    + subst. simpl. split; assumption.
    + simpl. split; [|apply IH; exact Hs]. intros k2 v2 H. destruct (m_set_In _ _ _ _ H) as [H2|H2].
      * inversion H2; subst. lia.
      * apply (Hlt _ _ H2).
Qed.
Lemma m_del_In k m p : In p (m_del k m) -> In p m.
Proof.
  induction m as [|[k' v'] t IH]; simpl; [tauto|]. destruct (N.eqb k k'); [tauto|]. simpl. intros [H|H]; [tauto | right; apply IH; exact H].
Qed.
Lemma m_del_sorted k m : sorted m -> sorted (m_del k m).
Proof.
  induction m as [|[k' v'] t IH]; simpl; [tauto|]. intros [Hlt Hs]. destruct (N.eqb k k'); [exact Hs|].
  simpl. split; [|apply IH; exact Hs]. intros k2 v2 H. apply (Hlt k2 v2). eapply m_del_In. exact H.
Qed.

(* every map cell in the heap is sorted (they are only ever built by m_set / m_del) *)
Definition heap_sorted (h : heap) : Prop := forall a m, nth_error h a = Some (CMap m) -> sorted m.

Lemma get_map_sorted h p : heap_sorted h -> sorted (get_map h p).
Proof.
  intros Hs. destruct p as [a|]; simpl; [|exact I]. destruct (nth_error h a) as [[m|l]|] eqn:E; try exact I. eapply Hs; eauto.
Qed.
Lemma heap_sorted_snoc h c : heap_sorted h -> (match c with CMap m => sorted m | _ => True end) -> heap_sorted (h ++ [c]).
Proof.
  intros Hs Hc a m E. destruct (Nat.lt_ge_cases a (length h)) as [L|L].
  - rewrite nth_error_app1 in E by exact L. eapply Hs; eauto.
  - rewrite nth_error_app2 in E by exact L. destruct (a - length h)%nat as [|n]; simpl in E; [inversion E; subst; exact Hc | destruct n; discriminate].
Qed.

(* a mutation of one object: the heap only grows, and the object's meaning changes as the value semantics says *)
Lemma mut_heap_spec m h o :
  heap_sorted h -> obj_ok h o ->
  let '(h', o') := mut_heap m h o in
  (exists ext, h' = h ++ ext) /\ heap_sorted h' /\ obj_ok h' o' /\ absval h' o' = mut_val m (absval h o).
Proof.
  intros Hs [A [B C]].
  assert (KS : forall p k v, ptr_ok h p ->
     let '(h', p') := kv_set h p k v in (exists ext, h' = h ++ ext) /\ heap_sorted h' /\ ptr_ok h' p' /\ get_map h' p' = m_set k v (get_map h p)).
  { intros p k v Hp. unfold kv_set. destruct p as [a|].
    - pose proof (get_map_sorted h (Some a) Hs) as Sm.
      destruct (m_get k (get_map h (Some a))) as [v'|] eqn:G.
      + destruct (N.eqb_spec v v') as [E|E].
        * subst. split; [exists []; rewrite app_nil_r; reflexivity|]. split; [exact Hs|]. split; [exact Hp|].
          symmetry. apply m_set_same; assumption.
        * split; [eexists; reflexivity|]. split; [apply heap_sorted_snoc; [exact Hs | apply m_set_sorted; exact Sm]|].
          split; [apply ptr_new | apply get_map_new].
      + split; [eexists; reflexivity|]. split; [apply heap_sorted_snoc; [exact Hs | apply m_set_sorted; exact Sm]|].
        split; [apply ptr_new | apply get_map_new].
    - split; [eexists; reflexivity|]. split; [apply heap_sorted_snoc; [exact Hs | simpl; split; [intros ? ? [] | exact I]]|].
      split; [apply ptr_new | apply get_map_new]. }
  assert (KD : forall p k, ptr_ok h p ->
     let '(h', p') := kv_del h p k in (exists ext, h' = h ++ ext) /\ heap_sorted h' /\ ptr_ok h' p' /\ get_map h' p' = m_del k (get_map h p)).
  { intros p k Hp. unfold kv_del. pose proof (get_map_sorted h p Hs) as Sm.
    destruct (m_get k (get_map h p)) eqn:G.
    - split; [eexists; reflexivity|]. split; [apply heap_sorted_snoc; [exact Hs | apply m_del_sorted; exact Sm]|].
      split; [apply ptr_new | apply get_map_new].
    - split; [exists []; rewrite app_nil_r; reflexivity|]. split; [exact Hs|]. split; [exact Hp|].
      symmetry. apply m_del_absent. exact G. }
  destruct m as [k v|k|k v|k|f|f|p|v|w|s]; cbn [mut_heap].
  - pose proof (KS (o_labels o) k v A) as H. destruct (kv_set h (o_labels o) k v) as [h' p'].
    destruct H as [[ext E] [S' [P' G']]]. subst h'. split; [eauto|]. split; [exact S'|].
    split; [repeat split; cbn; [exact P' | apply ptr_ok_ext; exact B | apply ptr_ok_ext; exact C]|].
    unfold absval, mut_val. cbn. rewrite G', get_map_ext, get_arr_ext by assumption. reflexivity.
  - pose proof (KD (o_labels o) k A) as H. destruct (kv_del h (o_labels o) k) as [h' p'].
    destruct H as [[ext E] [S' [P' G']]]. subst h'. split; [eauto|]. split; [exact S'|].
    split; [repeat split; cbn; [exact P' | apply ptr_ok_ext; exact B | apply ptr_ok_ext; exact C]|].
    unfold absval, mut_val. cbn. rewrite G', get_map_ext, get_arr_ext by assumption. reflexivity.
  - pose proof (KS (o_annot o) k v B) as H. destruct (kv_set h (o_annot o) k v) as [h' p'].
    destruct H as [[ext E] [S' [P' G']]]. subst h'. split; [eauto|]. split; [exact S'|].
    split; [repeat split; cbn; [apply ptr_ok_ext; exact A | exact P' | apply ptr_ok_ext; exact C]|].
    unfold absval, mut_val. cbn. rewrite G', get_map_ext, get_arr_ext by assumption. reflexivity.
  - pose proof (KD (o_annot o) k B) as H. destruct (kv_del h (o_annot o) k) as [h' p'].
    destruct H as [[ext E] [S' [P' G']]]. subst h'. split; [eauto|]. split; [exact S'|].
    split; [repeat split; cbn; [apply ptr_ok_ext; exact A | exact P' | apply ptr_ok_ext; exact C]|].
    unfold absval, mut_val. cbn. rewrite G', get_map_ext, get_arr_ext by assumption. reflexivity.
  - cbn. split; [eauto|]. split; [apply heap_sorted_snoc; [exact Hs | exact I]|].
    split; [repeat split; cbn; [apply ptr_ok_ext; exact A | apply ptr_ok_ext; exact B | rewrite app_length; simpl; lia]|].
    unfold absval, mut_val. cbn [o_labels o_annot o_fins o_phase o_ver o_owner o_spec v_labels v_annot v_fins v_phase v_ver v_owner v_spec].
    rewrite get_arr_new, !get_map_ext by assumption. reflexivity.
  - cbn. split; [eauto|]. split; [apply heap_sorted_snoc; [exact Hs | exact I]|].
    split; [repeat split; cbn; [apply ptr_ok_ext; exact A | apply ptr_ok_ext; exact B | rewrite app_length; simpl; lia]|].
    unfold absval, mut_val. cbn [o_labels o_annot o_fins o_phase o_ver o_owner o_spec v_labels v_annot v_fins v_phase v_ver v_owner v_spec].
    rewrite get_arr_new, !get_map_ext by assumption. reflexivity.
  - split; [exists []; rewrite app_nil_r; reflexivity|]. split; [exact Hs|]. split; [repeat split; assumption | reflexivity].
  - split; [exists []; rewrite app_nil_r; reflexivity|]. split; [exact Hs|]. split; [repeat split; assumption | reflexivity].
  - split; [exists []; rewrite app_nil_r; reflexivity|]. split; [exact Hs|]. split; [repeat split; assumption | reflexivity].
  - split; [exists []; rewrite app_nil_r; reflexivity|]. split; [exact Hs|]. split; [repeat split; assumption | reflexivity].
Qed.

(* ---- list plumbing ---- *)
Lemma map_upd {A B} (f : A -> B) n x l : map f (upd n x l) = upd n (f x) (map f l).
Proof. revert n. induction l as [|y t IH]; intros [|n]; simpl; try reflexivity. rewrite IH. reflexivity. Qed.
Lemma upd_same_map {A B} (f g : A -> B) n x l :
  (forall y, In y l -> g y = f y) -> map g (upd n x l) = upd n (g x) (map f l).
Proof.
  revert n. induction l as [|y t IH]; intros [|n] H; simpl; try reflexivity.
  - f_equal. apply map_ext_in. intros z Hz. apply H. right. exact Hz.
  - rewrite (H y (or_introl eq_refl)). f_equal. apply IH. intros z Hz. apply H. right. exact Hz.
Qed.
Lemma In_upd {A} n (x : A) l y : In y (upd n x l) -> y = x \/ In y l.
Proof.
  revert n. induction l as [|z t IH]; intros [|n]; simpl; try tauto.
  - intros [H|H]; [left; symmetry; exact H | right; right; exact H].
  - intros [H|H]; [right; left; exact H|]. destruct (IH _ H); [left | right; right]; assumption.
Qed.
Lemma s_get_map {A B} (f : A -> B) k l : s_get k (map (fun p => (fst p, f (snd p))) l) = option_map f (s_get k l).
Proof. induction l as [|[k' x] t IH]; simpl; [reflexivity|]. destruct (Nat.eqb k k'); [reflexivity | exact IH]. Qed.
Lemma s_put_map {A B} (f : A -> B) k x l :
  map (fun p => (fst p, f (snd p))) (s_put k x l) = s_put k (f x) (map (fun p => (fst p, f (snd p))) l).
Proof. induction l as [|[k' y] t IH]; simpl; [reflexivity|]. destruct (Nat.eqb k k'); simpl; [reflexivity | rewrite IH; reflexivity]. Qed.
Lemma s_get_In {A} k (l : list (nat * A)) x : s_get k l = Some x -> In (k, x) l.
Proof.
  induction l as [|[k' y] t IH]; simpl; [discriminate|]. destruct (Nat.eqb_spec k k').
  - intros H; inversion H; subst. left; reflexivity.
  - intros H. right. apply IH. exact H.
Qed.
Lemma In_s_put {A} k (x : A) l p : In p (s_put k x l) -> p = (k, x) \/ In p l.
Proof.
  induction l as [|[k' y] t IH]; simpl; [intros [H|[]]; left; symmetry; exact H|].
  destruct (Nat.eqb k k'); simpl; [intros [H|H]; [left; symmetry; exact H | right; right; exact H]|].
  intros [H|H]; [right; left; exact H|]. destruct (IH H); [left | right; right]; assumption.
Qed.

Definition Good (s : hstate) : Prop := heap_sorted (h_heap s) /\ wf s.

(* one step of the shared-pointer machine = one step of the value machine *)
Lemma step_sim s o : Good s -> abs_state (hstep s o) = pstep (abs_state s) o /\ Good (hstep s o).
Proof.
  intros [Hs [Wv Ws]]. destruct s as [h vars store]. cbn [h_heap h_vars h_store] in *.
  destruct o as [sp|v m|v|k v|k]; cbn [hstep pstep abs_state h_heap h_vars h_store p_vars p_store].
  - (* new *)
    split.
    + unfold abs_state. cbn. rewrite map_app. reflexivity.
    + split; [exact Hs|]. split; cbn; [|exact Ws]. intros o Ho. apply in_app_or in Ho.
      destruct Ho as [Ho|[Ho|[]]]; [apply Wv; exact Ho | subst; repeat split; exact I].
  - (* mutate *)
    rewrite nth_error_map. destruct (nth_error vars v) as [ob|] eqn:E; cbn [option_map]; [|split; [reflexivity | split; [exact Hs | split; assumption]]].
    pose proof (mut_heap_spec m h ob Hs (Wv _ (nth_error_In _ _ E))) as H.
    destruct (mut_heap m h ob) as [h' ob']. destruct H as [[ext Eh] [S' [O' V']]]. subst h'.
    cbn [h_heap h_vars h_store]. split.
    + unfold abs_state. cbn [h_heap h_vars h_store]. f_equal.
      * rewrite <- V'. apply upd_same_map. intros y Hy. apply absval_ext. apply Wv. exact Hy.
      * apply map_ext_in. intros [k y] Hy. cbn. f_equal. apply absval_ext. eapply Ws. exact Hy.
    + split; [exact S'|]. split; cbn.
      * intros y Hy. destruct (In_upd _ _ _ _ Hy) as [->|Hy']; [exact O' | apply obj_ok_ext; apply Wv; exact Hy'].
      * intros k y Hy. apply obj_ok_ext. eapply Ws. exact Hy.
  - (* copy *)
    rewrite nth_error_map. destruct (nth_error vars v) as [ob|] eqn:E; cbn [option_map]; [|split; [reflexivity | split; [exact Hs | split; assumption]]].
    split.
    + unfold abs_state. cbn. rewrite map_app. reflexivity.
    + split; [exact Hs|]. split; cbn; [|exact Ws]. intros y Hy. apply in_app_or in Hy.
      destruct Hy as [Hy|[Hy|[]]]; [apply Wv; exact Hy | subst; apply Wv; eapply nth_error_In; exact E].
  - (* put *)
    rewrite nth_error_map. destruct (nth_error vars v) as [ob|] eqn:E; cbn [option_map]; [|split; [reflexivity | split; [exact Hs | split; assumption]]].
    split.
    + unfold abs_state. cbn. rewrite (s_put_map (absval h)). reflexivity.
    + split; [exact Hs|]. split; cbn; [exact Wv|]. intros k' y Hy. destruct (In_s_put _ _ _ _ Hy) as [Hp|Hp].
      * inversion Hp; subst. apply Wv. eapply nth_error_In. exact E.
      * eapply Ws. exact Hp.
  - (* get *)
    rewrite (s_get_map (absval h)). destruct (s_get k store) as [ob|] eqn:E; cbn [option_map]; [|split; [reflexivity | split; [exact Hs | split; assumption]]].
    split.
    + unfold abs_state. cbn. rewrite map_app. reflexivity.
    + split; [exact Hs|]. split; cbn; [|exact Ws]. intros y Hy. apply in_app_or in Hy.
      destruct Hy as [Hy|[Hy|[]]]; [apply Wv; exact Hy | subst; eapply Ws; eapply s_get_In; exact E].
Qed.

Lemma good_init : Good (mkH [] [] []).
Proof.
  split; [intros a m E; destruct a; discriminate|]. split; cbn; intros; contradiction.
Qed.

(* C19: for every program of mutations, struct copies, hand-overs to and reads from the store, what every object
   and the store mean is what the value semantics computes: nothing ever leaks between objects *)
Theorem heap_refines_values prog : abs_state (hrun prog) = prun prog.
Proof.
  unfold hrun, prun.
  assert (G : forall s p, Good s -> abs_state s = p -> abs_state (fold_left hstep prog s) = fold_left pstep prog p).
  { induction prog as [|o t IH]; intros s p Hg Ha; [exact Ha|]. cbn [fold_left].
    destruct (step_sim s o Hg) as [E G']. apply IH; [exact G'|]. rewrite E, Ha. reflexivity. }
  apply G; [exact good_init | reflexivity].
Qed.

(* the corollary the property states: mutating an object a caller holds changes neither another variable nor the store *)
Theorem mutation_is_local prog v m w :
  w <> v -> nth_error (p_vars (prun (prog ++ [PMut v m]))) w = nth_error (p_vars (prun prog)) w /\
  p_store (prun (prog ++ [PMut v m])) = p_store (prun prog).
Proof.
  intros Hw. unfold prun. rewrite fold_left_app. cbn [fold_left pstep].
  destruct (nth_error (p_vars (fold_left pstep prog (mkP [] []))) v) as [x|]; [|split; reflexivity].
  cbn [p_vars p_store]. split; [|reflexivity].
  generalize (p_vars (fold_left pstep prog (mkP [] []))) as l. intros l. revert v w Hw.
  induction l as [|y t IH]; intros [|v] [|w] Hw; simpl; try reflexivity; try congruence.
  apply IH. congruence.
Qed.

Example heap_example :
  (* a: new; label it; store it; b := Get; mutate b's labels and finalizers; mutate a; c := Get *)
  let prog := [PNew 1; PMut 0 (MSetLabel 5 6); PPut 0 0; PGet 0; PMut 1 (MSetLabel 5 7); PMut 1 (MAddFin 9);
               PMut 0 (MDelLabel 5); PGet 0] in
  map v_labels (p_vars (abs_state (hrun prog))) = [[]; [(5, 7)]; [(5, 6)]] /\
  map v_fins (p_vars (abs_state (hrun prog))) = [[]; [9]; []].
Proof. split; vm_compute; reflexivity. Qed.
