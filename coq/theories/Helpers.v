(* Helpers.v — pkg/state/wrap.go as step machines over the store model:
   UpdateWithConflicts, Teardown, AddFinalizer, RemoveFinalizer, Modify(WithResult),
   TeardownAndDestroy (+ waitFinalizersEmpty), WatchFor, ContextWithTeardown.

   A helper call is a first-order machine whose steps are exactly its CoreState calls and watch
   receives; a system is a store plus any number of such calls plus an environment issuing arbitrary
   store operations; a schedule chooses who moves next. *)
From Verif Require Export Store.
Open Scope N_scope.

(* ---- user functions: a small executable algebra of mutators ------------------------------- *)

Inductive mutator :=
| MNoop
| MFail
| MSetTD                         (* SetPhase(TearingDown) *)
| MAddFin (fs : list atom)
| MRemFin (fs : list atom)
| MSetSpec (v : atom)
| MSetLabel (k v : atom)
| MBump                          (* a mutator that is not idempotent: spec "" -> "c0", otherwise the second byte + 1 *)
| MSeq (a b : mutator).

Definition fin_add (f : atom) (l : list atom) : list atom :=
  if existsb (N.eqb f) l then l else l ++ [f].
Fixpoint fin_remove (f : atom) (l : list atom) : list atom :=
  match l with
  | [] => []
  | x :: l' => if N.eqb x f then l' else x :: fin_remove f l'
  end.

Fixpoint lab_set (k v : atom) (l : list (atom * atom)) : list (atom * atom) :=
  match l with
  | [] => [(k, v)]
  | (k', v') :: l' =>
      if N.eqb k' k then (k, v) :: l'
      else if N.ltb k k' then (k, v) :: (k', v') :: l'
      else (k', v') :: lab_set k v l'
  end.

Definition set_fields (r : res) (phase : bool) (fins : list atom) (labels : list (atom * atom)) (spec : atom) : res :=
  mkRes (r_ns r) (r_typ r) (r_id r) (r_ver r) (r_owner r) phase fins labels (r_created r) (r_updated r) spec.

Fixpoint mutate (m : mutator) (r : res) : option res :=
  match m with
  | MNoop => Some r
  | MFail => None
  | MSetTD => Some (set_fields r true (r_fins r) (r_labels r) (r_spec r))
  | MAddFin fs => Some (set_fields r (r_phase r) (fold_left (fun l f => fin_add f l) fs (r_fins r)) (r_labels r) (r_spec r))
  | MRemFin fs => Some (set_fields r (r_phase r) (fold_left (fun l f => fin_remove f l) fs (r_fins r)) (r_labels r) (r_spec r))
  | MSetSpec v => Some (set_fields r (r_phase r) (r_fins r) (r_labels r) v)
  | MSetLabel k v => Some (set_fields r (r_phase r) (r_fins r) (lab_set k v (r_labels r)) (r_spec r))
  | MBump => Some (set_fields r (r_phase r) (r_fins r) (r_labels r)
                     (if N.eqb (r_spec r) 0 then 109057809580032 else r_spec r + 4294967296))
  | MSeq a b => match mutate a r with Some r' => mutate b r' | None => None end
  end.

(* resource.Equal: metadata (without timestamps) and spec; finalizers compared as multisets *)
Fixpoint ins_sorted (x : atom) (l : list atom) : list atom :=
  match l with
  | [] => [x]
  | y :: l' => if N.leb x y then x :: y :: l' else y :: ins_sorted x l'
  end.
Definition sort_atoms (l : list atom) : list atom := fold_right ins_sorted [] l.

Fixpoint atoms_eqb (a b : list atom) : bool :=
  match a, b with
  | [], [] => true
  | x :: a', y :: b' => N.eqb x y && atoms_eqb a' b'
  | _, _ => false
  end.
Fixpoint labels_eqb (a b : list (atom * atom)) : bool :=
  match a, b with
  | [], [] => true
  | (k1, v1) :: a', (k2, v2) :: b' => N.eqb k1 k2 && N.eqb v1 v2 && labels_eqb a' b'
  | _, _ => false
  end.

Definition res_equal (a b : res) : bool :=
  N.eqb (r_ns a) (r_ns b) && N.eqb (r_typ a) (r_typ b) && N.eqb (r_id a) (r_id b) &&
  Bool.eqb (r_phase a) (r_phase b) && N.eqb (r_owner a) (r_owner b) && ver_eqb (r_ver a) (r_ver b) &&
  labels_eqb (r_labels a) (r_labels b) && atoms_eqb (sort_atoms (r_fins a)) (sort_atoms (r_fins b)) &&
  N.eqb (r_spec a) (r_spec b).

(* ---- helper calls --------------------------------------------------------------------------- *)

Inductive hkind :=
| KUwc                         (* UpdateWithConflicts(ptr, f, owner, expected phase) *)
| KTeardown                    (* Teardown(ptr, owner) *)
| KFin                         (* AddFinalizer / RemoveFinalizer(ptr, fins): mutator says which *)
| KModify (empty : res)        (* ModifyWithResult(empty, f, owner, expected phase) *)
| KTeardownAndDestroy          (* TeardownAndDestroy(ptr, owner) *)
| KWatchFor (finsEmpty : bool) (phases : list bool) (evtypes : list N)   (* WatchFor with the built-in conditions *)
| KCtxTeardown.                (* ContextWithTeardown(ptr): result = cancelled *)

Record hcall := mkCall {
  h_kind : hkind;
  h_key : key;
  h_mut : mutator;
  h_owner : atom;
  h_exp : option bool          (* expected phase option of the call (None = any) *)
}.

(* errors a helper can return in addition to store errors *)
Inductive herr :=
| HEStore (e : err)
| HEPhaseLocal                 (* the early phase check of UpdateWithConflicts (state.errPhaseConflict) *)
| HEMutator                    (* the user function failed *)
| HEWatch.                     (* the watch delivered Errored *)

Inductive hres :=
| HFail (e : herr)
| HOk (r : res)                (* returned / committed object *)
| HGone                        (* TeardownAndDestroy succeeded *)
| HCancelled.                  (* ContextWithTeardown: context cancelled because of the resource *)

(* watch events as the helpers see them (type + resource) *)
Inductive hev :=
| HvCreated (r : res)
| HvUpdated (r : res)
| HvDestroyed (r : option res)   (* the destroyed object; None = the tombstone of an absent resource *)
| HvErrored.

Inductive hpc :=
| P0                                        (* before the helper's first own Get *)
| PU (owner : atom) (exp : option bool)     (* UpdateWithConflicts: about to Get *)
| PUpd (owner : atom) (exp : option bool) (cur new : res)  (* about to Update new (computed from cur) *)
| PCreate (new : res)                       (* Modify: about to Create *)
| PDestroy                                  (* TeardownAndDestroy: about to Destroy *)
| PWatch                                    (* about to establish the watch *)
| PRecv                                     (* blocked receiving from the watch *)
| PDone (r : hres).

Inductive hreq :=
| QGet (k : key)
| QUpdate (r : res) (owner : atom) (exp : option bool)
| QCreate (r : res) (owner : atom)
| QDestroy (k : key) (owner : atom)
| QWatch (k : key)
| QRecv
| QNone.

Definition is_uwc_like (k : hkind) : bool :=
  match k with KUwc | KTeardown | KFin | KModify _ | KTeardownAndDestroy => true | _ => false end.

Definition request (c : hcall) (pc : hpc) : hreq :=
  match pc with
  | P0 =>
      match h_kind c with
      | KWatchFor _ _ _ | KCtxTeardown => QWatch (h_key c)
      | _ => QGet (h_key c)
      end
  | PU _ _ => QGet (h_key c)
  | PUpd owner exp _ new => QUpdate new owner exp
  | PCreate new => QCreate new (h_owner c)
  | PDestroy => QDestroy (h_key c) (h_owner c)
  | PWatch => QWatch (h_key c)
  | PRecv => QRecv
  | PDone _ => QNone
  end.

(* the body of UpdateWithConflicts after a successful Get *)
Definition uwc_after_get (c : hcall) (owner : atom) (exp : option bool) (cur : res) : hpc :=
  if (match exp with Some p => negb (Bool.eqb p (r_phase cur)) | None => false end)
  then PDone (HFail HEPhaseLocal)
  else match mutate (h_mut c) cur with
       | None => PDone (HFail HEMutator)
       | Some new => if res_equal cur new then PDone (HOk new) else PUpd owner exp cur new
       end.

(* what happens when the (Teardown part of the) call has produced its object *)
Definition after_commit (c : hcall) (r : res) : hpc :=
  match h_kind c with
  | KTeardownAndDestroy =>
      match r_fins r with [] => PDestroy | _ :: _ => PWatch end
  | _ => PDone (HOk r)
  end.

Definition plain_conflict (e : err) : bool :=
  is_conflict e 0 0 && negb (is_owner_conflict e) && negb (is_phase_conflict e).

Definition bool_in (b : bool) (l : list bool) : bool := existsb (Bool.eqb b) l.

(* WatchForCondition.Matches for the built-in conditions *)
Definition watchfor_matches (finsEmpty : bool) (phases : list bool) (evtypes : list N) (e : hev) : bool :=
  let typ := match e with HvCreated _ => 0 | HvUpdated _ => 1 | HvDestroyed _ => 2 | HvErrored => 4 end in
  (match evtypes with [] => true | _ => existsb (N.eqb typ) evtypes end) &&
  match e with
  | HvErrored => false           (* Errored carries no resource *)
  | HvDestroyed d => negb finsEmpty &&
      (match phases with [] => true | _ => bool_in (match d with Some r => r_phase r | None => false end) phases end)
  | HvCreated r | HvUpdated r =>
      (negb finsEmpty || match r_fins r with [] => true | _ => false end) &&
      (match phases with [] => true | _ => bool_in (r_phase r) phases end)
  end.

(* response to a request *)
Inductive hresp :=
| SGot (r : option res)
| SRes (r : result)
| SWatched
| SEv (e : hev).

Definition resume (c : hcall) (pc : hpc) (rsp : hresp) : hpc :=
  match pc, rsp with
  | P0, SGot g =>
      match h_kind c with
      | KUwc =>
          match g with
          | None => PDone (HFail (HEStore ENotFound))
          | Some cur => uwc_after_get c (h_owner c) (h_exp c) cur
          end
      | KTeardown | KTeardownAndDestroy =>
          match g with
          | None => PDone (HFail (HEStore ENotFound))
          | Some cur => if r_phase cur then after_commit c cur else PU (h_owner c) (Some false)
          end
      | KFin =>
          match g with
          | None => PDone (HFail (HEStore ENotFound))
          | Some cur => PU (r_owner cur) None
          end
      | KModify empty =>
          match g with
          | None => match mutate (h_mut c) empty with
                    | None => PDone (HFail HEMutator)
                    | Some new => PCreate new
                    end
          | Some _ => PU (h_owner c) (h_exp c)
          end
      | _ => pc
      end
  | P0, SWatched => PRecv
  | PU owner exp, SGot g =>
      match g with
      | None => PDone (HFail (HEStore ENotFound))
      | Some cur =>
          match uwc_after_get c owner exp cur with
          | PDone (HOk r) => after_commit c r
          | p => p
          end
      end
  | PUpd owner exp cur new, SRes r =>
      match r with
      | RWritten w => after_commit c w
      | RErr e => if plain_conflict e then PU owner exp else PDone (HFail (HEStore e))
      | _ => pc
      end
  | PCreate new, SRes r =>
      match r with
      | RWritten w => PDone (HOk w)
      | RErr e => PDone (HFail (HEStore e))
      | _ => pc
      end
  | PDestroy, SRes r =>
      match r with
      | ROk => PDone HGone
      | RErr e => PDone (HFail (HEStore e))
      | _ => pc
      end
  | PWatch, SWatched => PRecv
  | PRecv, SEv e =>
      match h_kind c with
      | KTeardownAndDestroy =>
          match e with
          | HvDestroyed _ => PDone HGone
          | HvCreated r | HvUpdated r => match r_fins r with [] => PDestroy | _ => PRecv end
          | HvErrored => PDone (HFail HEWatch)
          end
      | KWatchFor fe ph et =>
          if watchfor_matches fe ph et e then
            match e with
            | HvCreated r | HvUpdated r | HvDestroyed (Some r) => PDone (HOk r)
            | _ => PDone HGone         (* matched the tombstone of an absent resource *)
            end
          else PRecv
      | KCtxTeardown =>
          match e with
          | HvCreated r | HvUpdated r => if r_phase r then PDone HCancelled else PRecv
          | HvDestroyed _ => PDone HCancelled
          | HvErrored => PDone HCancelled
          end
      | _ => pc
      end
  | _, _ => pc
  end.

(* ---- systems: store + helper threads + environment --------------------------------------------- *)

Record thread := mkTh {
  th_call : hcall;
  th_pc : hpc;
  th_watch : option (list hev)       (* events delivered by the thread's watch and not yet received *)
}.

Record hsys := mkSys {
  sy_store : store;
  sy_threads : list thread
}.

Inductive choice :=
| CThread (i : nat) (now : Z)         (* thread i performs its pending request *)
| CEnv (now : Z) (o : op)             (* the environment performs a store operation *)
| CWatchErr (i : nat).                (* thread i's watch overruns: Errored is delivered *)

Definition hev_of_event (e : event) : hev :=
  match e with
  | EvCreated r => HvCreated r
  | EvUpdated r _ => HvUpdated r
  | EvDestroyed r => HvDestroyed (Some r)
  end.

(* publish a store event to every thread watching that key *)
Definition notify (ev : option event) (ths : list thread) : list thread :=
  match ev with
  | None => ths
  | Some e =>
      map (fun t =>
             match th_watch t with
             | Some q => if key_eqb (h_key (th_call t)) (r_key (ev_res e))
                         then mkTh (th_call t) (th_pc t) (Some (q ++ [hev_of_event e])) else t
             | None => t
             end) ths
  end.

Fixpoint set_nth {A} (n : nat) (x : A) (l : list A) : list A :=
  match l, n with
  | [], _ => []
  | _ :: l', O => x :: l'
  | y :: l', S n' => y :: set_nth n' x l'
  end.

Definition sys_step (s : hsys) (ch : choice) : hsys :=
  match ch with
  | CEnv now o =>
      let '(st', _, ev) := apply now o (sy_store s) in
      mkSys st' (notify ev (sy_threads s))
  | CWatchErr i =>
      match nth_error (sy_threads s) i with
      | Some t =>
          match th_watch t with
          | Some q => mkSys (sy_store s) (set_nth i (mkTh (th_call t) (th_pc t) (Some (q ++ [HvErrored]))) (sy_threads s))
          | None => s
          end
      | None => s
      end
  | CThread i now =>
      match nth_error (sy_threads s) i with
      | None => s
      | Some t =>
          let c := th_call t in
          match request c (th_pc t) with
          | QNone => s
          | QGet k =>
              let t' := mkTh c (resume c (th_pc t) (SGot (st_get k (sy_store s)))) (th_watch t) in
              mkSys (sy_store s) (set_nth i t' (sy_threads s))
          | QUpdate r owner exp =>
              let '(st', res, ev) := apply now (OpUpdate r owner exp) (sy_store s) in
              let ths := notify ev (sy_threads s) in
              let tw := match nth_error ths i with Some x => th_watch x | None => th_watch t end in
              mkSys st' (set_nth i (mkTh c (resume c (th_pc t) (SRes res)) tw) ths)
          | QCreate r owner =>
              let '(st', res, ev) := apply now (OpCreate r owner) (sy_store s) in
              let ths := notify ev (sy_threads s) in
              let tw := match nth_error ths i with Some x => th_watch x | None => th_watch t end in
              mkSys st' (set_nth i (mkTh c (resume c (th_pc t) (SRes res)) tw) ths)
          | QDestroy k owner =>
              let '(st', res, ev) := apply now (OpDestroy k owner) (sy_store s) in
              let ths := notify ev (sy_threads s) in
              let tw := match nth_error ths i with Some x => th_watch x | None => th_watch t end in
              mkSys st' (set_nth i (mkTh c (resume c (th_pc t) (SRes res)) tw) ths)
          | QWatch k =>
              (* the initial event is the current state, captured atomically with the subscription *)
              let init := match st_get k (sy_store s) with Some cur => HvCreated cur | None => HvDestroyed None end in
              mkSys (sy_store s) (set_nth i (mkTh c (resume c (th_pc t) SWatched) (Some [init])) (sy_threads s))
          | QRecv =>
              match th_watch t with
              | Some (e :: q) =>
                  mkSys (sy_store s) (set_nth i (mkTh c (resume c (th_pc t) (SEv e)) (Some q)) (sy_threads s))
              | _ => s            (* nothing to receive: the thread stays blocked *)
              end
          end
      end
  end.

Definition sys_run (s : hsys) (sched : list choice) : hsys := fold_left sys_step sched s.

Definition new_thread (c : hcall) : thread := mkTh c P0 None.
