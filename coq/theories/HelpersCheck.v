(* HelpersCheck.v — correspondence checker: replay an observed gate-proxy schedule on the helper
   machines and compare every CoreState call kind, every final result and the final store. *)
From Verif Require Import Store StoreCheck Helpers.
Open Scope N_scope.

Inductive oreq := OGet | OUpdate | OCreate | ODestroy | OWatch | ORecv | ONone.

Definition oreq_of (q : hreq) (can_recv : bool) : oreq :=
  match q with
  | QGet _ => OGet | QUpdate _ _ _ => OUpdate | QCreate _ _ => OCreate | QDestroy _ _ => ODestroy
  | QWatch _ => OWatch | QRecv => if can_recv then ORecv else ONone | QNone => ONone
  end.

Definition oreq_eqb (a b : oreq) : bool :=
  match a, b with
  | OGet, OGet | OUpdate, OUpdate | OCreate, OCreate | ODestroy, ODestroy | OWatch, OWatch | ORecv, ORecv | ONone, ONone => true
  | _, _ => false
  end.

Inductive ores :=
| OrOk (r : res)
| OrReady (b : bool)
| OrNil
| OrDestroyedMatched
| OrCancelled
| OrPending
| OrErr (cls : bool * bool * bool * bool).   (* not_found, owner, phase, conflict *)

Definition herr_cls (e : herr) : bool * bool * bool * bool :=
  match e with
  | HEStore e => (is_not_found e, is_owner_conflict e, is_phase_conflict e, is_conflict e 0 0)
  | HEPhaseLocal => (false, false, true, false)
  | HEMutator | HEWatch => (false, false, false, false)
  end.

Definition cls4_eqb (a b : bool * bool * bool * bool) : bool :=
  let '(a1, a2, a3, a4) := a in let '(b1, b2, b3, b4) := b in
  Bool.eqb a1 b1 && Bool.eqb a2 b2 && Bool.eqb a3 b3 && Bool.eqb a4 b4.

Definition result_match (t : thread) (o : ores) : bool :=
  match th_pc t, o with
  | PDone (HFail e), OrErr c => cls4_eqb (herr_cls e) c
  | PDone (HOk r), OrOk r' =>
      match h_kind (th_call t) with KUwc | KModify _ | KWatchFor _ _ _ => res_eqb r r' | _ => false end
  | PDone (HOk r), OrReady b =>
      match h_kind (th_call t) with KTeardown => Bool.eqb (match r_fins r with [] => true | _ => false end) b | _ => false end
  | PDone (HOk _), OrNil => match h_kind (th_call t) with KFin => true | _ => false end
  | PDone HGone, OrNil => match h_kind (th_call t) with KTeardownAndDestroy => true | _ => false end
  | PDone HGone, OrDestroyedMatched => match h_kind (th_call t) with KWatchFor _ _ _ => true | _ => false end
  | PDone HCancelled, OrCancelled => true
  | PDone _, _ => false
  | _, OrPending => true
  | _, _ => false
  end.

Fixpoint run_check (s : hsys) (steps : list (choice * oreq)) : option hsys :=
  match steps with
  | [] => Some s
  | (ch, o) :: steps' =>
      let ok :=
        match ch with
        | CThread i _ =>
            match nth_error (sy_threads s) i with
            | Some t =>
                let can := match th_watch t with Some (_ :: _) => true | _ => false end in
                oreq_eqb (oreq_of (request (th_call t) (th_pc t)) can) o
            | None => false
            end
        | _ => true
        end in
      if ok then run_check (sys_step s ch) steps' else None
  end.

Fixpoint all2 {A B} (f : A -> B -> bool) (a : list A) (b : list B) : bool :=
  match a, b with
  | [], [] => true
  | x :: a', y :: b' => f x y && all2 f a' b'
  | _, _ => false
  end.

(* case = (calls, schedule with observed call kinds, final results, final listing of kind (ns,typ)) *)
Definition hcase := (list hcall * list (choice * oreq) * list ores * (atom * atom) * list res)%type.

Definition hcase_ok (c : hcase) : bool :=
  let '(calls, steps, finals, (ns, typ), listing) := c in
  match run_check (mkSys [] (map new_thread calls)) steps with
  | None => false
  | Some s => all2 result_match (sy_threads s) finals && list_eqb res_eqb (st_list ns typ (sy_store s)) listing
  end.

Definition helper_mismatches (cs : list hcase) : list N := mism_from hcase_ok 0 cs.
