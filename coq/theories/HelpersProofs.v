(* HelpersProofs.v — read-modify-write helpers are atomic under contention (C04) and the
   lifecycle facts of C03 that are about single steps.

   The atomicity theorem is proved for one helper call against an ARBITRARY environment issuing any
   store operations except Destroy of the contended key; every other concurrent helper call is such
   an environment (lemma other_thread_is_env), so the statement holds for any number of callers and
   any interleaving of their Get/Update/Create steps. *)
From Verif Require Import Store StoreProofs Helpers.
From Coq Require Import ZifyBool ZifyN.
Open Scope N_scope.

Local Opaque st_put st_del.

(* ---- mutators never touch identity, version, owner or timestamps --------------------------- *)

Lemma mutate_preserves m r r' :
  mutate m r = Some r' ->
  r_key r' = r_key r /\ r_ver r' = r_ver r /\ r_owner r' = r_owner r /\ r_created r' = r_created r.
Proof.
  revert r r'. induction m as [| | | fs | fs | v | k v | | a IHa b IHb]; intros r r' H; simpl in H;
    try (inversion H; subst; unfold r_key; simpl; tauto); try discriminate.
  destruct (mutate a r) as [r1|] eqn:Ea; [|discriminate].
  destruct (IHa _ _ Ea) as [A1 [A2 [A3 A4]]]. destruct (IHb _ _ H) as [B1 [B2 [B3 B4]]].
  repeat split; congruence.
Qed.

Definition last_opt {A} (l : list A) : option A :=
  match rev l with [] => None | x :: _ => Some x end.

Lemma last_opt_snoc {A} (l : list A) x : last_opt (l ++ [x]) = Some x.
Proof. unfold last_opt. rewrite rev_app_distr. reflexivity. Qed.

Lemma last_opt_In {A} (l : list A) x : last_opt l = Some x -> In x l.
Proof.
  unfold last_opt. intros H. destruct (rev l) as [|y t] eqn:E; [discriminate|]. inversion H; subst.
  apply in_rev. rewrite E. left. reflexivity.
Qed.

Lemma last_opt_nil {A} (l : list A) : last_opt l = None -> l = [].
Proof.
  unfold last_opt. destruct (rev l) eqn:E; [|discriminate]. intros _.
  rewrite <- (rev_involutive l), E. reflexivity.
Qed.

Definition vnum (r : res) : N := match r_ver r with Some v => v | None => 0 end.

(* ---- the shape of every store transition -------------------------------------------------- *)
Lemma apply_shape now o s s' r ev :
  apply now o s = (s', r, ev) ->
  (ev = None /\ s' = s /\ (forall w, r <> RWritten w) /\ r <> ROk) \/
  (exists w, ev = Some (EvCreated w) /\ r = RWritten w /\ st_get (r_key w) s = None /\ r_ver w = Some 1 /\
             (exists x owner, o = OpCreate x owner /\ r_key w = r_key x /\ r_owner w = owner /\ r_created w = now /\
                              r_spec w = r_spec x /\ r_fins w = r_fins x) /\
             (forall k', st_get k' s' = if key_eqb k' (r_key w) then Some w else st_get k' s)) \/
  (exists w cur, ev = Some (EvUpdated w cur) /\ r = RWritten w /\ st_get (r_key w) s = Some cur /\
                 (exists x owner exp, o = OpUpdate x owner exp /\ r_ver cur = r_ver x /\
                                      w = with_ver_times x (ver_next (r_ver x)) (r_created cur) now) /\
                 (forall k', st_get k' s' = if key_eqb k' (r_key w) then Some w else st_get k' s)) \/
  (exists cur k0 owner, o = OpDestroy k0 owner /\ ev = Some (EvDestroyed cur) /\ r = ROk /\ r_key cur = k0 /\
                        (forall k', st_get k' s' = if key_eqb k' k0 then None else st_get k' s)).
Proof.
  unfold apply. destruct o as [x owner|x owner exp|k0 owner|k0|ns typ].
  - pose proof (set_owner_spec x owner) as Hso. destruct (set_owner x owner) as [r1|].
    + destruct Hso as [_ [Ho [Hk [Hv [Hp [Hf [Hl [Hs [Hc Hu]]]]]]]]].
      destruct (st_get (r_key r1) s) eqn:Eg.
      * intros H; injection H as <- <- <-. left. repeat split; try discriminate.
      * intros H; injection H as <- <- <-. right; left. eexists. split; [reflexivity|]. split; [reflexivity|].
        split; [exact Eg|]. split; [reflexivity|]. split.
        -- exists x, owner. repeat split; assumption.
        -- intros k'. apply st_get_put.
    + intros H; injection H as <- <- <-. left. repeat split; discriminate.
  - destruct (st_get (r_key x) s) as [cur|] eqn:Eg.
    + destruct (negb (r_owner cur =? owner)); [intros H; injection H as <- <- <-; left; repeat split; discriminate|].
      destruct (ver_eqb_spec (r_ver cur) (r_ver x)) as [Ev|Ev]; simpl;
        [|intros H; injection H as <- <- <-; left; repeat split; discriminate].
      destruct (match exp with Some p => negb (Bool.eqb (r_phase cur) p) | None => false end);
        [intros H; injection H as <- <- <-; left; repeat split; discriminate|].
      intros H; injection H as <- <- <-. right; right; left. eexists; eexists. split; [reflexivity|]. split; [reflexivity|].
      split; [exact Eg|]. split.
      * exists x, owner, exp. repeat split. exact Ev.
      * intros k'. apply st_get_put.
    + intros H; injection H as <- <- <-. left. repeat split; discriminate.
  - destruct (st_get k0 s) as [cur|] eqn:Eg.
    + destruct (negb (r_owner cur =? owner)); [intros H; injection H as <- <- <-; left; repeat split; discriminate|].
      destruct (r_fins cur); [|intros H; injection H as <- <- <-; left; repeat split; discriminate].
      intros H; injection H as <- <- <-. right; right; right. exists cur, k0, owner. repeat split.
      * apply st_get_key in Eg. exact Eg.
      * intros k'. apply st_get_del.
    + intros H; injection H as <- <- <-. left. repeat split; discriminate.
  - destruct (st_get k0 s); intros H; injection H as <- <- <-; left; repeat split; discriminate.
  - intros H; injection H as <- <- <-; left; repeat split; discriminate.
Qed.

Section RMW.
  Variable c : hcall.
  Let k := h_key c.

  (* the read-modify-write family *)
  Hypothesis Hkind : match h_kind c with
                     | KUwc | KTeardown | KFin => True
                     | KModify e => r_key e = k
                     | _ => False
                     end.

  Record ost := mkO {
    o_store : store;
    o_pc : hpc;
    o_hist : list res;                       (* ghost: every value the key has held, oldest first *)
    o_commit : option (option res * res)     (* ghost: the call's own successful write (value before, value after) *)
  }.

  Inductive ochoice :=
  | OThread (now : Z)
  | OEnv (now : Z) (o : op).

  Definition hist_add (ev : option event) (h : list res) : list res :=
    match ev with
    | Some (EvCreated r) | Some (EvUpdated r _) => if key_eqb (r_key r) k then h ++ [r] else h
    | _ => h
    end.

  Definition ostep (s : ost) (ch : ochoice) : ost :=
    match ch with
    | OEnv now o =>
        let '(st', _, ev) := apply now o (o_store s) in
        mkO st' (o_pc s) (hist_add ev (o_hist s)) (o_commit s)
    | OThread now =>
        match request c (o_pc s) with
        | QGet k' => mkO (o_store s) (resume c (o_pc s) (SGot (st_get k' (o_store s)))) (o_hist s) (o_commit s)
        | QUpdate r owner exp =>
            let '(st', res, ev) := apply now (OpUpdate r owner exp) (o_store s) in
            mkO st' (resume c (o_pc s) (SRes res)) (hist_add ev (o_hist s))
                (match ev with Some e => Some (st_get k (o_store s), ev_res e) | None => o_commit s end)
        | QCreate r owner =>
            let '(st', res, ev) := apply now (OpCreate r owner) (o_store s) in
            mkO st' (resume c (o_pc s) (SRes res)) (hist_add ev (o_hist s))
                (match ev with Some e => Some (st_get k (o_store s), ev_res e) | None => o_commit s end)
        | _ => s
        end
    end.

  Definition env_ok (ch : ochoice) : Prop :=
    match ch with
    | OEnv _ (OpDestroy k' _) => k' <> k
    | _ => True
    end.

  (* versions do not wrap around 2^64 during the run *)
  Definition nowrap (s : ost) : Prop :=
    forall r v, st_get k (o_store s) = Some r -> r_ver r = Some v -> v + 1 < two64.

  Fixpoint run_ok (s : ost) (sched : list ochoice) : Prop :=
    match sched with
    | [] => True
    | ch :: rest => env_ok ch /\ nowrap s /\ run_ok (ostep s ch) rest
    end.

  Definition o_init (s0 : store) : ost :=
    mkO s0 P0 (match st_get k s0 with Some r => [r] | None => [] end) None.

  (* what a finished call must look like *)
  Definition applied_on (b : res) (a : res) : Prop :=
    exists new now, mutate (h_mut c) b = Some new /\
                    a = with_ver_times new (ver_next (r_ver b)) (r_created b) now.

  Definition created_from (e : res) (a : res) : Prop :=
    exists new now, mutate (h_mut c) e = Some new /\ r_key a = r_key new /\ r_ver a = Some 1 /\
                    r_owner a = h_owner c /\ r_created a = now /\ r_spec a = r_spec new /\ r_fins a = r_fins new.

  Definition verdict (s : ost) : Prop :=
    match o_pc s with
    | PDone (HFail _) => o_commit s = None
    | PDone (HOk w) =>
        match o_commit s with
        | Some (Some b, a) => a = w /\ applied_on b a
        | Some (None, a) => a = w /\ match h_kind c with KModify e => created_from e a | _ => False end
        | None => exists b, In b (o_hist s) /\ (w = b \/ (mutate (h_mut c) b = Some w /\ res_equal b w = true))
        end
    | PDone _ => False
    | _ => o_commit s = None
    end.

  Record OInv (s : ost) : Prop := mkOInv {
    oi_last : st_get k (o_store s) = last_opt (o_hist s);
    oi_keys : forall r, In r (o_hist s) -> r_key r = k /\ exists v, r_ver r = Some v;
    oi_uniq : forall a b, In a (o_hist s) -> In b (o_hist s) -> r_ver a = r_ver b -> a = b;
    oi_max : forall a l, In a (o_hist s) -> last_opt (o_hist s) = Some l -> vnum a <= vnum l;
    oi_pc : match o_pc s with
            | P0 | PU _ _ | PDone _ => True
            | PUpd _ _ cur new => In cur (o_hist s) /\ mutate (h_mut c) cur = Some new
            | PCreate new => match h_kind c with KModify e => mutate (h_mut c) e = Some new | _ => False end
            | _ => False
            end;
    oi_verdict : verdict s
  }.

  Lemma uwc_after_get_shape owner exp cur :
    match uwc_after_get c owner exp cur with
    | PDone (HFail _) => True
    | PDone (HOk w) => mutate (h_mut c) cur = Some w /\ res_equal cur w = true
    | PUpd o e cur' new => cur' = cur /\ mutate (h_mut c) cur = Some new
    | _ => False
    end.
  Proof.
    unfold uwc_after_get.
    destruct (match exp with Some p => negb (Bool.eqb p (r_phase cur)) | None => false end); [exact I|].
    destruct (mutate (h_mut c) cur) as [new|]; [|exact I].
    destruct (res_equal cur new) eqn:E; [split; [reflexivity | exact E] | split; reflexivity].
  Qed.

  Lemma after_commit_done r : after_commit c r = PDone (HOk r).
  Proof. unfold after_commit. destruct (h_kind c); try reflexivity; contradiction. Qed.

  Lemma hist_add_other ev h : (forall e, ev = Some e -> r_key (ev_res e) <> k) -> hist_add ev h = h.
  Proof.
    intros H. unfold hist_add. destruct ev as [[r|r old|r]|]; try reflexivity;
      (destruct (key_eqb_spec (r_key r) k) as [E|E]; [exfalso; apply (H _ eq_refl); exact E | reflexivity]).
  Qed.

  (* appending the successor version keeps the history well-formed *)
  Lemma hist_snoc_inv h l a :
    (forall r, In r h -> r_key r = k /\ exists v, r_ver r = Some v) ->
    (forall x y, In x h -> In y h -> r_ver x = r_ver y -> x = y) ->
    (forall x, In x h -> vnum x <= vnum l) -> In l h \/ h = [] ->
    r_key a = k -> (exists v, r_ver a = Some v) -> vnum l < vnum a ->
    (forall r, In r (h ++ [a]) -> r_key r = k /\ exists v, r_ver r = Some v) /\
    (forall x y, In x (h ++ [a]) -> In y (h ++ [a]) -> r_ver x = r_ver y -> x = y) /\
    (forall x, In x (h ++ [a]) -> vnum x <= vnum a).
  Proof.
    intros Hk Hu Hm Hl Ha Hva Hlt. split; [|split].
    - intros r Hr. apply in_app_or in Hr. destruct Hr as [Hr|[<-|[]]]; [apply Hk; exact Hr | split; assumption].
    - intros x y Hx Hy E. apply in_app_or in Hx. apply in_app_or in Hy.
      destruct Hx as [Hx|[<-|[]]]; destruct Hy as [Hy|[<-|[]]]; try reflexivity.
      + apply Hu; assumption.
      + exfalso. specialize (Hm x Hx). unfold vnum in *. rewrite E in Hm. lia.
      + exfalso. specialize (Hm y Hy). unfold vnum in *. rewrite <- E in Hm. lia.
    - intros x Hx. apply in_app_or in Hx. destruct Hx as [Hx|[<-|[]]]; [specialize (Hm x Hx); lia | lia].
  Qed.



  Lemma OInv_init s0 :
    (forall r, st_get k s0 = Some r -> exists v, r_ver r = Some v) -> OInv (o_init s0).
  Proof.
    intros Hv. unfold o_init. destruct (st_get k s0) as [r|] eqn:Eg.
    - constructor; simpl; try exact I.
      + rewrite Eg. reflexivity.
      + intros x [<-|[]]. split; [apply st_get_key in Eg; exact Eg | apply Hv; reflexivity].
      + intros a b [<-|[]] [<-|[]] _. reflexivity.
      + intros a l [<-|[]] H. unfold last_opt in H. simpl in H. inversion H; subst. lia.
      + unfold verdict. simpl. reflexivity.
    - constructor; simpl; try exact I; try (intros; contradiction).
      + rewrite Eg. reflexivity.
      + unfold verdict. simpl. reflexivity.
  Qed.

  (* a Get by the call observes the last value of the history *)
  Lemma get_in_hist s cur : OInv s -> st_get k (o_store s) = Some cur -> In cur (o_hist s).
  Proof. intros HI Hg. apply last_opt_In. rewrite <- (oi_last _ HI). exact Hg. Qed.

  Lemma OInv_env s now o :
    OInv s -> env_ok (OEnv now o) -> nowrap s -> OInv (ostep s (OEnv now o)).
  Proof.
    intros HI Henv Hnw. pose proof HI as [I1 I2 I3 I4 I5 I6].
    unfold ostep. destruct (apply now o (o_store s)) as [[st' r] ev] eqn:Ea.
    destruct (apply_shape _ _ _ _ _ _ Ea) as [[-> [-> _]] | [[w [-> [_ [Hn [Hv [_ Hst]]]]]] | [[w [cur [-> [_ [Hg [[x [owner [exp [_ [Hvx Hw]]]]] Hst]]]]]] | [cur [k0 [owner [-> [-> [_ [Hk0 Hst]]]]]]]]]].
    - (* nothing happened *)
      constructor; simpl; assumption.
    - (* a create *)
      destruct (key_eqb_spec (r_key w) k) as [Ek|Ek].
      + assert (Hh : o_hist s = []) by (apply last_opt_nil; rewrite <- I1, <- Ek; exact Hn).
        assert (Hkt : key_eqb (r_key w) k = true) by (rewrite Ek; apply key_eqb_refl).
        constructor; cbn [o_store o_pc o_hist o_commit hist_add]; rewrite ?Hkt, ?Hh; cbn [app].
        * rewrite Hst, <- Ek, key_eqb_refl. reflexivity.
        * intros x [<-|[]]. split; [exact Ek | eauto].
        * intros a b [<-|[]] [<-|[]] _. reflexivity.
        * intros a l [<-|[]] H. unfold last_opt in H. simpl in H. inversion H; subst. lia.
        * rewrite Hh in I5. destruct (o_pc s); try exact I; try contradiction; try exact I5. destruct I5 as [[] _].
        * unfold verdict in *. cbn [o_pc o_commit o_hist]. destruct (o_pc s) as [| | | | | | |[e|w'| |]]; try assumption.
          destruct (o_commit s) as [[[b|] a]|]; try assumption.
          destruct I6 as [b [Hb _]]. rewrite Hh in Hb. contradiction.
      + assert (Hk' : key_eqb (r_key w) k = false) by (destruct (key_eqb_spec (r_key w) k); congruence).
        constructor; cbn [o_store o_pc o_hist o_commit hist_add]; rewrite ?Hk'; try assumption.
        rewrite Hst. destruct (key_eqb_spec k (r_key w)); [congruence | exact I1].
    - (* an update *)
      destruct (key_eqb_spec (r_key w) k) as [Ek|Ek].
      + rewrite Ek in Hg. assert (Hl : last_opt (o_hist s) = Some cur) by (rewrite <- I1; exact Hg).
        assert (Hcin : In cur (o_hist s)) by (apply last_opt_In; exact Hl).
        destruct (I2 cur Hcin) as [_ [vc Hvc]].
        assert (Hvw : r_ver w = Some (vc + 1)).
        { rewrite Hw. cbn [with_ver_times r_ver]. rewrite <- Hvx, Hvc. unfold ver_next.
          f_equal. apply N.mod_small. apply (Hnw cur vc Hg Hvc). }
        destruct (hist_snoc_inv (o_hist s) cur w I2 I3 (fun x Hx => I4 x cur Hx Hl) (or_introl Hcin) Ek
                                (ex_intro _ _ Hvw) ltac:(unfold vnum; rewrite Hvc, Hvw; lia)) as [J2 [J3 J4]].
        assert (Hkt : key_eqb (r_key w) k = true) by (rewrite Ek; apply key_eqb_refl).
        constructor; cbn [o_store o_pc o_hist o_commit hist_add]; rewrite ?Hkt.
        * rewrite Hst, <- Ek, key_eqb_refl, last_opt_snoc. reflexivity.
        * exact J2.
        * exact J3.
        * intros a l Ha Hla. rewrite last_opt_snoc in Hla. inversion Hla; subst. apply J4. exact Ha.
        * destruct (o_pc s); try exact I; try contradiction; try exact I5. destruct I5 as [A B]. split; [apply in_or_app; left; exact A | exact B].
        * unfold verdict in *. cbn [o_pc o_commit o_hist]. destruct (o_pc s) as [| | | | | | |[e|w'| |]]; try assumption.
          destruct (o_commit s) as [[[b|] a]|]; try assumption.
          destruct I6 as [b [Hb Hc]]. exists b. split; [apply in_or_app; left; exact Hb | exact Hc].
      + assert (Hk' : key_eqb (r_key w) k = false) by (destruct (key_eqb_spec (r_key w) k); congruence).
        constructor; cbn [o_store o_pc o_hist o_commit hist_add]; rewrite ?Hk'; try assumption.
        rewrite Hst. destruct (key_eqb_spec k (r_key w)); [congruence | exact I1].
    - (* a destroy of another key *)
      simpl in Henv. constructor; cbn [o_store o_pc o_hist o_commit hist_add]; try assumption.
      rewrite Hst. destruct (key_eqb_spec k k0); [congruence | exact I1].
  Qed.

  (* installing a new pc without touching store, history or commit *)
  Lemma OInv_set_pc s pc' :
    OInv s -> o_commit s = None ->
    match pc' with
    | P0 | PU _ _ => True
    | PDone (HFail _) => True
    | PDone (HOk w) => exists b, In b (o_hist s) /\ (w = b \/ (mutate (h_mut c) b = Some w /\ res_equal b w = true))
    | PUpd _ _ cur new => In cur (o_hist s) /\ mutate (h_mut c) cur = Some new
    | PCreate new => match h_kind c with KModify e => mutate (h_mut c) e = Some new | _ => False end
    | _ => False
    end ->
    OInv (mkO (o_store s) pc' (o_hist s) (o_commit s)).
  Proof.
    intros [I1 I2 I3 I4 I5 I6] Hc Hpc. constructor; cbn [o_store o_pc o_hist o_commit]; try assumption.
    - destruct pc' as [| | | | | | |[e|w| |]]; try exact I; try exact Hpc; try contradiction.
    - unfold verdict. cbn [o_pc o_commit o_hist]. rewrite Hc.
      destruct pc' as [| | | | | | |[e|w| |]]; try reflexivity; try exact Hpc; try contradiction.
  Qed.

  Lemma pc_commit_none s : OInv s -> match o_pc s with PDone _ => True | _ => o_commit s = None end.
  Proof.
    intros HI. pose proof (oi_verdict _ HI) as V. pose proof (oi_pc _ HI) as P. unfold verdict in V.
    destruct (o_pc s) as [| | | | | | |r]; try exact V; exact I.
  Qed.

  Lemma OInv_thread s now :
    OInv s -> nowrap s -> OInv (ostep s (OThread now)).
  Proof.
    intros HI Hnw. pose proof HI as [I1 I2 I3 I4 I5 I6]. pose proof (pc_commit_none s HI) as Hcn.
    unfold ostep. destruct (o_pc s) as [|owner exp|owner exp cur new|new| | | |r] eqn:Epc; cbn [request].
    - (* P0: the helper's first Get *)
      assert (Hq : request c P0 = QGet k).
      { unfold request. destruct (h_kind c); try reflexivity; contradiction. }
      cbn [request] in Hq. rewrite Hq.
      rewrite <- Epc. replace (o_commit s) with (o_commit s) by reflexivity.
      assert (G : forall pc', match pc' with
                | P0 | PU _ _ => True
                | PDone (HFail _) => True
                | PDone (HOk w) => exists b, In b (o_hist s) /\ (w = b \/ (mutate (h_mut c) b = Some w /\ res_equal b w = true))
                | PUpd _ _ cur new => In cur (o_hist s) /\ mutate (h_mut c) cur = Some new
                | PCreate new => match h_kind c with KModify e => mutate (h_mut c) e = Some new | _ => False end
                | _ => False end -> OInv (mkO (o_store s) pc' (o_hist s) (o_commit s)))
        by (intros pc' H; apply OInv_set_pc; assumption).
      apply G. rewrite Epc. cbn [resume].
      destruct (h_kind c) as [| | |e| | |] eqn:Ek; try contradiction.
      + destruct (st_get k (o_store s)) as [cur|] eqn:Eg; [|exact I].
        pose proof (uwc_after_get_shape (h_owner c) (h_exp c) cur) as Hs.
        destruct (uwc_after_get c (h_owner c) (h_exp c) cur) as [| | | | | | |[e|w| |]]; try contradiction; try exact I.
        * destruct Hs as [-> Hm]. split; [eapply get_in_hist; eauto | exact Hm].
        * exists cur. split; [eapply get_in_hist; eauto | right; exact Hs].
      + destruct (st_get k (o_store s)) as [cur|] eqn:Eg; [|exact I].
        destruct (r_phase cur); [|exact I]. unfold after_commit. rewrite Ek.
        exists cur. split; [eapply get_in_hist; eauto | left; reflexivity].
      + destruct (st_get k (o_store s)) as [cur|] eqn:Eg; exact I.
      + destruct (st_get k (o_store s)) as [cur|] eqn:Eg; [exact I|].
        destruct (mutate (h_mut c) e) as [new|] eqn:Em; [|exact I]. reflexivity.
    - (* PU: the Get of UpdateWithConflicts *)
      rewrite <- Epc.
      assert (G : forall pc', match pc' with
                | P0 | PU _ _ => True
                | PDone (HFail _) => True
                | PDone (HOk w) => exists b, In b (o_hist s) /\ (w = b \/ (mutate (h_mut c) b = Some w /\ res_equal b w = true))
                | PUpd _ _ cur new => In cur (o_hist s) /\ mutate (h_mut c) cur = Some new
                | PCreate new => match h_kind c with KModify e => mutate (h_mut c) e = Some new | _ => False end
                | _ => False end -> OInv (mkO (o_store s) pc' (o_hist s) (o_commit s)))
        by (intros pc' H; apply OInv_set_pc; assumption).
      apply G. rewrite Epc. cbn [resume]. fold k.
      destruct (st_get k (o_store s)) as [cur|] eqn:Eg; [|exact I].
      pose proof (uwc_after_get_shape owner exp cur) as Hs.
      destruct (uwc_after_get c owner exp cur) as [| | | | | | |[e|w| |]]; try contradiction; try exact I.
      + destruct Hs as [-> Hm]. split; [eapply get_in_hist; eauto | exact Hm].
      + rewrite after_commit_done. exists cur. split; [eapply get_in_hist; eauto | right; exact Hs].
    - (* PUpd: the Update *)
      destruct I5 as [Hcin Hmut]. destruct (mutate_preserves _ _ _ Hmut) as [Hk [Hv [Ho Hcr]]].
      destruct (I2 cur Hcin) as [Hck [vc Hvc]].
      destruct (apply now (OpUpdate new owner exp) (o_store s)) as [[st' r] ev] eqn:Ea.
      destruct (apply_shape _ _ _ _ _ _ Ea) as [[-> [-> [Hnw1 Hnw2]]] | [[w [_ [_ [_ [_ [[x [ow [Hx _]]] _]]]]]] | [[w [cur' [-> [-> [Hg [[x [ow [ex [Hx [Hvx Hw]]]]] Hst]]]]]] | [cur' [k0 [ow [Hx _]]]]]]]; try discriminate.
      + (* the update failed: retry on a plain conflict, otherwise give up; nothing was written *)
        cbn [resume hist_add]. destruct r as [e| |w| |]; try (exfalso; apply (Hnw1 w); reflexivity); try (exfalso; apply Hnw2; reflexivity).
        * destruct (plain_conflict e).
          -- replace (mkO (o_store s) (PU owner exp) (o_hist s) (o_commit s)) with (mkO (o_store s) (PU owner exp) (o_hist s) (o_commit s)) by reflexivity.
             apply OInv_set_pc; [exact HI | exact Hcn | exact I].
          -- apply OInv_set_pc; [exact HI | exact Hcn | exact I].
        * rewrite <- Epc. destruct s; simpl in *. subst. exact HI.
        * rewrite <- Epc. destruct s; simpl in *. subst. exact HI.
      + (* the update succeeded: the value it replaced is the value the mutator was applied to *)
        injection Hx as <- <- <-.
        assert (Hkw : r_key w = k) by (rewrite Hw; unfold r_key in *; simpl; rewrite <- Hck, <- Hk; reflexivity).
        rewrite Hkw in Hg.
        assert (Hl : last_opt (o_hist s) = Some cur') by (rewrite <- I1; exact Hg).
        assert (Hc'in : In cur' (o_hist s)) by (apply last_opt_In; exact Hl).
        assert (Heq : cur = cur') by (apply I3; [exact Hcin | exact Hc'in | congruence]).
        subst cur'.
        assert (Hvw : r_ver w = Some (vc + 1)).
        { rewrite Hw. cbn [with_ver_times r_ver]. rewrite Hv, Hvc. unfold ver_next. f_equal.
          apply N.mod_small. apply (Hnw cur vc Hg Hvc). }
        destruct (hist_snoc_inv (o_hist s) cur w I2 I3 (fun x Hx => I4 x cur Hx Hl) (or_introl Hcin) Hkw
                                (ex_intro _ _ Hvw) ltac:(unfold vnum; rewrite Hvc, Hvw; lia)) as [J2 [J3 J4]].
        assert (Hkt : key_eqb (r_key w) k = true) by (rewrite Hkw; apply key_eqb_refl).
        cbn [resume hist_add ev_res]. rewrite after_commit_done, Hkt.
        constructor; cbn [o_store o_pc o_hist o_commit].
        * rewrite Hst, <- Hkw, key_eqb_refl, last_opt_snoc. reflexivity.
        * exact J2.
        * exact J3.
        * intros a l Ha Hla. rewrite last_opt_snoc in Hla. inversion Hla; subst l. apply J4. exact Ha.
        * exact I.
        * unfold verdict. cbn [o_pc o_commit]. fold k. rewrite Hg. split; [reflexivity|].
          exists new, now. split; [exact Hmut|]. rewrite Hw. rewrite Hv. reflexivity.
    - (* PCreate: Modify's Create *)
      destruct (apply now (OpCreate new (h_owner c)) (o_store s)) as [[st' r] ev] eqn:Ea.
      destruct (h_kind c) as [| | |e| | |] eqn:Ekd; try contradiction.
      destruct (mutate_preserves _ _ _ I5) as [Hk [Hv [Ho Hcr]]].
      destruct (apply_shape _ _ _ _ _ _ Ea) as [[-> [-> [Hnw1 Hnw2]]] | [[w [-> [-> [Hn [Hvw [[x [ow [Hx [Hkx [Hox [Hcx [Hsx Hfx]]]]]]] Hst]]]]]] | [[w [cur' [_ [_ [_ [[x [ow [ex [Hx _]]]] _]]]]]] | [cur' [k0 [ow [Hx _]]]]]]]; try discriminate.
      + cbn [resume hist_add]. destruct r as [er| |w| |]; try (exfalso; apply (Hnw1 w); reflexivity); try (exfalso; apply Hnw2; reflexivity).
        * apply OInv_set_pc; [exact HI | exact Hcn | exact I].
        * rewrite <- Epc. destruct s; simpl in *. subst. exact HI.
        * rewrite <- Epc. destruct s; simpl in *. subst. exact HI.
      + injection Hx as <- <-.
        assert (Hkw : r_key w = k) by (rewrite Hkx, Hk; exact Hkind).
        rewrite Hkw in Hn.
        assert (Hh : o_hist s = []) by (apply last_opt_nil; rewrite <- I1; exact Hn).
        assert (Hkt : key_eqb (r_key w) k = true) by (rewrite Hkw; apply key_eqb_refl).
        cbn [resume hist_add ev_res]. rewrite Hkt, Hh. cbn [app].
        constructor; cbn [o_store o_pc o_hist o_commit].
        * rewrite Hst, <- Hkw, key_eqb_refl. reflexivity.
        * intros y [<-|[]]. split; [exact Hkw | eauto].
        * intros a b [<-|[]] [<-|[]] _. reflexivity.
        * intros a l [<-|[]] H. unfold last_opt in H. simpl in H. inversion H; subst. lia.
        * exact I.
        * unfold verdict. cbn [o_pc o_commit]. fold k. rewrite Hn, Ekd. split; [reflexivity|].
          exists new, now. repeat split; assumption.
    - contradiction.
    - contradiction.
    - contradiction.
    - (* finished: no further steps *)
      exact HI.
  Qed.

  (* ---- the atomicity theorem ------------------------------------------------------------------ *)

  Theorem rmw_atomic s0 sched :
    (forall r, st_get k s0 = Some r -> exists v, r_ver r = Some v) ->
    run_ok (o_init s0) sched ->
    verdict (fold_left ostep sched (o_init s0)).
  Proof.
    intros Hv Hrun.
    assert (G : forall sched s, OInv s -> run_ok s sched -> OInv (fold_left ostep sched s)).
    { induction sched0 as [|ch rest IH]; intros s HI Hr; simpl; [exact HI|].
      destruct Hr as [He [Hn Hr]]. apply IH; [|exact Hr].
      destruct ch as [now|now o]; [apply OInv_thread; assumption | apply OInv_env; assumption]. }
    apply oi_verdict. apply G; [apply OInv_init; exact Hv | exact Hrun].
  Qed.

  (* owner and phase conflicts are never retried into success *)
  Theorem no_retry_on_owner_or_phase owner exp cur new e :
    (is_owner_conflict e = true \/ is_phase_conflict e = true) ->
    resume c (PUpd owner exp cur new) (SRes (RErr e)) = PDone (HFail (HEStore e)).
  Proof.
    intros H. cbn [resume]. unfold plain_conflict.
    destruct H as [H|H]; rewrite H; simpl; rewrite ?andb_false_r; reflexivity.
  Qed.
End RMW.

(* ---- C03: lifecycle helpers ----------------------------------------------------------------- *)

(* Teardown computes its ready flag from the finalizer set of the value its marking write replaced
   (the set at the instant the teardown took effect) or, when it wrote nothing, of a value the
   resource actually held when the call looked at it *)
Theorem teardown_ready_sound c s0 sched w :
  h_kind c = KTeardown -> h_mut c = MSetTD ->
  (forall r, st_get (h_key c) s0 = Some r -> exists v, r_ver r = Some v) ->
  run_ok c (o_init c s0) sched ->
  let s := fold_left (ostep c) sched (o_init c s0) in
  o_pc s = PDone (HOk w) ->
  match o_commit s with
  | Some (Some b, a) => a = w /\ r_fins w = r_fins b /\ r_phase w = true
  | Some (None, _) => False
  | None => exists b, In b (o_hist s) /\ r_fins w = r_fins b
  end.
Proof.
  intros Hk Hm Hv Hrun s Hpc.
  assert (Hkind : match h_kind c with KUwc | KTeardown | KFin => True | KModify e => r_key e = h_key c | _ => False end)
    by (rewrite Hk; exact I).
  pose proof (rmw_atomic c Hkind s0 sched Hv Hrun) as V. fold s in V. unfold verdict in V. rewrite Hpc in V.
  destruct (o_commit s) as [[[b|] a]|].
  - destruct V as [-> [new [now [Hmu ->]]]]. rewrite Hm in Hmu. simpl in Hmu. inversion Hmu; subst new.
    split; [reflexivity|]. split; reflexivity.
  - destruct V as [_ F]. rewrite Hk in F. exact F.
  - destruct V as [b [Hb [->|[Hmu He]]]]; exists b; (split; [exact Hb|]); [reflexivity|].
    rewrite Hm in Hmu. simpl in Hmu. inversion Hmu; subst w. reflexivity.
Qed.

(* TeardownAndDestroy returns success only when its own Destroy committed or a Destroyed event for the
   resource was delivered to it *)
Theorem tad_success_means_gone c pc rsp :
  h_kind c = KTeardownAndDestroy ->
  resume c pc rsp = PDone HGone -> pc <> PDone HGone ->
  (pc = PDestroy /\ rsp = SRes ROk) \/ (pc = PRecv /\ exists d, rsp = SEv (HvDestroyed d)).
Proof.
  intros Hk H Hne. destruct pc as [|owner exp|owner exp cur new|new| | | |r]; cbn [resume] in H; rewrite ?Hk in H.
  - destruct rsp as [g|r| |e]; try congruence. destruct g as [cur|]; [|discriminate].
    destruct (r_phase cur); [|discriminate]. unfold after_commit in H. rewrite Hk in H. destruct (r_fins cur); discriminate.
  - destruct rsp as [g|r| |e]; try congruence. destruct g as [cur|]; [|discriminate].
    unfold uwc_after_get in H.
    destruct (match exp with Some p => negb (Bool.eqb p (r_phase cur)) | None => false end); [discriminate|].
    destruct (mutate (h_mut c) cur) as [n|]; [|discriminate].
    destruct (res_equal cur n); [|discriminate]. unfold after_commit in H. rewrite Hk in H. destruct (r_fins n); discriminate.
  - destruct rsp as [g|r| |e]; try congruence. destruct r as [e| |w| |]; try congruence.
    + destruct (plain_conflict e); discriminate.
    + unfold after_commit in H. rewrite Hk in H. destruct (r_fins w); discriminate.
  - destruct rsp as [g|r| |e]; try congruence. destruct r; congruence.
  - destruct rsp as [g|r| |e]; try congruence. destruct r; try congruence. left. split; reflexivity.
  - destruct rsp; congruence.
  - destruct rsp as [g|r| |e]; try congruence. right. split; [reflexivity|].
    destruct e as [x|x|d|]; try (destruct (r_fins x); discriminate); try discriminate. exists d. reflexivity.
  - congruence.
Qed.

(* ... and it keeps waiting exactly while every delivered state still holds a finalizer *)
Theorem tad_wait_step c e :
  h_kind c = KTeardownAndDestroy ->
  resume c PRecv (SEv e) =
  match e with
  | HvDestroyed _ => PDone HGone
  | HvCreated r | HvUpdated r => match r_fins r with [] => PDestroy | _ => PRecv end
  | HvErrored => PDone (HFail HEWatch)
  end.
Proof. intros Hk. cbn [resume]. rewrite Hk. reflexivity. Qed.

Lemma set_nth_same {A} (l : list A) i x y : nth_error l i = Some y -> nth_error (set_nth i x l) i = Some x.
Proof.
  revert i; induction l as [|z l IH]; intros [|i] H; simpl in *; try discriminate; [reflexivity | apply IH; exact H].
Qed.

(* the subscription captures the current state atomically: the first event a blocked helper sees is
   the state at call time (so a change between marking and waiting cannot be missed) *)
Theorem watch_initial_is_current s i t now :
  nth_error (sy_threads s) i = Some t -> request (th_call t) (th_pc t) = QWatch (h_key (th_call t)) ->
  exists t', nth_error (sy_threads (sys_step s (CThread i now))) i = Some t' /\
             th_watch t' = Some [match st_get (h_key (th_call t)) (sy_store s) with
                                 | Some cur => HvCreated cur | None => HvDestroyed None end] /\
             sy_store (sys_step s (CThread i now)) = sy_store s.
Proof.
  intros Hn Hq. unfold sys_step. rewrite Hn, Hq. cbn [sy_threads sy_store].
  eexists. split; [apply (set_nth_same _ _ _ _ Hn)|]. split; reflexivity.
Qed.

(* every later committed change of the watched resource is appended, in commit order, to the queue of
   every subscribed helper; changes of other resources are not *)
Theorem notify_appends ev ths i t q :
  nth_error ths i = Some t -> th_watch t = Some q ->
  exists t', nth_error (notify ev ths) i = Some t' /\ th_call t' = th_call t /\ th_pc t' = th_pc t /\
             th_watch t' = Some (q ++ match ev with
                                      | Some e => if key_eqb (h_key (th_call t)) (r_key (ev_res e)) then [hev_of_event e] else []
                                      | None => []
                                      end).
Proof.
  intros Hn Hw. unfold notify. destruct ev as [e|].
  - rewrite nth_error_map, Hn. cbn [option_map]. rewrite Hw.
    destruct (key_eqb (h_key (th_call t)) (r_key (ev_res e))).
    + eexists. split; [reflexivity|]. repeat split.
    + exists t. rewrite app_nil_r. repeat split; assumption.
  - exists t. rewrite app_nil_r. repeat split; assumption.
Qed.

(* WatchFor returns at the first delivered state satisfying its condition, and only then *)
Theorem watchfor_first c fe ph et e :
  h_kind c = KWatchFor fe ph et ->
  (watchfor_matches fe ph et e = true -> exists r, resume c PRecv (SEv e) = PDone r /\ r <> HFail HEWatch) /\
  (watchfor_matches fe ph et e = false -> resume c PRecv (SEv e) = PRecv).
Proof.
  intros Hk. cbn [resume]. rewrite Hk. split; intros H; rewrite H; [|reflexivity].
  destruct e as [x|x|[x|]|]; eexists; split; try reflexivity; discriminate.
Qed.

(* a teardown-bound context is cancelled iff the resource is, or becomes, tearing down, destroyed or
   absent, or the watch fails *)
Theorem ctx_teardown_iff c e :
  h_kind c = KCtxTeardown ->
  resume c PRecv (SEv e) = PDone HCancelled <->
  match e with
  | HvCreated r | HvUpdated r => r_phase r = true
  | HvDestroyed _ => True
  | HvErrored => True
  end.
Proof.
  intros Hk. cbn [resume]. rewrite Hk. destruct e as [x|x|d|]; try tauto;
    (destruct (r_phase x); split; intros H; try reflexivity; try discriminate).
Qed.
