(* KeyStorage.v — pkg/keystorage/keystorage.go: master key wrapped per slot by a public-key scheme, integrity tag =
   HMAC(master key, concatenation of the slots' encrypted blobs in sorted slot-id order).
   The public-key scheme and the MAC are section variables; their specification is stated as hypotheses in
   KeyStorageProofs (OpenPGP and HMAC-SHA256 are trusted libraries). *)
From Coq Require Export List NArith Bool Lia.
Export ListNotations.
Open Scope N_scope.

Definition bytes := list N.
Definition sid := N.                       (* slot ids: atoms, ordered like the strings they stand for; 0 = "" *)

Section KS.
  Variable keypair : Type.                 (* a key pair; the public half encrypts, the private half decrypts *)
  Variable enc : keypair -> N -> bytes -> bytes.         (* recipient, randomness, master key -> armored blob *)
  Variable dec : keypair -> bytes -> option bytes.
  Variable mac : bytes -> bytes -> bytes.                (* key, message -> tag *)

  Record slot := mkSlot { s_alg : N; s_blob : bytes }.   (* algorithm 1 = PGP_AES_GCM_256 *)

  Record storage := mkSt {
    st_ver : N;                            (* 0 unspecified, 1 = STORAGE_VERSION_1 *)
    st_slots : list (sid * slot);          (* the map, kept sorted by id (hashSlots sorts the keys) *)
    st_hmac : bytes
  }.

  Definition empty : storage := mkSt 0 [] [].

  Definition is_zero (s : storage) : bool :=
    N.eqb (st_ver s) 0 && match st_slots s with [] => true | _ => false end && match st_hmac s with [] => true | _ => false end.

  Fixpoint lookup (i : sid) (l : list (sid * slot)) : option slot :=
    match l with
    | [] => None
    | (j, x) :: t => if N.eqb i j then Some x else lookup i t
    end.

  Fixpoint insert (i : sid) (x : slot) (l : list (sid * slot)) : list (sid * slot) :=
    match l with
    | [] => [(i, x)]
    | (j, y) :: t => if N.ltb i j then (i, x) :: (j, y) :: t else if N.eqb i j then (i, x) :: t else (j, y) :: insert i x t
    end.

  Fixpoint remove (i : sid) (l : list (sid * slot)) : list (sid * slot) :=
    match l with
    | [] => []
    | (j, y) :: t => if N.eqb i j then t else (j, y) :: remove i t
    end.

  (* hashSlots: the blobs of all slots in sorted id order, concatenated *)
  Definition concat_blobs (l : list (sid * slot)) : bytes := flat_map (fun p => s_blob (snd p)) l.
  Definition hash_slots (mk : bytes) (s : storage) : bytes := mac mk (concat_blobs (st_slots s)).

  Fixpoint bytes_eqb (a b : bytes) : bool :=
    match a, b with
    | [], [] => true
    | x :: a', y :: b' => N.eqb x y && bytes_eqb a' b'
    | _, _ => false
    end.

  Inductive kerr :=
  | EArg                 (* plain argument errors (empty id / key, wrong master key length) *)
  | ENotInitialized | EAlreadyInitialized | ESlotExists | ESlotNotFound | EVersionMismatch
  | EHMACMismatch | EAlgorithmMismatch | EDecrypt | ELastKey.

  (* getKey; a private key is present iff priv = Some kp *)
  Definition get_key (s : storage) (i : sid) (priv : option keypair) : kerr + bytes :=
    if N.eqb i 0 then inl EArg
    else match priv with
         | None => inl EArg
         | Some kp =>
             if is_zero s then inl ENotInitialized
             else if negb (N.eqb (st_ver s) 1) then inl EVersionMismatch
             else match lookup i (st_slots s) with
                  | None => inl ESlotNotFound
                  | Some x =>
                      if negb (N.eqb (s_alg x) 1) then inl EAlgorithmMismatch
                      else match dec kp (s_blob x) with
                           | None => inl EDecrypt
                           | Some mk => if bytes_eqb (hash_slots mk s) (st_hmac s) then inr mk else inl EHMACMismatch
                           end
                  end
         end.

  Inductive kop :=
  | KInit (mk : bytes) (i : sid) (pub : option keypair) (rnd : N)
  | KAdd (new : sid) (pub : option keypair) (rnd : N) (old : sid) (priv : option keypair)
  | KDelete (i : sid) (priv : option keypair)
  | KGet (i : sid) (priv : option keypair)
  | KReload.             (* MarshalBinary followed by UnmarshalBinary into a fresh object *)

  Inductive kres := KOk | KKey (mk : bytes) | KErr (e : kerr).

  Definition with_hmac (s : storage) (mk : bytes) : storage :=
    mkSt (st_ver s) (st_slots s) (mac mk (concat_blobs (st_slots s))).

  Definition kstep (s : storage) (o : kop) : storage * kres :=
    match o with
    | KInit mk i pub rnd =>
        if negb (Nat.eqb (length mk) 32) then (s, KErr EArg)
        else if N.eqb i 0 then (s, KErr EArg)
        else match pub with
             | None => (s, KErr EArg)
             | Some kp =>
                 if negb (is_zero s) then (s, KErr EAlreadyInitialized)
                 else (with_hmac (mkSt 1 [(i, mkSlot 1 (enc kp rnd mk))] []) mk, KOk)
             end
    | KAdd new pub rnd old priv =>
        if N.eqb new 0 then (s, KErr EArg)
        else match pub with
             | None => (s, KErr EArg)
             | Some kp =>
                 match lookup new (st_slots s) with
                 | Some _ => (s, KErr ESlotExists)
                 | None =>
                     match get_key s old priv with
                     | inl e => (s, KErr e)
                     | inr mk => (with_hmac (mkSt (st_ver s) (insert new (mkSlot 1 (enc kp rnd mk)) (st_slots s)) (st_hmac s)) mk, KOk)
                     end
                 end
             end
    | KDelete i priv =>
        match st_slots s with
        | [] => (s, KErr ENotInitialized)
        | [_] => (s, KErr ELastKey)
        | _ =>
            match get_key s i priv with
            | inl e => (s, KErr e)
            | inr mk => (with_hmac (mkSt (st_ver s) (remove i (st_slots s)) (st_hmac s)) mk, KOk)
            end
        end
    | KGet i priv =>
        match get_key s i priv with inl e => (s, KErr e) | inr mk => (s, KKey mk) end
    | KReload =>
        if N.eqb (st_ver s) 1 then (s, KOk) else (s, KErr EVersionMismatch)
    end.

  Definition krun (s : storage) (ops : list kop) : storage := fold_left (fun s o => fst (kstep s o)) ops s.
End KS.
