(* KeyStorageCheck.v — replay operation sequences and corruptions of the real key storage on the model (toy primitives;
   only results are compared: success / which error, and whether a retrieved key is the original master key). *)
From Verif Require Import KeyStorage KeyStorageProofs.
Open Scope N_scope.

Notation st := KeyStorage.storage.

Inductive tamper :=
| TNone
| TBlob (i : sid) (b : bytes)        (* replace the blob of slot i *)
| TRemove (i : sid)
| TAdd (i : sid) (alg : N) (b : bytes)
| TAddCopy (i j : sid)               (* new slot i carrying a copy of slot j's blob *)
| TRename (i j : sid)
| TShift (i j : sid)                 (* move the last byte of blob i to the front of blob j *)
| THmac (b : bytes)
| THmacFlip                          (* alter one byte of the tag *)
| TVer (v : N)
| TAlg (i : sid) (a : N).

Definition map_slot (i : sid) (f : slot -> slot) (l : list (sid * slot)) : list (sid * slot) :=
  map (fun p => if N.eqb (fst p) i then (fst p, f (snd p)) else p) l.

Fixpoint sort_insert (p : sid * slot) (l : list (sid * slot)) : list (sid * slot) :=
  match l with
  | [] => [p]
  | q :: t => if N.leb (fst p) (fst q) then p :: q :: t else q :: sort_insert p t
  end.
Definition sort_slots (l : list (sid * slot)) : list (sid * slot) := fold_right sort_insert [] l.

Definition apply_tamper (t : tamper) (s : st) : st :=
  match t with
  | TNone => s
  | TBlob i b => mkSt (st_ver s) (map_slot i (fun x => mkSlot (s_alg x) b) (st_slots s)) (st_hmac s)
  | TRemove i => mkSt (st_ver s) (remove i (st_slots s)) (st_hmac s)
  | TAdd i a b => mkSt (st_ver s) (insert i (mkSlot a b) (st_slots s)) (st_hmac s)
  | TAddCopy i j =>
      match lookup j (st_slots s) with
      | Some x => mkSt (st_ver s) (insert i x (st_slots s)) (st_hmac s)
      | None => s
      end
  | TRename i j =>
      mkSt (st_ver s) (sort_slots (map (fun p => if N.eqb (fst p) i then (j, snd p) else p) (st_slots s))) (st_hmac s)
  | TShift i j =>
      match lookup i (st_slots s), lookup j (st_slots s) with
      | Some x, Some y =>
          match rev (s_blob x) with
          | c :: r =>
              mkSt (st_ver s)
                   (map_slot j (fun z => mkSlot (s_alg z) (c :: s_blob y)) (map_slot i (fun z => mkSlot (s_alg z) (rev r)) (st_slots s)))
                   (st_hmac s)
          | [] => s
          end
      | _, _ => s
      end
  | THmac b => mkSt (st_ver s) (st_slots s) b
  | THmacFlip => mkSt (st_ver s) (st_slots s) (match st_hmac s with c :: r => (c + 1) :: r | [] => [1] end)
  | TVer v => mkSt v (st_slots s) (st_hmac s)
  | TAlg i a => mkSt (st_ver s) (map_slot i (fun x => mkSlot a (s_blob x)) (st_slots s)) (st_hmac s)
  end.

(* observed results *)
Inductive obs := OOk | OKey (is_master : bool) | OErr (e : kerr) | OErrOther.

Definition kerr_eqb (a b : kerr) : bool :=
  match a, b with
  | EArg, EArg | ENotInitialized, ENotInitialized | EAlreadyInitialized, EAlreadyInitialized | ESlotExists, ESlotExists
  | ESlotNotFound, ESlotNotFound | EVersionMismatch, EVersionMismatch | EHMACMismatch, EHMACMismatch
  | EAlgorithmMismatch, EAlgorithmMismatch | EDecrypt, EDecrypt | ELastKey, ELastKey => true
  | _, _ => false
  end.

Definition res_match (master : bytes) (r : kres) (o : obs) : bool :=
  match r, o with
  | KOk, OOk => true
  | KKey k, OKey b => Bool.eqb (KeyStorage.bytes_eqb k master) b
  | KErr e, OErr e' => kerr_eqb e e'
  | KErr EArg, OErrOther => true
  | _, _ => false
  end.

Fixpoint run_ops (master : bytes) (s : st) (ops : list (kop N * obs)) : option st :=
  match ops with
  | [] => Some s
  | (o, ob) :: t =>
      let '(s', r) := kstep N toy_enc toy_dec toy_mac s o in
      if res_match master r ob then run_ops master s' t else None
  end.

(* after the corruption: retrieval through (slot, key pair) succeeded with the original master key? *)
Definition probe_ok (master : bytes) (s : st) (p : sid * N * bool) : bool :=
  let '(i, kp, succeeded) := p in
  match get_key N toy_dec toy_mac s i (Some kp) with
  | inr k => succeeded && KeyStorage.bytes_eqb k master
  | inl _ => negb succeeded
  end.

Definition kcase := (bytes * list (kop N * obs) * tamper * list (sid * N * bool) * list (kop N * obs))%type.

Definition kcase_ok (c : kcase) : bool :=
  let '(master, ops, t, probes, after) := c in
  match run_ops master empty ops with
  | None => false
  | Some s =>
      let s' := apply_tamper t s in
      forallb (probe_ok master s') probes &&
      match run_ops master s' after with Some _ => true | None => false end
  end.

Fixpoint mism_from {A} (f : A -> bool) (i : N) (l : list A) : list N :=
  match l with
  | [] => []
  | x :: t => if f x then mism_from f (N.succ i) t else i :: mism_from f (N.succ i) t
  end.
Definition ks_mismatches (cs : list kcase) : list N := mism_from kcase_ok 0 cs.
