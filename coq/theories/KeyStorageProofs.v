(* KeyStorageProofs.v — C20 for every operation sequence, slot-id set and key pairs. *)
From Verif Require Import KeyStorage.
From Coq Require Import Arith.
Open Scope N_scope.

Section Proofs.
  Variable keypair : Type.
  Variable enc : keypair -> N -> bytes -> bytes.
  Variable dec : keypair -> bytes -> option bytes.
  Variable mac : bytes -> bytes -> bytes.

  (* specification of the trusted primitives (idealised OpenPGP and HMAC) *)
  Hypothesis dec_enc : forall kp r m, dec kp (enc kp r m) = Some m.
  Hypothesis dec_enc_inv : forall kp kp0 r m m', dec kp (enc kp0 r m) = Some m' -> kp = kp0 /\ m' = m.
  Hypothesis enc_nonempty : forall kp r m, enc kp r m <> [].
  Hypothesis mac_inj : forall k m k' m', mac k m = mac k' m' -> k = k' /\ m = m'.
  Hypothesis mac_nonempty : forall k m, mac k m <> [].

  Notation slot := KeyStorage.slot.
  Notation storage := KeyStorage.storage.
  Notation get_key := (get_key keypair dec mac).
  Notation kstep := (kstep keypair enc dec mac).
  Notation krun := (krun keypair enc dec mac).
  Notation kop := (kop keypair).

  Lemma bytes_eqb_spec a b : bytes_eqb a b = true <-> a = b.
  Proof.
    revert b. induction a as [|x a IH]; intros [|y b]; simpl; split; intros H; try discriminate; try reflexivity.
    - apply andb_true_iff in H. destruct H as [H1 H2]. apply N.eqb_eq in H1. apply IH in H2. congruence.
    - inversion H; subst. rewrite N.eqb_refl. apply IH. reflexivity.
  Qed.

  (* ---- association-list facts ---- *)
  Lemma lookup_In i l x : lookup i l = Some x -> In (i, x) l.
  Proof.
    induction l as [|[j y] t IH]; simpl; [discriminate|]. destruct (N.eqb_spec i j) as [E|E].
    - intros H; inversion H; subst. left; reflexivity.
    - intros H. right. apply IH. exact H.
  Qed.
  Lemma In_lookup i l x : NoDup (map fst l) -> In (i, x) l -> lookup i l = Some x.
  Proof.
    induction l as [|[j y] t IH]; simpl; intros Hn Hi; [contradiction|]. inversion Hn as [|? ? Hnj Hnt]; subst.
    destruct Hi as [Hi|Hi].
    - inversion Hi; subst. rewrite N.eqb_refl. reflexivity.
    - destruct (N.eqb_spec i j) as [E|E]; [|apply IH; assumption].
      subst. exfalso. apply Hnj. apply (in_map fst) in Hi. exact Hi.
  Qed.
  Lemma lookup_None i l : lookup i l = None -> ~ In i (map fst l).
  Proof.
    induction l as [|[j y] t IH]; simpl; intros H; [tauto|]. destruct (N.eqb_spec i j) as [E|E]; [discriminate|].
    intros [C|C]; [congruence | apply IH; assumption].
  Qed.
  Lemma insert_In i x l p : In p (insert i x l) -> p = (i, x) \/ In p l.
  Proof.
    induction l as [|[j y] t IH]; simpl; [intros [H|[]]; left; symmetry; exact H|].
    destruct (N.ltb i j); [simpl; intros [H|H]; [left; symmetry; exact H | right; exact H]|].
    destruct (N.eqb i j); simpl; [intros [H|H]; [left; symmetry; exact H | right; right; exact H]|].
    intros [H|H]; [right; left; exact H|]. destruct (IH H) as [E|E]; [left; exact E | right; right; exact E].
  Qed.
  Lemma insert_keys i x l : ~ In i (map fst l) -> NoDup (map fst l) -> NoDup (map fst (insert i x l)).
  Proof.
    induction l as [|[j y] t IH]; simpl; intros Hi Hn; [constructor; [tauto | constructor]|].
    inversion Hn as [|? ? Hnj Hnt]; subst.
    destruct (N.ltb i j); [simpl; constructor; [simpl; tauto | exact Hn]|].
    destruct (N.eqb_spec i j) as [E|E]; [exfalso; apply Hi; left; symmetry; exact E|]. simpl. constructor.
    - intros C. apply in_map_iff in C. destruct C as [[k z] [Ek Hk]]. simpl in Ek. subst k.
      destruct (insert_In _ _ _ _ Hk) as [Hp|Hp]; [inversion Hp; subst; apply E; reflexivity|].
      apply Hnj. apply (in_map fst) in Hp. exact Hp.
    - apply IH; tauto.
  Qed.
  Lemma insert_nonempty i x l : insert i x l <> [].
  Proof. destruct l as [|[j y] t]; simpl; [discriminate|]. destruct (N.ltb i j); [discriminate|]. destruct (N.eqb i j); discriminate. Qed.
  Lemma remove_In i l p : In p (remove i l) -> In p l.
  Proof.
    induction l as [|[j y] t IH]; simpl; [tauto|]. destruct (N.eqb i j); [tauto|]. simpl. intros [H|H]; [tauto | right; apply IH; exact H].
  Qed.
  Lemma remove_keys i l : NoDup (map fst l) -> NoDup (map fst (remove i l)) /\ ~ In i (map fst (remove i l)).
  Proof.
    induction l as [|[j y] t IH]; simpl; intros Hn; [split; [constructor | tauto]|].
    inversion Hn as [|? ? Hnj Hnt]; subst. destruct (N.eqb_spec i j) as [E|E].
    - subst. split; assumption.
    - destruct (IH Hnt) as [A B]. simpl. split.
      + constructor; [|exact A]. intros C. apply Hnj. apply in_map_iff in C. destruct C as [[k z] [Ek Hk]].
        simpl in Ek. subst k. apply remove_In in Hk. apply (in_map fst) in Hk. exact Hk.
      + intros [C|C]; [congruence | tauto].
  Qed.
  Lemma remove_length i l x : lookup i l = Some x -> length l = S (length (remove i l)).
  Proof.
    induction l as [|[j y] t IH]; simpl; [discriminate|]. destruct (N.eqb i j); [reflexivity|].
    intros H. simpl. f_equal. apply IH. exact H.
  Qed.

  (* ---- the invariant of an initialised storage ---- *)
  Definition genuine (mk : bytes) (x : slot) : Prop := s_alg x = 1 /\ exists kp r, s_blob x = enc kp r mk.

  Definition KInv (mk : bytes) (s : storage) : Prop :=
    st_ver s = 1 /\ st_slots s <> [] /\ NoDup (map fst (st_slots s)) /\
    (forall i x, In (i, x) (st_slots s) -> i <> 0 /\ genuine mk x) /\
    st_hmac s = mac mk (concat_blobs (st_slots s)).

  Lemma KInv_not_zero mk s : KInv mk s -> is_zero s = false.
  Proof. intros [Hv _]. unfold is_zero. rewrite Hv. reflexivity. Qed.

  (* a live slot gives the master key back to the holder of the key pair it was sealed for, and to nobody else *)
  Theorem live_slot_recovers mk s i x kp r :
    KInv mk s -> lookup i (st_slots s) = Some x -> s_blob x = enc kp r mk ->
    get_key s i (Some kp) = inr mk.
  Proof.
    intros Hi Hl Hb. pose proof (KInv_not_zero _ _ Hi) as Hz. destruct Hi as [Hv [Hne [Hnd [Hg Hh]]]].
    destruct (Hg i x (lookup_In _ _ _ Hl)) as [Hi0 [Ha _]].
    unfold KeyStorage.get_key. destruct (N.eqb_spec i 0); [contradiction|].
    rewrite Hz, Hv. cbn [N.eqb Pos.eqb negb]. rewrite Hl, Ha. cbn [N.eqb Pos.eqb negb].
    rewrite Hb, dec_enc. unfold hash_slots. rewrite Hh.
    destruct (bytes_eqb _ _) eqn:E; [reflexivity|]. exfalso.
    assert (T : bytes_eqb (mac mk (concat_blobs (st_slots s))) (mac mk (concat_blobs (st_slots s))) = true) by (apply bytes_eqb_spec; reflexivity).
    congruence.
  Qed.

  Theorem other_keypair_fails mk s i x kp kp' r :
    KInv mk s -> lookup i (st_slots s) = Some x -> s_blob x = enc kp r mk -> kp' <> kp ->
    exists e, get_key s i (Some kp') = inl e.
  Proof.
    intros Hi Hl Hb Hk. pose proof (KInv_not_zero _ _ Hi) as Hz. destruct Hi as [Hv [Hne [Hnd [Hg Hh]]]].
    destruct (Hg i x (lookup_In _ _ _ Hl)) as [Hi0 [Ha _]].
    unfold KeyStorage.get_key. destruct (N.eqb_spec i 0); [contradiction|].
    rewrite Hz, Hv. cbn [N.eqb Pos.eqb negb]. rewrite Hl, Ha. cbn [N.eqb Pos.eqb negb]. rewrite Hb.
    destruct (dec kp' (enc kp r mk)) as [m'|] eqn:D; [|eauto].
    destruct (dec_enc_inv _ _ _ _ _ D) as [C _]. contradiction.
  Qed.

  Theorem absent_slot_fails s i priv : lookup i (st_slots s) = None -> exists e, get_key s i priv = inl e.
  Proof.
    intros Hl. unfold KeyStorage.get_key. destruct (N.eqb i 0); [eauto|]. destruct priv; [|eauto].
    destruct (is_zero s); [eauto|]. destruct (negb (N.eqb (st_ver s) 1)); [eauto|]. rewrite Hl. eauto.
  Qed.

  (* whatever getKey returns on an initialised storage is the original master key *)
  Lemma get_key_is_master mk s i priv k : KInv mk s -> get_key s i priv = inr k -> k = mk.
  Proof.
    intros [Hv [Hne [Hnd [Hg Hh]]]]. unfold KeyStorage.get_key.
    destruct (N.eqb i 0); [discriminate|]. destruct priv as [kp|]; [|discriminate].
    destruct (is_zero s); [discriminate|]. destruct (negb (N.eqb (st_ver s) 1)); [discriminate|].
    destruct (lookup i (st_slots s)) as [x|] eqn:Hl; [|discriminate].
    destruct (negb (N.eqb (s_alg x) 1)); [discriminate|].
    destruct (Hg i x (lookup_In _ _ _ Hl)) as [_ [_ [kp0 [r Hb]]]]. rewrite Hb.
    destruct (dec kp (enc kp0 r mk)) as [m'|] eqn:D; [|discriminate].
    destruct (dec_enc_inv _ _ _ _ _ D) as [_ ->].
    destruct (bytes_eqb _ _); [|discriminate]. intros H; inversion H; reflexivity.
  Qed.

  (* ---- every operation keeps the invariant with the SAME master key ---- *)
  Lemma step_inv mk s o : KInv mk s -> KInv mk (fst (kstep s o)).
  Proof.
    intros Hi. pose proof (KInv_not_zero _ _ Hi) as Hz. destruct o as [mk' i pub rnd|new pub rnd old priv|i priv|i priv|]; cbn [KeyStorage.kstep].
    - destruct (negb (Nat.eqb (length mk') 32)); [exact Hi|]. destruct (N.eqb i 0); [exact Hi|].
      destruct pub; [|exact Hi]. rewrite Hz. exact Hi.
    - destruct (N.eqb new 0) eqn:En; [exact Hi|]. destruct pub as [kp|]; [|exact Hi].
      destruct (lookup new (st_slots s)) eqn:Hl; [exact Hi|].
      destruct (get_key s old priv) as [e|k] eqn:Hg; [exact Hi|]. cbn [fst].
      pose proof (get_key_is_master _ _ _ _ _ Hi Hg). subst k.
      destruct Hi as [Hv [Hne [Hnd [Hgn Hh]]]]. unfold KInv, with_hmac. cbn [st_ver st_slots st_hmac].
      split; [exact Hv|]. split; [apply insert_nonempty|]. split; [apply insert_keys; [apply lookup_None; exact Hl | exact Hnd]|].
      split; [|reflexivity]. intros j y Hj. destruct (insert_In _ _ _ _ Hj) as [E|E].
      + inversion E; subst. split; [intros C; subst; cbn in En; discriminate|]. split; [reflexivity | exists kp, rnd; reflexivity].
      + apply Hgn. exact E.
    - destruct (st_slots s) as [|p [|q t]] eqn:Es; [exact Hi | exact Hi|].
      destruct (get_key s i priv) as [e|k] eqn:Hg; [exact Hi|]. cbn [fst].
      pose proof (get_key_is_master _ _ _ _ _ Hi Hg). subst k.
      assert (Hl : exists x, lookup i (st_slots s) = Some x).
      { unfold KeyStorage.get_key in Hg. destruct (N.eqb i 0); [discriminate|]. destruct priv; [|discriminate].
        destruct (is_zero s); [discriminate|]. destruct (negb (N.eqb (st_ver s) 1)); [discriminate|].
        destruct (lookup i (st_slots s)); [eauto | discriminate]. }
      destruct Hl as [x Hl]. destruct Hi as [Hv [Hne [Hnd [Hgn Hh]]]].
      unfold KInv, with_hmac. cbn [st_ver st_slots st_hmac]. rewrite <- Es.
      split; [exact Hv|]. split.
      { pose proof (remove_length _ _ _ Hl) as L. intros C. rewrite C, Es in L. simpl in L. lia. }
      split; [apply remove_keys; exact Hnd|]. split; [|reflexivity].
      intros j y Hj. apply Hgn. eapply remove_In. exact Hj.
    - destruct (get_key s i priv); exact Hi.
    - destruct (N.eqb (st_ver s) 1); exact Hi.
  Qed.

  Lemma get_key_empty i priv : exists e, get_key empty i priv = inl e.
  Proof.
    unfold KeyStorage.get_key. destruct (N.eqb i 0); [eauto|]. destruct priv; [|eauto]. cbn. eauto.
  Qed.

  Lemma init_inv o s' r : kstep (empty) o = (s', r) -> s' = empty \/ exists mk, length mk = 32%nat /\ KInv mk s'.
  Proof.
    destruct o as [mk i pub rnd|new pub rnd old priv|i priv|i priv|]; cbn [KeyStorage.kstep].
    - destruct (Nat.eqb_spec (length mk) 32) as [L|L]; cbn [negb]; [|intros H; inversion H; left; reflexivity].
      destruct (N.eqb_spec i 0) as [E|E]; [intros H; inversion H; left; reflexivity|].
      destruct pub as [kp|]; [|intros H; inversion H; left; reflexivity].
      cbn. intros H; inversion H; subst. right. exists mk. split; [exact L|].
      unfold KInv, with_hmac. cbn [st_ver st_slots st_hmac].
      split; [reflexivity|]. split; [discriminate|]. split; [constructor; [simpl; tauto | constructor]|].
      split; [|reflexivity]. intros j y [Hj|[]]. inversion Hj; subst.
      split; [exact E|]. split; [reflexivity | exists kp, rnd; reflexivity].
    - destruct (N.eqb new 0); [intros H; inversion H; left; reflexivity|]. destruct pub; [|intros H; inversion H; left; reflexivity].
      cbn [lookup st_slots empty]. destruct (get_key_empty old priv) as [e ->]. intros H; inversion H; left; reflexivity.
    - cbn. intros H; inversion H; left; reflexivity.
    - destruct (get_key_empty i priv) as [e ->]. intros H; inversion H; left; reflexivity.
    - cbn. intros H; inversion H; left; reflexivity.
  Qed.

  Definition reach (s : storage) : Prop := s = empty \/ exists mk, length mk = 32%nat /\ KInv mk s.

  Theorem run_reach ops : forall s, reach s -> reach (krun s ops).
  Proof.
    unfold KeyStorage.krun. induction ops as [|o ops IH]; intros s Hr; [exact Hr|]. simpl. apply IH.
    destruct Hr as [->|[mk [L Hi]]].
    - destruct (kstep empty o) as [s' r] eqn:E. cbn [fst]. eapply init_inv; eauto.
    - right. exists mk. split; [exact L | apply step_inv; exact Hi].
  Qed.

  (* once initialised with mk, the storage stays initialised with mk: "the same original master key" *)
  Theorem master_key_fixed mk s ops : KInv mk s -> KInv mk (krun s ops).
  Proof.
    unfold KeyStorage.krun. revert s. induction ops as [|o ops IH]; intros s Hi; [exact Hi|]. simpl. apply IH. apply step_inv. exact Hi.
  Qed.

  (* ---- guards ---- *)
  Theorem last_slot_never_deleted s p i priv : st_slots s = [p] -> kstep s (KDelete keypair i priv) = (s, KErr ELastKey).
  Proof. intros H. cbn [KeyStorage.kstep]. rewrite H. reflexivity. Qed.

  Theorem existing_slot_never_overwritten s new kp rnd old priv x :
    new <> 0 -> lookup new (st_slots s) = Some x -> kstep s (KAdd keypair new (Some kp) rnd old priv) = (s, KErr ESlotExists).
  Proof. intros Hn H. cbn [KeyStorage.kstep]. destruct (N.eqb_spec new 0); [contradiction|]. rewrite H. reflexivity. Qed.

  Theorem second_initialise_refused mk s mk' i kp rnd :
    KInv mk s -> length mk' = 32%nat -> i <> 0 -> kstep s (KInit keypair mk' i (Some kp) rnd) = (s, KErr EAlreadyInitialized).
  Proof.
    intros Hi L Hn. cbn [KeyStorage.kstep]. rewrite L. cbn. destruct (N.eqb_spec i 0); [contradiction|].
    rewrite (KInv_not_zero _ _ Hi). reflexivity.
  Qed.

  Theorem failed_op_changes_nothing s o e : snd (kstep s o) = KErr e -> fst (kstep s o) = s.
  Proof.
    destruct o as [mk i pub rnd|new pub rnd old priv|i priv|i priv|]; cbn [KeyStorage.kstep].
    - destruct (negb (Nat.eqb (length mk) 32)); [reflexivity|]. destruct (N.eqb i 0); [reflexivity|].
      destruct pub; [|reflexivity]. destruct (negb (is_zero s)); [reflexivity | discriminate].
    - destruct (N.eqb new 0); [reflexivity|]. destruct pub; [|reflexivity]. destruct (lookup new (st_slots s)); [reflexivity|].
      destruct (get_key s old priv); [reflexivity | discriminate].
    - destruct (st_slots s) as [|p [|q t]]; [reflexivity | reflexivity|]. destruct (get_key s i priv); [reflexivity | discriminate].
    - destruct (get_key s i priv); reflexivity.
    - destruct (N.eqb (st_ver s) 1); reflexivity.
  Qed.
  (* ---- tampering behind the API's back ---- *)

  Lemma get_key_checks_tag s i priv k : get_key s i priv = inr k -> mac k (concat_blobs (st_slots s)) = st_hmac s.
  Proof.
    unfold KeyStorage.get_key. destruct (N.eqb i 0); [discriminate|]. destruct priv as [kp|]; [|discriminate].
    destruct (is_zero s); [discriminate|]. destruct (negb (N.eqb (st_ver s) 1)); [discriminate|].
    destruct (lookup i (st_slots s)) as [x|]; [|discriminate]. destruct (negb (N.eqb (s_alg x) 1)); [discriminate|].
    destruct (dec kp (s_blob x)) as [m|]; [|discriminate]. unfold hash_slots.
    destruct (bytes_eqb _ _) eqn:E; [|discriminate]. intros H; inversion H; subst. apply bytes_eqb_spec. exact E.
  Qed.

  Lemma get_key_genuine mk s i priv k :
    (forall j x, In (j, x) (st_slots s) -> genuine mk x) -> get_key s i priv = inr k -> k = mk.
  Proof.
    intros Hg. unfold KeyStorage.get_key.
    destruct (N.eqb i 0); [discriminate|]. destruct priv as [kp|]; [|discriminate].
    destruct (is_zero s); [discriminate|]. destruct (negb (N.eqb (st_ver s) 1)); [discriminate|].
    destruct (lookup i (st_slots s)) as [x|] eqn:Hl; [|discriminate].
    destruct (negb (N.eqb (s_alg x) 1)); [discriminate|].
    destruct (Hg i x (lookup_In _ _ _ Hl)) as [_ [kp0 [r Hb]]]. rewrite Hb.
    destruct (dec kp (enc kp0 r mk)) as [m'|] eqn:D; [|discriminate].
    destruct (dec_enc_inv _ _ _ _ _ D) as [_ ->].
    destruct (bytes_eqb _ _); [|discriminate]. intros H; inversion H; reflexivity.
  Qed.

  Fixpoint set_blob (i : sid) (b : bytes) (l : list (sid * slot)) : list (sid * slot) :=
    match l with
    | [] => []
    | (j, y) :: t => if N.eqb i j then (j, mkSlot (s_alg y) b) :: t else (j, y) :: set_blob i b t
    end.

  Lemma app_same_tail_nil (b c : bytes) : c = b ++ c -> b = [].
  Proof. intros H. apply (f_equal (@length N)) in H. rewrite app_length in H. destruct b; [reflexivity | simpl in H; lia]. Qed.

  Lemma concat_set_blob i b l x : lookup i l = Some x -> concat_blobs (set_blob i b l) = concat_blobs l -> b = s_blob x.
  Proof.
    induction l as [|[j y] t IH]; simpl; [discriminate|]. destruct (N.eqb i j).
    - intros H; inversion H; subst. unfold concat_blobs. simpl. intros E. apply app_inv_tail in E. exact E.
    - intros H. unfold concat_blobs. simpl. intros E. apply app_inv_head in E. apply IH; assumption.
  Qed.
  Lemma concat_remove i l x : lookup i l = Some x -> concat_blobs (remove i l) = concat_blobs l -> s_blob x = [].
  Proof.
    induction l as [|[j y] t IH]; simpl; [discriminate|]. destruct (N.eqb i j).
    - intros H; inversion H; subst. unfold concat_blobs. simpl. intros E. apply app_same_tail_nil in E. exact E.
    - intros H. unfold concat_blobs. simpl. intros E. apply app_inv_head in E. apply IH; assumption.
  Qed.
  Lemma concat_insert i x l : lookup i l = None -> concat_blobs (insert i x l) = concat_blobs l -> s_blob x = [].
  Proof.
    induction l as [|[j y] t IH]; simpl.
    - intros _. unfold concat_blobs. simpl. rewrite app_nil_r. tauto.
    - destruct (N.eqb_spec i j) as [E|E]; [discriminate|]. intros Hl.
      destruct (N.ltb i j); unfold concat_blobs; simpl.
      + intros H. symmetry in H. apply app_same_tail_nil in H. exact H.
      + intros H. apply app_inv_head in H. apply IH; assumption.
  Qed.

  (* any alteration of the integrity tag is detected by the next retrieval, through any slot, with any key *)
  Theorem tag_alteration_detected mk s h' i priv k :
    KInv mk s -> h' <> st_hmac s -> get_key (mkSt (st_ver s) (st_slots s) h') i priv <> inr k.
  Proof.
    intros Hi Hh Hg. pose proof (get_key_checks_tag _ _ _ _ Hg) as T. cbn [st_slots st_hmac] in T.
    destruct Hi as [Hv [Hne [Hnd [Hgn Hm]]]].
    assert (k = mk) by (eapply get_key_genuine; [|exact Hg]; cbn [st_slots]; intros j x Hj; apply (Hgn j x Hj)).
    subst k. apply Hh. rewrite Hm. symmetry. exact T.
  Qed.

  (* any alteration of a stored encrypted key blob is detected *)
  Theorem blob_alteration_detected mk s i0 x b' i priv k :
    KInv mk s -> lookup i0 (st_slots s) = Some x -> b' <> s_blob x ->
    get_key (mkSt (st_ver s) (set_blob i0 b' (st_slots s)) (st_hmac s)) i priv <> inr k.
  Proof.
    intros Hi Hl Hb Hg. pose proof (get_key_checks_tag _ _ _ _ Hg) as T. cbn [st_slots st_hmac] in T.
    destruct Hi as [Hv [Hne [Hnd [Hgn Hm]]]]. rewrite Hm in T. destruct (mac_inj _ _ _ _ T) as [_ Hc].
    apply Hb. eapply concat_set_blob; eauto.
  Qed.

  (* a slot removed behind the API's back is detected *)
  Theorem slot_removal_detected mk s i0 x i priv k :
    KInv mk s -> lookup i0 (st_slots s) = Some x ->
    get_key (mkSt (st_ver s) (remove i0 (st_slots s)) (st_hmac s)) i priv <> inr k.
  Proof.
    intros Hi Hl Hg. pose proof (get_key_checks_tag _ _ _ _ Hg) as T. cbn [st_slots st_hmac] in T.
    destruct Hi as [Hv [Hne [Hnd [Hgn Hm]]]]. rewrite Hm in T. destruct (mac_inj _ _ _ _ T) as [_ Hc].
    pose proof (concat_remove _ _ _ Hl Hc) as E.
    destruct (Hgn i0 x (lookup_In _ _ _ Hl)) as [_ [_ [kp [r Hb]]]]. rewrite Hb in E. exact (enc_nonempty _ _ _ E).
  Qed.

  (* a slot added behind the API's back is detected — PROVIDED its blob is not empty (see the refutation below) *)
  Theorem slot_addition_detected_partial mk s i0 x i priv k :
    KInv mk s -> lookup i0 (st_slots s) = None -> s_blob x <> [] ->
    get_key (mkSt (st_ver s) (insert i0 x (st_slots s)) (st_hmac s)) i priv <> inr k.
  Proof.
    intros Hi Hl Hb Hg. pose proof (get_key_checks_tag _ _ _ _ Hg) as T. cbn [st_slots st_hmac] in T.
    destruct Hi as [Hv [Hne [Hnd [Hgn Hm]]]]. rewrite Hm in T. destruct (mac_inj _ _ _ _ T) as [_ Hc].
    apply Hb. eapply concat_insert; eauto.
  Qed.
End Proofs.

(* ---- a concrete instance of the primitives: the hypotheses are satisfiable, and finding F8 ---- *)

Definition toy_enc (kp : N) (r : N) (m : bytes) : bytes := kp :: r :: m.
Definition toy_dec (kp : N) (b : bytes) : option bytes :=
  match b with k :: _ :: m => if N.eqb k kp then Some m else None | _ => None end.
Definition toy_mac (k m : bytes) : bytes := N.of_nat (length k) :: k ++ m.

Lemma app_inj_len {A} (a b c d : list A) : length a = length c -> a ++ b = c ++ d -> a = c /\ b = d.
Proof.
  revert c. induction a as [|x a IH]; intros [|y c] L H; simpl in *; try discriminate; [auto|].
  inversion H; subst. destruct (IH c) as [E1 E2]; [lia | assumption|]. subst. auto.
Qed.

Example toy_primitives_ok :
  (forall kp r m, toy_dec kp (toy_enc kp r m) = Some m) /\
  (forall kp kp0 r m m', toy_dec kp (toy_enc kp0 r m) = Some m' -> kp = kp0 /\ m' = m) /\
  (forall kp r m, toy_enc kp r m <> []) /\
  (forall k m k' m', toy_mac k m = toy_mac k' m' -> k = k' /\ m = m') /\
  (forall k m, toy_mac k m <> []).
Proof.
  repeat split; try discriminate.
  - intros kp r m. unfold toy_dec, toy_enc. rewrite N.eqb_refl. reflexivity.
  - unfold toy_dec, toy_enc in H. destruct (N.eqb_spec kp0 kp); [congruence | discriminate].
  - unfold toy_dec, toy_enc in H. destruct (N.eqb_spec kp0 kp); [congruence | discriminate].
  - unfold toy_mac in H. inversion H as [[L E]]. apply Nat2N.inj in L. destruct (app_inj_len _ _ _ _ L E). assumption.
  - unfold toy_mac in H. inversion H as [[L E]]. apply Nat2N.inj in L. destruct (app_inj_len _ _ _ _ L E). assumption.
Qed.

Definition mk32 : bytes := repeat 7 32.

(* a storage initialised with slot 5 (key pair 100), then slot 9 (key pair 200) added through the API *)
Definition ks2 : storage :=
  krun N toy_enc toy_dec toy_mac (empty) [KInit N mk32 5 (Some 100) 1; KAdd N 9 (Some 200) 2 5 (Some 100)].

Example ks2_live_slots :
  get_key N toy_dec toy_mac ks2 5 (Some 100) = inr mk32 /\ get_key N toy_dec toy_mac ks2 9 (Some 200) = inr mk32 /\
  get_key N toy_dec toy_mac ks2 9 (Some 100) = inl EDecrypt /\ get_key N toy_dec toy_mac ks2 7 (Some 100) = inl ESlotNotFound.
Proof. repeat split; vm_compute; reflexivity. Qed.

(* finding F8: the tag covers only the concatenation of the blobs, so (1) a phantom slot with an empty blob added
   behind the API's back is NOT detected, (2) it defeats the last-slot guard: every real slot can then be deleted
   through the API, after which no key pair recovers the master key, (3) renaming a slot is not detected *)
Theorem slot_addition_refuted :
  let one := krun N toy_enc toy_dec toy_mac empty [KInit N mk32 5 (Some 100) 1] in
  let phantom := mkSt (st_ver one) (insert 8 (mkSlot 1 []) (st_slots one)) (st_hmac one) in
  get_key N toy_dec toy_mac phantom 5 (Some 100) = inr mk32 /\
  snd (kstep N toy_enc toy_dec toy_mac one (KDelete N 5 (Some 100))) = KErr ELastKey /\
  snd (kstep N toy_enc toy_dec toy_mac phantom (KDelete N 5 (Some 100))) = KOk /\
  (forall kp, exists e, get_key N toy_dec toy_mac (fst (kstep N toy_enc toy_dec toy_mac phantom (KDelete N 5 (Some 100)))) 8 (Some kp) = inl e).
Proof.
  repeat split; try (vm_compute; reflexivity).
  intros kp. vm_compute. eauto.
Qed.

Theorem slot_rename_refuted :
  let renamed := mkSt (st_ver ks2) (map (fun p => if N.eqb (fst p) 5 then (6, snd p) else p) (st_slots ks2)) (st_hmac ks2) in
  get_key N toy_dec toy_mac renamed 6 (Some 100) = inr mk32 /\ get_key N toy_dec toy_mac renamed 9 (Some 200) = inr mk32.
Proof. split; vm_compute; reflexivity. Qed.
