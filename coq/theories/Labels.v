(* Labels.v — byte-level model of selector evaluation
   (pkg/resource/labels.go Labels.matches / Matches, label_query.go LabelQuery(.ies).Matches,
   internal/compare/compare.go GetNumbers / parseValue / getMultiplier) and of the client/server
   translation (client/label_query.go transformLabelQuery, server/helpers.go ConvertLabelQuery).

   Strings are lists of bytes (N); the model covers ASCII strings (strings.ToLower / TrimSpace on
   non-ASCII runes are outside it: hypothesis ascii_only in the theorems' domain). *)
From Coq Require Export List ZArith NArith Bool Lia.
Export ListNotations.
Open Scope Z_scope.

Definition bytes := list N.

Fixpoint bytes_eqb (a b : bytes) : bool :=
  match a, b with
  | [], [] => true
  | x :: a', y :: b' => N.eqb x y && bytes_eqb a' b'
  | _, _ => false
  end.

(* Go string comparison: lexicographic on bytes *)
Fixpoint bytes_ltb (a b : bytes) : bool :=
  match a, b with
  | [], [] => false
  | [], _ :: _ => true
  | _ :: _, [] => false
  | x :: a', y :: b' => if N.ltb x y then true else if N.ltb y x then false else bytes_ltb a' b'
  end.
Definition bytes_leb (a b : bytes) : bool := bytes_ltb a b || bytes_eqb a b.

(* ---- compare.parseValue --------------------------------------------------------------------- *)

Definition is_space (c : N) : bool :=
  (N.eqb c 32 || N.eqb c 9 || N.eqb c 10 || N.eqb c 11 || N.eqb c 12 || N.eqb c 13)%N.

Fixpoint trim_left (s : bytes) : bytes :=
  match s with
  | c :: s' => if is_space c then trim_left s' else s
  | [] => []
  end.
Definition trim_space (s : bytes) : bytes := rev (trim_left (rev (trim_left s))).

Definition is_digit (c : N) : bool := (N.leb 48 c && N.leb c 57)%N.
Definition is_digit_or_minus (c : N) : bool := is_digit c || N.eqb c 45.

Fixpoint split_digits (s : bytes) : bytes * bytes :=
  match s with
  | c :: s' => if is_digit_or_minus c then let '(d, u) := split_digits s' in (c :: d, u) else ([], s)
  | [] => ([], [])
  end.

(* decimal digits only *)
Fixpoint digits_value (s : bytes) (acc : Z) : option Z :=
  match s with
  | [] => Some acc
  | c :: s' => if is_digit c then digits_value s' (acc * 10 + (Z.of_N c - 48)) else None
  end.

Definition two63 : Z := 9223372036854775808.
Definition two64 : Z := 18446744073709551616.

(* strconv.ParseInt(s, 10, 64) for s over [0-9-]: optional leading '-', at least one digit, range check *)
Definition parse_int64 (s : bytes) : option Z :=
  match s with
  | [] => None
  | c :: s' =>
      if N.eqb c 45 then
        match s' with
        | [] => None
        | _ => match digits_value s' 0 with
               | Some v => if Z.leb v two63 then Some (- v) else None
               | None => None
               end
        end
      else match digits_value s 0 with
           | Some v => if Z.ltb v two63 then Some v else None
           | None => None
           end
  end.

Definition to_lower (c : N) : N := if (N.leb 65 c && N.leb c 90)%bool then (c + 32)%N else c.

(* getMultiplier *)
Definition multiplier (units : bytes) : option Z :=
  match trim_space (map to_lower units) with
  | [] => Some 1
  | c1 :: rest =>
      let two := match rest with
                 | c2 :: _ =>
                     if N.eqb c2 105 (* i *) then
                       if N.eqb c1 112 then Some (2 ^ 50)
                       else if N.eqb c1 116 then Some (2 ^ 40)
                       else if N.eqb c1 103 then Some (2 ^ 30)
                       else if N.eqb c1 109 then Some (2 ^ 20)
                       else if N.eqb c1 107 then Some (2 ^ 10)
                       else None
                     else None
                 | [] => None
                 end in
      match two with
      | Some m => Some m
      | None =>
          if N.eqb c1 112 then Some 1000000000000000
          else if N.eqb c1 116 then Some 1000000000000
          else if N.eqb c1 103 then Some 1000000000
          else if N.eqb c1 109 then Some 1000000
          else if N.eqb c1 107 then Some 1000
          else None
      end
  end.

(* int64 multiplication wraps *)
Definition wrap64 (x : Z) : Z := (x + two63) mod two64 - two63.

Definition parse_value (s : bytes) : option Z :=
  let v := trim_space s in
  let '(digits, units) := split_digits v in
  match digits with
  | [] => None
  | _ => match parse_int64 digits with
         | None => None
         | Some r => match multiplier units with
                     | None => None
                     | Some m => Some (wrap64 (r * m))
                     end
         end
  end.

Definition get_numbers (l r : bytes) : option (Z * Z) :=
  match parse_value l with
  | None => None
  | Some a => match parse_value r with None => None | Some b => Some (a, b) end
  end.

(* ---- Labels.matches -------------------------------------------------------------------------- *)

Inductive lop := OpExists | OpEqual | OpIn | OpLT | OpLTE | OpLTNum | OpLTENum.

Record term := mkT { t_key : bytes; t_vals : list bytes; t_op : lop; t_inv : bool }.

Definition labels := list (bytes * bytes).

Fixpoint lget (k : bytes) (l : labels) : option bytes :=
  match l with
  | [] => None
  | (k', v) :: l' => if bytes_eqb k' k then Some v else lget k l'
  end.

Definition is_comparison (o : lop) : bool :=
  match o with OpLT | OpLTE | OpLTNum | OpLTENum => true | _ => false end.

(* the three-valued inner result: None = "cannot be decided" *)
Definition matches_inner (l : labels) (t : term) : option bool :=
  match lget (t_key t) l with
  | None => if is_comparison (t_op t) then None else Some false
  | Some value =>
      match t_op t with
      | OpExists => Some true
      | _ =>
          match t_vals t with
          | [] => Some false
          | v0 :: _ =>
              match t_op t with
              | OpExists => Some true
              | OpEqual => Some (bytes_eqb value v0)
              | OpIn => Some (existsb (bytes_eqb value) (t_vals t))
              | OpLTE => Some (bytes_leb value v0)
              | OpLT => Some (bytes_ltb value v0)
              | OpLTNum => match get_numbers value v0 with Some (a, b) => Some (Z.ltb a b) | None => None end
              | OpLTENum => match get_numbers value v0 with Some (a, b) => Some (Z.leb a b) | None => None end
              end
          end
      end
  end.

Definition term_matches (l : labels) (t : term) : bool :=
  match matches_inner l t with
  | None => false
  | Some m => if t_inv t then negb m else m
  end.

Definition query_matches (l : labels) (q : list term) : bool := forallb (term_matches l) q.

Definition queries_matches (l : labels) (qs : list (list term)) : bool :=
  match qs with
  | [] => true
  | _ => existsb (query_matches l) qs
  end.

(* ---- translation over gRPC ------------------------------------------------------------------- *)

Inductive pop := PEqual | PExists | PNotExists | PIn | PLT | PLTE | PLTNum | PLTENum.
Record pterm := mkP { p_key : bytes; p_vals : list bytes; p_op : pop; p_inv : bool }.

(* client: transformLabelQuery *)
Definition transform_term (t : term) : pterm :=
  match t_op t with
  | OpEqual => mkP (t_key t) (t_vals t) PEqual (t_inv t)
  | OpExists => mkP (t_key t) [] PExists (t_inv t)
  | OpIn => mkP (t_key t) (t_vals t) PIn (t_inv t)
  | OpLT => mkP (t_key t) (t_vals t) PLT (t_inv t)
  | OpLTE => mkP (t_key t) (t_vals t) PLTE (t_inv t)
  | OpLTNum => mkP (t_key t) (t_vals t) PLTNum (t_inv t)
  | OpLTENum => mkP (t_key t) (t_vals t) PLTENum (t_inv t)
  end.

(* server: ConvertLabelQuery (single-valued operators keep the whole value list) *)
Definition convert_term (p : pterm) : term :=
  match p_op p with
  | PEqual => mkT (p_key p) (p_vals p) OpEqual (p_inv p)
  | PExists => mkT (p_key p) [] OpExists (p_inv p)
  | PNotExists => mkT (p_key p) [] OpExists true
  | PIn => mkT (p_key p) (p_vals p) OpIn (p_inv p)
  | PLT => mkT (p_key p) (p_vals p) OpLT (p_inv p)
  | PLTE => mkT (p_key p) (p_vals p) OpLTE (p_inv p)
  | PLTNum => mkT (p_key p) (p_vals p) OpLTNum (p_inv p)
  | PLTENum => mkT (p_key p) (p_vals p) OpLTENum (p_inv p)
  end.
