(* LabelsCheck.v — table checker for selector evaluation at every site. *)
From Verif Require Import Labels.

(* labels, term, Labels.Matches, LabelQueries.Matches, inmem List found, remote List found (None = error) *)
Definition lmrow := (labels * term * bool * bool * bool * option bool)%type.

Definition lmrow_ok (r : lmrow) : bool :=
  let '(l, t, direct, viaq, vial, remote) := r in
  let m := term_matches l t in
  Bool.eqb m direct && Bool.eqb (queries_matches l [[t]]) viaq && Bool.eqb m vial &&
  match remote with
  | Some b => Bool.eqb (term_matches l (convert_term (transform_term t))) b
  | None => false
  end.

Fixpoint mism_from {A} (chk : A -> bool) (i : N) (cs : list A) : list N :=
  match cs with
  | [] => []
  | c :: cs' => if chk c then mism_from chk (N.succ i) cs' else i :: mism_from chk (N.succ i) cs'
  end.

Definition label_mismatches (cs : list lmrow) : list N := mism_from lmrow_ok 0%N cs.
