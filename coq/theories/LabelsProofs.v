(* LabelsProofs.v — the algebra of selector evaluation and its invariance under the gRPC translation. *)
From Verif Require Import Labels.
Open Scope Z_scope.

Definition invert (t : term) : term := mkT (t_key t) (t_vals t) (t_op t) (negb (t_inv t)).

(* inversion is negation exactly on the decided cases ... *)
Theorem invert_negates l t b :
  matches_inner l t = Some b -> term_matches l (invert t) = negb (term_matches l t).
Proof.
  intros H. unfold term_matches, invert, matches_inner in *. simpl. rewrite H.
  destruct (t_inv t); simpl; [rewrite negb_involutive|]; reflexivity.
Qed.

(* ... and an undecidable term (missing label under a comparison, non-numeric operand) matches
   neither way *)
Theorem undecided_never_matches l t :
  matches_inner l t = None -> term_matches l t = false /\ term_matches l (invert t) = false.
Proof.
  intros H. unfold term_matches, invert, matches_inner in *. simpl. rewrite H. split; reflexivity.
Qed.

Theorem in_singleton_is_equal l k v inv :
  term_matches l (mkT k [v] OpIn inv) = term_matches l (mkT k [v] OpEqual inv).
Proof.
  unfold term_matches, matches_inner. simpl. destruct (lget k l); [|reflexivity].
  simpl. rewrite orb_false_r. reflexivity.
Qed.

Theorem empty_values_never_match l k op inv :
  op <> OpExists -> lget k l <> None ->
  term_matches l (mkT k [] op inv) = inv.
Proof.
  intros Hop Hk. unfold term_matches, matches_inner. simpl.
  destruct (lget k l); [|contradiction]. destruct op; try contradiction; destruct inv; reflexivity.
Qed.

(* AND within a query, OR across queries *)
Theorem query_and l q1 q2 : query_matches l (q1 ++ q2) = query_matches l q1 && query_matches l q2.
Proof. unfold query_matches. apply forallb_app. Qed.

Theorem queries_or l qs1 qs2 :
  qs1 <> [] -> qs2 <> [] ->
  queries_matches l (qs1 ++ qs2) = queries_matches l qs1 || queries_matches l qs2.
Proof.
  intros H1 H2. unfold queries_matches.
  destruct qs1 as [|a qs1]; [contradiction|]. destruct qs2 as [|b qs2]; [contradiction|].
  change ((a :: qs1) ++ b :: qs2) with (a :: (qs1 ++ b :: qs2)). cbv iota.
  change (a :: (qs1 ++ b :: qs2)) with ((a :: qs1) ++ (b :: qs2)).
  apply existsb_app.
Qed.

Theorem queries_empty l : queries_matches l [] = true /\ queries_matches l [[]] = true.
Proof. split; reflexivity. Qed.

(* one selector semantics: evaluating the translated term on the server is evaluating the term *)
Theorem one_semantics l t : term_matches l (convert_term (transform_term t)) = term_matches l t.
Proof.
  unfold term_matches, matches_inner. destruct t as [k vs op inv]. destruct op; simpl; try reflexivity.
Qed.

Theorem not_exists_semantics l k vs inv :
  term_matches l (convert_term (mkP k vs PNotExists inv)) = match lget k l with None => true | Some _ => false end.
Proof. unfold term_matches, matches_inner. simpl. destruct (lget k l); reflexivity. Qed.

(* lexical order facts used by the LT/LTE operators *)
Lemma bytes_eqb_refl a : bytes_eqb a a = true.
Proof. induction a as [|x a IH]; simpl; [reflexivity | rewrite N.eqb_refl, IH; reflexivity]. Qed.

Theorem lt_irreflexive a : bytes_ltb a a = false.
Proof. induction a as [|x a IH]; simpl; [reflexivity | rewrite N.ltb_irrefl; exact IH]. Qed.

Theorem lte_reflexive a : bytes_leb a a = true.
Proof. unfold bytes_leb. rewrite bytes_eqb_refl. apply orb_true_r. Qed.

(* numeric parsing is total and wraps like int64 *)
Theorem wrap64_range x : - two63 <= wrap64 x < two63.
Proof.
  unfold wrap64. pose proof (Z.mod_pos_bound (x + two63) two64 ltac:(reflexivity)).
  unfold two63, two64 in *. lia.
Qed.

Theorem parse_value_range s v : parse_value s = Some v -> - two63 <= v < two63.
Proof.
  unfold parse_value. destruct (split_digits (trim_space s)) as [d u]. destruct d; [discriminate|].
  destruct (parse_int64 (n :: d)); [|discriminate]. destruct (multiplier u); [|discriminate].
  intros H; inversion H; subst. apply wrap64_range.
Qed.
