(* MetaWire.v — resource.Metadata <-> bytes: the conversion to and from the protobuf message
   (pkg/resource/protobuf/resource.go Resource.Marshal, pkg/resource/metadata.go NewMetadataFromProto: version and phase
   as text, times as (seconds, nanos), finalizers re-added one by one, maps re-set entry by entry) composed with the wire
   codec of WireMsg.v.  This is the path every stored or transmitted resource takes. *)
From Verif Require Export Text WireMsg.
Open Scope N_scope.

(* a time as the code can observe it: t.Unix() as a 64-bit pattern, t.Nanosecond() *)
Record rtime := mkRt { rt_sec : N; rt_nanos : N }.
Definition giga : N := 1000000000.

Record rmeta := mkRm {
  rm_ns : bstr; rm_typ : bstr; rm_id : bstr;
  rm_ver : option N;                 (* None = undefined *)
  rm_owner : bstr;
  rm_phase : bool;                   (* true = tearing down *)
  rm_created : rtime; rm_updated : rtime;
  rm_fins : list bstr; rm_labels : kvs; rm_annot : kvs }.

(* Resource.Marshal: timestamppb.New never returns nil *)
Definition to_ts (t : rtime) : ts := mkTs (rt_sec t) (rt_nanos t).
Definition to_wire (m : rmeta) : metadata :=
  mkMd (rm_ns m) (rm_typ m) (rm_id m) (ver_string (rm_ver m)) (rm_owner m) (phase_string (rm_phase m))
       (Some (to_ts (rm_created m))) (Some (to_ts (rm_updated m))) (rm_fins m) (rm_labels m) (rm_annot m) [].

(* Timestamp.AsTime = time.Unix(seconds, nanos).UTC(): nanos outside [0, 1e9) are carried into the seconds *)
Definition signed (bits : N) (x : N) : Z := if 2 ^ (bits - 1) <=? x then Z.of_N x - Z.of_N (2 ^ bits) else Z.of_N x.
Definition of_ts (o : option ts) : rtime :=
  match o with
  | None => mkRt 0 0
  | Some t =>
      let sec := signed 64 (ts_sec t) in
      let nsec := signed 32 (ts_nanos t) in
      let '(sec1, nsec1) :=
        if (nsec <? 0)%Z || (Z.of_N giga <=? nsec)%Z then
          let n := Z.quot nsec (Z.of_N giga) in
          let s := (sec + n)%Z in
          let r := (nsec - n * Z.of_N giga)%Z in
          if (r <? 0)%Z then ((s - 1)%Z, (r + Z.of_N giga)%Z) else (s, r)
        else (sec, nsec) in
      mkRt (Z.to_N (sec1 mod Z.of_N two64)) (Z.to_N nsec1)
  end.

(* Finalizers.Add one by one: a finalizer already present is not added again *)
Fixpoint bstr_in (x : bstr) (l : list bstr) : bool :=
  match l with [] => false | y :: l' => bstr_eqb y x || bstr_in x l' end.
Definition add_fins (fs : list bstr) : list bstr :=
  fold_left (fun acc f => if bstr_in f acc then acc else acc ++ [f]) fs [].

(* NewMetadataFromProto: version and phase must parse *)
Definition of_wire (w : metadata) : option rmeta :=
  match parse_version (md_ver w), parse_phase (md_phase w) with
  | Some v, Some p =>
      Some (mkRm (md_ns w) (md_typ w) (md_id w) v (md_owner w) p (of_ts (md_created w)) (of_ts (md_updated w))
                 (add_fins (md_fins w)) (md_labels w) (md_annot w))
  | _, _ => None
  end.

Definition meta_to_bytes (m : rmeta) : list N := enc_md (to_wire m).
Definition meta_of_bytes (b : list N) : option rmeta :=
  match dec_md b with Some w => of_wire w | None => None end.
