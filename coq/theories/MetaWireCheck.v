(* MetaWireCheck.v — correspondence of MetaWire with the real conversion: resource.Metadata -> protobuf.Resource.Marshal
   -> Metadata.MarshalVT, and Metadata.UnmarshalVT -> resource.NewMetadataFromProto. *)
From Verif Require Import MetaWire WireMsgCheck.
Open Scope N_scope.

Definition oN_eqb (a b : option N) : bool :=
  match a, b with Some x, Some y => x =? y | None, None => true | _, _ => false end.
Definition rt_eqb (a b : rtime) : bool := (rt_sec a =? rt_sec b) && (rt_nanos a =? rt_nanos b).
Definition rm_eqb (o m : rmeta) : bool :=
  bl_eqb (rm_ns o) (rm_ns m) && bl_eqb (rm_typ o) (rm_typ m) && bl_eqb (rm_id o) (rm_id m) &&
  oN_eqb (rm_ver o) (rm_ver m) && bl_eqb (rm_owner o) (rm_owner m) && Bool.eqb (rm_phase o) (rm_phase m) &&
  rt_eqb (rm_created o) (rm_created m) && rt_eqb (rm_updated o) (rm_updated m) &&
  bll_eqb (rm_fins o) (rm_fins m) && kvs_eqb (rm_labels o) (rm_labels m) && kvs_eqb (rm_annot o) (rm_annot m).

Inductive mcase :=
| MEnc (m : rmeta) (out : list N)        (* the metadata of a real resource, marshaled *)
| MDec (b : list N) (r : option rmeta).  (* bytes -> NewMetadataFromProto: error or the metadata *)

Definition mcase_ok (c : mcase) : bool :=
  match c with
  | MEnc m out =>
      match meta_of_bytes out with Some y => rm_eqb m y | None => false end &&
      Nat.eqb (length (meta_to_bytes m)) (length out) &&
      (if Nat.leb (length (rm_labels m)) 1 && Nat.leb (length (rm_annot m)) 1 then bl_eqb (meta_to_bytes m) out else true)
  | MDec b r =>
      match meta_of_bytes b, r with
      | Some x, Some o => rm_eqb o x
      | None, None => true
      | _, _ => false
      end
  end.

Fixpoint m_mism_from (i : N) (l : list mcase) : list N :=
  match l with
  | [] => []
  | c :: t => if mcase_ok c then m_mism_from (N.succ i) t else i :: m_mism_from (N.succ i) t
  end.
Definition meta_mismatches (cs : list mcase) : list N := m_mism_from 0 cs.
