(* Persist.v — the persistent-backed store (inmem collection.go over a BackingStore; bolt/namespaced.go): every
   mutating call validates against memory, writes the backing store (one transaction, may be rejected), and only
   then changes memory and publishes the event; a crash keeps the backing store only; the first access after a
   reopen loads memory from it. *)
From Verif Require Export Store StoreProofs.
Open Scope N_scope.

Inductive status :=
| SAcked (r : result)        (* the call returned r to its caller *)
| SFaulted                   (* the backing store rejected the write; the call returned that error *)
| SLostBefore                (* the process died before the durable write *)
| SLostAfter.                (* the process died after the durable write, before the call returned *)

Record pst := mkPst {
  p_dur : store;                       (* what the backing store holds (decoded: C18 gives the byte-level round trip) *)
  p_mem : option store;                (* memory; None = not (re)loaded yet *)
  p_events : list event;               (* everything published to watchers since the last (re)load *)
  p_issued : list (Z * op * status)    (* ghost: every call issued, oldest first *)
}.

Inductive pchoice :=
| POp (now : Z) (o : op) (fault : bool)     (* a call runs to completion; fault: the backing store rejects its write *)
| POpCrashBefore (now : Z) (o : op)         (* the process dies inside the call, before the durable write *)
| POpCrashAfter (now : Z) (o : op)          (* ... after the durable write, before memory is changed / the call returns *)
| PCrash                                     (* the process dies between calls *)
| PLoadFail.                                 (* a (lazy) load attempt fails part-way; nothing becomes visible; it is retried *)

Definition loaded (s : pst) : store := match p_mem s with Some m => m | None => p_dur s end.

Definition has_effect (now : Z) (o : op) (m : store) : bool :=
  match apply_ev now o m with Some _ => true | None => false end.

Definition pstep (s : pst) (c : pchoice) : pst :=
  match c with
  | POp now o fault =>
      let m := loaded s in
      let evs := match p_mem s with Some _ => p_events s | None => [] end in
      if has_effect now o m then
        if fault then mkPst (p_dur s) (Some m) evs (p_issued s ++ [(now, o, SFaulted)])
        else mkPst (apply_st now o (p_dur s)) (Some (apply_st now o m))
                   (evs ++ match apply_ev now o m with Some e => [e] | None => [] end)
                   (p_issued s ++ [(now, o, SAcked (apply_res now o m))])
      else mkPst (p_dur s) (Some m) evs (p_issued s ++ [(now, o, SAcked (apply_res now o m))])
  | POpCrashBefore now o => mkPst (p_dur s) None [] (p_issued s ++ [(now, o, SLostBefore)])
  | POpCrashAfter now o =>
      let m := loaded s in
      if has_effect now o m then mkPst (apply_st now o (p_dur s)) None [] (p_issued s ++ [(now, o, SLostAfter)])
      else mkPst (p_dur s) None [] (p_issued s ++ [(now, o, SLostBefore)])
  | PCrash => mkPst (p_dur s) None [] (p_issued s)
  | PLoadFail => s
  end.

Definition pinit : pst := mkPst [] None [] [].
Definition prun (l : list pchoice) : pst := fold_left pstep l pinit.

(* which issued calls took effect: acknowledged successful writes, and writes that became durable before a crash *)
Definition effective (e : Z * op * status) : bool :=
  match e with
  | (_, _, SAcked (RWritten _)) | (_, _, SAcked ROk) | (_, _, SLostAfter) => true
  | _ => false
  end.

Definition replay (l : list (Z * op * status)) : store :=
  fold_left (fun m e => let '(now, o, _) := e in apply_st now o m) (filter effective l) [].
