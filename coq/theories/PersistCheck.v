(* PersistCheck.v — replay histories of calls, injected backing-store failures, crashes and reopenings of the real
   bbolt-backed state on the Persist machine. *)
From Verif Require Import Store StoreCheck Persist.
Open Scope N_scope.

Inductive pitem :=
| IStep (c : pchoice) (ob : option sobs)                 (* a choice and, for completed calls, what the caller saw *)
| IList (ns typ : atom) (rs : list res)                  (* a listing of the (re)opened state *)
| IEvents (ns typ : atom) (evs : list (N * atom * option N)).            (* kinds (1 created, 2 updated, 3 destroyed), ids, versions seen by a watcher since the (re)load *)

Definition ev_sig (e : event) : N * atom * option N :=
  match e with
  | EvCreated r => (1, r_id r, r_ver r)
  | EvUpdated r _ => (2, r_id r, r_ver r)
  | EvDestroyed r => (3, r_id r, r_ver r)
  end.

Definition sig_eqb (a b : N * atom * option N) : bool :=
  let '(k1, i1, v1) := a in let '(k2, i2, v2) := b in N.eqb k1 k2 && N.eqb i1 i2 && ver_eqb v1 v2.

Definition last_status (s : pst) : option status :=
  match rev (p_issued s) with (_, _, st) :: _ => Some st | [] => None end.

Definition no_cls : bool * bool * bool * list bool := (false, false, false, [false; false; false; false; false; false]).

Fixpoint pcheck (s : pst) (l : list pitem) : bool :=
  match l with
  | [] => true
  | IStep c ob :: t =>
      let s' := pstep s c in
      (match c, ob with
       | POp now o _, Some b =>
           match last_status s' with
           | Some (SAcked r) => obs_match true o r b
           | Some SFaulted => match b with ObFaulted cls => cls_eqb no_cls cls | _ => false end
           | _ => false
           end
       | POp _ _ _, None => false
       | _, None => true
       | _, Some _ => false
       end) && pcheck s' t
  | IList ns typ rs :: t => list_eqb res_eqb (st_list ns typ (loaded s)) rs && pcheck s t
  | IEvents ns typ evs :: t =>
      list_eqb sig_eqb (map ev_sig (filter (fun e => N.eqb (r_ns (ev_res e)) ns && N.eqb (r_typ (ev_res e)) typ) (p_events s))) evs && pcheck s t
  end.

Definition persist_mismatches (cs : list (list pitem)) : list N := mism_from (pcheck pinit) 0 cs.
