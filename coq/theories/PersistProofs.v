(* PersistProofs.v — C10 for every history of calls, faults and crash instants. *)
From Verif Require Import Persist Helpers HelpersProofs.
Open Scope N_scope.

Lemma no_effect_same now o m : has_effect now o m = false -> apply_st now o m = m.
Proof.
  unfold has_effect, apply_ev, apply_st. destruct (apply now o m) as [[m' r] ev] eqn:E. simpl.
  destruct ev; [discriminate|]. intros _.
  destruct (apply_shape _ _ _ _ _ _ E) as [[_ [Es _]] | [[w [C _]] | [[w [cur [C _]]] | [cur [k0 [ow [_ [C _]]]]]]]]; try discriminate.
  exact Es.
Qed.

Lemma effect_result now o m : has_effect now o m = true ->
  (exists w, apply_res now o m = RWritten w) \/ apply_res now o m = ROk.
Proof.
  unfold has_effect, apply_ev, apply_res. destruct (apply now o m) as [[m' r] ev] eqn:E. simpl.
  destruct ev as [e|]; [|discriminate]. intros _.
  destruct (apply_shape _ _ _ _ _ _ E) as [[C _] | [[w [_ [R _]]] | [[w [cur [_ [R _]]]] | [cur [k0 [ow [_ [_ [R _]]]]]]]]]; try discriminate; subst; eauto.
Qed.

Lemma no_effect_result now o m : has_effect now o m = false ->
  (forall w, apply_res now o m <> RWritten w) /\ apply_res now o m <> ROk.
Proof.
  unfold has_effect, apply_ev, apply_res. destruct (apply now o m) as [[m' r] ev] eqn:E. simpl.
  destruct ev as [e|]; [discriminate|]. intros _.
  destruct (apply_shape _ _ _ _ _ _ E) as [[_ [_ [A B]]] | [[w [C _]] | [[w [cur [C _]]] | [cur [k0 [ow [_ [C _]]]]]]]]; try discriminate.
  split; assumption.
Qed.

Definition PInv (s : pst) : Prop :=
  (forall m, p_mem s = Some m -> m = p_dur s) /\ p_dur s = replay (p_issued s).

Lemma replay_snoc l e :
  replay (l ++ [e]) = if effective e then (let '(now, o, _) := e in apply_st now o (replay l)) else replay l.
Proof.
  unfold replay. rewrite filter_app. cbn [filter]. destruct (effective e).
  - rewrite fold_left_app. reflexivity.
  - rewrite app_nil_r. reflexivity.
Qed.

Lemma loaded_is_dur s : PInv s -> loaded s = p_dur s.
Proof. intros [H _]. unfold loaded. destruct (p_mem s) as [m|]; [apply H; reflexivity | reflexivity]. Qed.

Lemma pstep_inv s c : PInv s -> PInv (pstep s c).
Proof.
  intros Hi. pose proof (loaded_is_dur s Hi) as L. destruct Hi as [Hm Hd].
  destruct c as [now o fault|now o|now o| |]; cbn [pstep].
  - destruct (has_effect now o (loaded s)) eqn:E.
    + destruct fault.
      * split; cbn [p_mem p_dur p_issued]; [intros m H; inversion H; subst; exact L|].
        rewrite replay_snoc. cbn [effective]. exact Hd.
      * split; cbn [p_mem p_dur p_issued]; [intros m H; inversion H; subst; rewrite L; reflexivity|].
        rewrite replay_snoc. destruct (effect_result _ _ _ E) as [[w R]|R]; rewrite R; cbn [effective]; rewrite <- Hd; reflexivity.
    + split; cbn [p_mem p_dur p_issued]; [intros m H; inversion H; subst; exact L|].
      rewrite replay_snoc. destruct (no_effect_result _ _ _ E) as [A B].
      destruct (apply_res now o (loaded s)) as [e| |w|w|l] eqn:R; cbn [effective]; try exact Hd; [exfalso; apply B; reflexivity | exfalso; eapply A; reflexivity].
  - split; cbn [p_mem p_dur p_issued]; [intros m H; discriminate|]. rewrite replay_snoc. cbn [effective]. exact Hd.
  - destruct (has_effect now o (loaded s)) eqn:E; (split; cbn [p_mem p_dur p_issued]; [intros m H; discriminate|]); rewrite replay_snoc; cbn [effective].
    + rewrite <- Hd. reflexivity.
    + exact Hd.
  - split; cbn [p_mem p_dur p_issued]; [intros m H; discriminate | exact Hd].
  - split; assumption.
Qed.

Lemma pinit_inv : PInv pinit.
Proof. split; [intros m H; discriminate | reflexivity]. Qed.

Theorem prun_inv l : PInv (prun l).
Proof.
  unfold prun. assert (G : forall s, PInv s -> PInv (fold_left pstep l s)).
  { induction l as [|c t IH]; intros s Hs; [exact Hs|]. simpl. apply IH. apply pstep_inv. exact Hs. }
  apply G. exact pinit_inv.
Qed.

(* after any history of calls, rejected writes, failed loads and crashes (between or inside calls), what a reopened
   state loads is exactly the replay of the calls that took effect: every acknowledged successful write, plus those
   writes that reached the backing store right before a crash; memory, whenever loaded, equals the backing store *)
Theorem reopened_state_is_replay l :
  let s := prun l in
  p_dur s = replay (p_issued s) /\ loaded s = p_dur s /\
  (forall now o r, In (now, o, SAcked r) (p_issued s) -> ((exists w, r = RWritten w) \/ r = ROk) -> effective (now, o, SAcked r) = true).
Proof.
  intros s. pose proof (prun_inv l) as Hi. fold s in Hi. split; [exact (proj2 Hi)|]. split; [apply loaded_is_dur; exact Hi|].
  intros now o r _ [[w ->] | ->]; reflexivity.
Qed.

(* a call whose write the backing store rejects: the caller gets an error-free-of-effects outcome — memory, the
   backing store and the watchers' event log are exactly as before *)
Theorem store_error_invisible s now o :
  PInv s -> has_effect now o (loaded s) = true ->
  let s' := pstep s (POp now o true) in
  p_dur s' = p_dur s /\ loaded s' = loaded s /\ (p_mem s <> None -> p_events s' = p_events s).
Proof.
  intros Hi E. cbn [pstep]. rewrite E. cbn [p_dur p_mem p_events loaded]. repeat split.
  intros H. destruct (p_mem s); [reflexivity | contradiction].
Qed.

(* calls that are refused by validation never reach the backing store *)
Theorem rejected_never_durable s now o fault :
  has_effect now o (loaded s) = false -> p_dur (pstep s (POp now o fault)) = p_dur s.
Proof. intros E. cbn [pstep]. rewrite E. reflexivity. Qed.

(* later operations behave as if no restart happened: the first call after a crash runs on the replayed contents *)
Theorem continues_as_if l now o :
  let s := prun l in
  p_issued (pstep s (POp now o false)) = p_issued s ++ [(now, o, SAcked (apply_res now o (replay (p_issued s))))].
Proof.
  intros s. pose proof (prun_inv l) as Hi. fold s in Hi. pose proof (loaded_is_dur s Hi) as L. destruct Hi as [_ Hd].
  cbn [pstep]. rewrite L, Hd. destruct (has_effect now o (replay (p_issued s))); reflexivity.
Qed.

Example persist_example :
  let r := mkRes 1 2 3 None 0 false [] [] 0 0 9 in
  let s := prun [POp 5 (OpCreate r 0) false; POp 6 (OpCreate r 0) false; POp 7 (OpDestroy (1, 2, 3) 0) true;
                 POpCrashAfter 8 (OpDestroy (1, 2, 3) 0); POp 9 (OpGet (1, 2, 3)) false] in
  map (fun e => effective e) (p_issued s) = [true; false; false; true; false] /\ p_dur s = [] /\ p_mem s = Some [].
Proof. repeat split; vm_compute; reflexivity. Qed.
