(* Pipeline.v — the notification pipeline of the controller runtime (pkg/controller/runtime/runtime.go,
   internal/rruntime/watch.go, internal/qruntime/watch.go, internal/reduced):

     committed change -> aggregated kind watch -> watchCh -> processEvents (last-value-wins dedup map)
       -> takeOne -> GetDependentControllers -> WatchTrigger -> EventCh token / reconcile queue
       -> controller starts a reconcile (its reads see everything committed before the start)

   Values are reduced to what the triggers look at (reduced.Metadata: phase, finalizers-empty); what a
   controller reads it reads from the state/cache itself.  A schedule is an arbitrary list of steps. *)
From Verif Require Export Store DepDB.
Open Scope N_scope.

(* reduced metadata value *)
Record rval := mkRv { rv_phase : bool; rv_finsempty : bool }.
Definition destroy_ready (v : rval) : bool := rv_phase v && rv_finsempty v.   (* reduced.FilterDestroyReady *)

Definition reduce (r : res) : rval := mkRv (r_phase r) (match r_fins r with [] => true | _ => false end).

Definition pkey := (atom * atom * atom)%type.
Definition pkey_eqb (a b : pkey) : bool :=
  let '(a1, a2, a3) := a in let '(b1, b2, b3) := b in N.eqb a1 b1 && N.eqb a2 b2 && N.eqb a3 b3.

(* ---- triggers ------------------------------------------------------------------------------------- *)

(* does input i match a change of resource k (what GetDependentControllers decides) *)
Definition input_matches (i : input) (k : pkey) : bool :=
  let '(ns, typ, id) := k in
  N.eqb (i_ns i) ns && N.eqb (i_typ i) typ && match i_id i with None => true | Some x => N.eqb x id end.

(* rruntime.Adapter.WatchTrigger with one filter entry per input: wake iff some matching input is not
   destroy-ready-filtered or its filter passes *)
Definition r_trigger (ins : list input) (k : pkey) (v : rval) : bool :=
  existsb (fun i => input_matches i k && (negb (N.eqb (i_kind i) 2) || destroy_ready v)) ins.

(* qruntime.Adapter.WatchTrigger: one job per input on the same (namespace,type) *)
Inductive qjob := JReconcile | JMap.
Definition q_jobs (ins : list input) (k : pkey) (v : rval) : list qjob :=
  let '(ns, typ, _) := k in
  flat_map (fun i =>
              if N.eqb (i_ns i) ns && N.eqb (i_typ i) typ then
                if N.eqb (i_kind i) 3 then [JReconcile]
                else if N.eqb (i_kind i) 4 then [JMap]
                else if N.eqb (i_kind i) 5 then (if destroy_ready v then [JMap] else [])
                else []
              else []) ins.

(* ---- the abstract pipeline --------------------------------------------------------------------------- *)

Definition ctrl := nat.

Section Pipe.
  (* wants c k v: a change of k whose latest value reduces to v must wake controller c *)
  Variable wants : ctrl -> pkey -> rval -> bool.

  Record pstate := mkP {
    p_log : list (pkey * rval);            (* every committed change, in commit order *)
    p_proc : nat;                          (* how many log entries have been merged into the dedup map *)
    p_map : pkey -> option rval;           (* the dedup map (wherever it currently lives) *)
    p_deliver : option (pkey * rval);      (* the key taken by the delivering goroutine *)
    p_pend : ctrl -> pkey -> bool;         (* reconcile token / queue entry pending for (controller, key) *)
    p_seen : ctrl -> pkey -> nat           (* log length when c last started a reconcile covering key *)
  }.

  Inductive pstep_kind :=
  | SCommit (k : pkey) (v : rval)          (* a write commits (store + ring, atomically) *)
  | SProcess (n : nat)                     (* processEvents merges the next n delivered events into the map *)
  | STake (k : pkey)                       (* takeOne *)
  | SNotify                                (* WatchTrigger for every dependent controller *)
  | SStart (c : ctrl) (covers : pkey -> bool).  (* c begins a reconcile covering these keys *)

  Definition upd_map (m : pkey -> option rval) (k : pkey) (x : option rval) : pkey -> option rval :=
    fun k' => if pkey_eqb k' k then x else m k'.

  Fixpoint merge (es : list (pkey * rval)) (m : pkey -> option rval) : pkey -> option rval :=
    match es with
    | [] => m
    | (k, v) :: es' => merge es' (upd_map m k (Some v))
    end.

  Definition pstep (s : pstate) (a : pstep_kind) : pstate :=
    match a with
    | SCommit k v => mkP (p_log s ++ [(k, v)]) (p_proc s) (p_map s) (p_deliver s) (p_pend s) (p_seen s)
    | SProcess n =>
        let n' := Nat.min n (length (p_log s) - p_proc s) in
        mkP (p_log s) (p_proc s + n') (merge (firstn n' (skipn (p_proc s) (p_log s))) (p_map s))
            (p_deliver s) (p_pend s) (p_seen s)
    | STake k =>
        match p_deliver s, p_map s k with
        | None, Some v => mkP (p_log s) (p_proc s) (upd_map (p_map s) k None) (Some (k, v)) (p_pend s) (p_seen s)
        | _, _ => s
        end
    | SNotify =>
        match p_deliver s with
        | Some (k, v) =>
            mkP (p_log s) (p_proc s) (p_map s) None
                (fun c k' => if pkey_eqb k' k && wants c k v then true else p_pend s c k') (p_seen s)
        | None => s
        end
    | SStart c covers =>
        mkP (p_log s) (p_proc s) (p_map s) (p_deliver s)
            (fun c' k => if Nat.eqb c' c && covers k then false else p_pend s c' k)
            (fun c' k => if Nat.eqb c' c && covers k then length (p_log s) else p_seen s c' k)
    end.

  Definition prun (s : pstate) (sched : list pstep_kind) : pstate := fold_left pstep sched s.

  (* the latest committed change of a key: its position and reduced value *)
  Fixpoint latest_aux (k : pkey) (l : list (pkey * rval)) (i : nat) : option (nat * rval) :=
    match l with
    | [] => None
    | (k', v) :: l' =>
        match latest_aux k l' (S i) with
        | Some x => Some x
        | None => if pkey_eqb k' k then Some (i, v) else None
        end
    end.
  Definition latest (k : pkey) (log : list (pkey * rval)) : option (nat * rval) := latest_aux k log 0.

  Definition quiescent (s : pstate) : Prop :=
    p_proc s = length (p_log s) /\ (forall k, p_map s k = None) /\ p_deliver s = None /\
    (forall c k, p_pend s c k = false).
End Pipe.
