(* PipelineCheck.v — trigger-table checker: which controllers the real runtime wakes (and with which
   queue jobs) for an isolated change, against the model's trigger functions. *)
From Verif Require Import Store DepDB Pipeline.
Open Scope N_scope.

(* is_q, inputs, changed resource, its reduced value, observed: woke, reconcile job for that key, map job for that key *)
Definition trow := (bool * list input * pkey * rval * bool * nat * nat)%type.

Definition is_dependent (ins : list input) (k : pkey) : bool := existsb (fun i => input_matches i k) ins.

Definition has_job (j : qjob) (l : list qjob) : bool :=
  existsb (fun x => match x, j with JReconcile, JReconcile | JMap, JMap => true | _, _ => false end) l.

Definition count_job (j : qjob) (l : list qjob) : nat :=
  length (filter (fun x => match x, j with JReconcile, JReconcile | JMap, JMap => true | _, _ => false end) l).

Definition trow_ok (r : trow) : bool :=
  let '(is_q, ins, k, v, woke, nrec, nmap) := r in
  if is_q then
    let jobs := if is_dependent ins k then q_jobs ins k v else [] in
    (* one Put per input on the (namespace,type) and per trigger; the queue coalesces identical jobs that are put before a
       worker takes the first, so between one run and one run per Put - and none when no input asks for the job *)
    (* the controller is listed once per matching input (by kind and by id), and triggered once per listing *)
    let d := length (filter (fun i => input_matches i k) ins) in
    let in_range n j := if has_job j jobs then Nat.leb 1 n && Nat.leb n (d * count_job j jobs) else Nat.eqb n 0 in
    in_range nrec JReconcile && in_range nmap JMap
  else Bool.eqb woke (r_trigger ins k v).

Fixpoint mism_from {A} (chk : A -> bool) (i : N) (cs : list A) : list N :=
  match cs with
  | [] => []
  | c :: cs' => if chk c then mism_from chk (N.succ i) cs' else i :: mism_from chk (N.succ i) cs'
  end.

Definition trigger_mismatches (cs : list trow) : list N := mism_from trow_ok 0 cs.
