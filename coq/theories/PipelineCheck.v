(* PipelineCheck.v — trigger-table checker: which controllers the real runtime wakes (and with which
   queue jobs) for an isolated change, against the model's trigger functions. *)
From Verif Require Import Store DepDB Pipeline.
Open Scope N_scope.

(* is_q, inputs, changed resource, its reduced value, observed: woke, reconcile job for that key, map job for that key *)
Definition trow := (bool * list input * pkey * rval * bool * nat * nat)%type.

Definition is_dependent (ins : list input) (k : pkey) : bool := existsb (fun i => input_matches i k) ins.

Definition has_job (j : qjob) (l : list qjob) : bool :=
  existsb (fun x => match x, j with JReconcile, JReconcile | JMap, JMap => true | _, _ => false end) l.

Definition trow_ok (r : trow) : bool :=
  let '(is_q, ins, k, v, woke, nrec, nmap) := r in
  if is_q then
    let jobs := if is_dependent ins k then q_jobs ins k v else [] in
    (* the queue coalesces identical jobs: at most one reconcile and one map job per key *)
    Nat.eqb nrec (if has_job JReconcile jobs then 1 else 0) &&
    Nat.eqb nmap (if has_job JMap jobs then 1 else 0)
  else Bool.eqb woke (r_trigger ins k v).

Fixpoint mism_from {A} (chk : A -> bool) (i : N) (cs : list A) : list N :=
  match cs with
  | [] => []
  | c :: cs' => if chk c then mism_from chk (N.succ i) cs' else i :: mism_from chk (N.succ i) cs'
  end.

Definition trigger_mismatches (cs : list trow) : list N := mism_from trow_ok 0 cs.
