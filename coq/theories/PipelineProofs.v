(* PipelineProofs.v — no lost wake-ups: the carrier invariant of the notification pipeline, for every
   schedule of commits, event processing, delivery and reconcile starts; quiescence implies every
   controller has started a reconcile after the latest change of each of its inputs. *)
From Verif Require Import Pipeline.
From Coq Require Import Lia.
Open Scope nat_scope.

Lemma pkey_eqb_spec a b : reflect (a = b) (pkey_eqb a b).
Proof.
  destruct a as [[a1 a2] a3], b as [[b1 b2] b3]. unfold pkey_eqb.
  destruct (N.eqb_spec a1 b1); destruct (N.eqb_spec a2 b2); destruct (N.eqb_spec a3 b3); simpl; constructor; congruence.
Qed.

Lemma pkey_eqb_refl k : pkey_eqb k k = true.
Proof. destruct (pkey_eqb_spec k k); congruence. Qed.

(* ---- latest ------------------------------------------------------------------------------------- *)

Lemma latest_aux_bound k l i p v : latest_aux k l i = Some (p, v) -> i <= p < i + length l /\ nth_error l (p - i) = Some (k, v).
Proof.
  revert i; induction l as [|[k' v'] l IH]; intros i; simpl; [discriminate|].
  destruct (latest_aux k l (S i)) as [[p' v'']|] eqn:E.
  - intros H; inversion H; subst. destruct (IH _ E) as [H1 H2]. split; [lia|].
    replace (p - i) with (S (p - S i)) by lia. exact H2.
  - destruct (pkey_eqb_spec k' k) as [->|Hne]; [|discriminate]. intros H; inversion H; subst.
    split; [lia|]. rewrite Nat.sub_diag. reflexivity.
Qed.

Lemma latest_aux_shift k l i j : latest_aux k l (i + j) = option_map (fun x => (fst x + j, snd x)) (latest_aux k l i).
Proof.
  revert i; induction l as [|[k' v'] l IH]; intros i; simpl; [reflexivity|].
  replace (S (i + j)) with (S i + j) by lia. rewrite IH.
  destruct (latest_aux k l (S i)) as [[p v]|]; simpl; [reflexivity|].
  destruct (pkey_eqb k' k); reflexivity.
Qed.

Lemma latest_aux_app k l1 l2 i :
  latest_aux k (l1 ++ l2) i =
  match latest_aux k l2 (i + length l1) with Some x => Some x | None => latest_aux k l1 i end.
Proof.
  revert i; induction l1 as [|[k' v'] l1 IH]; intros i; simpl.
  - rewrite Nat.add_0_r. destruct (latest_aux k l2 i); reflexivity.
  - rewrite IH. replace (S i + length l1) with (i + S (length l1)) by lia.
    destruct (latest_aux k l2 (i + S (length l1))); [reflexivity|].
    destruct (latest_aux k l1 (S i)); reflexivity.
Qed.

Lemma latest_snoc_same k v log : latest k (log ++ [(k, v)]) = Some (length log, v).
Proof. unfold latest. rewrite latest_aux_app. simpl. rewrite pkey_eqb_refl. reflexivity. Qed.

Lemma latest_snoc_other k k' v log : k' <> k -> latest k' (log ++ [(k, v)]) = latest k' log.
Proof.
  intros H. unfold latest. rewrite latest_aux_app. simpl.
  destruct (pkey_eqb_spec k k'); [congruence | reflexivity].
Qed.

Lemma latest_bound k log p v : latest k log = Some (p, v) -> p < length log /\ nth_error log p = Some (k, v).
Proof. unfold latest. intros H. destruct (latest_aux_bound _ _ _ _ _ H) as [H1 H2]. rewrite Nat.sub_0_r in H2. split; [lia | exact H2]. Qed.

(* latest restricted to a segment: no entry of k after position p *)
Lemma latest_is_last k log p v q v' : latest k log = Some (p, v) -> nth_error log q = Some (k, v') -> q <= p.
Proof.
  unfold latest. intros H Hq.
  assert (G : forall l i p v q v', latest_aux k l i = Some (p, v) -> nth_error l q = Some (k, v') -> i + q <= p).
  { clear. induction l as [|[k' w] l IH]; intros i p v q v' H Hq; [destruct q; discriminate|]. simpl in H.
    destruct (latest_aux k l (S i)) as [[p' v'']|] eqn:E.
    - inversion H; subst. destruct q as [|q]; simpl in Hq.
      + destruct (latest_aux_bound _ _ _ _ _ E). lia.
      + specialize (IH _ _ _ _ _ E Hq). lia.
    - destruct (pkey_eqb_spec k' k) as [->|Hne]; [|discriminate]. inversion H; subst.
      destruct q as [|q]; [lia|]. simpl in Hq. exfalso.
      assert (X : forall l i q v', nth_error l q = Some (k, v') -> latest_aux k l i <> None).
      { clear. induction l as [|[k' w] l IH]; intros i q v' Hq; [destruct q; discriminate|]. simpl.
        destruct q as [|q]; simpl in Hq.
        - inversion Hq; subst. rewrite pkey_eqb_refl. destruct (latest_aux k l (S i)); discriminate.
        - specialize (IH (S i) q v' Hq). destruct (latest_aux k l (S i)); [discriminate | contradiction]. }
      exact (X l _ q v' Hq E). }
  specialize (G log 0 p v q v' H Hq). lia.
Qed.

(* ---- merge ---------------------------------------------------------------------------------------- *)

Section Proofs.
  Variable wants : ctrl -> pkey -> rval -> bool.

  Lemma merge_spec es m k :
    merge es m k = match latest k es with Some (_, v) => Some v | None => m k end.
  Proof.
    unfold latest. revert m. generalize 0. induction es as [|[k' v'] es IH]; intros i m; simpl; [reflexivity|].
    rewrite (IH (S i)). destruct (latest_aux k es (S i)) as [[p v]|]; [reflexivity|].
    unfold upd_map. rewrite (match pkey_eqb_spec k k', pkey_eqb_spec k' k with
                             | ReflectT _ _, ReflectT _ _ | ReflectF _ _, ReflectF _ _ => eq_refl
                             | ReflectT _ e, ReflectF _ n => match n (eq_sym e) with end
                             | ReflectF _ n, ReflectT _ e => match n (eq_sym e) with end
                             end : pkey_eqb k k' = pkey_eqb k' k).
    destruct (pkey_eqb k' k); reflexivity.
  Qed.

  (* ---- the carrier invariant --------------------------------------------------------------------- *)

  Record PInv (s : pstate) : Prop := mkPInv {
    pi_proc : p_proc s <= length (p_log s);
    pi_carrier : forall c k p v,
      latest k (p_log s) = Some (p, v) -> wants c k v = true -> p_seen s c k <= p ->
      p_proc s <= p \/ p_map s k = Some v \/ p_deliver s = Some (k, v) \/ p_pend s c k = true
  }.

  Lemma nth_error_firstn' {A} (l : list A) n q : q < n -> nth_error (firstn n l) q = nth_error l q.
  Proof.
    revert l q; induction n as [|n IH]; intros l q H; [lia|].
    destruct l as [|x l]; [destruct q; reflexivity|]. destruct q as [|q]; simpl; [reflexivity | apply IH; lia].
  Qed.

  Lemma nth_error_skipn' {A} (l : list A) a q : nth_error (skipn a l) q = nth_error l (a + q).
  Proof.
    revert l; induction a as [|a IH]; intros l; simpl; [reflexivity|].
    destruct l as [|x l]; [destruct q; reflexivity | apply IH].
  Qed.

  Lemma nth_error_segment {A} (l : list A) a n q x :
    nth_error (firstn n (skipn a l)) q = Some x -> nth_error l (a + q) = Some x /\ q < n.
  Proof.
    intros H. assert (Hq : q < n).
    { destruct (Nat.lt_ge_cases q n); [assumption|]. exfalso.
      assert (nth_error (firstn n (skipn a l)) q = None) by (apply nth_error_None; rewrite firstn_length; lia). congruence. }
    split; [|exact Hq]. rewrite nth_error_firstn' in H by exact Hq.
    rewrite nth_error_skipn' in H. exact H.
  Qed.

  Lemma segment_nth {A} (l : list A) a n q x :
    nth_error l (a + q) = Some x -> q < n -> nth_error (firstn n (skipn a l)) q = Some x.
  Proof. intros H Hq. rewrite nth_error_firstn' by exact Hq. rewrite nth_error_skipn'. exact H. Qed.

  Lemma PInv_step s a : PInv s -> PInv (pstep wants s a).
  Proof.
    intros HI. pose proof HI as [Hp Hc]. destruct a as [k0 v0|n|k0| |c0 covers]; cbn [pstep].
    - (* commit *)
      constructor; cbn [p_log p_proc p_map p_deliver p_pend p_seen]; [rewrite app_length; simpl; lia|].
      intros c k p v Hl Hw Hs. destruct (pkey_eqb_spec k k0) as [->|Hne].
      + rewrite latest_snoc_same in Hl. inversion Hl; subst. left. exact Hp.
      + rewrite latest_snoc_other in Hl by exact Hne. apply (Hc c k p v Hl Hw Hs).
    - (* process *)
      set (n' := Nat.min n (length (p_log s) - p_proc s)).
      constructor; cbn [p_log p_proc p_map p_deliver p_pend p_seen]; [lia|].
      intros c k p v Hl Hw Hs. destruct (latest_bound _ _ _ _ Hl) as [Hb Hn].
      destruct (Nat.lt_ge_cases p (p_proc s)) as [Lt|Ge].
      + (* already processed: the chunk has no entry of k *)
        destruct (Hc c k p v Hl Hw Hs) as [H|[H|[H|H]]]; [lia| |right; right; left; exact H | right; right; right; exact H].
        right; left. rewrite merge_spec.
        destruct (latest k (firstn n' (skipn (p_proc s) (p_log s)))) as [[q w]|] eqn:Eq; [|exact H].
        exfalso. destruct (latest_bound _ _ _ _ Eq) as [_ Hq]. apply nth_error_segment in Hq. destruct Hq as [Hq _].
        pose proof (latest_is_last _ _ _ _ _ _ Hl Hq). lia.
      + destruct (Nat.lt_ge_cases p (p_proc s + n')) as [Lt2|Ge2]; [|left; exact Ge2].
        right; left. rewrite merge_spec.
        assert (Hseg : nth_error (firstn n' (skipn (p_proc s) (p_log s))) (p - p_proc s) = Some (k, v)).
        { apply segment_nth; [replace (p_proc s + (p - p_proc s)) with p by lia; exact Hn | lia]. }
        destruct (latest k (firstn n' (skipn (p_proc s) (p_log s)))) as [[q w]|] eqn:Eq.
        * destruct (latest_bound _ _ _ _ Eq) as [_ Hq]. pose proof (latest_is_last _ _ _ _ _ _ Eq Hseg) as Hle.
          apply nth_error_segment in Hq. destruct Hq as [Hq Hqn].
          pose proof (latest_is_last _ _ _ _ _ _ Hl Hq) as Hle2.
          assert (q = p - p_proc s) by lia. subst q.
          replace (p_proc s + (p - p_proc s)) with p in Hq by lia. congruence.
        * exfalso. unfold latest in Eq.
          assert (X : forall l i q v', nth_error l q = Some (k, v') -> latest_aux k l i <> None).
          { clear. induction l as [|[k' w] l IH]; intros i q v' Hq; [destruct q; discriminate|]. simpl.
            destruct q as [|q]; simpl in Hq.
            - inversion Hq; subst. rewrite pkey_eqb_refl. destruct (latest_aux k l (S i)); discriminate.
            - specialize (IH (S i) q v' Hq). destruct (latest_aux k l (S i)); [discriminate | contradiction]. }
          apply (X _ 0 _ _ Hseg). exact Eq.
    - (* take *)
      destruct (p_deliver s) as [d|] eqn:Ed; [exact HI|].
      destruct (p_map s k0) as [v0|] eqn:Em; [|exact HI].
      constructor; cbn [p_log p_proc p_map p_deliver p_pend p_seen]; [exact Hp|].
      intros c k p v Hl Hw Hs. unfold upd_map.
      destruct (Hc c k p v Hl Hw Hs) as [H|[H|[H|H]]]; [left; exact H | | discriminate | right; right; right; exact H].
      destruct (pkey_eqb_spec k k0) as [->|Hne]; [|right; left; exact H].
      right; right; left. rewrite Em in H. inversion H; subst. reflexivity.
    - (* notify *)
      destruct (p_deliver s) as [[k0 v0]|] eqn:Ed; [|exact HI].
      constructor; cbn [p_log p_proc p_map p_deliver p_pend p_seen]; [exact Hp|].
      intros c k p v Hl Hw Hs.
      destruct (Hc c k p v Hl Hw Hs) as [H|[H|[H|H]]]; [left; exact H | right; left; exact H | |].
      + inversion H; subst. right; right; right. rewrite pkey_eqb_refl, Hw. reflexivity.
      + right; right; right. rewrite H. destruct (pkey_eqb k k0 && wants c k0 v0); reflexivity.
    - (* a reconcile starts *)
      constructor; cbn [p_log p_proc p_map p_deliver p_pend p_seen]; [exact Hp|].
      intros c k p v Hl Hw Hs. destruct (Nat.eqb c c0 && covers k) eqn:E.
      + destruct (latest_bound _ _ _ _ Hl). lia.
      + apply (Hc c k p v Hl Hw Hs).
  Qed.

  Theorem carrier_invariant s0 sched : PInv s0 -> PInv (prun wants s0 sched).
  Proof.
    revert s0. induction sched as [|a sched IH]; intros s0 H; simpl; [exact H | apply IH, PInv_step, H].
  Qed.

  (* no lost wake-up: whenever the pipeline is quiet, every controller has started a reconcile after the
     latest change of every resource it must be woken for *)
  Theorem quiescent_covered s0 sched :
    PInv s0 ->
    let s := prun wants s0 sched in
    quiescent s ->
    forall c k p v, latest k (p_log s) = Some (p, v) -> wants c k v = true -> p < p_seen s c k.
  Proof.
    intros H0 s [Q1 [Q2 [Q3 Q4]]] c k p v Hl Hw.
    destruct (carrier_invariant s0 sched H0) as [Hp Hc]. fold s in Hp, Hc.
    destruct (Nat.lt_ge_cases p (p_seen s c k)) as [L|G]; [exact L|]. exfalso.
    destruct (latest_bound _ _ _ _ Hl) as [Hb _].
    destruct (Hc c k p v Hl Hw G) as [H|[H|[H|H]]].
    - lia.
    - rewrite Q2 in H. discriminate.
    - rewrite Q3 in H. discriminate.
    - rewrite Q4 in H. discriminate.
  Qed.

  (* a fresh runtime, and a runtime started on pre-existing contents whose controllers get their start-up
     trigger for everything they want *)
  Lemma PInv_fresh : PInv (mkP [] 0 (fun _ => None) None (fun _ _ => false) (fun _ _ => 0)).
  Proof. constructor; simpl; [lia|]. intros c k p v H. discriminate. Qed.

  Lemma PInv_started log pend :
    (forall c k p v, latest k log = Some (p, v) -> wants c k v = true -> pend c k = true) ->
    PInv (mkP log (length log) (fun _ => None) None pend (fun _ _ => 0)).
  Proof. intros H. constructor; simpl; [lia|]. intros c k p v Hl Hw _. right; right; right. eapply H; eauto. Qed.
End Proofs.

(* ---- the concrete triggers wake a controller for every matching input ---------------------------- *)

Theorem r_trigger_complete ins k v i :
  In i ins -> input_matches i k = true -> (i_kind i <> 2%N \/ destroy_ready v = true) -> r_trigger ins k v = true.
Proof.
  intros Hin Hm Hk. unfold r_trigger. apply existsb_exists. exists i. split; [exact Hin|]. rewrite Hm. simpl.
  destruct Hk as [Hk|Hk]; [|rewrite Hk; apply orb_true_r].
  destruct (N.eqb_spec (i_kind i) 2); [contradiction | reflexivity].
Qed.

Theorem r_trigger_sound ins k v :
  r_trigger ins k v = true -> exists i, In i ins /\ input_matches i k = true /\ (i_kind i <> 2%N \/ destroy_ready v = true).
Proof.
  unfold r_trigger. intros H. apply existsb_exists in H. destruct H as [i [Hin H]]. exists i. split; [exact Hin|].
  apply andb_prop in H. destruct H as [H1 H2]. split; [exact H1|].
  apply orb_prop in H2. destruct H2 as [H2|H2]; [left | right; exact H2].
  destruct (N.eqb_spec (i_kind i) 2); [discriminate | assumption].
Qed.

Theorem q_jobs_complete ins ns typ id v i :
  In i ins -> i_ns i = ns -> i_typ i = typ ->
  (i_kind i = 3%N -> In JReconcile (q_jobs ins (ns, typ, id) v)) /\
  (i_kind i = 4%N -> In JMap (q_jobs ins (ns, typ, id) v)) /\
  (i_kind i = 5%N -> destroy_ready v = true -> In JMap (q_jobs ins (ns, typ, id) v)).
Proof.
  intros Hin Hn Ht. unfold q_jobs.
  assert (G : forall j, In j (if (i_ns i =? ns)%N && (i_typ i =? typ)%N then
                               if (i_kind i =? 3)%N then [JReconcile] else if (i_kind i =? 4)%N then [JMap]
                               else if (i_kind i =? 5)%N then (if destroy_ready v then [JMap] else []) else [] else []) ->
                   In j (flat_map (fun i0 => if (i_ns i0 =? ns)%N && (i_typ i0 =? typ)%N then
                               if (i_kind i0 =? 3)%N then [JReconcile] else if (i_kind i0 =? 4)%N then [JMap]
                               else if (i_kind i0 =? 5)%N then (if destroy_ready v then [JMap] else []) else [] else []) ins)).
  { intros j Hj. apply in_flat_map. exists i. split; assumption. }
  rewrite Hn, Ht, !N.eqb_refl in G. simpl in G.
  repeat split.
  - intros Hk. apply G. rewrite Hk. simpl. left. reflexivity.
  - intros Hk. apply G. rewrite Hk. simpl. left. reflexivity.
  - intros Hk Hd. apply G. rewrite Hk, Hd. simpl. left. reflexivity.
Qed.
