(* Queue.v — executable model of the reconcile queue
   (pkg/controller/runtime/internal/qruntime/internal/{queue,containers})
   and of runReconcile's outcome -> backoff decision (qruntime.go, backoff.go).

   Model only: proofs live in QueueProofs.v, property statements in props/C09.v. *)
From Coq Require Export List ZArith NArith Bool Lia.
Export ListNotations.
Open Scope Z_scope.

(* keys and values are opaque atoms; times are nanoseconds on the (virtual) clock *)
Definition K := N.
Definition V := N.
Definition pqitem := (K * V * Z)%type.

Definition pk (i : pqitem) : K := fst (fst i).
Definition pv (i : pqitem) : V := snd (fst i).
Definition pra (i : pqitem) : Z := snd i.

(* ---- containers.PriorityQueue ------------------------------------------------ *)

(* slices.IndexFunc by key, as "find the item" *)
Fixpoint pq_find (k : K) (q : list pqitem) : option pqitem :=
  match q with
  | [] => None
  | i :: q' => if N.eqb (pk i) k then Some i else pq_find k q'
  end.

(* slices.Delete(items, idx, idx+1) for the first item with this key *)
Fixpoint pq_remove (k : K) (q : list pqitem) : list pqitem :=
  match q with
  | [] => []
  | i :: q' => if N.eqb (pk i) k then q' else i :: pq_remove k q'
  end.

(* items[idx].Value = value *)
Fixpoint pq_setval (k : K) (v : V) (q : list pqitem) : list pqitem :=
  match q with
  | [] => []
  | i :: q' => if N.eqb (pk i) k then (k, v, pra i) :: q' else i :: pq_setval k v q'
  end.

(* BinarySearchFunc with the "equal => -1" comparator on a sorted slice:
   the first index whose releaseAfter is strictly greater; then slices.Insert there. *)
Fixpoint pq_insert (n : pqitem) (q : list pqitem) : list pqitem :=
  match q with
  | [] => [n]
  | i :: q' => if Z.ltb (pra n) (pra i) then n :: i :: q' else i :: pq_insert n q'
  end.

(* PriorityQueue.Push: returns the new queue and "added" *)
Definition pq_push (k : K) (v : V) (ra : Z) (overwrite : bool) (q : list pqitem)
  : list pqitem * bool :=
  match pq_find k q with
  | None => (pq_insert (k, v, ra) q, true)
  | Some old =>
      let q1 := if overwrite then pq_setval k v q else q in
      if Z.gtb ra (pra old) then (q1, false)
      else (pq_insert (k, v, ra) (pq_remove k q1), false)
  end.

(* PriorityQueue.Peek(now): Some item if the head is ready *)
Definition pq_peek (now : Z) (q : list pqitem) : option pqitem :=
  match q with
  | i :: _ => if Z.leb (pra i) now then Some i else None
  | [] => None
  end.

(* delay returned by Peek when nothing is ready (0 when empty) *)
Definition pq_delay (now : Z) (q : list pqitem) : Z :=
  match q with
  | i :: _ => if Z.leb (pra i) now then 0 else pra i - now
  | [] => 0
  end.

(* ---- containers.SliceSet ------------------------------------------------------ *)

Definition set_contains (k : K) (s : list K) : bool := existsb (N.eqb k) s.
Definition set_add (k : K) (s : list K) : list K := if set_contains k s then s else s ++ [k].
Fixpoint set_remove (k : K) (s : list K) : list K :=
  match s with
  | [] => []
  | x :: s' => if N.eqb x k then s' else x :: set_remove k s'
  end.

(* ---- onHoldQueue: map[K]V as an association list ------------------------------ *)

Fixpoint amap_get (k : K) (m : list (K * V)) : option V :=
  match m with
  | [] => None
  | (k', v) :: m' => if N.eqb k' k then Some v else amap_get k m'
  end.
Fixpoint amap_del (k : K) (m : list (K * V)) : list (K * V) :=
  match m with
  | [] => []
  | (k', v) :: m' => if N.eqb k' k then amap_del k m' else (k', v) :: amap_del k m'
  end.
Definition amap_set (k : K) (v : V) (m : list (K * V)) : list (K * V) := (k, v) :: amap_del k m.

(* ---- queue.Queue.Run: one select-arm per event -------------------------------- *)

Record qstate := mkQ {
  q_pq : list pqitem;        (* pqueue *)
  q_hold : list K;           (* onHold *)
  q_parked : list (K * V);   (* onHoldQueue *)
  q_len : Z                  (* length (atomic counter) *)
}.

Definition q_init : qstate := mkQ [] [] [] 0.

Inductive qevent :=
| EPut (k : K) (v : V) (now : Z)
| EGet (now : Z)                                   (* a worker is ready to receive *)
| ERelease (k : K) (v : V) (after : option Z) (now : Z).  (* None = Release(), Some t = Requeue(t) *)

Definition ev_now (e : qevent) : Z :=
  match e with EPut _ _ n => n | EGet n => n | ERelease _ _ _ n => n end.

Definition q_step (s : qstate) (e : qevent) : qstate * option (K * V) :=
  match e with
  | EPut k v now =>
      if set_contains k (q_hold s) then
        let already := match amap_get k (q_parked s) with Some _ => true | None => false end in
        (mkQ (q_pq s) (q_hold s) (amap_set k v (q_parked s))
             (if already then q_len s else q_len s + 1), None)
      else
        let '(pq', added) := pq_push k v now true (q_pq s) in
        (mkQ pq' (q_hold s) (q_parked s) (if added then q_len s + 1 else q_len s), None)
  | EGet now =>
      match pq_peek now (q_pq s) with
      | Some i =>
          (mkQ (tl (q_pq s)) (set_add (pk i) (q_hold s)) (q_parked s) (q_len s - 1),
           Some (pk i, pv i))
      | None => (s, None)
      end
  | ERelease k v after now =>
      let hold' := set_remove k (q_hold s) in
      let '(pq1, len1) :=
        match after with
        | Some t =>
            let '(pq', added) := pq_push k v t false (q_pq s) in
            (pq', if added then q_len s + 1 else q_len s)
        | None => (q_pq s, q_len s)
        end in
      match amap_get k (q_parked s) with
      | Some pvv =>
          let '(pq2, added2) := pq_push k pvv now true pq1 in
          (mkQ pq2 hold' (amap_del k (q_parked s)) (if added2 then len1 else len1 - 1), None)
      | None => (mkQ pq1 hold' (q_parked s) len1, None)
      end
  end.

(* run a whole event string; outputs in order, one per event *)
Fixpoint q_run (s : qstate) (es : list qevent) : qstate * list (option (K * V)) :=
  match es with
  | [] => (s, [])
  | e :: es' =>
      let '(s1, o) := q_step s e in
      let '(s2, os) := q_run s1 es' in
      (s2, o :: os)
  end.

(* ---- runReconcile outcome handling + exponential backoff ---------------------- *)

Inductive outcome :=
| OOk                      (* nil *)
| OSkip                    (* error tagged SkipReconcileTag *)
| OErr                     (* plain error (a recovered panic is a plain error) *)
| ORequeue (d : Z)         (* RequeueError with nil error, interval d *)
| ORequeueErr (d : Z)      (* RequeueError wrapping an error, interval d *)
| ORequeueSkip (d : Z).    (* RequeueError wrapping a skip-tagged error *)

Definition bo_initial : Z := 500000000.      (* 500ms *)
Definition bo_max : Z := 60000000000.        (* 60s *)

(* ExponentialBackOff.incrementCurrentInterval with Multiplier 1.5 *)
Definition bo_next (c : Z) : Z := if Z.leb (2 * bo_max) (3 * c) then bo_max else (3 * c) / 2.

(* getRandomValueFromInterval with RandomizationFactor 0.5: [c - c/2, c + c/2 + 1) *)
Definition bo_window (c : Z) : Z * Z := (c / 2, (3 * c) / 2 + 1).

(* per-key backoff table: key -> currentInterval (absent = no backoff object) *)
Definition botab := list (K * Z).
Fixpoint bo_get (k : K) (t : botab) : option Z :=
  match t with [] => None | (k', c) :: t' => if N.eqb k' k then Some c else bo_get k t' end.
Fixpoint bo_del (k : K) (t : botab) : botab :=
  match t with [] => [] | (k', c) :: t' => if N.eqb k' k then bo_del k t' else (k', c) :: bo_del k t' end.
Definition bo_set (k : K) (c : Z) (t : botab) : botab := (k, c) :: bo_del k t.

(* what runReconcile decides: the admissible requeue-interval window
   (None = plain Release, Some (lo,hi) = Requeue(now + d) with lo <= d <= hi) *)
Definition reconcile_decide (k : K) (o : outcome) (t : botab) : botab * option (Z * Z) :=
  match o with
  | OOk => (bo_del k t, None)
  | OSkip => (bo_del k t, None)
  | ORequeue d => (bo_del k t, if Z.eqb d 0 then None else Some (d, d))
  | ORequeueSkip d => (bo_del k t, if Z.eqb d 0 then None else Some (d, d))
  | ORequeueErr d =>
      if Z.eqb d 0 then
        let c := match bo_get k t with Some c => c | None => bo_initial end in
        (bo_set k (bo_next c) t, Some (bo_window c))
      else (t, Some (d, d))
  | OErr =>
      let c := match bo_get k t with Some c => c | None => bo_initial end in
      (bo_set k (bo_next c) t, Some (bo_window c))
  end.
