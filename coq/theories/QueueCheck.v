(* QueueCheck.v — correspondence checkers: run the model on the observed histories and report
   the indices of the cases on which the real code's observables differ from the model's. *)
From Verif Require Import Queue.
Open Scope Z_scope.

Definition qobs := (qevent * option (K * V) * Z)%type.

Definition out_eqb (a b : option (K * V)) : bool :=
  match a, b with
  | None, None => true
  | Some (k1, v1), Some (k2, v2) => N.eqb k1 k2 && N.eqb v1 v2
  | _, _ => false
  end.

Fixpoint q_check_from (s : qstate) (c : list qobs) : bool :=
  match c with
  | [] => true
  | (e, o, l) :: c' =>
      let '(s', o') := q_step s e in
      out_eqb o o' && Z.eqb l (q_len s') && q_check_from s' c'
  end.

Fixpoint mism_from {A} (chk : A -> bool) (i : N) (cs : list A) : list N :=
  match cs with
  | [] => []
  | c :: cs' => if chk c then mism_from chk (N.succ i) cs' else i :: mism_from chk (N.succ i) cs'
  end.

Definition q_mismatches (cs : list (list qobs)) : list N := mism_from (q_check_from q_init) 0%N cs.

(* backoff: observed gap to the next reconcile (-1 = none) must lie in the model's window *)
Fixpoint bo_check_from (t : botab) (c : list (outcome * Z)) : bool :=
  match c with
  | [] => true
  | (o, gap) :: c' =>
      let '(t', w) := reconcile_decide 0%N o t in
      (match w with
       | None => Z.eqb gap (-1)
       | Some (lo, hi) => Z.leb lo gap && Z.leb gap hi
       end) && bo_check_from t' c'
  end.

Definition bo_mismatches (cs : list (list (outcome * Z))) : list N := mism_from (bo_check_from []) 0%N cs.
