(* QueueProofs.v — invariants of the reconcile-queue model over all event histories. *)
From Verif Require Import Queue.
Open Scope Z_scope.

(* ------------------------------------------------------------------------------ *)
(* basic list facts                                                                *)

Definition keys (q : list pqitem) : list K := map pk q.

Fixpoint sorted (q : list pqitem) : Prop :=
  match q with
  | [] => True
  | i :: q' => (forall j, In j q' -> pra i <= pra j) /\ sorted q'
  end.

Lemma set_contains_In k s : set_contains k s = true <-> In k s.
Proof.
  unfold set_contains. rewrite existsb_exists. split.
  - intros [x [Hx He]]. apply N.eqb_eq in He. subst. exact Hx.
  - intros H. exists k. split; [exact H | apply N.eqb_refl].
Qed.

Lemma set_contains_false k s : set_contains k s = false <-> ~ In k s.
Proof.
  rewrite <- set_contains_In. destruct (set_contains k s); split; intros H; congruence.
Qed.

Lemma set_remove_In k x s : In x (set_remove k s) -> In x s.
Proof.
  induction s as [|y s IH]; simpl; [tauto|].
  destruct (N.eqb y k); simpl; intros H; tauto.
Qed.

Lemma set_remove_other k x s : x <> k -> In x s -> In x (set_remove k s).
Proof.
  intros Hne. induction s as [|y s IH]; simpl; [tauto|].
  destruct (N.eqb_spec y k) as [->|Hyk]; simpl; intros [H|H]; subst; try tauto.
Qed.

Lemma set_remove_NoDup k s : NoDup s -> NoDup (set_remove k s) /\ ~ In k (set_remove k s).
Proof.
  induction s as [|y s IH]; simpl; intros Hnd.
  - split; [constructor | tauto].
  - inversion Hnd as [|y' s' Hy Hs]; subst.
    destruct (N.eqb_spec y k) as [->|Hyk].
    + split; assumption.
    + destruct (IH Hs) as [IH1 IH2]. split.
      * constructor; [|exact IH1]. intros Hin. apply Hy. eapply set_remove_In; eauto.
      * simpl. intros [H|H]; [congruence | tauto].
Qed.

Lemma set_add_In k x s : In x (set_add k s) <-> x = k \/ In x s.
Proof.
  unfold set_add. destruct (set_contains k s) eqn:E.
  - apply set_contains_In in E. split; [tauto|]. intros [->|H]; assumption.
  - rewrite in_app_iff. simpl. split; intros H; intuition.
Qed.

Lemma NoDup_nodup_app_single (k : K) s : NoDup s -> ~ In k s -> NoDup (s ++ [k]).
Proof.
  induction s as [|y s IH]; simpl; intros Hnd Hk.
  - constructor; [tauto | constructor].
  - inversion Hnd as [|y' s' Hy Hs]; subst. constructor.
    + rewrite in_app_iff. simpl. intros [H|[H|[]]]; [tauto | subst; tauto].
    + apply IH; tauto.
Qed.

Lemma set_add_NoDup k s : NoDup s -> NoDup (set_add k s).
Proof.
  intros H. unfold set_add. destruct (set_contains k s) eqn:E; [exact H|].
  apply set_contains_false in E.
  apply NoDup_nodup_app_single; assumption.
Qed.

(* ------------------------------------------------------------------------------ *)
(* PriorityQueue                                                                   *)

Lemma pq_find_Some k q i : pq_find k q = Some i -> In i q /\ pk i = k.
Proof.
  induction q as [|j q IH]; simpl; [discriminate|].
  destruct (N.eqb_spec (pk j) k) as [E|E]; intros H.
  - inversion H; subst. split; [left; reflexivity | reflexivity].
  - destruct (IH H) as [H1 H2]. split; [right; exact H1 | exact H2].
Qed.

Lemma pq_find_None k q : pq_find k q = None <-> ~ In k (keys q).
Proof.
  induction q as [|j q IH]; simpl; [tauto|].
  destruct (N.eqb_spec (pk j) k) as [E|E].
  - split; [discriminate | intros H; exfalso; apply H; left; exact E].
  - rewrite IH. tauto.
Qed.

Lemma keys_In i q : In i q -> In (pk i) (keys q).
Proof. intros H. unfold keys. apply in_map. exact H. Qed.

Lemma keys_In_ex k q : In k (keys q) -> exists i, In i q /\ pk i = k.
Proof. unfold keys. rewrite in_map_iff. intros [i [H1 H2]]. exists i. tauto. Qed.

Lemma NoDup_keys_unique q i j : NoDup (keys q) -> In i q -> In j q -> pk i = pk j -> i = j.
Proof.
  induction q as [|x q IH]; simpl; [tauto|].
  intros Hnd Hi Hj E. inversion Hnd as [|x' q' Hx Hq]; subst.
  destruct Hi as [Hi|Hi]; destruct Hj as [Hj|Hj]; subst; try reflexivity.
  - exfalso. apply Hx. rewrite E. apply keys_In. exact Hj.
  - exfalso. apply Hx. rewrite <- E. apply keys_In. exact Hi.
  - apply IH; assumption.
Qed.

Lemma pq_remove_In k x q : In x (pq_remove k q) -> In x q.
Proof.
  induction q as [|j q IH]; simpl; [tauto|].
  destruct (N.eqb (pk j) k); simpl; tauto.
Qed.

Lemma pq_remove_other k x q : pk x <> k -> In x q -> In x (pq_remove k q).
Proof.
  intros Hne. induction q as [|j q IH]; simpl; [tauto|].
  destruct (N.eqb_spec (pk j) k) as [E|E]; simpl; intros [H|H]; subst; tauto.
Qed.

Lemma pq_remove_keys k q : NoDup (keys q) ->
  NoDup (keys (pq_remove k q)) /\ ~ In k (keys (pq_remove k q)).
Proof.
  induction q as [|j q IH]; simpl; intros Hnd.
  - split; [constructor | tauto].
  - inversion Hnd as [|x' q' Hx Hq]; subst.
    destruct (N.eqb_spec (pk j) k) as [E|E].
    + subst. split; assumption.
    + destruct (IH Hq) as [IH1 IH2]. simpl. split.
      * constructor; [|exact IH1]. intros Hin. apply Hx.
        apply keys_In_ex in Hin. destruct Hin as [i [Hi1 Hi2]].
        rewrite <- Hi2. apply keys_In. eapply pq_remove_In; eauto.
      * intros [H|H]; tauto.
Qed.

Lemma pq_remove_sorted k q : sorted q -> sorted (pq_remove k q).
Proof.
  induction q as [|j q IH]; simpl; [tauto|]. intros [H1 H2].
  destruct (N.eqb (pk j) k); [exact H2|]. simpl. split; [|apply IH; exact H2].
  intros x Hx. apply H1. eapply pq_remove_In; eauto.
Qed.

Lemma pq_remove_length k q : In k (keys q) ->
  Z.of_nat (length (pq_remove k q)) = Z.of_nat (length q) - 1.
Proof.
  induction q as [|j q IH]; cbn [pq_remove keys map In length]; [tauto|].
  destruct (N.eqb_spec (pk j) k) as [E|E]; intros H.
  - rewrite Nat2Z.inj_succ. lia.
  - destruct H as [H|H]; [congruence|]. cbn [length]. rewrite !Nat2Z.inj_succ.
    specialize (IH H). lia.
Qed.

Lemma pq_insert_In n x q : In x (pq_insert n q) <-> x = n \/ In x q.
Proof.
  induction q as [|j q IH]; simpl; [intuition|].
  destruct (Z.ltb (pra n) (pra j)); simpl; [intuition|]. rewrite IH. intuition.
Qed.

Lemma pq_insert_sorted n q : sorted q -> sorted (pq_insert n q).
Proof.
  induction q as [|j q IH]; simpl; [intros _; split; [intros ? []|exact I]|].
  intros [H1 H2]. destruct (Z.ltb_spec (pra n) (pra j)) as [L|L]; simpl.
  - split; [|split; assumption]. intros x [Hx|Hx]; [subst; lia|]. specialize (H1 x Hx). lia.
  - split; [|apply IH; exact H2]. intros x Hx. apply pq_insert_In in Hx.
    destruct Hx as [->|Hx]; [exact L | apply H1; exact Hx].
Qed.

Lemma pq_insert_keys n q : NoDup (keys q) -> ~ In (pk n) (keys q) -> NoDup (keys (pq_insert n q)).
Proof.
  induction q as [|j q IH]; simpl; intros Hnd Hn.
  - constructor; [tauto | constructor].
  - destruct (Z.ltb (pra n) (pra j)); simpl.
    + constructor; [exact Hn | exact Hnd].
    + inversion Hnd as [|x' q' Hx Hq]; subst. constructor.
      * intros Hin. apply keys_In_ex in Hin. destruct Hin as [i [Hi1 Hi2]].
        apply pq_insert_In in Hi1. destruct Hi1 as [->|Hi1].
        -- apply Hn. left. symmetry. exact Hi2.
        -- apply Hx. rewrite <- Hi2. apply keys_In. exact Hi1.
      * apply IH; [exact Hq | tauto].
Qed.

Lemma pq_insert_length n q : length (pq_insert n q) = S (length q).
Proof.
  induction q as [|j q IH]; simpl; [reflexivity|].
  destruct (Z.ltb (pra n) (pra j)); simpl; [reflexivity | rewrite IH; reflexivity].
Qed.

Lemma pq_setval_keys k v q : keys (pq_setval k v q) = keys q.
Proof.
  induction q as [|j q IH]; simpl; [reflexivity|].
  destruct (N.eqb_spec (pk j) k) as [E|E]; simpl; [rewrite <- E; reflexivity | rewrite IH; reflexivity].
Qed.

Lemma pq_setval_In k v q x : ~ In k (keys q) \/ NoDup (keys q) ->
  In x (pq_setval k v q) <->
  (pk x <> k /\ In x q) \/ (exists old, In old q /\ pk old = k /\ x = (k, v, pra old)).
Proof.
  induction q as [|j q IH]; simpl; intros Hnd.
  - split; [tauto|]. intros [[_ []]|[old [[] _]]].
  - destruct (N.eqb_spec (pk j) k) as [E|E]; simpl.
    + assert (Hq : ~ In k (keys q)).
      { destruct Hnd as [Hnd|Hnd]; [exfalso; apply Hnd; left; exact E|].
        inversion Hnd; subst. assumption. }
      split.
      * intros [H|H].
        -- right. exists j. subst x. tauto.
        -- left. split; [|right; exact H]. intros Hk. apply Hq. rewrite <- Hk. apply keys_In. exact H.
      * intros [[H1 [H2|H2]]|[old [[H1|H1] [H2 H3]]]].
        -- exfalso. apply H1. rewrite <- H2. exact E.
        -- right. exact H2.
        -- left. rewrite H3, H1. reflexivity.
        -- exfalso. apply Hq. rewrite <- H2. apply keys_In. exact H1.
    + assert (Hnd' : ~ In k (keys q) \/ NoDup (keys q)).
      { destruct Hnd as [Hnd|Hnd]; [left; tauto | right; inversion Hnd; assumption]. }
      rewrite (IH Hnd'). split.
      * intros [H|[[H1 H2]|[old [H1 [H2 H3]]]]].
        -- subst x. left. tauto.
        -- left. tauto.
        -- right. exists old. tauto.
      * intros [[H1 [H2|H2]]|[old [[H1|H1] [H2 H3]]]].
        -- left. exact H2.
        -- right. left. tauto.
        -- exfalso. apply E. rewrite H1. exact H2.
        -- right. right. exists old. tauto.
Qed.

Lemma pq_setval_sorted k v q : sorted q -> sorted (pq_setval k v q).
Proof.
  assert (Hra : forall q x, In x (pq_setval k v q) -> exists y, In y q /\ pra y = pra x).
  { induction q0 as [|j q0 IH]; simpl; [tauto|]. intros x.
    destruct (N.eqb (pk j) k); simpl.
    - intros [H|H]; [exists j; subst x; simpl; tauto | exists x; tauto].
    - intros [H|H]; [exists x; tauto|]. destruct (IH x H) as [y [Hy1 Hy2]]. exists y. tauto. }
  induction q as [|j q IH]; simpl; [tauto|]. intros [H1 H2].
  destruct (N.eqb (pk j) k); simpl.
  - split; [|exact H2]. exact H1.
  - split; [|apply IH; exact H2]. intros x Hx. destruct (Hra q x Hx) as [y [Hy1 Hy2]].
    rewrite <- Hy2. apply H1. exact Hy1.
Qed.

Lemma pq_setval_length k v q : length (pq_setval k v q) = length q.
Proof.
  induction q as [|j q IH]; simpl; [reflexivity|].
  destruct (N.eqb (pk j) k); simpl; [reflexivity | rewrite IH; reflexivity].
Qed.

(* the single characterisation of Push used by everything below *)
Definition push_item (k : K) (v : V) (ra : Z) (ow : bool) (old : option pqitem) (i : pqitem) : Prop :=
  match old with
  | None => i = (k, v, ra)
  | Some o =>
      if ow then i = (k, v, Z.min ra (pra o))
      else if Z.gtb ra (pra o) then i = o else i = (k, v, ra)
  end.

Lemma pq_push_spec k v ra ow q q' added :
  sorted q -> NoDup (keys q) -> pq_push k v ra ow q = (q', added) ->
  sorted q' /\ NoDup (keys q') /\
  (forall x, pk x <> k -> (In x q' <-> In x q)) /\
  (added = true <-> ~ In k (keys q)) /\
  Z.of_nat (length q') = Z.of_nat (length q) + (if added then 1 else 0) /\
  exists i, In i q' /\ pk i = k /\ push_item k v ra ow (pq_find k q) i.
Proof.
  intros Hs Hnd. unfold pq_push. destruct (pq_find k q) as [old|] eqn:Ef.
  - destruct (pq_find_Some _ _ _ Ef) as [Hold Hk].
    assert (Hkin : In k (keys q)) by (rewrite <- Hk; apply keys_In; exact Hold).
    set (q1 := if ow then pq_setval k v q else q).
    assert (Hs1 : sorted q1) by (unfold q1; destruct ow; [apply pq_setval_sorted|]; exact Hs).
    assert (Hk1 : keys q1 = keys q) by (unfold q1; destruct ow; [apply pq_setval_keys | reflexivity]).
    assert (Hl1 : length q1 = length q) by (unfold q1; destruct ow; [apply pq_setval_length | reflexivity]).
    assert (Ho1 : forall x, pk x <> k -> (In x q1 <-> In x q)).
    { intros x Hx. unfold q1. destruct ow; [|tauto]. rewrite pq_setval_In by (right; exact Hnd).
      split; [intros [H|[o [_ [_ H]]]]; [tauto | subst x; unfold pk in Hx; simpl in Hx; congruence] | tauto]. }
    assert (Hi1 : exists i1, In i1 q1 /\ pk i1 = k /\ pra i1 = pra old /\
                             (if ow then pv i1 = v else i1 = old)).
    { unfold q1. destruct ow.
      - exists (k, v, pra old). split; [|simpl; tauto].
        apply pq_setval_In; [right; exact Hnd|]. right. exists old. tauto.
      - exists old. tauto. }
    destruct Hi1 as [i1 [Hi1a [Hi1b [Hi1c Hi1d]]]].
    destruct (Z.gtb_spec ra (pra old)) as [G|G]; intros E; inversion E; subst q' added; clear E.
    + split; [exact Hs1|]. split; [rewrite Hk1; exact Hnd|]. split; [exact Ho1|].
      split; [split; [discriminate | tauto]|]. split; [rewrite Hl1; lia|].
      exists i1. split; [exact Hi1a|]. split; [exact Hi1b|]. simpl. destruct ow.
      * destruct i1 as [[a b] c]. unfold pk, pv, pra in Hi1b, Hi1c, Hi1d. simpl in Hi1b, Hi1c, Hi1d.
        rewrite Hi1b, Hi1d, Hi1c. f_equal. unfold pra in *. lia.
      * destruct (Z.gtb_spec ra (pra old)); [exact Hi1d | lia].
    + assert (Hnd1 : NoDup (keys q1)) by (rewrite Hk1; exact Hnd).
      destruct (pq_remove_keys k q1 Hnd1) as [Hr1 Hr2].
      split; [apply pq_insert_sorted; apply pq_remove_sorted; exact Hs1|].
      split; [apply pq_insert_keys; [exact Hr1 | exact Hr2]|].
      split.
      { intros x Hx. rewrite pq_insert_In. rewrite <- Ho1 by exact Hx. split.
        - intros [->|H]; [unfold pk in Hx; simpl in Hx; congruence | eapply pq_remove_In; eauto].
        - intros H. right. apply pq_remove_other; assumption. }
      split; [split; [discriminate | tauto]|].
      split.
      { rewrite pq_insert_length. rewrite Nat2Z.inj_succ. rewrite pq_remove_length by (rewrite Hk1; exact Hkin).
        rewrite Hl1. lia. }
      exists (k, v, ra). split; [apply pq_insert_In; left; reflexivity|]. split; [reflexivity|].
      simpl. destruct ow.
      * f_equal. lia.
      * destruct (Z.gtb_spec ra (pra old)); [lia | reflexivity].
  - apply pq_find_None in Ef. intros E; inversion E; subst q' added; clear E.
    split; [apply pq_insert_sorted; exact Hs|].
    split; [apply pq_insert_keys; assumption|].
    split; [intros x Hx; rewrite pq_insert_In; split; [intros [->|H]; [unfold pk in Hx; simpl in Hx; congruence | exact H] | tauto]|].
    split; [tauto|].
    split; [rewrite pq_insert_length; lia|].
    exists (k, v, ra). split; [apply pq_insert_In; left; reflexivity|]. split; reflexivity.
Qed.

Lemma pq_find_iff k q i : NoDup (keys q) -> (pq_find k q = Some i <-> In i q /\ pk i = k).
Proof.
  intros Hnd. split; [apply pq_find_Some|]. intros [Hi Hk].
  destruct (pq_find k q) as [j|] eqn:E.
  - destruct (pq_find_Some _ _ _ E) as [Hj Hjk]. f_equal. apply (NoDup_keys_unique q); congruence.
  - apply pq_find_None in E. exfalso. apply E. rewrite <- Hk. apply keys_In. exact Hi.
Qed.

Lemma pq_push_find k v ra ow q q' added :
  sorted q -> NoDup (keys q) -> pq_push k v ra ow q = (q', added) ->
  (forall k', k' <> k -> pq_find k' q' = pq_find k' q) /\
  exists i, pq_find k q' = Some i /\ push_item k v ra ow (pq_find k q) i.
Proof.
  intros Hs Hnd E. destruct (pq_push_spec _ _ _ _ _ _ _ Hs Hnd E) as [Hs' [Hnd' [Ho [_ [_ [i [Hi1 [Hi2 Hi3]]]]]]]].
  split.
  - intros k' Hk'. destruct (pq_find k' q) as [j|] eqn:Ej.
    + apply pq_find_iff in Ej; [|exact Hnd]. destruct Ej as [Ej1 Ej2].
      apply pq_find_iff; [exact Hnd'|]. split; [|exact Ej2]. apply Ho; [congruence | exact Ej1].
    + destruct (pq_find k' q') as [j|] eqn:Ej'; [|reflexivity]. exfalso.
      apply pq_find_iff in Ej'; [|exact Hnd']. destruct Ej' as [Ej1 Ej2].
      apply pq_find_None in Ej. apply Ej. rewrite <- Ej2. apply keys_In. apply Ho; [congruence | exact Ej1].
  - exists i. split; [|exact Hi3]. apply pq_find_iff; [exact Hnd' | tauto].
Qed.

(* ------------------------------------------------------------------------------ *)
(* association maps                                                                *)

Definition pkeys (m : list (K * V)) : list K := map fst m.

Lemma amap_del_get k k' m : amap_get k' (amap_del k m) = if N.eqb k' k then None else amap_get k' m.
Proof.
  induction m as [|[a b] m IH]; simpl; [destruct (N.eqb k' k); reflexivity|].
  destruct (N.eqb_spec a k) as [E|E]; simpl.
  - rewrite IH. destruct (N.eqb_spec k' k) as [E'|E']; [reflexivity|].
    destruct (N.eqb_spec a k') as [E''|E'']; [congruence | reflexivity].
  - destruct (N.eqb_spec a k') as [E''|E''].
    + destruct (N.eqb_spec k' k) as [E'|E']; [congruence | reflexivity].
    + exact IH.
Qed.

Lemma amap_set_get k v k' m : amap_get k' (amap_set k v m) = if N.eqb k' k then Some v else amap_get k' m.
Proof.
  unfold amap_set. simpl. rewrite amap_del_get.
  destruct (N.eqb_spec k k') as [E|E]; destruct (N.eqb_spec k' k) as [E'|E']; congruence.
Qed.

Lemma amap_get_In k m : amap_get k m <> None <-> In k (pkeys m).
Proof.
  induction m as [|[a b] m IH]; simpl; [tauto|].
  destruct (N.eqb_spec a k) as [E|E]; [split; [tauto | discriminate]|].
  rewrite IH. tauto.
Qed.

Lemma amap_del_In k x m : In x (pkeys (amap_del k m)) <-> x <> k /\ In x (pkeys m).
Proof.
  rewrite <- !amap_get_In. rewrite amap_del_get.
  destruct (N.eqb_spec x k) as [E|E]; [tauto|]. tauto.
Qed.

Lemma amap_del_NoDup k m : NoDup (pkeys m) -> NoDup (pkeys (amap_del k m)).
Proof.
  induction m as [|[a b] m IH]; simpl; [tauto|]. intros Hnd. inversion Hnd as [|x' q' Hx Hq]; subst.
  destruct (N.eqb a k); [apply IH; exact Hq|]. simpl. constructor; [|apply IH; exact Hq].
  rewrite amap_del_In. tauto.
Qed.

Lemma amap_del_length_absent k m : amap_get k m = None -> amap_del k m = m.
Proof.
  induction m as [|[a b] m IH]; simpl; [reflexivity|].
  destruct (N.eqb a k); [discriminate|]. intros H. rewrite IH by exact H. reflexivity.
Qed.

Lemma amap_del_length_present k m : NoDup (pkeys m) -> amap_get k m <> None ->
  Z.of_nat (length (amap_del k m)) = Z.of_nat (length m) - 1.
Proof.
  induction m as [|[a b] m IH]; cbn [amap_get amap_del pkeys map fst length]; [tauto|].
  intros Hnd. inversion Hnd as [|x' q' Hx Hq]; subst.
  destruct (N.eqb_spec a k) as [E|E]; intros H.
  - subst a. rewrite amap_del_length_absent; [rewrite Nat2Z.inj_succ; lia|].
    destruct (amap_get k m) eqn:G; [|reflexivity]. exfalso. apply Hx. apply amap_get_In. congruence.
  - cbn [length]. rewrite !Nat2Z.inj_succ. rewrite IH by assumption. lia.
Qed.

(* ------------------------------------------------------------------------------ *)
(* the state invariant                                                             *)

Record Inv (s : qstate) : Prop := mkInv {
  inv_sorted : sorted (q_pq s);
  inv_nodup : NoDup (keys (q_pq s));
  inv_hold_nodup : NoDup (q_hold s);
  inv_disj : forall k, In k (q_hold s) -> ~ In k (keys (q_pq s));
  inv_parked_hold : forall k, amap_get k (q_parked s) <> None -> In k (q_hold s);
  inv_parked_nodup : NoDup (pkeys (q_parked s));
  inv_len : q_len s = Z.of_nat (length (q_pq s)) + Z.of_nat (length (q_parked s))
}.

Lemma Inv_init : Inv q_init.
Proof.
  constructor; simpl; try constructor; try tauto; try reflexivity.
Qed.

(* ghost bookkeeping computed from the visible history (events and outputs) only *)
Record ghost := mkG {
  g_held : list K;                 (* handed out by Get and not yet released *)
  g_fresh : K -> option V;         (* value of the latest Put since the last delivery of k *)
  g_req : K -> option (V * Z);     (* (value, not-before) of a requeue since the last delivery *)
  g_clock : Z
}.

Definition upd {A} (f : K -> A) (k : K) (x : A) : K -> A := fun k' => if N.eqb k' k then x else f k'.

Definition g_init : ghost := mkG [] (fun _ => None) (fun _ => None) 0.

Definition g_step (g : ghost) (e : qevent) (o : option (K * V)) : ghost :=
  match e with
  | EPut k v now => mkG (g_held g) (upd (g_fresh g) k (Some v)) (g_req g) now
  | EGet now =>
      match o with
      | Some (k, _) => mkG (set_add k (g_held g)) (upd (g_fresh g) k None) (upd (g_req g) k None) now
      | None => mkG (g_held g) (g_fresh g) (g_req g) now
      end
  | ERelease k v after now =>
      mkG (set_remove k (g_held g)) (g_fresh g)
          (upd (g_req g) k (match after with Some t => Some (v, t) | None => None end)) now
  end.

(* the protocol the callers follow: time does not go backwards; only a handed-out item is released *)
Definition wf_ev (g : ghost) (e : qevent) : Prop :=
  g_clock g <= ev_now e /\
  match e with ERelease k _ _ _ => In k (g_held g) | _ => True end.

Definition key_ok (s : qstate) (g : ghost) (k : K) : Prop :=
  match g_fresh g k with
  | Some v =>
      if set_contains k (g_held g) then amap_get k (q_parked s) = Some v
      else exists i, pq_find k (q_pq s) = Some i /\ pv i = v /\ pra i <= g_clock g
  | None =>
      amap_get k (q_parked s) = None /\
      forall i, pq_find k (q_pq s) = Some i -> g_req g k = Some (pv i, pra i)
  end.

Record R (s : qstate) (g : ghost) : Prop := mkR {
  r_inv : Inv s;
  r_held : q_hold s = g_held g;
  r_keys : forall k, key_ok s g k
}.

Lemma R_init : R q_init g_init.
Proof.
  constructor; [apply Inv_init | reflexivity|]. intros k. unfold key_ok. simpl.
  split; [reflexivity | discriminate].
Qed.

Lemma upd_same {A} (f : K -> A) k x : upd f k x k = x.
Proof. unfold upd. rewrite N.eqb_refl. reflexivity. Qed.
Lemma upd_other {A} (f : K -> A) k x k' : k' <> k -> upd f k x k' = f k'.
Proof. unfold upd. intros H. destruct (N.eqb_spec k' k); [congruence | reflexivity]. Qed.

Lemma set_contains_add k k' s : k' <> k -> set_contains k' (set_add k s) = set_contains k' s.
Proof.
  intros H. destruct (set_contains k' s) eqn:E.
  - apply set_contains_In. apply set_add_In. right. apply set_contains_In. exact E.
  - apply set_contains_false. apply set_contains_false in E. rewrite set_add_In. tauto.
Qed.

Lemma set_contains_remove k k' s : k' <> k -> set_contains k' (set_remove k s) = set_contains k' s.
Proof.
  intros H. destruct (set_contains k' s) eqn:E.
  - apply set_contains_In. apply set_remove_other; [exact H|]. apply set_contains_In. exact E.
  - apply set_contains_false. apply set_contains_false in E. intros Hin. apply E.
    eapply set_remove_In; eauto.
Qed.

(* ---- Put --------------------------------------------------------------------- *)
Lemma R_put s g k v now :
  R s g -> g_clock g <= now ->
  R (fst (q_step s (EPut k v now))) (g_step g (EPut k v now) None) /\
  snd (q_step s (EPut k v now)) = None.
Proof.
  intros [HI Hh HK] Hclk. destruct HI as [I1 I2 I3 I4 I5 I6 I7].
  cbn [q_step]. destruct (set_contains k (q_hold s)) eqn:Eh.
  - (* parked *)
    split; [|reflexivity]. cbn [fst g_step]. constructor.
    + constructor; cbn [q_pq q_hold q_parked q_len]; try assumption.
      * intros k'. rewrite amap_set_get. destruct (N.eqb_spec k' k) as [->|E]; [|apply I5].
        intros _. apply set_contains_In. exact Eh.
      * unfold amap_set. cbn [pkeys map fst]. constructor; [|apply amap_del_NoDup; exact I6].
        rewrite amap_del_In. tauto.
      * unfold amap_set. cbn [length]. rewrite Nat2Z.inj_succ.
        destruct (amap_get k (q_parked s)) eqn:Eg.
        -- rewrite amap_del_length_present by (assumption || congruence). lia.
        -- rewrite amap_del_length_absent by exact Eg. lia.
    + exact Hh.
    + intros k'. unfold key_ok. cbn [g_fresh g_held g_clock g_req q_parked q_pq].
      destruct (N.eqb_spec k' k) as [->|E].
      * rewrite upd_same. rewrite <- Hh, Eh. rewrite amap_set_get, N.eqb_refl. reflexivity.
      * rewrite upd_other by exact E. specialize (HK k'). unfold key_ok in HK.
        rewrite amap_set_get. destruct (N.eqb_spec k' k) as [|_]; [congruence|].
        destruct (g_fresh g k'); [|exact HK].
        destruct (set_contains k' (g_held g)); [exact HK|].
        destruct HK as [i [H1 [H2 H3]]]. exists i. split; [exact H1|]. split; [exact H2|lia].
  - (* pushed *)
    destruct (pq_push k v now true (q_pq s)) as [pq' added] eqn:Ep.
    split; [|reflexivity]. cbn [fst g_step].
    destruct (pq_push_spec _ _ _ _ _ _ _ I1 I2 Ep) as [S1 [S2 [S3 [S4 [S5 _]]]]].
    destruct (pq_push_find _ _ _ _ _ _ _ I1 I2 Ep) as [F1 [i [F2 F3]]].
    apply set_contains_false in Eh.
    constructor.
    + constructor; cbn [q_pq q_hold q_parked q_len]; try assumption.
      * intros k' Hk' Hin. apply keys_In_ex in Hin. destruct Hin as [j [Hj1 Hj2]].
        destruct (N.eq_dec k' k) as [->|E]; [tauto|].
        apply (I4 k' Hk'). rewrite <- Hj2. apply keys_In. apply S3; [congruence | exact Hj1].
      * destruct added; lia.
    + exact Hh.
    + intros k'. unfold key_ok. cbn [g_fresh g_held g_clock g_req q_parked q_pq].
      destruct (N.eqb_spec k' k) as [->|E].
      * rewrite upd_same. rewrite <- Hh.
        destruct (set_contains k (q_hold s)) eqn:Eh'; [apply set_contains_In in Eh'; tauto|].
        exists i. split; [exact F2|]. unfold push_item in F3.
        destruct (pq_find k (q_pq s)) as [o|]; rewrite F3; unfold pv, pra; simpl; [split; [reflexivity | lia] | split; [reflexivity | lia]].
      * rewrite upd_other by exact E. rewrite F1 by exact E.
        specialize (HK k'). unfold key_ok in HK.
        destruct (g_fresh g k'); [|exact HK].
        destruct (set_contains k' (g_held g)); [exact HK|].
        destruct HK as [j [H1 [H2 H3]]]. exists j. split; [exact H1|]. split; [exact H2|lia].
Qed.

(* ---- Get --------------------------------------------------------------------- *)
Lemma pq_peek_Some now q i : pq_peek now q = Some i -> exists q', q = i :: q' /\ pra i <= now.
Proof.
  destruct q as [|j q']; simpl; [discriminate|].
  destruct (Z.leb_spec (pra j) now) as [L|L]; [|discriminate]. intros E; inversion E; subst. eauto.
Qed.

Lemma pq_peek_None now q : sorted q -> pq_peek now q = None -> forall i, In i q -> now < pra i.
Proof.
  destruct q as [|j q']; simpl; [tauto|]. intros [H1 H2].
  destruct (Z.leb_spec (pra j) now) as [L|L]; [discriminate|]. intros _ i [<-|Hi]; [lia|].
  specialize (H1 i Hi). lia.
Qed.

Lemma R_get_none s g now :
  R s g -> g_clock g <= now -> pq_peek now (q_pq s) = None ->
  R s (g_step g (EGet now) None).
Proof.
  intros [HI Hh HK] Hclk _. constructor; [exact HI | exact Hh|].
  intros k. specialize (HK k). unfold key_ok in *. cbn [g_step g_fresh g_held g_clock g_req].
  destruct (g_fresh g k); [|exact HK]. destruct (set_contains k (g_held g)); [exact HK|].
  destruct HK as [j [H1 [H2 H3]]]. exists j. split; [exact H1|]. split; [exact H2|lia].
Qed.

Lemma R_get_some s g now i :
  R s g -> g_clock g <= now -> pq_peek now (q_pq s) = Some i ->
  R (mkQ (tl (q_pq s)) (set_add (pk i) (q_hold s)) (q_parked s) (q_len s - 1))
    (g_step g (EGet now) (Some (pk i, pv i))) /\
  ~ In (pk i) (g_held g) /\
  match g_fresh g (pk i) with
  | Some v => pv i = v
  | None => exists t, g_req g (pk i) = Some (pv i, t) /\ t <= now
  end.
Proof.
  intros [HI Hh HK] Hclk Ep. destruct HI as [I1 I2 I3 I4 I5 I6 I7].
  destruct (pq_peek_Some _ _ _ Ep) as [q' [Eq Hra]].
  assert (Hfind : pq_find (pk i) (q_pq s) = Some i).
  { rewrite Eq. simpl. rewrite N.eqb_refl. reflexivity. }
  assert (Hnh : ~ In (pk i) (q_hold s)).
  { intros Hin. apply (I4 _ Hin). rewrite Eq. simpl. left. reflexivity. }
  assert (Hnq : ~ In (pk i) (keys q')).
  { rewrite Eq in I2. simpl in I2. inversion I2; assumption. }
  assert (Hfind' : forall k', k' <> pk i -> pq_find k' q' = pq_find k' (q_pq s)).
  { intros k' Hk'. rewrite Eq. simpl. destruct (N.eqb_spec (pk i) k'); [congruence | reflexivity]. }
  split; [|split].
  - constructor.
    + constructor; cbn [q_pq q_hold q_parked q_len]; rewrite ?Eq in *; cbn [tl] in *.
      * destruct I1; assumption.
      * inversion I2; assumption.
      * apply set_add_NoDup. exact I3.
      * intros k Hk. apply set_add_In in Hk. destruct Hk as [->|Hk]; [exact Hnq|].
        intros Hin. apply (I4 k Hk). simpl. right. exact Hin.
      * intros k Hk. apply set_add_In. right. apply I5. exact Hk.
      * exact I6.
      * rewrite I7. cbn [length]. rewrite Nat2Z.inj_succ. lia.
    + cbn [q_hold g_step g_held]. rewrite Hh. reflexivity.
    + intros k. unfold key_ok. cbn [g_step g_fresh g_held g_clock g_req q_parked q_pq].
      destruct (N.eqb_spec k (pk i)) as [->|E].
      * rewrite !upd_same. split.
        -- destruct (amap_get (pk i) (q_parked s)) eqn:G; [|reflexivity].
           exfalso. apply Hnh. apply I5. congruence.
        -- intros j Hj. exfalso. apply Hnq. apply pq_find_Some in Hj. destruct Hj as [Hj1 Hj2].
           rewrite <- Hj2. apply keys_In. rewrite Eq in Hj1. exact Hj1.
      * rewrite !upd_other by exact E. rewrite Eq. cbn [tl]. rewrite Hfind' by exact E.
        rewrite set_contains_add by exact E.
        specialize (HK k). unfold key_ok in HK.
        destruct (g_fresh g k); [|exact HK]. destruct (set_contains k (g_held g)); [exact HK|].
        destruct HK as [j [H1 [H2 H3]]]. exists j. split; [exact H1|]. split; [exact H2|lia].
  - rewrite <- Hh. exact Hnh.
  - specialize (HK (pk i)). unfold key_ok in HK. destruct (g_fresh g (pk i)) as [v|].
    + destruct (set_contains (pk i) (g_held g)) eqn:Ec.
      * exfalso. apply Hnh. rewrite Hh. apply set_contains_In. exact Ec.
      * destruct HK as [j [H1 [H2 H3]]]. congruence.
    + destruct HK as [_ HK]. exists (pra i). split; [apply HK; exact Hfind | exact Hra].
Qed.

(* ---- Release / Requeue -------------------------------------------------------- *)
Lemma R_release s g k v after now :
  R s g -> g_clock g <= now -> In k (g_held g) ->
  R (fst (q_step s (ERelease k v after now))) (g_step g (ERelease k v after now) None) /\
  snd (q_step s (ERelease k v after now)) = None.
Proof.
  intros [HI Hh HK] Hclk Hheld. destruct HI as [I1 I2 I3 I4 I5 I6 I7].
  rewrite <- Hh in Hheld.
  assert (Hkq : ~ In k (keys (q_pq s))) by (apply I4; exact Hheld).
  assert (Hf0 : pq_find k (q_pq s) = None) by (apply pq_find_None; exact Hkq).
  destruct (set_remove_NoDup k _ I3) as [N1 N2].
  cbn [q_step].
  (* step A: the requeue push *)
  set (A := match after with
            | Some t => let '(pq', added) := pq_push k v t false (q_pq s) in
                        (pq', if added then q_len s + 1 else q_len s)
            | None => (q_pq s, q_len s) end).
  assert (HA : exists pq1 len1, A = (pq1, len1) /\ sorted pq1 /\ NoDup (keys pq1) /\
             (forall k', k' <> k -> pq_find k' pq1 = pq_find k' (q_pq s)) /\
             (forall x, pk x <> k -> (In x pq1 <-> In x (q_pq s))) /\
             len1 = Z.of_nat (length pq1) + Z.of_nat (length (q_parked s)) /\
             pq_find k pq1 = match after with Some t => Some (k, v, t) | None => None end).
  { unfold A. destruct after as [t|].
    - destruct (pq_push k v t false (q_pq s)) as [pq' added] eqn:Ep.
      destruct (pq_push_spec _ _ _ _ _ _ _ I1 I2 Ep) as [S1 [S2 [S3 [S4 [S5 _]]]]].
      destruct (pq_push_find _ _ _ _ _ _ _ I1 I2 Ep) as [F1 [i [F2 F3]]].
      exists pq', (if added then q_len s + 1 else q_len s).
      split; [reflexivity|]. split; [exact S1|]. split; [exact S2|]. split; [exact F1|].
      split; [exact S3|]. split.
      + assert (added = true) by (apply S4; exact Hkq). subst added. lia.
      + rewrite Hf0 in F3. simpl in F3. subst i. exact F2.
    - exists (q_pq s), (q_len s). repeat split; try assumption; tauto. }
  destruct HA as [pq1 [len1 [EA [A1 [A2 [A3 [A4 [A5 A6]]]]]]]]. rewrite EA.
  destruct (amap_get k (q_parked s)) as [pvv|] eqn:Epk.
  - (* a notification was parked: push it with now, overwriting *)
    destruct (pq_push k pvv now true pq1) as [pq2 added2] eqn:Ep2.
    destruct (pq_push_spec _ _ _ _ _ _ _ A1 A2 Ep2) as [S1 [S2 [S3 [S4 [S5 _]]]]].
    destruct (pq_push_find _ _ _ _ _ _ _ A1 A2 Ep2) as [F1 [i [F2 F3]]].
    split; [|reflexivity]. cbn [fst g_step]. constructor.
    + constructor; cbn [q_pq q_hold q_parked q_len]; try assumption.
      * intros k' Hk' Hin. assert (Hne : k' <> k) by (intros ->; tauto).
        apply keys_In_ex in Hin. destruct Hin as [j [Hj1 Hj2]].
        apply (I4 k'); [eapply set_remove_In; eauto|].
        rewrite <- Hj2. apply keys_In. apply A4; [congruence|]. apply S3; [congruence | exact Hj1].
      * intros k'. rewrite amap_del_get. destruct (N.eqb_spec k' k) as [E|E]; [tauto|].
        intros H. apply set_remove_other; [exact E | apply I5; exact H].
      * apply amap_del_NoDup. exact I6.
      * rewrite amap_del_length_present by (assumption || congruence).
        destruct added2; lia.
    + cbn [q_hold g_held]. rewrite Hh. reflexivity.
    + intros k'. unfold key_ok. cbn [g_fresh g_held g_clock g_req q_parked q_pq].
      specialize (HK k') as HK'. unfold key_ok in HK'.
      destruct (N.eqb_spec k' k) as [->|E].
      * (* the released key: fresh must be Some pvv *)
        destruct (g_fresh g k) as [fv|].
        -- rewrite <- Hh in HK'. destruct (set_contains k (q_hold s)) eqn:Ec;
             [|apply set_contains_false in Ec; tauto].
           rewrite Epk in HK'. inversion HK'; subst fv.
           rewrite <- Hh. destruct (set_contains k (set_remove k (q_hold s))) eqn:Ec';
             [apply set_contains_In in Ec'; tauto|].
           exists i. split; [exact F2|]. unfold push_item in F3.
           destruct (pq_find k pq1) as [o|]; rewrite F3; unfold pv, pra; simpl; split; try reflexivity; lia.
        -- destruct HK' as [HK1 _]. congruence.
      * rewrite upd_other by exact E. rewrite amap_del_get.
        destruct (N.eqb_spec k' k) as [|_]; [congruence|].
        rewrite F1 by exact E. rewrite A3 by exact E. rewrite <- Hh.
        rewrite set_contains_remove by exact E. rewrite Hh.
        destruct (g_fresh g k'); [|exact HK'].
        destruct (set_contains k' (g_held g)); [exact HK'|].
        destruct HK' as [j [H1 [H2 H3]]]. exists j. split; [exact H1|]. split; [exact H2|lia].
  - (* nothing parked *)
    split; [|reflexivity]. cbn [fst g_step]. constructor.
    + constructor; cbn [q_pq q_hold q_parked q_len]; try assumption.
      * intros k' Hk' Hin. assert (Hne : k' <> k) by (intros ->; tauto).
        apply keys_In_ex in Hin. destruct Hin as [j [Hj1 Hj2]].
        apply (I4 k'); [eapply set_remove_In; eauto|].
        rewrite <- Hj2. apply keys_In. apply A4; [congruence | exact Hj1].
      * intros k' H. destruct (N.eq_dec k' k) as [->|E]; [congruence|].
        apply set_remove_other; [exact E | apply I5; exact H].
    + cbn [q_hold g_held]. rewrite Hh. reflexivity.
    + intros k'. unfold key_ok. cbn [g_fresh g_held g_clock g_req q_parked q_pq].
      specialize (HK k') as HK'. unfold key_ok in HK'.
      destruct (N.eqb_spec k' k) as [->|E].
      * rewrite upd_same. destruct (g_fresh g k) as [fv|].
        -- rewrite <- Hh in HK'. destruct (set_contains k (q_hold s)) eqn:Ec;
             [|apply set_contains_false in Ec; tauto]. congruence.
        -- split; [exact Epk|]. intros j Hj. rewrite A6 in Hj. destruct after as [t|]; [|discriminate].
           inversion Hj; subst j. reflexivity.
      * rewrite upd_other by exact E. rewrite A3 by exact E. rewrite <- Hh.
        rewrite set_contains_remove by exact E. rewrite Hh.
        destruct (g_fresh g k'); [|exact HK'].
        destruct (set_contains k' (g_held g)); [exact HK'|].
        destruct HK' as [j [H1 [H2 H3]]]. exists j. split; [exact H1|]. split; [exact H2|lia].
Qed.

(* ------------------------------------------------------------------------------ *)
(* every reachable state, i.e. every history of Put/Get/Release/Requeue            *)

Inductive reach : qstate -> ghost -> Prop :=
| reach_init : reach q_init g_init
| reach_step s g e :
    reach s g -> wf_ev g e ->
    reach (fst (q_step s e)) (g_step g e (snd (q_step s e))).

Lemma q_step_get s now :
  q_step s (EGet now) =
  match pq_peek now (q_pq s) with
  | Some i => (mkQ (tl (q_pq s)) (set_add (pk i) (q_hold s)) (q_parked s) (q_len s - 1), Some (pk i, pv i))
  | None => (s, None)
  end.
Proof. reflexivity. Qed.

Theorem reach_R s g : reach s g -> R s g.
Proof.
  induction 1 as [|s g e Hr IH [Hclk Hwf]]; [apply R_init|].
  destruct e as [k v now | now | k v after now]; cbn [ev_now] in Hclk.
  - destruct (R_put s g k v now IH Hclk) as [H1 H2]. rewrite H2. exact H1.
  - rewrite q_step_get. destruct (pq_peek now (q_pq s)) as [i|] eqn:Ep; cbn [fst snd].
    + apply (R_get_some s g now i IH Hclk Ep).
    + apply R_get_none; assumption.
  - destruct (R_release s g k v after now IH Hclk Hwf) as [H1 H2]. rewrite H2. exact H1.
Qed.

(* per-item exclusion: an item handed out and not yet released is never handed out again *)
Theorem q_exclusion s g now k v :
  reach s g -> g_clock g <= now -> snd (q_step s (EGet now)) = Some (k, v) -> ~ In k (g_held g).
Proof.
  intros Hr Hclk. apply reach_R in Hr. rewrite q_step_get.
  destruct (pq_peek now (q_pq s)) as [i|] eqn:Ep; cbn [snd]; [|discriminate].
  intros E; inversion E; subst. apply (R_get_some s g now i Hr Hclk Ep).
Qed.

(* coalescing + honoured backoff: what is delivered is the latest Put since the last delivery;
   if there was none, it is the requeued value and the requested time has been reached *)
Theorem q_delivery s g now k v :
  reach s g -> g_clock g <= now -> snd (q_step s (EGet now)) = Some (k, v) ->
  match g_fresh g k with
  | Some v' => v = v'
  | None => exists t, g_req g k = Some (v, t) /\ t <= now
  end.
Proof.
  intros Hr Hclk. apply reach_R in Hr. rewrite q_step_get.
  destruct (pq_peek now (q_pq s)) as [i|] eqn:Ep; cbn [snd]; [|discriminate].
  intros E; inversion E; subst. apply (R_get_some s g now i Hr Hclk Ep).
Qed.

(* no loss: a notification not yet delivered is either parked behind the in-flight item
   (and re-pushed as ready at its release, by the same statement on the next state), or
   ready in the queue now *)
Theorem q_no_loss s g k v :
  reach s g -> g_fresh g k = Some v ->
  (In k (g_held g) /\ amap_get k (q_parked s) = Some v) \/
  (~ In k (g_held g) /\ exists i, pq_find k (q_pq s) = Some i /\ pv i = v /\ pra i <= g_clock g).
Proof.
  intros Hr Hf. apply reach_R in Hr. destruct Hr as [_ _ HK]. specialize (HK k).
  unfold key_ok in HK. rewrite Hf in HK.
  destruct (set_contains k (g_held g)) eqn:Ec.
  - left. split; [apply set_contains_In; exact Ec | exact HK].
  - right. split; [apply set_contains_false; exact Ec | exact HK].
Qed.

(* progress: if a worker asks and gets nothing, every undelivered notification belongs to an
   item that is currently being processed *)
Theorem q_get_none_means_idle s g now k v :
  reach s g -> g_clock g <= now -> snd (q_step s (EGet now)) = None ->
  g_fresh g k = Some v -> In k (g_held g).
Proof.
  intros Hr Hclk Hn Hf. destruct (q_no_loss s g k v Hr Hf) as [[H _]|[_ [i [H1 [H2 H3]]]]]; [exact H|].
  exfalso. apply reach_R in Hr. destruct Hr as [HI _ _].
  rewrite q_step_get in Hn. destruct (pq_peek now (q_pq s)) as [j|] eqn:Ep; [discriminate|].
  apply pq_find_Some in H1. destruct H1 as [H1 _].
  pose proof (pq_peek_None now (q_pq s) (inv_sorted _ HI) Ep i H1). lia.
Qed.

(* reported length = pending + held-back notifications *)
Theorem q_len_exact s g :
  reach s g -> q_len s = Z.of_nat (length (q_pq s)) + Z.of_nat (length (q_parked s)).
Proof. intros Hr. apply reach_R in Hr. apply (inv_len _ (r_inv _ _ Hr)). Qed.

Theorem q_structure s g :
  reach s g -> sorted (q_pq s) /\ NoDup (keys (q_pq s)) /\ NoDup (pkeys (q_parked s)) /\
  (forall k, In k (q_hold s) -> ~ In k (keys (q_pq s))) /\ q_hold s = g_held g.
Proof.
  intros Hr. apply reach_R in Hr. destruct Hr as [[I1 I2 I3 I4 I5 I6 I7] Hh _]. tauto.
Qed.

(* ------------------------------------------------------------------------------ *)
(* backoff                                                                         *)

Lemma bo_del_get k k' t : bo_get k' (bo_del k t) = if N.eqb k' k then None else bo_get k' t.
Proof.
  induction t as [|[a b] t IH]; simpl; [destruct (N.eqb k' k); reflexivity|].
  destruct (N.eqb_spec a k) as [E|E]; simpl.
  - rewrite IH. destruct (N.eqb_spec k' k) as [E'|E']; [reflexivity|].
    destruct (N.eqb_spec a k') as [E''|E'']; [congruence | reflexivity].
  - destruct (N.eqb_spec a k') as [E''|E''].
    + destruct (N.eqb_spec k' k) as [E'|E']; [congruence | reflexivity].
    + exact IH.
Qed.

Lemma bo_set_get k c k' t : bo_get k' (bo_set k c t) = if N.eqb k' k then Some c else bo_get k' t.
Proof.
  unfold bo_set. simpl. rewrite bo_del_get.
  destruct (N.eqb_spec k k') as [E|E]; destruct (N.eqb_spec k' k) as [E'|E']; congruence.
Qed.

Definition bo_cur (k : K) (t : botab) : Z := match bo_get k t with Some c => c | None => bo_initial end.

(* an error (or a recovered panic) uses the current interval's window and advances it *)
Theorem decide_err k t :
  reconcile_decide k OErr t = (bo_set k (bo_next (bo_cur k t)) t, Some (bo_window (bo_cur k t))).
Proof. reflexivity. Qed.

Theorem decide_err_advances k t :
  bo_cur k (fst (reconcile_decide k OErr t)) = bo_next (bo_cur k t).
Proof. cbn [reconcile_decide fst]. unfold bo_cur at 1. rewrite bo_set_get, N.eqb_refl. reflexivity. Qed.

(* success, skip and plain requeue reset the item's backoff *)
Theorem decide_resets k o t :
  match o with OOk | OSkip | ORequeue _ | ORequeueSkip _ => True | _ => False end ->
  bo_cur k (fst (reconcile_decide k o t)) = bo_initial.
Proof.
  destruct o; try tauto; intros _; cbn [reconcile_decide fst]; unfold bo_cur;
    rewrite bo_del_get, N.eqb_refl; reflexivity.
Qed.

(* an explicit requeue interval is used verbatim and does not consume a backoff step *)
Theorem decide_requeue_err_verbatim k d t :
  d <> 0 -> reconcile_decide k (ORequeueErr d) t = (t, Some (d, d)).
Proof. intros H. cbn [reconcile_decide]. destruct (Z.eqb_spec d 0); [contradiction | reflexivity]. Qed.

(* other items' backoff is untouched *)
Theorem decide_frame k k' o t :
  k' <> k -> bo_get k' (fst (reconcile_decide k o t)) = bo_get k' t.
Proof.
  intros H. destruct o as [| | |d|d|d]; cbn [reconcile_decide fst];
    rewrite ?bo_set_get, ?bo_del_get; try (destruct (N.eqb_spec k' k); [congruence | reflexivity]).
  destruct (Z.eqb d 0); cbn [fst]; rewrite ?bo_set_get;
    [destruct (N.eqb_spec k' k); [congruence | reflexivity] | reflexivity].
Qed.

(* the interval sequence grows and is capped *)
Theorem bo_next_grows c : 0 < c <= bo_max -> c <= bo_next c <= bo_max.
Proof.
  unfold bo_next, bo_max. intros H. destruct (Z.leb_spec (2 * 60000000000) (3 * c)) as [L|L]; [lia|].
  split; [|apply Z.div_le_upper_bound; lia]. apply Z.div_le_lower_bound; lia.
Qed.

Theorem bo_window_bounds c : 0 < c -> fst (bo_window c) <= c <= snd (bo_window c).
Proof.
  intros H. unfold bo_window; cbn [fst snd]. split.
  - apply Z.div_le_upper_bound; lia.
  - assert (c <= 3 * c / 2) by (apply Z.div_le_lower_bound; lia). lia.
Qed.

Fixpoint bo_iter (n : nat) (c : Z) : Z := match n with O => c | S n' => bo_iter n' (bo_next c) end.

(* k-th consecutive failure of an item uses the k-th interval of the exponential schedule *)
Fixpoint decide_many (k : K) (os : list outcome) (t : botab) : botab * list (option (Z * Z)) :=
  match os with
  | [] => (t, [])
  | o :: os' => let '(t1, w) := reconcile_decide k o t in
                let '(t2, ws) := decide_many k os' t1 in (t2, w :: ws)
  end.

Theorem consecutive_failures k n t :
  bo_get k t = None ->
  snd (decide_many k (repeat OErr n) t) =
  map (fun i => Some (bo_window (bo_iter i bo_initial))) (seq 0 n).
Proof.
  intros H0.
  assert (G : forall n t c i0, bo_cur k t = c ->
              snd (decide_many k (repeat OErr n) t) =
              map (fun i => Some (bo_window (bo_iter (i - i0) c))) (seq i0 n)).
  { induction n0 as [|n0 IH]; intros t0 c i0 Hc; [reflexivity|].
    cbn [repeat decide_many]. rewrite decide_err.
    destruct (decide_many k (repeat OErr n0) (bo_set k (bo_next (bo_cur k t0)) t0)) as [t2 ws] eqn:Ed.
    cbn [snd seq map]. rewrite Nat.sub_diag. cbn [bo_iter]. rewrite Hc. f_equal.
    assert (Hc' : bo_cur k (bo_set k (bo_next (bo_cur k t0)) t0) = bo_next c).
    { unfold bo_cur at 1. rewrite bo_set_get, N.eqb_refl. rewrite Hc. reflexivity. }
    specialize (IH _ _ (S i0) Hc'). rewrite Ed in IH. cbn [snd] in IH. rewrite IH.
    apply map_ext_in. intros i Hi. apply in_seq in Hi.
    replace (i - i0)%nat with (S (i - S i0)) by lia. reflexivity. }
  rewrite (G n t bo_initial 0%nat); [|unfold bo_cur; rewrite H0; reflexivity].
  apply map_ext. intros i. rewrite Nat.sub_0_r. reflexivity.
Qed.

Lemma bo_iter_range n : 0 < bo_iter n bo_initial <= bo_max.
Proof.
  assert (G : forall n c, 0 < c <= bo_max -> 0 < bo_iter n c <= bo_max).
  { induction n0 as [|n0 IH]; intros c Hc; [exact Hc|]. cbn [bo_iter]. apply IH.
    pose proof (bo_next_grows c Hc). lia. }
  apply G. unfold bo_initial, bo_max. lia.
Qed.

Theorem bo_iter_monotone n : bo_iter n bo_initial <= bo_iter (S n) bo_initial.
Proof.
  assert (G : forall n c, 0 < c <= bo_max -> bo_iter n c <= bo_iter n (bo_next c)).
  { induction n0 as [|n0 IH]; intros c Hc; cbn [bo_iter].
    - apply bo_next_grows; exact Hc.
    - apply IH. pose proof (bo_next_grows c Hc). lia. }
  cbn [bo_iter]. apply G. unfold bo_initial, bo_max. lia.
Qed.
