(* RemoteRing.v — the two ends of a remote kind watch put together: the server's collection is the ring of Ring.v
   (publish / WatchAll loop body fetch_all / bookmark window test start_all), the client is the reconnecting
   adapter of RemoteWatch.v, and between them sits a transport that can lose everything in flight at any moment.

   RemoteWatch.v takes "an accepted resume streams exactly the entries after the bookmark" and the window test as
   parameters; here both are the ring's own definitions, so the end-to-end statement (RemoteRingProofs.v) needs
   no assumption about the server beyond Ring.v itself. Only the live part of the stream is composed (the initial
   part is RemoteWatch's [init]). *)
From Verif Require Export Ring.
Open Scope Z_scope.

Inductive rmode :=
| RStream (spos : Z) (inflight : list (Z * option event)) (ended : bool)
      (* an open stream: the server-side watcher's read position, the events it has taken out of the ring that
         the client has not received yet, each with the position its bookmark encodes, oldest first, and whether the
         server-side watcher overran the buffer and queued its terminal Errored behind them *)
| RRetry      (* inside recvMessage's retry loop: no server-side watcher *)
| RDead.      (* the adapter returned after Errored *)

Record rsys := mkR {
  r_coll : coll;
  r_log : list event;                  (* ghost: everything ever published *)
  r_mode : rmode;
  r_last : option Z;                   (* lastBookmark (decoded position) *)
  r_out : list (option event);         (* events handed to the user, oldest first *)
  r_err : bool                         (* Errored handed to the user *)
}.

Inductive rchoice :=
| RPublish (ev : event)   (* a committed write on the server *)
| RFetch                  (* the server-side watcher goroutine gets the collection lock *)
| RDeliver                (* the transport hands the oldest in-flight event to the client *)
| RBreak                  (* the stream fails: everything in flight is lost, the server-side watcher is cancelled *)
| RRedialFail             (* a re-Watch attempt does not reach the server *)
| RRedialOK               (* a re-Watch attempt reaches the server, which applies the window test to lastBookmark *)
| RRedialForeign          (* a re-Watch attempt reaches another incarnation: cookie mismatch, bookmark refused *)
| RGiveUp.                (* retries exhausted / context cancelled *)

Fixpoint with_pos (p : Z) (evs : list (option event)) : list (Z * option event) :=
  match evs with
  | [] => []
  | e :: r => (p, e) :: with_pos (p + 1) r
  end.

Definition rdie (s : rsys) : rsys := mkR (r_coll s) (r_log s) RDead (r_last s) (r_out s) true.

Definition rstep (retries_on : bool) (s : rsys) (c : rchoice) : rsys :=
  match c with
  | RPublish ev => mkR (publish ev (r_coll s)) (r_log s ++ [ev]) (r_mode s) (r_last s) (r_out s) (r_err s)
  | RFetch =>
      match r_mode s with
      | RStream spos q false =>
          match fetch_all (r_coll s) spos with
          | FBlocked => s
          | FOverrun => mkR (r_coll s) (r_log s) (RStream spos q true) (r_last s) (r_out s) (r_err s)
          | FEvents evs p => mkR (r_coll s) (r_log s) (RStream p (q ++ with_pos spos evs) false) (r_last s) (r_out s) (r_err s)
          end
      | _ => s
      end
  | RDeliver =>
      match r_mode s with
      | RStream spos ((p, e) :: q) en => mkR (r_coll s) (r_log s) (RStream spos q en) (Some p) (r_out s ++ [e]) (r_err s)
      | RStream _ [] true => rdie s          (* the server's Errored arrives: forwarded, the adapter returns *)
      | _ => s
      end
  | RBreak =>
      match r_mode s with
      | RStream _ _ _ =>
          if retries_on then
            match r_last s with
            | Some _ => mkR (r_coll s) (r_log s) RRetry (r_last s) (r_out s) (r_err s)
            | None => rdie s
            end
          else rdie s
      | _ => s
      end
  | RRedialFail => s
  | RRedialOK =>
      match r_mode s, r_last s with
      | RRetry, Some b =>
          match start_all (r_coll s) (SBookmark b) with
          | Some pos => mkR (r_coll s) (r_log s) (RStream pos [] false) (r_last s) (r_out s) (r_err s)
          | None => rdie s
          end
      | _, _ => s
      end
  | RRedialForeign => match r_mode s with RRetry => rdie s | _ => s end
  | RGiveUp => match r_mode s with RRetry => rdie s | _ => s end
  end.

Definition rrun (retries_on : bool) (s : rsys) (l : list rchoice) : rsys := fold_left (rstep retries_on) l s.

(* a watch established at position p0 of collection c (whose history so far is [pre]); [l0] is the bookmark of the
   last initial event, if the initial part carried one *)
Definition rstart (c : coll) (pre : list event) (p0 : Z) (l0 : option Z) : rsys :=
  mkR c pre (RStream p0 [] false) l0 [] false.
