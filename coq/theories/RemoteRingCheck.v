(* RemoteRingCheck.v — the recorded transport traces of C13 replayed on the composed machine (RemoteRing.v: real ring
   on the server side) in lockstep with the RemoteWatch machine: for unselected kind watches both must hand the user
   the same positions, agree on lastBookmark and on whether the adapter has returned, and match what was observed.

   Server-side fetch times are not observable; the lockstep lets the server-side watcher keep up (it fetches after
   every commit and after every accepted re-dial). Traces in which the server itself reported an overrun are
   therefore outside this checker (RemoteWatchCheck still replays them). *)
From Verif Require Import Ring RingProofs RemoteWatch RemoteWatchCheck RemoteRing.
From Coq Require Import NArith ZArith.

Definition evn (n : nat) : event := EvCreated (mkRes 1%N 1%N (N.of_nat n) (Some 1%N) 0%N false [] [] 0%Z 0%Z 0%N).

Definition pos_of (e : option event) : oev :=
  match e with Some ev => OPos (N.to_nat (r_id (ev_res ev))) | None => OErr end.

Definition set_last (s : rsys) (l : option Z) : rsys := mkR (r_coll s) (r_log s) (r_mode s) l (r_out s) (r_err s).

Definition zlast (l : option nat) : option Z := option_map (fun b => (Z.of_nat b - 1)%Z) l.

Definition lock_step (retries : bool) (step1 : cstate -> choice -> cstate) (st : cstate * rsys) (c : choice) : cstate * rsys :=
  let '(cs, rs) := st in
  let cs' := step1 cs c in
  let rs' :=
    match c with
    | SAppend => rstep retries (rstep retries rs (RPublish (evn (c_len cs)))) RFetch
    | SDeliver =>
        match c_mode cs with
        | MInit _ => set_last rs (zlast (c_last cs'))
        | MStream _ => rstep retries (rstep retries rs RFetch) RDeliver
        | _ => rs
        end
    | SBreak => rstep retries rs RBreak
    | SRedialFail => rs
    | SRedialOK => rstep retries (rstep retries rs RRedialOK) RFetch
    | SRedialForeign => rstep retries rs RRedialForeign
    | SGiveUp => rstep retries rs RGiveUp
    | SOverrun => rs
    end in
  (cs', rs').

Fixpoint has_overrun (l : list choice) : bool :=
  match l with [] => false | SOverrun :: _ => true | _ :: t => has_overrun t end.

Fixpoint logs_only (m : list uev) : list oev :=
  match m with
  | [] => []
  | ULog q :: t => OPos q :: logs_only t
  | _ :: t => logs_only t
  end.

Fixpoint oev_eqb (a b : list oev) : bool :=
  match a, b with
  | [], [] => true
  | OPos x :: a', OPos y :: b' => Nat.eqb x y && oev_eqb a' b'
  | OInit :: a', OInit :: b' => oev_eqb a' b'
  | OErr :: a', OErr :: b' => oev_eqb a' b'
  | _, _ => false
  end.

Definition olast_eqb (a b : option Z) : bool :=
  match a, b with Some x, Some y => Z.eqb x y | None, None => true | _, _ => false end.

Fixpoint obs_logs (o : list oev) : list oev :=
  match o with [] => [] | OPos q :: t => OPos q :: obs_logs t | _ :: t => obs_logs t end.

Definition applicable (c : rwcase) : bool :=
  let '(matching, cap, gap, single, init, p0, retries, sched, obs, fin) := c in
  negb single && forallb (fun b => b) (skipn p0 matching) && negb (has_overrun sched) && Nat.ltb gap cap && Nat.leb 1 cap.

Definition rrcase_ok (c : rwcase) : bool :=
  if negb (applicable c) then true else
  let '(matching, cap, gap, single, init, p0, retries, sched, obs, fin) := c in
  let pre := map evn (seq 0 p0) in
  let c0 := publish_all pre (coll_init (Z.of_nat cap) (Z.of_nat cap) (Z.of_nat gap)) in
  let step1 := step (fun _ => true) (valid_win cap gap single) init p0 retries in
  let '(cs, rs) := fold_left (lock_step retries step1) sched (start_state init p0 p0, rstart c0 pre (Z.of_nat p0) None) in
  oev_eqb (map pos_of (r_out rs)) (logs_only (c_out cs)) &&
  oev_eqb (map pos_of (r_out rs)) (obs_logs obs) &&
  olast_eqb (r_last rs) (zlast (c_last cs)) &&
  Bool.eqb (r_err rs) (match c_mode cs with MDead => true | _ => false end) &&
  match r_mode rs, fin with
  | RDead, ODead => true
  | RRetry, ORetrying => true
  | RStream _ _ _, OLive => true
  | _, _ => false
  end.

Definition rr_mismatches (cs : list rwcase) : list N := mism_from rrcase_ok 0%N cs.
Definition rr_applicable (cs : list rwcase) : nat := length (filter applicable cs).
