(* RemoteRingProofs.v — end to end: a remote kind watch over the ring, through a transport that may lose everything
   in flight at any moment, hands the user exactly the log from its start position on — no gap, no duplicate, in
   order — or ends with Errored for a stated cause. For every configuration, history and schedule. *)
From Verif Require Import Ring RingProofs WatchProofs RemoteRing.
From Coq Require Import ZifyBool ZifyNat.
Open Scope Z_scope.

Lemma log_slice_nil log a : log_slice log a a = [].
Proof. unfold log_slice. replace (Z.to_nat (a - a)) with 0%nat by lia. reflexivity. Qed.

Lemma log_slice_cons log a b : a < b -> log_slice log a b = log_at log a :: log_slice log (a + 1) b.
Proof.
  intros H. unfold log_slice. replace (Z.to_nat (b - a)) with (S (Z.to_nat (b - (a + 1)))) by lia. reflexivity.
Qed.

Lemma log_slice_length log a b : length (log_slice log a b) = Z.to_nat (b - a).
Proof. unfold log_slice. rewrite map_length, zrange_length. reflexivity. Qed.

Lemma with_pos_app p a b : with_pos p (a ++ b) = with_pos p a ++ with_pos (p + Z.of_nat (length a)) b.
Proof.
  revert p; induction a as [|x a IH]; intros p; simpl.
  - f_equal. lia.
  - f_equal. rewrite IH. f_equal. f_equal. lia.
Qed.

(* the client's next position *)
Definition cpos (p0 : Z) (s : rsys) : Z := match r_last s with Some b => b + 1 | None => p0 end.

Record RRInv (initcap p0 : Z) (s : rsys) : Prop := mkRRInv {
  rr_ring : RInv initcap (r_coll s) (r_log s);
  rr_gap : 0 <= c_gap (r_coll s) < initcap;
  rr_pos : 0 <= p0 <= cpos p0 s /\ cpos p0 s <= c_wpos (r_coll s);
  rr_out : r_out s = log_slice (r_log s) p0 (cpos p0 s);
  rr_mode : match r_mode s with
            | RStream spos q en =>
                cpos p0 s <= spos <= c_wpos (r_coll s) /\ q = with_pos (cpos p0 s) (log_slice (r_log s) (cpos p0 s) spos) /\
                (en = true -> exists lagged_at, lagged_at - spos > initcap)
            | _ => True
            end;
  rr_err : r_err s = true <-> r_mode s = RDead
}.

Lemma rdie_inv initcap p0 s : RRInv initcap p0 s -> RRInv initcap p0 (rdie s).
Proof.
  intros [Hr Hg Hp Ho Hm He]. apply mkRRInv; cbn [rdie r_coll r_log r_mode r_last r_out r_err];
    [exact Hr|exact Hg|exact Hp|exact Ho|exact I|tauto].
Qed.

Lemma RRInv_step initcap p0 retries s c : RRInv initcap p0 s -> RRInv initcap p0 (rstep retries s c).
Proof.
  intros HI. pose proof HI as [Hr Hg Hp Ho Hm He]. unfold cpos in *.
  pose proof (ri_wpos _ _ _ Hr) as Hw.
  destruct c as [ev| | | | | | |]; cbn [rstep].
  - (* publish *)
    pose proof (publish_refines _ _ _ ev Hr) as Hr'.
    apply mkRRInv; unfold cpos; cbn [r_coll r_log r_mode r_last r_out r_err].
    + exact Hr'.
    + unfold publish; simpl. exact Hg.
    + unfold publish; simpl. lia.
    + rewrite log_slice_ext; [exact Ho | lia | lia].
    + destruct (r_mode s) as [spos q en| |]; [|exact I|exact I]. destruct Hm as [Hs [Hq Hen]].
      split; [unfold publish; simpl; lia|]. split; [|exact Hen].
      rewrite log_slice_ext; [exact Hq | lia | lia].
    + exact He.
  - (* server-side fetch *)
    destruct (r_mode s) as [spos q en| |] eqn:Em; [|exact HI|exact HI]. destruct en; [exact HI|].
    destruct Hm as [Hs [Hq Hen]].
    pose proof (fetch_all_exact _ _ _ spos Hr ltac:(lia)) as Hf.
    destruct (fetch_all (r_coll s) spos) as [| |evs p].
    + exact HI.
    + apply mkRRInv; unfold cpos; cbn [r_coll r_log r_mode r_last r_out r_err]; [exact Hr|exact Hg|exact Hp|exact Ho| |].
      * split; [exact Hs|]. split; [exact Hq|]. intros _. exists (c_wpos (r_coll s)).
        pose proof (ri_init _ _ _ Hr). lia.
      * rewrite He, ?Em. split; discriminate.
    + destruct Hf as [-> [Hlt [Hle Hevs]]].
      apply mkRRInv; unfold cpos; cbn [r_coll r_log r_mode r_last r_out r_err]; [exact Hr|exact Hg|exact Hp|exact Ho| |].
      * split; [lia|]. split; [|discriminate].
        rewrite Hq, Hevs.
        set (cp := match r_last s with Some b => b + 1 | None => p0 end) in *.
        rewrite (log_slice_app (r_log s) cp spos (c_wpos (r_coll s))) by lia.
        rewrite with_pos_app, log_slice_length. do 3 f_equal. lia.
      * rewrite He, ?Em. split; discriminate.
  - (* delivery *)
    destruct (r_mode s) as [spos q en| |] eqn:Em; [|exact HI|exact HI].
    destruct Hm as [Hs [Hq Hen]].
    destruct q as [|[p e] q'].
    + destruct en; [apply rdie_inv; exact HI | exact HI].
    + set (cp := match r_last s with Some b => b + 1 | None => p0 end) in *.
      assert (Hlt : cp < spos).
      { destruct (Z.eq_dec cp spos) as [E|E]; [|lia]. rewrite E, log_slice_nil in Hq. discriminate. }
      rewrite (log_slice_cons _ _ _ Hlt) in Hq. cbn [with_pos] in Hq.
      assert (Hp' : p = cp) by (inversion Hq; reflexivity).
      assert (He' : e = log_at (r_log s) cp) by (inversion Hq; reflexivity).
      assert (Hq' : q' = with_pos (cp + 1) (log_slice (r_log s) (cp + 1) spos)) by (inversion Hq; reflexivity).
      apply mkRRInv; unfold cpos; cbn [r_coll r_log r_mode r_last r_out r_err]; [exact Hr|exact Hg| | | |].
      * lia.
      * rewrite Ho, Hp', He'. rewrite (log_slice_app (r_log s) p0 cp (cp + 1)) by lia.
        f_equal. rewrite (log_slice_cons _ cp (cp + 1)) by lia. rewrite log_slice_nil. reflexivity.
      * rewrite Hp'. split; [lia|]. split; [exact Hq' | exact Hen].
      * rewrite He, ?Em. split; discriminate.
  - (* break *)
    destruct (r_mode s) as [spos q en| |] eqn:Em; [|exact HI|exact HI].
    destruct retries; [|apply rdie_inv; exact HI].
    destruct (r_last s) as [b|] eqn:El; [|apply rdie_inv; exact HI].
    apply mkRRInv; unfold cpos; cbn [r_coll r_log r_mode r_last r_out r_err]; rewrite ?El;
      [exact Hr|exact Hg|exact Hp|exact Ho|exact I|].
    rewrite He, ?Em. split; discriminate.
  - exact HI.
  - (* re-dial reaches the server *)
    destruct (r_mode s) as [spos q en| |] eqn:Em; [exact HI| |exact HI].
    destruct (r_last s) as [b|] eqn:El; [|exact HI].
    destruct (start_all (r_coll s) (SBookmark b)) as [pos|] eqn:Es; [|apply rdie_inv; exact HI].
    pose proof (ri_init _ _ _ Hr) as Hic.
    destruct (bookmark_accept_no_gap _ _ _ _ _ Hr ltac:(lia) Es) as [-> [Hb1 [Hb2 _]]].
    apply mkRRInv; unfold cpos; cbn [r_coll r_log r_mode r_last r_out r_err]; rewrite ?El;
      [exact Hr|exact Hg|exact Hp|exact Ho| |].
    + split; [lia|]. split; [|discriminate]. rewrite log_slice_nil. reflexivity.
    + rewrite He, ?Em. split; discriminate.
  - destruct (r_mode s); [exact HI | apply rdie_inv; exact HI | exact HI].
  - destruct (r_mode s); [exact HI | apply rdie_inv; exact HI | exact HI].
Qed.

Lemma RRInv_run initcap p0 retries l : forall s, RRInv initcap p0 s -> RRInv initcap p0 (rrun retries s l).
Proof.
  induction l as [|c l IH]; intros s H; [exact H|]. cbn [rrun fold_left]. apply IH, RRInv_step, H.
Qed.

Lemma publish_all_gap evs : forall c, c_gap (publish_all evs c) = c_gap c.
Proof. induction evs as [|e evs IH]; intros c; simpl; [reflexivity|]. rewrite IH. reflexivity. Qed.

Lemma RRInv_start initcap maxcap gap pre p0 l0 :
  wf_cfg initcap maxcap gap ->
  let c0 := publish_all pre (coll_init initcap maxcap gap) in
  0 <= p0 <= c_wpos c0 -> (l0 = None \/ l0 = Some (p0 - 1)) ->
  RRInv initcap p0 (rstart c0 pre p0 l0).
Proof.
  intros Hcfg c0 Hp Hl.
  pose proof (ring_refines_log initcap maxcap gap pre (proj1 Hcfg)) as Hr. fold c0 in Hr.
  assert (Hgap : c_gap c0 = gap) by (unfold c0; rewrite publish_all_gap; reflexivity).
  assert (Hcp : cpos p0 (rstart c0 pre p0 l0) = p0).
  { unfold cpos, rstart; simpl. destruct Hl as [->| ->]; lia. }
  constructor; rewrite ?Hcp; cbn [rstart r_coll r_log r_mode r_out r_err].
  - exact Hr.
  - rewrite Hgap. destruct Hcfg. lia.
  - lia.
  - rewrite log_slice_nil. reflexivity.
  - split; [lia|]. split; [rewrite log_slice_nil; reflexivity | discriminate].
  - split; discriminate.
Qed.

(* ---- the end-to-end statement ------------------------------------------------------------------------------------ *)
Theorem remote_over_ring_exact initcap maxcap gap pre p0 l0 retries sched :
  wf_cfg initcap maxcap gap ->
  let c0 := publish_all pre (coll_init initcap maxcap gap) in
  0 <= p0 <= c_wpos c0 -> (l0 = None \/ l0 = Some (p0 - 1)) ->
  let s := rrun retries (rstart c0 pre p0 l0) sched in
  exists k, 0 <= k /\ p0 + k <= Z.of_nat (length (r_log s)) /\
    r_out s = log_slice (r_log s) p0 (p0 + k) /\
    (r_err s = true <-> r_mode s = RDead) /\
    (k > 0 -> r_last s = Some (p0 + k - 1)).
Proof.
  intros Hcfg c0 Hp Hl s.
  pose proof (RRInv_run initcap p0 retries sched _ (RRInv_start initcap maxcap gap pre p0 l0 Hcfg Hp Hl)) as HI.
  fold c0 in HI. fold s in HI. destruct HI as [Hr Hg Hpos Ho Hm He].
  exists (cpos p0 s - p0). pose proof (ri_wpos _ _ _ Hr).
  split; [lia|]. split; [lia|]. split; [rewrite Ho; f_equal; lia|]. split; [exact He|].
  unfold cpos in *. destruct (r_last s) as [b|]; [intros _; f_equal; lia | lia].
Qed.

(* a live stream with nothing in flight whose server-side watcher has nothing to fetch has handed over the whole log *)
Theorem remote_over_ring_complete initcap maxcap gap pre p0 l0 retries sched :
  wf_cfg initcap maxcap gap ->
  let c0 := publish_all pre (coll_init initcap maxcap gap) in
  0 <= p0 <= c_wpos c0 -> (l0 = None \/ l0 = Some (p0 - 1)) ->
  let s := rrun retries (rstart c0 pre p0 l0) sched in
  forall spos, r_mode s = RStream spos [] false -> fetch_all (r_coll s) spos = FBlocked ->
  r_out s = log_slice (r_log s) p0 (Z.of_nat (length (r_log s))).
Proof.
  intros Hcfg c0 Hp Hl s spos Em Hf.
  pose proof (RRInv_run initcap p0 retries sched _ (RRInv_start initcap maxcap gap pre p0 l0 Hcfg Hp Hl)) as HI.
  fold c0 in HI. fold s in HI. destruct HI as [Hr Hg Hpos Ho Hm He]. rewrite Em in Hm. destruct Hm as [Hs [Hq _]].
  pose proof (ri_wpos _ _ _ Hr) as Hw.
  pose proof (fetch_all_exact _ _ _ spos Hr ltac:(lia)) as Hfe. rewrite Hf in Hfe.
  assert (cpos p0 s = spos).
  { destruct (Z.eq_dec (cpos p0 s) spos) as [E|E]; [exact E|].
    rewrite (log_slice_cons _ (cpos p0 s) spos) in Hq by lia. discriminate. }
  rewrite Ho. f_equal. lia.
Qed.

(* every way the adapter can end, in terms of the ring's own state *)
Theorem remote_over_ring_death_cause initcap p0 retries s c :
  RRInv initcap p0 s -> r_mode s <> RDead -> r_mode (rstep retries s c) = RDead ->
  (c = RBreak /\ (retries = false \/ r_last s = None)) \/
  (c = RRedialOK /\ exists b, r_last s = Some b /\ c_wpos (r_coll s) - b > initcap - c_gap (r_coll s)) \/
  c = RRedialForeign \/ c = RGiveUp \/
  (c = RDeliver /\ exists spos lagged_at, r_mode s = RStream spos [] true /\ lagged_at - spos > initcap).
Proof.
  intros HI Hnd Hd. pose proof HI as [Hr Hg Hp Ho Hm He].
  destruct c as [ev| | | | | | |]; cbn [rstep] in Hd.
  - simpl in Hd. contradiction.
  - destruct (r_mode s) as [spos q [|]| |] eqn:Em; try (rewrite ?Em in Hd; congruence).
    destruct (fetch_all (r_coll s) spos); simpl in Hd; congruence.
  - destruct (r_mode s) as [spos [|[p e] q] [|]| |] eqn:Em; try (simpl in Hd; congruence).
    right; right; right; right. split; [reflexivity|]. destruct Hm as [_ [_ Hen]].
    destruct (Hen eq_refl) as [la Hla]. exists spos, la. split; [reflexivity | exact Hla].
  - left. split; [reflexivity|]. destruct (r_mode s) eqn:Em; try congruence.
    destruct retries; [|left; reflexivity]. destruct (r_last s); [simpl in Hd; congruence | right; reflexivity].
  - contradiction.
  - right; left. split; [reflexivity|].
    destruct (r_mode s) as [| |] eqn:Em; try congruence.
    destruct (r_last s) as [b|] eqn:El; [|congruence]. exists b. split; [reflexivity|].
    destruct (start_all (r_coll s) (SBookmark b)) as [pos|] eqn:Es; [simpl in Hd; congruence|].
    unfold cpos in Hp. rewrite El in Hp. pose proof (ri_init _ _ _ Hr).
    unfold start_all in Es.
    destruct (Z.ltb_spec b (c_wpos (r_coll s) - c_cap (r_coll s) + c_gap (r_coll s))); [lia|].
    destruct (Z.ltb_spec b (-1)); [lia|]. destruct (Z.geb_spec b (c_wpos (r_coll s))); [lia|]. simpl in Es. discriminate.
  - right; right; left. reflexivity.
  - right; right; right; left. reflexivity.
Qed.

Example remote_over_ring_nonvacuous :
  let ev n := EvCreated (mkRes 1%N 1%N (N.of_nat n) (Some 1%N) 0%N false [] [] 0 0 0%N) in
  let s := rrun true (rstart (publish_all [ev 0%nat] (coll_init 2 4 0)) [ev 0%nat] 1 (Some 0))
             [RPublish (ev 1%nat); RFetch; RBreak; RPublish (ev 2%nat); RRedialOK; RFetch; RDeliver; RDeliver] in
  r_out s = [Some (ev 1%nat); Some (ev 2%nat)] /\ r_last s = Some 2 /\ r_err s = false.
Proof. vm_compute. repeat split. Qed.
