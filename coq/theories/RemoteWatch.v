(* RemoteWatch.v — the client side of a remote watch (pkg/state/protobuf/client/client.go watchAdapter with
   recvMessage's retry loop) over a failing transport, against the server's event log.

   The server side is the log of C02/C12: an accepted (re)watch from a bookmark streams exactly the matching
   log entries after it, each carrying its own position as bookmark; the window test decides acceptance.
   Positions are kept as "next position" (bookmark p is stored as p+1) so that the kind-watch bookmark -1 is 0. *)
From Coq Require Export List Arith Bool Lia.
Export ListNotations.

Section RW.
  (* does the log entry at this position produce an event on this watch (id match / selector view) *)
  Variable sel : nat -> bool.
  (* the server's window test: a watch resumed at next-position b is accepted when the log has n entries *)
  Variable valid : nat -> nat -> bool.
  (* the initial part of the stream (current state / bootstrap contents / Bootstrapped): the bookmark each of its
     events carries, as next-position *)
  Variable init : list (option nat).
  (* where the live part of the first stream starts *)
  Variable p0 : nat.
  Variable retries_on : bool.

  Inductive uev :=
  | UInit (i : nat)        (* the i-th initial event *)
  | ULog (q : nat)         (* the log entry at position q *)
  | UErr.                  (* Errored *)

  Inductive mode :=
  | MInit (i : nat)        (* the open stream still has initial events to send, next one is i *)
  | MStream (n : nat)      (* the open stream sends matching log entries from position n on *)
  | MRetry                 (* inside recvMessage's retry loop *)
  | MDead.                 (* the adapter returned *)

  Record cstate := mkC {
    c_len : nat;                 (* entries committed to the server's log so far *)
    c_mode : mode;
    c_last : option nat;         (* lastBookmark *)
    c_out : list uev             (* what the user channel has received, oldest first *)
  }.

  Inductive choice :=
  | SAppend            (* a writer commits a change on the server *)
  | SDeliver           (* the transport hands the next message of the open stream to the client *)
  | SBreak             (* Recv fails: stream reset, server gone, ... *)
  | SRedialFail        (* a re-Watch attempt fails (dial error, ready message lost, non-bookmark status) *)
  | SRedialOK          (* a re-Watch attempt reaches the server, which evaluates the bookmark *)
  | SRedialForeign     (* a re-Watch attempt reaches a different incarnation of the server (other cookie): bookmark refused *)
  | SGiveUp            (* backoff exhausted / context cancelled *)
  | SOverrun.          (* the server-side watcher lagged beyond the buffer: the server sends Errored *)

  (* first matching position in [n, n+fuel) *)
  Fixpoint next_match (n fuel : nat) : option nat :=
    match fuel with
    | O => None
    | S f => if sel n then Some n else next_match (S n) f
    end.

  Definition after_init (i : nat) : mode := if Nat.ltb i (length init) then MInit i else MStream p0.

  Definition init_state : cstate := mkC 0 (after_init 0) None [].
  Definition start_state (len : nat) : cstate := mkC len (after_init 0) None [].

  Definition die (s : cstate) : cstate := mkC (c_len s) MDead (c_last s) (c_out s ++ [UErr]).

  Definition step (s : cstate) (c : choice) : cstate :=
    match c with
    | SAppend => mkC (S (c_len s)) (c_mode s) (c_last s) (c_out s)
    | SDeliver =>
        match c_mode s with
        | MInit i => mkC (c_len s) (after_init (S i)) (nth i init None) (c_out s ++ [UInit i])
        | MStream n =>
            match next_match n (c_len s - n) with
            | Some q => mkC (c_len s) (MStream (S q)) (Some (S q)) (c_out s ++ [ULog q])
            | None => s
            end
        | _ => s
        end
    | SBreak =>
        match c_mode s with
        | MInit _ | MStream _ =>
            if retries_on then match c_last s with Some _ => mkC (c_len s) MRetry (c_last s) (c_out s) | None => die s end
            else die s
        | _ => s
        end
    | SRedialFail => s
    | SRedialOK =>
        match c_mode s, c_last s with
        | MRetry, Some b => if valid b (c_len s) then mkC (c_len s) (MStream b) (c_last s) (c_out s) else die s
        | _, _ => s
        end
    | SRedialForeign => match c_mode s with MRetry => die s | _ => s end
    | SGiveUp => match c_mode s with MRetry => die s | _ => s end
    | SOverrun => match c_mode s with MStream _ => die s | _ => s end
    end.

  Definition run (s : cstate) (l : list choice) : cstate := fold_left step l s.

  (* the matching log entries in [a, b) *)
  Fixpoint logpart (a k : nat) : list uev :=
    match k with
    | O => []
    | S k' => (if sel a then [ULog a] else []) ++ logpart (S a) k'
    end.
End RW.
