(* RemoteWatchCheck.v — replay recorded transport traces of the real client adapter on the RemoteWatch machine. *)
From Verif Require Import RemoteWatch.
From Coq Require Import NArith.

Fixpoint nth_bool (l : list bool) (n : nat) : bool :=
  match l, n with
  | [], _ => false
  | b :: _, O => b
  | _ :: t, S m => nth_bool t m
  end.

(* the server's window test (C12: Ring.start_all / start_one with SBookmark) on next-positions, for a buffer of
   fixed capacity: p = b-1 must satisfy wpos-cap+gap <= p < wpos, and p >= 0 for a single-resource watch *)
Definition valid_win (cap gap : nat) (single : bool) (b n : nat) : bool :=
  Nat.leb (n + gap + 1) (b + cap) && Nat.leb b n && (negb single || Nat.leb 1 b).

Inductive oev := OInit | OPos (q : nat) | OErr.

Fixpoint out_match (m : list uev) (o : list oev) (i : nat) : bool :=
  match m, o with
  | [], [] => true
  | UInit j :: m', OInit :: o' => Nat.eqb i j && out_match m' o' (S i)
  | ULog q :: m', OPos q' :: o' => Nat.eqb q q' && out_match m' o' i
  | UErr :: m', OErr :: o' => out_match m' o' i
  | _, _ => false
  end.

Inductive omode := OLive | ORetrying | ODead.

(* case: matching flags per log position, capacity, gap, single?, initial bookmarks, p0, retries enabled,
   the recorded choices, what the user channel received, and the adapter's final condition *)
Definition rwcase := (list bool * nat * nat * bool * list (option nat) * nat * bool *
                      list choice * list oev * omode)%type.

Definition rwcase_ok (c : rwcase) : bool :=
  let '(matching, cap, gap, single, init, p0, retries, sched, obs, fin) := c in
  let s := run (nth_bool matching) (valid_win cap gap single) init p0 retries (start_state init p0 p0) sched in
  out_match (c_out s) obs 0 &&
  match c_mode s, fin with
  | MDead, ODead => true
  | MRetry, ORetrying => true
  | MInit _, OLive | MStream _, OLive => true
  | _, _ => false
  end.

Fixpoint mism_from {A} (f : A -> bool) (i : N) (l : list A) : list N :=
  match l with
  | [] => []
  | x :: t => if f x then mism_from f (N.succ i) t else i :: mism_from f (N.succ i) t
  end.

Definition rw_mismatches (cs : list rwcase) : list N := mism_from rwcase_ok 0%N cs.
