(* RemoteWatchProofs.v — C13: for every schedule of commits, deliveries, stream failures, failed and successful
   re-dials: the user sees the initial part once, then exactly the matching log entries in order without gap or
   duplicate, optionally ended by one Errored, which has one of the listed causes. *)
From Verif Require Import RemoteWatch.

Section Proofs.
  Variable sel : nat -> bool.
  Variable valid : nat -> nat -> bool.
  Variable init : list (option nat).
  Variable p0 : nat.
  Variable retries_on : bool.

  Notation step := (step sel valid init p0 retries_on).
  Notation run := (run sel valid init p0 retries_on).
  Notation logpart := (logpart sel).
  Notation next_match := (next_match sel).
  Notation after_init := (after_init init p0).

  (* only the last event of the initial part may carry a bookmark, and it points at the start of the live part *)
  Definition init_wf : Prop :=
    forall i, i < length init -> nth i init None <> None -> S i = length init /\ nth i init None = Some p0.

  Definition inits (i : nat) : list uev := map UInit (seq 0 i).

  Lemma inits_S i : inits (S i) = inits i ++ [UInit i].
  Proof. unfold inits. rewrite seq_S, map_app. reflexivity. Qed.

  Lemma logpart_app a j k : logpart a (j + k) = logpart a j ++ logpart (a + j) k.
  Proof.
    revert a. induction j as [|j IH]; intros a; simpl.
    - rewrite Nat.add_0_r. reflexivity.
    - rewrite IH, <- app_assoc. f_equal. f_equal. f_equal. lia.
  Qed.

  Lemma next_match_spec n fuel q :
    next_match n fuel = Some q ->
    n <= q < n + fuel /\ sel q = true /\ logpart n (q - n) = [].
  Proof.
    revert n. induction fuel as [|f IH]; intros n H; simpl in H; [discriminate|].
    destruct (sel n) eqn:E.
    - inversion H; subst q. repeat split; try lia; auto. rewrite Nat.sub_diag. reflexivity.
    - destruct (IH _ H) as [[A B] [C D]]. repeat split; try lia; auto.
      replace (q - n) with (S (q - S n)) by lia. simpl. rewrite E. exact D.
  Qed.

  Lemma next_match_none n fuel : next_match n fuel = None -> logpart n fuel = [].
  Proof.
    revert n. induction fuel as [|f IH]; intros n H; simpl in *; [reflexivity|].
    destruct (sel n); [discriminate|]. apply IH. exact H.
  Qed.

  Definition Inv (s : cstate) : Prop :=
    p0 <= c_len s /\
    match c_mode s with
    | MInit i => i < length init /\ c_out s = inits i /\ c_last s = None
    | MStream n =>
        p0 <= n <= c_len s /\ c_out s = inits (length init) ++ logpart p0 (n - p0) /\
        (c_last s = Some n \/ (c_last s = None /\ n = p0))
    | MRetry =>
        exists b, c_last s = Some b /\ p0 <= b <= c_len s /\ c_out s = inits (length init) ++ logpart p0 (b - p0)
    | MDead =>
        exists X, c_out s = X ++ [UErr] /\
          ((exists i, i <= length init /\ X = inits i) \/
           (exists k, p0 + k <= c_len s /\ X = inits (length init) ++ logpart p0 k))
    end.

  Lemma after_init_inv len i out last :
    init_wf -> p0 <= len -> i <= length init -> out = inits i ->
    (i < length init -> last = None) ->
    (i = length init -> last = None \/ last = Some p0) ->
    Inv (mkC len (after_init i) last out).
  Proof.
    intros Hw Hl Hi Ho Hn He. unfold Inv, RemoteWatch.after_init. cbn [c_len c_mode c_out c_last].
    split; [exact Hl|]. destruct (Nat.ltb_spec i (length init)) as [L|L].
    - repeat split; auto.
    - assert (i = length init) by lia. subst i. split; [lia|]. split.
      + rewrite Nat.sub_diag. simpl. rewrite app_nil_r. exact Ho.
      + destruct (He eq_refl) as [E|E]; [right | left]; auto.
  Qed.

  Lemma step_inv s c : init_wf -> Inv s -> Inv (step s c).
  Proof.
    intros Hw [Hl Hm]. destruct s as [len md last out]. cbn [c_len c_mode c_out c_last] in *.
    destruct c; cbn [RemoteWatch.step c_len c_mode c_out c_last].
    - (* append *)
      split; [cbn; lia|]. cbn [c_len c_mode c_out c_last]. destruct md as [i|n| |]; auto.
      + destruct Hm as [A [B C]]. repeat split; auto; lia.
      + destruct Hm as [b [A [B C]]]. exists b. repeat split; auto; lia.
      + destruct Hm as [X [A [[i B]|[k [B1 B2]]]]]; exists X; (split; [exact A|]); [left; exists i; exact B | right; exists k; split; [lia | exact B2]].
    - (* deliver *)
      destruct md as [i|n| |]; try (split; assumption).
      + destruct Hm as [A [B C]]. apply after_init_inv; auto; try lia.
        * subst out. symmetry. apply inits_S.
        * intros L. destruct (nth i init None) eqn:E; [|reflexivity].
          destruct (Hw i A) as [F _]; [rewrite E; discriminate | lia].
        * intros L. destruct (nth i init None) eqn:E; [|left; reflexivity].
          destruct (Hw i A) as [_ F]; [rewrite E; discriminate|]. right. congruence.
      + destruct Hm as [A [B C]]. destruct (next_match n (len - n)) as [q|] eqn:E; [|split; [exact Hl | cbn; auto]].
        destruct (next_match_spec _ _ _ E) as [Q1 [Q2 Q3]].
        split; [exact Hl|]. cbn [c_len c_mode c_out c_last]. split; [lia|]. split; [|left; reflexivity].
        subst out. rewrite <- app_assoc. f_equal.
        replace (S q - p0) with ((n - p0) + ((q - n) + 1)) by lia.
        rewrite logpart_app. f_equal. replace (p0 + (n - p0)) with n by lia.
        rewrite logpart_app, Q3. simpl. replace (n + (q - n)) with q by lia. rewrite Q2. reflexivity.
    - (* break *)
      assert (D : forall X, out = X -> ((exists i, i <= length init /\ X = inits i) \/
                   (exists k, p0 + k <= len /\ X = inits (length init) ++ logpart p0 k)) ->
                   Inv (die (mkC len md last out))).
      { intros X E H. split; [exact Hl|]. cbn. exists X. subst out. split; [reflexivity | exact H]. }
      destruct md as [i|n| |]; try (split; assumption).
      + destruct Hm as [A [B C]]. subst last.
        destruct retries_on; apply (D out eq_refl); left; exists i; split; auto; lia.
      + destruct Hm as [A [B C]].
        assert (DD : Inv (die (mkC len (MStream n) last out))).
        { apply (D out eq_refl). right. exists (n - p0). split; [lia | exact B]. }
        destruct retries_on; [|exact DD]. destruct last as [b|]; [|exact DD].
        destruct C as [C|[C _]]; [|discriminate]. inversion C; subst b.
        split; [exact Hl|]. cbn. exists n. repeat split; auto; lia.
    - (* redial fails *) split; assumption.
    - (* redial ok *)
      destruct md as [i|n| |]; try (split; assumption). destruct last as [b|]; [|split; assumption].
      destruct Hm as [b' [A [B C]]]. inversion A; subst b'.
      destruct (valid b len).
      + split; [exact Hl|]. cbn. repeat split; auto; lia.
      + split; [exact Hl|]. cbn. exists out. split; [reflexivity|]. right. exists (b - p0). split; [lia | exact C].
    - (* foreign server *)
      destruct md as [i|n| |]; try (split; assumption).
      destruct Hm as [b [A [B C]]]. split; [exact Hl|]. cbn. exists out. split; [reflexivity|].
      right. exists (b - p0). split; [lia | exact C].
    - (* give up *)
      destruct md as [i|n| |]; try (split; assumption).
      destruct Hm as [b [A [B C]]]. split; [exact Hl|]. cbn. exists out. split; [reflexivity|].
      right. exists (b - p0). split; [lia | exact C].
    - (* overrun *)
      destruct md as [i|n| |]; try (split; assumption).
      destruct Hm as [A [B C]]. split; [exact Hl|]. cbn. exists out. split; [reflexivity|].
      right. exists (n - p0). split; [lia | exact B].
  Qed.

  Lemma start_inv len : init_wf -> p0 <= len -> Inv (start_state init p0 len).
  Proof.
    intros Hw Hl. unfold start_state. apply after_init_inv; auto; try lia; try reflexivity.
  Qed.

  Theorem run_inv l : forall s, init_wf -> Inv s -> Inv (run s l).
  Proof.
    unfold RemoteWatch.run. induction l as [|c l IH]; intros s Hw Hi; [exact Hi|]. simpl. apply IH; auto. apply step_inv; auto.
  Qed.

  (* the statement of the property: what the user channel has seen after any schedule *)
  Theorem remote_watch_exact len sched :
    init_wf -> p0 <= len ->
    let s := run (start_state init p0 len) sched in
    exists i k, i <= length init /\ p0 + k <= c_len s /\ (k > 0 -> i = length init) /\
      c_out s = inits i ++ logpart p0 k ++ (match c_mode s with MDead => [UErr] | _ => [] end).
  Proof.
    intros Hw Hl s. pose proof (run_inv sched _ Hw (start_inv len Hw Hl)) as [H1 H2]. fold s in H1, H2.
    destruct (c_mode s) as [i|n| |].
    - destruct H2 as [A [B C]]. exists i, 0. rewrite B. simpl. rewrite app_nil_r. repeat split; auto; lia.
    - destruct H2 as [A [B C]]. exists (length init), (n - p0). rewrite B, app_nil_r. repeat split; auto; lia.
    - destruct H2 as [b [A [B C]]]. exists (length init), (b - p0). rewrite C, app_nil_r. repeat split; auto; lia.
    - destruct H2 as [X [A [[i [B1 B2]]|[k [B1 B2]]]]].
      + exists i, 0. rewrite A, B2. simpl. repeat split; auto; lia.
      + exists (length init), k. rewrite A, B2, app_assoc. repeat split; auto.
  Qed.

  (* continues transparently: a live stream with nothing left to deliver has delivered every matching entry *)
  Theorem live_stream_complete len sched :
    init_wf -> p0 <= len ->
    let s := run (start_state init p0 len) sched in
    forall n, c_mode s = MStream n -> next_match n (c_len s - n) = None ->
    c_out s = inits (length init) ++ logpart p0 (c_len s - p0).
  Proof.
    intros Hw Hl s n Hm Hn. pose proof (run_inv sched _ Hw (start_inv len Hw Hl)) as [H1 H2]. fold s in H1, H2.
    rewrite Hm in H2. destruct H2 as [A [B C]]. rewrite B. f_equal.
    replace (c_len s - p0) with ((n - p0) + (c_len s - n)) by lia.
    rewrite logpart_app. replace (p0 + (n - p0)) with n by lia.
    rewrite (next_match_none _ _ Hn), app_nil_r. reflexivity.
  Qed.

  (* Errored is delivered only for one of the listed causes *)
  Theorem errored_has_cause s c :
    c_mode s <> MDead -> c_mode (step s c) = MDead ->
    (c = SBreak /\ (retries_on = false \/ c_last s = None)) \/
    (c = SRedialOK /\ exists b, c_last s = Some b /\ valid b (c_len s) = false) \/
    c = SRedialForeign \/ c = SGiveUp \/ c = SOverrun.
  Proof.
    destruct s as [len md last out]. cbn [c_mode c_last c_len]. intros Hn Hd.
    destruct c; cbn [RemoteWatch.step c_len c_mode c_out c_last] in Hd.
    - cbn in Hd. contradiction.
    - destruct md as [i|n| |]; cbn in Hd; try contradiction; try discriminate.
      + unfold RemoteWatch.after_init in Hd. destruct (Nat.ltb (S i) (length init)); discriminate.
      + destruct (next_match n (len - n)); cbn in Hd; discriminate.
    - left. split; [reflexivity|]. destruct md as [i|n| |]; cbn in Hd; try contradiction; try discriminate.
      all: destruct retries_on; [|left; reflexivity]; destruct last; [cbn in Hd; discriminate | right; reflexivity].
    - cbn in Hd. contradiction.
    - right; left. split; [reflexivity|]. destruct md as [i|n| |]; cbn in Hd; try contradiction; try discriminate.
      destruct last as [b|]; [|cbn in Hd; discriminate]. exists b. split; [reflexivity|].
      destruct (valid b len); [cbn in Hd; discriminate | reflexivity].
    - right; right; left; reflexivity.
    - right; right; right; left; reflexivity.
    - right; right; right; right; reflexivity.
  Qed.

  (* a resumed stream starts exactly at the last bookmark: never a silent gap *)
  Theorem resume_at_last_bookmark s b :
    c_mode s = MRetry -> c_last s = Some b -> valid b (c_len s) = true ->
    c_mode (step s SRedialOK) = MStream b /\ c_out (step s SRedialOK) = c_out s.
  Proof.
    destruct s as [len md last out]. cbn [c_mode c_last c_len c_out]. intros -> -> Hv.
    cbn [RemoteWatch.step c_len c_mode c_out c_last]. rewrite Hv. split; reflexivity.
  Qed.
End Proofs.

(* non-vacuity: a kind watch with bootstrap (two existing resources, then Bootstrapped with a bookmark), an outage
   with two commits, a failed and a successful re-dial *)
Example rw_example :
  let sel := fun q => negb (Nat.eqb q 3) in
  let init := [None; None; Some 2] in
  init_wf init 2 /\
  c_out (run sel (fun b n => Nat.leb b n) init 2 true (start_state init 2 2)
           [SDeliver; SDeliver; SDeliver; SAppend; SDeliver; SBreak; SAppend; SAppend; SRedialFail; SRedialOK; SDeliver; SDeliver])
  = [UInit 0; UInit 1; UInit 2; ULog 2; ULog 4].
Proof.
  split; [|vm_compute; reflexivity].
  intros i Hi Hn. destruct i as [|[|[|i]]]; simpl in *; try congruence; try lia. split; reflexivity.
Qed.
