(* Restart.v — fault containment in the controller runtime:
   rruntime.Adapter.Run restart loop (run.go), qruntime run-hook loop (runWithBackoff), task.runWithRestarts,
   and the runtime's reaction to a failed watch (runtime.go processEvents / Run).

   The exponential schedule is the one of Queue.v (cenkalti/backoff: 500ms * 1.5^n capped at 60s, jitter
   window [c/2, 3c/2+1]). *)
From Verif Require Export Queue.
Open Scope Z_scope.

(* how one invocation of Run / hook / task ended *)
Inductive rout :=
| RNil                 (* returned nil: the loop ends, no restart *)
| RFail                (* error or recovered panic *)
| RCancelled.          (* context cancelled: the loop ends *)

(* what the component did during the run that matters to the schedule *)
Record rinv := mkRinv {
  ri_out : rout;
  ri_reset : bool;          (* the controller called ResetRestartBackoff during this run *)
  ri_duration : Z           (* how long the run lasted (run hooks reset their backoff after > 1 minute) *)
}.

Inductive rkind := KController | KRunHook | KTask.

Definition one_minute : Z := 60000000000.

(* state = current backoff interval; result = the admissible sleep window before the restart, and whether
   a reconcile is re-triggered after the sleep *)
Definition restart_step (k : rkind) (c : Z) (i : rinv) : Z * option (Z * Z) * bool :=
  let c1 := match k with
            | KController => if ri_reset i then bo_initial else c
            | KRunHook => if Z.gtb (ri_duration i) one_minute then bo_initial else c
            | KTask => c
            end in
  match ri_out i with
  | RNil | RCancelled => (c1, None, false)
  | RFail => (bo_next c1, Some (bo_window c1), match k with KController => true | _ => false end)
  end.

Fixpoint restart_run (k : rkind) (c : Z) (is : list rinv) : list (option (Z * Z) * bool) :=
  match is with
  | [] => []
  | i :: is' =>
      let '(c', w, trig) := restart_step k c i in
      (w, trig) :: match w with Some _ => restart_run k c' is' | None => [] end
  end.

(* ---- the runtime's main loop w.r.t. watch failures and cancellation ------------------------------------ *)

Inductive rtstate := RtRunning | RtStopped (watch_error : bool).

Inductive rtev :=
| EvBatch (has_errored : bool)     (* a batch of watch events arrives; it may contain an Errored event *)
| EvCancel.

(* returns the new state and whether controllers may be triggered on account of this event *)
Definition rt_react (s : rtstate) (e : rtev) : rtstate * bool :=
  match s, e with
  | RtRunning, EvBatch true => (RtStopped true, false)     (* processEvents returns false: abort, Run returns the error *)
  | RtRunning, EvBatch false => (RtRunning, true)
  | RtRunning, EvCancel => (RtStopped false, false)
  | RtStopped w, _ => (RtStopped w, false)
  end.

Fixpoint rt_trace (s : rtstate) (es : list rtev) : rtstate * list bool :=
  match es with
  | [] => (s, [])
  | e :: es' => let '(s1, t) := rt_react s e in let '(s2, ts) := rt_trace s1 es' in (s2, t :: ts)
  end.
