(* RestartCheck.v — observed restart gaps against the model's windows. *)
From Verif Require Import Queue Restart.
Open Scope Z_scope.

Definition rcase := (rkind * list rinv * list Z)%type.

Fixpoint gaps_ok (ws : list (option (Z * Z) * bool)) (gaps : list Z) : bool :=
  match ws, gaps with
  | [], [] => true
  | [], g :: gaps' => Z.eqb g (-1) && gaps_ok [] gaps'       (* invocations that never happened *)
  | (w, _) :: ws', g :: gaps' =>
      (match w with
       | Some (lo, hi) => Z.leb lo g && Z.leb g hi
       | None => Z.eqb g (-1)
       end) && gaps_ok ws' gaps'
  | _ :: _, [] => false
  end.

Definition rcase_ok (c : rcase) : bool :=
  let '(k, script, gaps) := c in gaps_ok (restart_run k bo_initial script) gaps.

Fixpoint mism_from {A} (chk : A -> bool) (i : N) (cs : list A) : list N :=
  match cs with
  | [] => []
  | c :: cs' => if chk c then mism_from chk (N.succ i) cs' else i :: mism_from chk (N.succ i) cs'
  end.

Definition restart_mismatches (cs : list rcase) : list N := mism_from rcase_ok 0%N cs.
