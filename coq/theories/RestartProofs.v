(* RestartProofs.v — restart schedules grow and reset; a failed watch or a cancellation stops all triggering. *)
From Verif Require Import Queue QueueProofs Restart.
Open Scope Z_scope.

Definition failing (reset : bool) : rinv := mkRinv RFail reset 0.

(* k consecutive failures of a controller (no reset): windows of the exponential schedule, each followed by a re-trigger *)
Theorem restart_backoff_window n c :
  restart_run KController c (repeat (failing false) n) =
  map (fun i => (Some (bo_window (bo_iter i c)), true)) (seq 0 n).
Proof.
  revert c. induction n as [|n IH]; intros c; [reflexivity|].
  cbn [repeat restart_run restart_step failing ri_out ri_reset seq map bo_iter]. f_equal.
  rewrite IH. rewrite <- seq_shift, map_map. reflexivity.
Qed.

(* every restart after a failure re-triggers a reconcile: no wake-up is lost across a crash *)
Theorem restart_retriggers c i :
  ri_out i = RFail -> snd (restart_step KController c i) = true /\ snd (fst (restart_step KController c i)) <> None.
Proof. intros H. unfold restart_step. rewrite H. split; [reflexivity | discriminate]. Qed.

(* a run in which the controller reset its backoff (it made progress) restarts from the initial interval *)
Theorem restart_reset c :
  restart_step KController c (failing true) = (bo_next bo_initial, Some (bo_window bo_initial), true).
Proof. reflexivity. Qed.

(* a run hook that ran for more than a minute restarts from the initial interval; tasks never reset *)
Theorem hook_reset_after_long_run c d :
  d > one_minute -> restart_step KRunHook c (mkRinv RFail false d) = (bo_next bo_initial, Some (bo_window bo_initial), false).
Proof.
  intros H. unfold restart_step. cbn [ri_duration ri_out].
  destruct (Z.gtb_spec d one_minute); [reflexivity | lia].
Qed.

Theorem task_never_resets c i :
  ri_out i = RFail -> restart_step KTask c i = (bo_next c, Some (bo_window c), false).
Proof. intros H. unfold restart_step. rewrite H. reflexivity. Qed.

(* a clean return or a cancellation ends the loop: no further restart *)
Theorem nil_or_cancel_ends k c i is :
  ri_out i <> RFail -> restart_run k c (i :: is) = [(None, false)].
Proof.
  intros H. cbn [restart_run]. unfold restart_step. destruct (ri_out i); try contradiction; reflexivity.
Qed.

(* after an Errored watch event or a cancellation nothing is triggered any more, whatever arrives *)
Theorem stopped_never_triggers w es :
  snd (rt_trace (RtStopped w) es) = repeat false (length es) /\ fst (rt_trace (RtStopped w) es) = RtStopped w.
Proof.
  induction es as [|e es IH]; [split; reflexivity|]. cbn [rt_trace rt_react].
  destruct (rt_trace (RtStopped w) es) as [s2 ts]. destruct IH as [IH1 IH2]. simpl in *. subst. split; reflexivity.
Qed.

Theorem watch_error_stops es1 es2 :
  (forall e, In e es1 -> e = EvBatch false) ->
  let '(s, ts) := rt_trace RtRunning (es1 ++ EvBatch true :: es2) in
  s = RtStopped true /\ ts = repeat true (length es1) ++ repeat false (S (length es2)).
Proof.
  intros H. induction es1 as [|e es1 IH]; cbn [app rt_trace rt_react].
  - pose proof (stopped_never_triggers true es2) as [A B].
    destruct (rt_trace (RtStopped true) es2) as [s2 ts]. simpl in *. subst. split; reflexivity.
  - rewrite (H e (or_introl eq_refl)). cbn [rt_react].
    assert (H' : forall e0, In e0 es1 -> e0 = EvBatch false) by (intros e0 He; apply H; right; exact He).
    specialize (IH H'). destruct (rt_trace RtRunning (es1 ++ EvBatch true :: es2)) as [s2 ts].
    destruct IH as [-> ->]. split; reflexivity.
Qed.

(* a failing queue item does not hold back other items: whenever some item is due, a due item is handed out *)
Theorem ready_item_delivered s g now i :
  reach s g -> In i (q_pq s) -> pra i <= now ->
  exists j, snd (q_step s (EGet now)) = Some (pk j, pv j) /\ pra j <= now.
Proof.
  intros Hr Hin Hra. apply reach_R in Hr. destruct Hr as [HI _ _].
  rewrite q_step_get. destruct (pq_peek now (q_pq s)) as [j|] eqn:Ep.
  - exists j. split; [reflexivity|]. destruct (pq_peek_Some _ _ _ Ep) as [q' [_ H]]. exact H.
  - exfalso. pose proof (pq_peek_None now (q_pq s) (inv_sorted _ HI) Ep i Hin). lia.
Qed.
