(* RetryBudget.v — when may the reconnecting watch adapter stop retrying?

   recvMessage's retry loop (pkg/state/protobuf/client/client.go) asks an ExponentialBackOff
   (github.com/cenkalti/backoff/v4, default settings) before every attempt: NextBackOff returns a jittered delay,
   or Stop once the time elapsed since the last Reset plus that delay exceeds MaxElapsedTime. "Retries exhausted"
   in C13 is that Stop. The model keeps what the answer depends on — the time of the last Reset and the current
   interval — in nanoseconds, and takes the jitter as an input, so it says for every recorded decision whether some
   jitter value explains it.

   The policy is the adapter's: the budget is reset whenever an established stream breaks ([reset_on_break]); the
   code as found reset it when the watch was created and after a message had arrived on a re-established stream
   ([BDelivered]) only, which is kept as the other value of the flag for the refutation in the proofs file. *)
From Coq Require Export List ZArith Bool Lia.
Export ListNotations.
Open Scope Z_scope.

Definition ms : Z := 1000000.
Definition init_interval : Z := 500 * ms.
Definition max_interval : Z := 60000 * ms.
Definition max_elapsed : Z := 900000 * ms.

Record bo := mkBo { b_start : Z; b_cur : Z }.

Definition bo_new (now : Z) : bo := mkBo now init_interval.

(* incrementCurrentInterval with Multiplier 1.5 *)
Definition next_interval (cur : Z) : Z :=
  if 2 * max_interval <=? 3 * cur then max_interval else 3 * cur / 2.

(* getRandomValueFromInterval with RandomizationFactor 0.5: floor (cur/2 + rnd * (cur + 1)), rnd in [0, 1) *)
Definition jitter_ok (cur d : Z) : bool := (cur <=? 2 * d + 1) && (2 * d <? 3 * cur + 2).

(* NextBackOff at time [now] when the random draw gives delay [d]: None is Stop *)
Definition next_backoff (b : bo) (now d : Z) : option Z * bo :=
  (if max_elapsed <? (now - b_start b) + d then None else Some d, mkBo (b_start b) (next_interval (b_cur b))).

(* what the harness can see of one watch, in time order *)
Inductive bev :=
| BBreak (t : Z)          (* an established stream failed *)
| BDelivered (t : Z)      (* a message arrived on a re-established stream *)
| BRetry (t d : Z)        (* the loop decided to retry after delay d ("watch retrying" in the retry log) *)
| BGiveUp (t : Z).        (* the loop returned "maximum retry attempts" *)

Definition ev_time (e : bev) : Z :=
  match e with BBreak t | BDelivered t | BRetry t _ | BGiveUp t => t end.

(* one event against the model: None = no jitter value makes NextBackOff answer like that *)
Definition bstep (reset_on_break : bool) (b : bo) (e : bev) : option bo :=
  match e with
  | BBreak t => Some (if reset_on_break then bo_new t else b)
  | BDelivered t => Some (bo_new t)
  | BRetry t d =>
      if jitter_ok (b_cur b) d then
        match next_backoff b t d with
        | (Some _, b') => Some b'
        | (None, _) => None
        end
      else None
  | BGiveUp t =>
      (* Stop for some admissible draw iff Stop for the largest one *)
      match next_backoff b t ((3 * b_cur b + 1) / 2) with
      | (None, b') => Some b'
      | (Some _, _) => None
      end
  end.

Fixpoint baccepts (reset_on_break : bool) (b : bo) (l : list bev) : bool :=
  match l with
  | [] => true
  | e :: r => match bstep reset_on_break b e with Some b' => baccepts reset_on_break b' r | None => false end
  end.

Fixpoint mism_from_b {A} (f : A -> bool) (i : N) (l : list A) : list N :=
  match l with
  | [] => []
  | x :: t => if f x then mism_from_b f (N.succ i) t else i :: mism_from_b f (N.succ i) t
  end.

(* the watch is created at time 0 *)
Definition budget_mismatches (cs : list (list bev)) : list N := mism_from_b (baccepts true (bo_new 0)) 0%N cs.
