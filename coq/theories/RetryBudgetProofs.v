(* RetryBudgetProofs.v — what "retries exhausted" means under the adapter's reset policy. *)
From Verif Require Export RetryBudget.
Open Scope Z_scope.

Fixpoint brun (rb : bool) (b : bo) (l : list bev) : option bo :=
  match l with
  | [] => Some b
  | e :: r => match bstep rb b e with Some b' => brun rb b' r | None => None end
  end.

Lemma baccepts_brun rb l : forall b, baccepts rb b l = true <-> exists b', brun rb b l = Some b'.
Proof.
  induction l as [|e r IH]; intros b; cbn [baccepts brun].
  - split; [intros _; eexists; reflexivity | reflexivity].
  - destruct (bstep rb b e) as [b1|]; [apply IH|].
    split; [discriminate | intros [b' Hb']; discriminate].
Qed.

Lemma brun_app rb l1 : forall l2 b, brun rb b (l1 ++ l2) =
  match brun rb b l1 with Some b1 => brun rb b1 l2 | None => None end.
Proof.
  induction l1 as [|e r IH]; intros l2 b; cbn [brun app]; [reflexivity|].
  destruct (bstep rb b e); [apply IH | reflexivity].
Qed.

(* the time of the last reset in a trace (d: the one before it) *)
Fixpoint last_reset (l : list bev) (d : Z) : Z :=
  match l with
  | [] => d
  | BBreak t :: r | BDelivered t :: r => last_reset r t
  | _ :: r => last_reset r d
  end.

Definition cur_ok (b : bo) : Prop := 0 < b_cur b <= max_interval.

Lemma next_interval_ok c : 0 < c <= max_interval -> 0 < next_interval c <= max_interval.
Proof.
  unfold next_interval, max_interval, ms. intros Hc.
  destruct (Z.leb_spec (2 * (60000 * 1000000)) (3 * c)); [lia|].
  split; [apply Z.div_str_pos; lia | apply Z.div_le_upper_bound; lia].
Qed.

Lemma bo_new_ok t : cur_ok (bo_new t).
Proof. unfold cur_ok, bo_new, init_interval, max_interval, ms; cbn [b_cur]; lia. Qed.

Lemma bstep_inv b e b' : cur_ok b -> bstep true b e = Some b' ->
  cur_ok b' /\ b_start b' = last_reset [e] (b_start b).
Proof.
  unfold cur_ok. intros Hc H. destruct e as [t|t|t d|t]; cbn [bstep last_reset] in *.
  - inversion H; subst b'. split; [apply bo_new_ok | reflexivity].
  - inversion H; subst b'. split; [apply bo_new_ok | reflexivity].
  - destruct (jitter_ok (b_cur b) d); [|discriminate].
    unfold next_backoff in H. destruct (max_elapsed <? t - b_start b + d); [discriminate|].
    inversion H; subst b'; cbn [b_cur b_start]. split; [apply next_interval_ok; exact Hc | reflexivity].
  - unfold next_backoff in H. destruct (max_elapsed <? t - b_start b + (3 * b_cur b + 1) / 2); [|discriminate].
    inversion H; subst b'; cbn [b_cur b_start]. split; [apply next_interval_ok; exact Hc | reflexivity].
Qed.

Lemma last_reset_app l1 : forall l2 d, last_reset (l1 ++ l2) d = last_reset l2 (last_reset l1 d).
Proof.
  induction l1 as [|e r IH]; intros l2 d; cbn [app last_reset]; [reflexivity|].
  destruct e; apply IH.
Qed.

Lemma brun_inv l : forall b b', cur_ok b -> brun true b l = Some b' ->
  cur_ok b' /\ b_start b' = last_reset l (b_start b).
Proof.
  induction l as [|e r IH]; intros b b' Hc H; cbn [brun] in H.
  - inversion H; subst b'. split; [exact Hc | reflexivity].
  - destruct (bstep true b e) as [b1|] eqn:E; [|discriminate].
    destruct (bstep_inv b e b1 Hc E) as [Hc1 Hs1].
    destruct (IH b1 b' Hc1 H) as [Hc' Hs'].
    split; [exact Hc'|]. rewrite Hs', Hs1.
    change (e :: r) with ([e] ++ r). rewrite last_reset_app. reflexivity.
Qed.

(* giving up is accepted only when the budget is spent to within one (maximal, jittered) interval: "exhausted" *)
Lemma giveup_means_exhausted l b b' t :
  cur_ok b -> brun true b l = Some b' -> bstep true b' (BGiveUp t) <> None ->
  max_elapsed - (3 * max_interval + 1) / 2 < t - last_reset l (b_start b).
Proof.
  intros Hc Hr Hg. destruct (brun_inv l b b' Hc Hr) as [[Hp Hm] Hs].
  cbn [bstep] in Hg. unfold next_backoff in Hg.
  destruct (Z.ltb_spec max_elapsed (t - b_start b' + (3 * b_cur b' + 1) / 2)) as [Hlt|]; [|congruence].
  rewrite <- Hs.
  assert ((3 * b_cur b' + 1) / 2 <= (3 * max_interval + 1) / 2) by (apply Z.div_le_mono; lia).
  lia.
Qed.

(* the decision that directly follows a break retries, unless the adapter stalled for the whole budget in between *)
Lemma decision_after_break_retries b t t' d :
  jitter_ok init_interval d = true -> t' - t + d <= max_elapsed ->
  exists b', brun true b [BBreak t; BRetry t' d] = Some b'.
Proof.
  intros Hj Hle. cbn [brun bstep bo_new b_cur b_start]. rewrite Hj. unfold next_backoff. cbn [b_start bo_new].
  destruct (Z.ltb_spec max_elapsed (t' - t + d)); [lia|]. eexists; reflexivity.
Qed.

Lemma giveup_directly_after_break_needs_stall l1 l2 b t t' :
  cur_ok b -> baccepts true b (l1 ++ BBreak t :: BGiveUp t' :: l2) = true ->
  max_elapsed - (3 * init_interval + 1) / 2 < t' - t.
Proof.
  intros Hc Ha. apply baccepts_brun in Ha. destruct Ha as [bf Hf].
  rewrite brun_app in Hf. destruct (brun true b l1) as [b1|]; [|discriminate].
  cbn [brun bstep] in Hf. unfold next_backoff in Hf. cbn [bo_new b_start b_cur] in Hf.
  destruct (Z.ltb_spec max_elapsed (t' - t + (3 * init_interval + 1) / 2)) as [Hlt|]; [lia | discriminate].
Qed.

(* so: in an accepted trace, a give-up that comes sooner than that after the last break has a retry before it *)
Fixpoint has_retry (l : list bev) : bool :=
  match l with
  | [] => false
  | BRetry _ _ :: _ => true
  | _ :: r => has_retry r
  end.

Fixpoint no_reset (l : list bev) : bool :=
  match l with
  | [] => true
  | BBreak _ :: _ | BDelivered _ :: _ => false
  | _ :: r => no_reset r
  end.

Fixpoint nondecreasing_from (t0 : Z) (l : list bev) : bool :=
  match l with
  | [] => true
  | e :: r => (t0 <=? ev_time e) && nondecreasing_from (ev_time e) r
  end.

Lemma giveup_soon_after_break_has_retry mid : forall l1 l2 b t t',
  cur_ok b -> baccepts true b (l1 ++ BBreak t :: mid ++ BGiveUp t' :: l2) = true ->
  no_reset mid = true -> nondecreasing_from t (mid ++ [BGiveUp t']) = true ->
  t' - t <= max_elapsed - (3 * init_interval + 1) / 2 ->
  has_retry mid = true.
Proof.
  intros l1 l2 b t t' Hc Ha Hnr Hmono Hsoon.
  destruct mid as [|e mid'].
  - exfalso. cbn [app] in Ha. pose proof (giveup_directly_after_break_needs_stall l1 l2 b t t' Hc Ha). lia.
  - destruct e as [x|x|x d|x]; cbn [no_reset has_retry] in *; try discriminate; [reflexivity|].
    (* the first decision after the break is itself a give-up: it needs the same stall, and time does not go back *)
    exfalso.
    change (l1 ++ BBreak t :: (BGiveUp x :: mid') ++ BGiveUp t' :: l2)
      with (l1 ++ BBreak t :: BGiveUp x :: (mid' ++ BGiveUp t' :: l2)) in Ha.
    pose proof (giveup_directly_after_break_needs_stall l1 _ b t x Hc Ha) as Hst.
    assert (Hx : x <= t').
    { clear - Hmono. cbn [app nondecreasing_from ev_time] in Hmono.
      apply andb_prop in Hmono. destruct Hmono as [_ Hm].
      revert x Hm. induction mid' as [|e r IH]; intros x Hm; cbn [app nondecreasing_from ev_time] in Hm.
      - apply andb_prop in Hm. destruct Hm as [Hm _]. apply Z.leb_le in Hm. exact Hm.
      - apply andb_prop in Hm. destruct Hm as [H1 H2]. apply Z.leb_le in H1.
        specialize (IH _ H2). lia. }
    lia.
Qed.

(* the policy the code had before the repair: no reset when a stream breaks. A watch that has been healthy for 20
   minutes gives up at the very instant its stream breaks, without one attempt; the repaired policy rejects that
   trace *)
Definition old_witness : list bev := [BBreak (1200000 * ms); BGiveUp (1200000 * ms)].

Lemma old_policy_gives_up_without_retry :
  baccepts false (bo_new 0) old_witness = true /\ baccepts true (bo_new 0) old_witness = false.
Proof. split; vm_compute; reflexivity. Qed.

(* ... and the same after a re-established stream delivered nothing for 20 minutes *)
Definition old_witness_quiet : list bev :=
  [BBreak (10 * ms); BRetry (10 * ms) (500 * ms); BBreak (1200000 * ms); BGiveUp (1200000 * ms)].

Lemma old_policy_gives_up_after_quiet_stream :
  baccepts false (bo_new 0) old_witness_quiet = true /\ baccepts true (bo_new 0) old_witness_quiet = false.
Proof. split; vm_compute; reflexivity. Qed.

(* non-vacuity: the repaired policy does give up, after retrying for the whole budget *)
Fixpoint retries_every (n : nat) (t step d : Z) : list bev :=
  match n with O => [] | S m => BRetry t d :: retries_every m (t + step) step d end.

Example exhausted_after_retrying :
  baccepts true (bo_new 0)
    (BBreak (5000 * ms) :: BRetry (5000 * ms) (500 * ms) :: BRetry (5500 * ms) (750 * ms) :: BRetry (6250 * ms) (1125 * ms) ::
     BRetry (400000 * ms) (1700 * ms) :: BRetry (800000 * ms) (2600 * ms) :: BGiveUp (904000 * ms) :: []) = true.
Proof. vm_compute; reflexivity. Qed.
