(* Ring.v — the cyclic event history of one (namespace,type) collection and its watchers
   (pkg/state/impl/inmem/collection.go: publish, Watch, WatchAll, encodeBookmark/decodeBookmark).

   Positions are Z (int64 in the code; a decoded bookmark may be any 64-bit value, so negative
   positions are reachable inputs). Slots of the Go slice that were never written hold the zero
   Event; they are None here. *)
From Verif Require Export Store.
Open Scope Z_scope.

Record coll := mkColl {
  c_stream : list (option event);
  c_wpos : Z;
  c_cap : Z;
  c_maxcap : Z;
  c_gap : Z
}.

Definition coll_init (initcap maxcap gap : Z) : coll :=
  mkColl (repeat None (Z.to_nat initcap)) 0 initcap maxcap gap.

Fixpoint list_set {A} (n : nat) (x : A) (l : list A) : list A :=
  match l, n with
  | [], _ => []
  | _ :: l', O => x :: l'
  | y :: l', S n' => y :: list_set n' x l'
  end.

(* publish: grow on the first lap only, then write slot wpos % cap *)
Definition publish (ev : event) (c : coll) : coll :=
  let grow := Z.eqb (c_wpos c) (c_cap c) && Z.ltb (c_cap c) (c_maxcap c) in
  let cap' := if grow then Z.min (2 * c_cap c) (c_maxcap c) else c_cap c in
  let stream' := if grow then c_stream c ++ repeat None (Z.to_nat (cap' - c_cap c)) else c_stream c in
  mkColl (list_set (Z.to_nat (c_wpos c mod cap')) (Some ev) stream') (c_wpos c + 1) cap' (c_maxcap c) (c_gap c).

Definition ring_get (c : coll) (p : Z) : option event :=
  nth (Z.to_nat (p mod c_cap c)) (c_stream c) None.

(* the copy made by WatchAll under the lock:
   first < last ? stream[first:last] : stream[first:] ++ stream[:last] *)
Definition pending (c : coll) (pos : Z) : list (option event) :=
  let first := Z.to_nat (pos mod c_cap c) in
  let last := Z.to_nat (c_wpos c mod c_cap c) in
  if Nat.ltb first last then firstn (last - first) (skipn first (c_stream c))
  else skipn first (c_stream c) ++ firstn last (c_stream c).

(* ---- what a watcher goroutine does each time it holds the lock ------------------------- *)

Inductive fetched :=
| FBlocked                                  (* pos = writePos: wait on the condition variable *)
| FOverrun                                  (* writePos - pos > capacity: terminal Errored *)
| FEvents (evs : list (option event)) (newpos : Z).

(* WatchAll loop body *)
Definition fetch_all (c : coll) (pos : Z) : fetched :=
  if Z.eqb pos (c_wpos c) then FBlocked
  else if Z.gtb (c_wpos c - pos) (c_cap c) then FOverrun
  else FEvents (pending c pos) (c_wpos c).

Definition ev_id (e : option event) : option atom :=
  match e with Some ev => Some (r_id (ev_res ev)) | None => None end.

Definition opt_atom_eqb (a : option atom) (b : atom) : bool :=
  match a with Some x => N.eqb x b | None => false end.

(* Watch (single resource) loop body: scan forward to the next event of this id *)
Fixpoint scan_id (fuel : nat) (c : coll) (id : atom) (pos : Z) : option (option event) * Z :=
  match fuel with
  | O => (None, pos)
  | S f =>
      if Z.ltb pos (c_wpos c) then
        let e := ring_get c pos in
        if opt_atom_eqb (ev_id e) id then (Some e, pos + 1) else scan_id f c id (pos + 1)
      else (None, pos)
  end.

Definition fetch_one (c : coll) (id : atom) (pos : Z) : fetched :=
  if Z.eqb pos (c_wpos c) then FBlocked
  else if Z.gtb (c_wpos c - pos) (c_cap c) then FOverrun
  else
    let '(e, pos') := scan_id (Z.to_nat (c_wpos c - pos)) c id pos in
    match e with
    | Some ev => FEvents [ev] pos'
    | None => FEvents [] pos'
    end.

(* ---- bookmarks ---------------------------------------------------------------------- *)

Definition byte := N.
Definition two64z : Z := 18446744073709551616.
Definition two63z : Z := 9223372036854775808.

(* binary.BigEndian.AppendUint64(cookie, uint64(pos)) *)
Fixpoint be_bytes (n : nat) (v : Z) : list byte :=
  match n with
  | O => []
  | S n' => be_bytes n' (v / 256) ++ [Z.to_N (v mod 256)]
  end.

Fixpoint be_value (bs : list byte) (acc : Z) : Z :=
  match bs with
  | [] => acc
  | b :: bs' => be_value bs' (acc * 256 + Z.of_N b)
  end.

Definition encode_bookmark (cookie : list byte) (pos : Z) : list byte :=
  cookie ++ be_bytes 8 (pos mod two64z).

Fixpoint bytes_eqb (a b : list byte) : bool :=
  match a, b with
  | [], [] => true
  | x :: a', y :: b' => N.eqb x y && bytes_eqb a' b'
  | _, _ => false
  end.

(* decodeBookmark: length 16, cookie equal, then int64(uint64) *)
Definition decode_bookmark (cookie : list byte) (bm : list byte) : option Z :=
  if negb (Nat.eqb (length bm) 16) then None
  else if negb (bytes_eqb (firstn 8 bm) cookie) then None
  else let u := be_value (skipn 8 bm) 0 in
       Some (if Z.ltb u two63z then u else u - two64z).

(* ---- watch establishment (under the collection lock) ------------------------------------ *)

Inductive start_opt :=
| SDefault
| STail (n : Z)
| SBookmark (p : Z).           (* already decoded *)

(* WatchAll: start position or invalid-bookmark *)
Definition start_all (c : coll) (o : start_opt) : option Z :=
  match o with
  | SDefault => Some (c_wpos c)
  | STail n =>
      let n' := if Z.gtb n (c_cap c - c_gap c) then c_cap c - c_gap c else n in
      let p := c_wpos c - n' in
      Some (if Z.ltb p 0 then 0 else p)
  | SBookmark p =>
      if Z.ltb p (c_wpos c - c_cap c + c_gap c) || Z.ltb p (-1) || Z.geb p (c_wpos c) then None
      else Some (p + 1)
  end.

(* Watch (single resource) tail: walk back while pos > minPos and fewer than n events of this id were seen *)
Fixpoint tail_back (fuel : nat) (c : coll) (id : atom) (minpos : Z) (n found : Z) (pos : Z) : Z :=
  match fuel with
  | O => pos
  | S f =>
      if Z.gtb pos minpos && Z.ltb found n then
        let found' := if opt_atom_eqb (ev_id (ring_get c (pos - 1))) id then found + 1 else found in
        tail_back f c id minpos n found' (pos - 1)
      else pos
  end.

Definition start_one (c : coll) (id : atom) (o : start_opt) : option Z :=
  match o with
  | SDefault => Some (c_wpos c)
  | STail n =>
      let minpos := Z.max (c_wpos c - c_cap c + c_gap c) 0 in
      Some (tail_back (Z.to_nat (c_wpos c)) c id minpos n 0 (c_wpos c))
  | SBookmark p =>
      if Z.ltb p (c_wpos c - c_cap c + c_gap c) || Z.ltb p 0 || Z.geb p (c_wpos c) then None
      else Some (p + 1)
  end.
