(* RingProofs.v — the cyclic buffer refines an unbounded log; what a watcher copies out is an exact
   slice of that log.  For every configuration with 1 <= initcap <= maxcap and every write history,
   across capacity growth and any number of wrap-arounds. *)
From Verif Require Import Ring.
From Coq Require Import ZifyBool ZifyNat.
Open Scope Z_scope.

(* ---- list plumbing ------------------------------------------------------------------ *)

Lemma list_set_length {A} n (x : A) l : length (list_set n x l) = length l.
Proof. revert n; induction l as [|y l IH]; intros [|n]; simpl; auto. Qed.

Lemma list_set_nth {A} n (x : A) l i d :
  nth i (list_set n x l) d = if (Nat.eqb i n && Nat.ltb n (length l))%bool then x else nth i l d.
Proof.
  revert n i; induction l as [|y l IH]; intros n i.
  - simpl. destruct i, n; simpl; try reflexivity; rewrite ?andb_false_r; reflexivity.
  - destruct n as [|n], i as [|i]; simpl; try reflexivity.
    rewrite IH. destruct (Nat.eqb i n); simpl; [|reflexivity].
    destruct (Nat.ltb_spec n (length l)); destruct (Nat.ltb_spec (S n) (S (length l))); try reflexivity; lia.
Qed.

Lemma nth_skipn {A} (l : list A) a i d : nth i (skipn a l) d = nth (a + i) l d.
Proof.
  revert l; induction a as [|a IH]; intros l; simpl; [reflexivity|].
  destruct l as [|y l]; simpl; [destruct i; reflexivity | apply IH].
Qed.

Lemma nth_firstn {A} (l : list A) b i d : (i < b)%nat -> nth i (firstn b l) d = nth i l d.
Proof.
  revert l i; induction b as [|b IH]; intros l i H; [lia|].
  destruct l as [|y l]; simpl; [destruct i; reflexivity|].
  destruct i as [|i]; simpl; [reflexivity | apply IH; lia].
Qed.

(* ---- modular arithmetic used by the ring ---------------------------------------------- *)

Lemma mod_add_small cap pos i :
  0 < cap -> 0 <= i <= cap ->
  (pos + i) mod cap = if (pos mod cap + i <? cap) then pos mod cap + i else pos mod cap + i - cap.
Proof.
  intros Hc Hi. pose proof (Z.mod_pos_bound pos cap Hc) as Hf.
  rewrite <- Zplus_mod_idemp_l.
  destruct (Z.ltb_spec (pos mod cap + i) cap) as [L|L].
  - apply Z.mod_small. lia.
  - transitivity ((pos mod cap + i - cap + 1 * cap) mod cap); [f_equal; lia|].
    rewrite Z_mod_plus_full. apply Z.mod_small. lia.
Qed.

Lemma mod_distinct cap p d : 0 < cap -> 0 < d < cap -> (p + d) mod cap <> p mod cap.
Proof.
  intros Hc Hd Heq.
  assert (H : ((p + d) - p) mod cap = 0).
  { rewrite Zminus_mod, Heq, Z.sub_diag. apply Z.mod_0_l. lia. }
  replace (p + d - p) with d in H by lia. rewrite Z.mod_small in H by lia. lia.
Qed.

(* ---- the refinement invariant ----------------------------------------------------------- *)

Definition log_at (log : list event) (p : Z) : option event := nth_error log (Z.to_nat p).

Record RInv (initcap : Z) (c : coll) (log : list event) : Prop := mkRInv {
  ri_cap : 1 <= c_cap c <= c_maxcap c;
  ri_init : initcap <= c_cap c;
  ri_wpos : c_wpos c = Z.of_nat (length log);
  ri_len : Z.of_nat (length (c_stream c)) = c_cap c;
  ri_live : forall p, Z.max 0 (c_wpos c - c_cap c) <= p < c_wpos c -> ring_get c p = log_at log p
}.

Definition wf_cfg (initcap maxcap gap : Z) : Prop := 1 <= initcap <= maxcap /\ 0 <= gap < initcap.

Lemma RInv_init initcap maxcap gap :
  1 <= initcap <= maxcap -> RInv initcap (coll_init initcap maxcap gap) [].
Proof.
  intros H. constructor; simpl; try lia.
  rewrite repeat_length. lia.
Qed.

Lemma log_at_app_old log ev p : 0 <= p < Z.of_nat (length log) -> log_at (log ++ [ev]) p = log_at log p.
Proof. intros H. unfold log_at. apply nth_error_app1. lia. Qed.

Lemma log_at_app_new log ev : log_at (log ++ [ev]) (Z.of_nat (length log)) = Some ev.
Proof.
  unfold log_at. rewrite Nat2Z.id. rewrite nth_error_app2 by lia. rewrite Nat.sub_diag. reflexivity.
Qed.

Theorem publish_refines initcap c log ev :
  RInv initcap c log -> RInv initcap (publish ev c) (log ++ [ev]).
Proof.
  intros [Hcap Hinit Hw Hlen Hlive].
  unfold publish.
  remember ((c_wpos c =? c_cap c) && (c_cap c <? c_maxcap c))%bool as grow eqn:Hg.
  set (cap' := if grow then Z.min (2 * c_cap c) (c_maxcap c) else c_cap c).
  set (stream' := if grow then c_stream c ++ repeat None (Z.to_nat (cap' - c_cap c)) else c_stream c).
  assert (Hcap' : c_cap c <= cap' <= c_maxcap c) by (unfold cap'; destruct grow; lia).
  assert (Hlen' : Z.of_nat (length stream') = cap').
  { unfold stream'. destruct grow; [|exact Hlen]. rewrite app_length, repeat_length. lia. }
  assert (Hslot : 0 <= c_wpos c mod cap' < cap') by (apply Z.mod_pos_bound; lia).
  assert (Hold : forall i, (i < length (c_stream c))%nat -> nth i stream' None = nth i (c_stream c) None).
  { intros i Hi. unfold stream'. destruct grow; [|reflexivity]. apply app_nth1. exact Hi. }
  constructor; cbn [c_cap c_maxcap c_wpos c_stream].
  - lia.
  - lia.
  - rewrite app_length. simpl. lia.
  - rewrite list_set_length. exact Hlen'.
  - intros p Hp. unfold ring_get. cbn [c_cap c_stream]. rewrite list_set_nth.
    assert (Hlt : (Z.to_nat (c_wpos c mod cap') <? length stream')%nat = true) by lia.
    rewrite Hlt, andb_true_r.
    destruct (Z.eq_dec p (c_wpos c)) as [->|Hne].
    + rewrite Nat.eqb_refl. rewrite Hw. symmetry. apply log_at_app_new.
    + assert (Hp' : 0 <= p < c_wpos c) by lia.
      rewrite log_at_app_old by lia.
      destruct grow eqn:G.
      * (* first lap: every live position is below the old capacity, indices unchanged *)
        assert (Hwc : c_wpos c = c_cap c) by lia.
        assert (Hpm : p mod cap' = p) by (apply Z.mod_small; lia).
        assert (Hwm : c_wpos c mod cap' = c_wpos c) by (apply Z.mod_small; lia).
        rewrite Hpm, Hwm.
        destruct (Nat.eqb_spec (Z.to_nat p) (Z.to_nat (c_wpos c))) as [E|E]; [lia|].
        rewrite Hold by lia. rewrite <- (Hlive p) by lia. unfold ring_get.
        rewrite Z.mod_small by lia. reflexivity.
      * (* steady state: the overwritten slot is the one that just left the window *)
        assert (Hc' : cap' = c_cap c) by (unfold cap'; reflexivity).
        assert (Hs' : stream' = c_stream c) by (unfold stream'; reflexivity).
        rewrite Hc', Hs' in *.
        destruct (Nat.eqb_spec (Z.to_nat (p mod c_cap c)) (Z.to_nat (c_wpos c mod c_cap c))) as [E|E].
        -- exfalso. assert (Hpb : 0 <= p mod c_cap c < c_cap c) by (apply Z.mod_pos_bound; lia).
           assert (E' : p mod c_cap c = c_wpos c mod c_cap c) by lia.
           apply (mod_distinct (c_cap c) p (c_wpos c - p)); [lia | lia|].
           replace (p + (c_wpos c - p)) with (c_wpos c) by lia. congruence.
        -- apply Hlive. lia.
Qed.

(* every reachable ring: any write history *)
Fixpoint publish_all (evs : list event) (c : coll) : coll :=
  match evs with [] => c | e :: evs' => publish_all evs' (publish e c) end.

Theorem ring_refines_log initcap maxcap gap evs :
  1 <= initcap <= maxcap ->
  RInv initcap (publish_all evs (coll_init initcap maxcap gap)) evs.
Proof.
  intros H.
  assert (G : forall evs c log, RInv initcap c log -> RInv initcap (publish_all evs c) (log ++ evs)).
  { induction evs0 as [|e evs0 IH]; intros c log HI; simpl; [rewrite app_nil_r; exact HI|].
    replace (log ++ e :: evs0) with ((log ++ [e]) ++ evs0) by (rewrite <- app_assoc; reflexivity).
    apply IH. apply publish_refines. exact HI. }
  apply (G evs _ []). apply RInv_init. exact H.
Qed.

(* ---- what a watcher copies out ------------------------------------------------------------ *)

Fixpoint zrange (a : Z) (n : nat) : list Z :=
  match n with O => [] | S n' => a :: zrange (a + 1) n' end.

Lemma zrange_length a n : length (zrange a n) = n.
Proof. revert a; induction n; intros; simpl; auto. Qed.

Lemma zrange_nth a n i d : (i < n)%nat -> nth i (zrange a n) d = a + Z.of_nat i.
Proof.
  revert a i; induction n as [|n IH]; intros a i H; [lia|].
  destruct i as [|i]; simpl; [lia|]. rewrite IH by lia. lia.
Qed.

(* the two-slice copy is exactly the ring read position by position *)
Lemma pending_spec c pos :
  0 < c_cap c -> Z.of_nat (length (c_stream c)) = c_cap c ->
  0 <= pos -> 0 < c_wpos c - pos <= c_cap c ->
  pending c pos = map (ring_get c) (zrange pos (Z.to_nat (c_wpos c - pos))).
Proof.
  intros Hc Hlen Hpos Hn.
  set (n := c_wpos c - pos) in *.
  pose proof (Z.mod_pos_bound pos (c_cap c) Hc) as Hf.
  assert (Hl : c_wpos c mod c_cap c =
               if (pos mod c_cap c + n <? c_cap c) then pos mod c_cap c + n else pos mod c_cap c + n - c_cap c).
  { replace (c_wpos c) with (pos + n) by (unfold n; lia). apply mod_add_small; lia. }
  apply (nth_ext _ _ None None).
  - rewrite map_length, zrange_length. unfold pending.
    destruct (Nat.ltb_spec (Z.to_nat (pos mod c_cap c)) (Z.to_nat (c_wpos c mod c_cap c))) as [L|L].
    + rewrite firstn_length, skipn_length.
      destruct (Z.ltb_spec (pos mod c_cap c + n) (c_cap c)); lia.
    + rewrite app_length, firstn_length, skipn_length.
      destruct (Z.ltb_spec (pos mod c_cap c + n) (c_cap c)); lia.
  - intros i Hi.
    assert (Hin : (i < Z.to_nat n)%nat).
    { revert Hi. unfold pending.
      destruct (Nat.ltb_spec (Z.to_nat (pos mod c_cap c)) (Z.to_nat (c_wpos c mod c_cap c))) as [L|L].
      - rewrite firstn_length, skipn_length. destruct (Z.ltb_spec (pos mod c_cap c + n) (c_cap c)); lia.
      - rewrite app_length, firstn_length, skipn_length. destruct (Z.ltb_spec (pos mod c_cap c + n) (c_cap c)); lia. }
    rewrite (nth_indep (map (ring_get c) (zrange pos (Z.to_nat n))) None (ring_get c 0))
      by (rewrite map_length, zrange_length; exact Hin).
    rewrite map_nth. rewrite zrange_nth by exact Hin.
    unfold ring_get at 1. rewrite (mod_add_small (c_cap c) pos (Z.of_nat i)) by lia.
    unfold pending.
    destruct (Nat.ltb_spec (Z.to_nat (pos mod c_cap c)) (Z.to_nat (c_wpos c mod c_cap c))) as [L|L].
    + assert (Hlt : pos mod c_cap c + n < c_cap c) by (destruct (Z.ltb_spec (pos mod c_cap c + n) (c_cap c)); lia).
      rewrite nth_firstn by (destruct (Z.ltb_spec (pos mod c_cap c + n) (c_cap c)); lia).
      rewrite nth_skipn. f_equal.
      destruct (Z.ltb_spec (pos mod c_cap c + Z.of_nat i) (c_cap c)); lia.
    + assert (Hge : c_cap c <= pos mod c_cap c + n) by (destruct (Z.ltb_spec (pos mod c_cap c + n) (c_cap c)); lia).
      destruct (Z.ltb_spec (pos mod c_cap c + n) (c_cap c)) as [X|_]; [lia|].
      destruct (Nat.ltb_spec i (length (skipn (Z.to_nat (pos mod c_cap c)) (c_stream c)))) as [A|A].
      * rewrite app_nth1 by exact A. rewrite nth_skipn. rewrite skipn_length in A. f_equal.
        destruct (Z.ltb_spec (pos mod c_cap c + Z.of_nat i) (c_cap c)); lia.
      * rewrite app_nth2 by exact A. rewrite skipn_length in *.
        rewrite nth_firstn by lia. f_equal.
        destruct (Z.ltb_spec (pos mod c_cap c + Z.of_nat i) (c_cap c)); lia.
Qed.

(* exact slice of the log *)
Definition log_slice (log : list event) (a b : Z) : list (option event) :=
  map (log_at log) (zrange a (Z.to_nat (b - a))).

Theorem fetch_all_exact initcap c log pos :
  RInv initcap c log -> 0 <= pos <= c_wpos c ->
  match fetch_all c pos with
  | FBlocked => pos = c_wpos c
  | FOverrun => c_wpos c - pos > c_cap c
  | FEvents evs newpos => newpos = c_wpos c /\ pos < c_wpos c /\ c_wpos c - pos <= c_cap c /\
                          evs = log_slice log pos (c_wpos c)
  end.
Proof.
  intros [Hcap Hinit Hw Hlen Hlive] Hpos. unfold fetch_all.
  destruct (Z.eqb_spec pos (c_wpos c)) as [E|E]; [exact E|].
  destruct (Z.gtb_spec (c_wpos c - pos) (c_cap c)) as [G|G]; [lia|].
  repeat split; try lia.
  rewrite pending_spec by lia. unfold log_slice.
  apply map_ext_in. intros p Hp.
  apply In_nth with (d := 0) in Hp. destruct Hp as [i [Hi Hp]]. rewrite zrange_length in Hi.
  rewrite zrange_nth in Hp by exact Hi. subst p. apply Hlive. lia.
Qed.

(* a watcher that never lags by more than the configured initial capacity is never errored *)
Theorem no_error_within_initcap initcap c log pos :
  RInv initcap c log -> c_wpos c - pos <= initcap -> fetch_all c pos <> FOverrun.
Proof.
  intros [Hcap Hinit _ _ _] Hlag. unfold fetch_all.
  destruct (Z.eqb_spec pos (c_wpos c)); [discriminate|].
  destruct (Z.gtb_spec (c_wpos c - pos) (c_cap c)); [lia | discriminate].
Qed.
