(* Store.v — executable sequential model of the resource store
   (pkg/state/impl/inmem/collection.go Create/Update/Destroy/Get/List, inmem/errors.go,
   pkg/state/errors.go predicates, namespaced.go routing).

   Identifiers (namespace, type, id, owner, finalizer, payload) are opaque atoms (N); the harness
   maps strings to atoms injectively with the empty string = 0.  Versions are option N
   (None = "undefined"); Next wraps at 2^64 as the uint64 in the code does. *)
From Coq Require Export List ZArith NArith Bool Lia.
Export ListNotations.
Open Scope N_scope.

Notation atom := N (only parsing).
Definition key := (atom * atom * atom)%type.      (* namespace, type, id *)

Record res := mkRes {
  r_ns : atom; r_typ : atom; r_id : atom;
  r_ver : option N;
  r_owner : atom;                 (* 0 = no owner *)
  r_phase : bool;                 (* false = running, true = tearing down *)
  r_fins : list atom;
  r_labels : list (atom * atom);  (* carried through unchanged by the store *)
  r_created : Z;
  r_updated : Z;
  r_spec : atom
}.

Definition r_key (r : res) : key := (r_ns r, r_typ r, r_id r).

Definition key_eqb (a b : key) : bool :=
  let '(a1, a2, a3) := a in let '(b1, b2, b3) := b in
  N.eqb a1 b1 && N.eqb a2 b2 && N.eqb a3 b3.

Arguments key_eqb : simpl never.

Definition ver_eqb (a b : option N) : bool :=
  match a, b with
  | None, None => true
  | Some x, Some y => N.eqb x y
  | _, _ => false
  end.

Definition two64 : N := 18446744073709551616.
(* Version.Next: SafeDeref(v)+1 on a uint64 *)
Definition ver_next (v : option N) : option N :=
  Some ((match v with Some x => x | None => 0 end + 1) mod two64).

(* ---- the store: an association list from keys to resources ------------------------- *)

Definition store := list res.

Fixpoint st_get (k : key) (s : store) : option res :=
  match s with
  | [] => None
  | r :: s' => if key_eqb (r_key r) k then Some r else st_get k s'
  end.

Fixpoint st_del (k : key) (s : store) : store :=
  match s with
  | [] => []
  | r :: s' => if key_eqb (r_key r) k then st_del k s' else r :: st_del k s'
  end.

Definition st_put (r : res) (s : store) : store := r :: st_del (r_key r) s.
Arguments st_put : simpl never.
Arguments r_key : simpl never.

(* ---- errors ------------------------------------------------------------------------- *)

Inductive err :=
| ENotFound
| EConflict (ns typ : atom)        (* already exists / version conflict / pending finalizers *)
| EOwnerConflict (ns typ : atom)
| EPhaseConflict (ns typ : atom)
| EOther.                          (* unclassified (e.g. "owner is already set") *)

(* the four predicates of pkg/state/errors.go; qualifiers 0 = not given *)
Definition is_not_found (e : err) : bool := match e with ENotFound => true | _ => false end.
Definition qual_ok (ns typ qns qtyp : atom) : bool :=
  (N.eqb qns 0 || N.eqb qns ns) && (N.eqb qtyp 0 || N.eqb qtyp typ).
Definition is_conflict (e : err) (qns qtyp : atom) : bool :=
  match e with
  | EConflict ns typ | EOwnerConflict ns typ | EPhaseConflict ns typ => qual_ok ns typ qns qtyp
  | _ => false
  end.
Definition is_owner_conflict (e : err) : bool := match e with EOwnerConflict _ _ => true | _ => false end.
Definition is_phase_conflict (e : err) : bool := match e with EPhaseConflict _ _ => true | _ => false end.

(* ---- events published by successful writes --------------------------------------------- *)

Inductive event :=
| EvCreated (r : res)
| EvUpdated (r old : res)
| EvDestroyed (r : res).

Definition ev_res (e : event) : res :=
  match e with EvCreated r | EvUpdated r _ | EvDestroyed r => r end.

(* ---- operations ------------------------------------------------------------------------ *)

Inductive op :=
| OpCreate (r : res) (owner : atom)
| OpUpdate (r : res) (owner : atom) (expected_phase : option bool)
| OpDestroy (k : key) (owner : atom)
| OpGet (k : key)
| OpList (ns typ : atom).

Inductive result :=
| RErr (e : err)
| ROk                         (* Destroy *)
| RWritten (r : res)          (* Create/Update: metadata written back into the caller's object *)
| RGot (r : res)
| RList (rs : list res).

(* sort.Slice by ID (ids are atoms; the harness assigns atoms in string order) *)
Fixpoint ins_by_id (r : res) (l : list res) : list res :=
  match l with
  | [] => [r]
  | x :: l' => if N.leb (r_id r) (r_id x) then r :: x :: l' else x :: ins_by_id r l'
  end.
Definition sort_by_id (l : list res) : list res := fold_right ins_by_id [] l.

Definition st_list (ns typ : atom) (s : store) : list res :=
  sort_by_id (filter (fun r => N.eqb (r_ns r) ns && N.eqb (r_typ r) typ) s).

(* Metadata.SetOwner: only if unset or equal *)
Definition set_owner (r : res) (owner : atom) : option res :=
  if N.eqb (r_owner r) 0 || N.eqb (r_owner r) owner
  then Some (mkRes (r_ns r) (r_typ r) (r_id r) (r_ver r) owner (r_phase r) (r_fins r) (r_labels r)
                   (r_created r) (r_updated r) (r_spec r))
  else None.

Definition with_ver_times (r : res) (v : option N) (created updated : Z) : res :=
  mkRes (r_ns r) (r_typ r) (r_id r) v (r_owner r) (r_phase r) (r_fins r) (r_labels r) created updated (r_spec r).

(* one operation at (virtual) time now: new store, result, published event *)
Definition apply (now : Z) (o : op) (s : store) : store * result * option event :=
  match o with
  | OpCreate r owner =>
      match set_owner r owner with
      | None => (s, RErr EOther, None)
      | Some r1 =>
          match st_get (r_key r1) s with
          | Some _ => (s, RErr (EConflict (r_ns r1) (r_typ r1)), None)
          | None =>
              let r2 := with_ver_times r1 (Some 1) now (r_updated r1) in
              (st_put r2 s, RWritten r2, Some (EvCreated r2))
          end
      end
  | OpUpdate r owner exp =>
      match st_get (r_key r) s with
      | None => (s, RErr ENotFound, None)
      | Some cur =>
          if negb (N.eqb (r_owner cur) owner) then (s, RErr (EOwnerConflict (r_ns cur) (r_typ cur)), None)
          else if negb (ver_eqb (r_ver cur) (r_ver r)) then (s, RErr (EConflict (r_ns cur) (r_typ cur)), None)
          else if (match exp with Some p => negb (Bool.eqb (r_phase cur) p) | None => false end)
               then (s, RErr (EPhaseConflict (r_ns cur) (r_typ cur)), None)
          else
            let r2 := with_ver_times r (ver_next (r_ver r)) (r_created cur) now in
            (st_put r2 s, RWritten r2, Some (EvUpdated r2 cur))
      end
  | OpDestroy k owner =>
      match st_get k s with
      | None => (s, RErr ENotFound, None)
      | Some cur =>
          if negb (N.eqb (r_owner cur) owner) then (s, RErr (EOwnerConflict (r_ns cur) (r_typ cur)), None)
          else match r_fins cur with
               | _ :: _ => (s, RErr (EConflict (r_ns cur) (r_typ cur)), None)
               | [] => (st_del k s, ROk, Some (EvDestroyed cur))
               end
      end
  | OpGet k =>
      match st_get k s with
      | None => (s, RErr ENotFound, None)
      | Some cur => (s, RGot cur, None)
      end
  | OpList ns typ => (s, RList (st_list ns typ s), None)
  end.

Arguments apply : simpl never.

Definition apply_st (now : Z) (o : op) (s : store) : store := fst (fst (apply now o s)).
Definition apply_res (now : Z) (o : op) (s : store) : result := snd (fst (apply now o s)).
Definition apply_ev (now : Z) (o : op) (s : store) : option event := snd (apply now o s).
