(* StoreCheck.v — correspondence checkers for the store model: sequential differential and a
   linearizability-witness search for recorded concurrent histories. *)
From Verif Require Import Store.
Open Scope N_scope.

Inductive sobs :=
| ObErr (cls : bool * bool * bool * list bool)   (* not_found, owner, phase, conflict under 6 qualifier combinations *)
| ObOk
| ObFaulted (cls : bool * bool * bool * list bool)   (* the backing store rejected the write of this call *)
| ObWritten (ver : option N) (owner : atom) (updated created : Z)
| ObGot (r : res)
| ObList (rs : list res).

Definition zz : atom := 134664404598784.  (* atom "zz" = 0x7a7a00000000 *)

Definition err_cls (e : err) (ns typ : atom) : bool * bool * bool * list bool :=
  (is_not_found e, is_owner_conflict e, is_phase_conflict e,
   [is_conflict e 0 0; is_conflict e ns 0; is_conflict e zz 0; is_conflict e 0 typ; is_conflict e 0 zz; is_conflict e ns typ]).

Definition op_ns_typ (o : op) : atom * atom :=
  match o with
  | OpCreate r _ | OpUpdate r _ _ => (r_ns r, r_typ r)
  | OpDestroy (ns, typ, _) _ | OpGet (ns, typ, _) => (ns, typ)
  | OpList ns typ => (ns, typ)
  end.

Fixpoint list_eqb {A} (eqb : A -> A -> bool) (a b : list A) : bool :=
  match a, b with
  | [], [] => true
  | x :: a', y :: b' => eqb x y && list_eqb eqb a' b'
  | _, _ => false
  end.

Definition pair_eqb (a b : atom * atom) : bool := N.eqb (fst a) (fst b) && N.eqb (snd a) (snd b).

Definition res_eqb (a b : res) : bool :=
  N.eqb (r_ns a) (r_ns b) && N.eqb (r_typ a) (r_typ b) && N.eqb (r_id a) (r_id b) &&
  ver_eqb (r_ver a) (r_ver b) && N.eqb (r_owner a) (r_owner b) && Bool.eqb (r_phase a) (r_phase b) &&
  list_eqb N.eqb (r_fins a) (r_fins b) && list_eqb pair_eqb (r_labels a) (r_labels b) &&
  Z.eqb (r_created a) (r_created b) && Z.eqb (r_updated a) (r_updated b) && N.eqb (r_spec a) (r_spec b).

Definition cls_eqb (a b : bool * bool * bool * list bool) : bool :=
  let '(a1, a2, a3, a4) := a in let '(b1, b2, b3, b4) := b in
  Bool.eqb a1 b1 && Bool.eqb a2 b2 && Bool.eqb a3 b3 && list_eqb Bool.eqb a4 b4.

(* full = direct handle (whole metadata written back); otherwise version/owner/updated only *)
Definition obs_match (full : bool) (o : op) (r : result) (ob : sobs) : bool :=
  match r, ob with
  | RErr e, ObErr c => let '(ns, typ) := op_ns_typ o in cls_eqb (err_cls e ns typ) c
  | ROk, ObOk => true
  | RWritten w, ObWritten v ow up cr =>
      ver_eqb (r_ver w) v && N.eqb (r_owner w) ow && Z.eqb (r_updated w) up &&
      (negb full || Z.eqb (r_created w) cr)
  | RGot x, ObGot y => res_eqb x y
  | RList xs, ObList ys => list_eqb res_eqb xs ys
  | _, _ => false
  end.

Definition would_write (r : result) : bool := match r with RWritten _ | ROk => true | _ => false end.

Fixpoint seq_check_from (full : bool) (s : store) (c : list (Z * op * sobs)) : bool :=
  match c with
  | [] => true
  | (now, o, ob) :: c' =>
      let '(s', r, _) := apply now o s in
      match ob with
      | ObFaulted cls =>
          (* every precondition held, the store refused: unclassified error, nothing changes *)
          would_write r && cls_eqb (false, false, false, [false; false; false; false; false; false]) cls &&
          seq_check_from full s c'
      | _ => obs_match full o r ob && seq_check_from full s' c'
      end
  end.

Fixpoint mism_from {A} (chk : A -> bool) (i : N) (cs : list A) : list N :=
  match cs with
  | [] => []
  | c :: cs' => if chk c then mism_from chk (N.succ i) cs' else i :: mism_from chk (N.succ i) cs'
  end.

Definition seq_mismatches (cs : list (bool * list (Z * op * sobs))) : list N :=
  mism_from (fun c => seq_check_from (fst c) [] (snd c)) 0 cs.

(* concurrent histories: wall-clock fields are not compared (the clock may advance while a call waits) *)
Definition strip (r : res) : res :=
  mkRes (r_ns r) (r_typ r) (r_id r) (r_ver r) (r_owner r) (r_phase r) (r_fins r) (r_labels r) 0 0 (r_spec r).

Definition obs_match_nt (o : op) (r : result) (ob : sobs) : bool :=
  match r, ob with
  | RErr e, ObErr c => let '(ns, typ) := op_ns_typ o in cls_eqb (err_cls e ns typ) c
  | ROk, ObOk => true
  | RWritten w, ObWritten v ow _ _ => ver_eqb (r_ver w) v && N.eqb (r_owner w) ow
  | RGot x, ObGot y => res_eqb (strip x) (strip y)
  | RList xs, ObList ys => list_eqb res_eqb (map strip xs) (map strip ys)
  | _, _ => false
  end.

(* ---- linearizability witness search -------------------------------------------------- *)

Definition hop := (N * N * op * sobs)%type.     (* invocation stamp, response stamp, op, observation *)
Definition h_inv (h : hop) : N := fst (fst (fst h)).
Definition h_res (h : hop) : N := snd (fst (fst h)).
Definition h_op (h : hop) : op := snd (fst h).
Definition h_obs (h : hop) : sobs := snd h.

(* h may be linearized next iff no other remaining operation responded before h was invoked *)
Definition minimal (h : hop) (rem : list hop) : bool :=
  forallb (fun h' => negb (N.ltb (h_res h') (h_inv h))) rem.

Fixpoint remove_stamp (i : N) (rem : list hop) : list hop :=
  match rem with
  | [] => []
  | h :: rem' => if N.eqb (h_inv h) i then rem' else h :: remove_stamp i rem'
  end.

(* all recorded concurrent operations run at virtual time 0 *)
Fixpoint lin_search (fuel : nat) (full : bool) (s : store) (rem : list hop) : bool :=
  match rem with
  | [] => true
  | _ =>
      match fuel with
      | O => false
      | S f =>
          (* `if` rather than && : vm_compute is call-by-value, the search must prune *)
          (fix try (cands : list hop) : bool :=
             match cands with
             | [] => false
             | h :: cands' =>
                 if (if minimal h rem then
                       let '(s', r, _) := apply 0%Z (h_op h) s in
                       if obs_match_nt (h_op h) r (h_obs h)
                       then lin_search f full s' (remove_stamp (h_inv h) rem) else false
                     else false)
                 then true else try cands'
             end) rem
      end
  end.

Definition conc_mismatches (cs : list (bool * list hop)) : list N :=
  mism_from (fun c => lin_search (length (snd c)) (fst c) [] (snd c)) 0 cs.
