(* StoreProofs.v — the sequential resource-store specification facts, for all states and inputs. *)
From Verif Require Import Store.
Open Scope N_scope.

Lemma key_eqb_spec a b : reflect (a = b) (key_eqb a b).
Proof.
  destruct a as [[a1 a2] a3], b as [[b1 b2] b3]. unfold key_eqb.
  destruct (N.eqb_spec a1 b1); destruct (N.eqb_spec a2 b2); destruct (N.eqb_spec a3 b3);
    simpl; constructor; congruence.
Qed.

Lemma key_eqb_refl k : key_eqb k k = true.
Proof. destruct (key_eqb_spec k k); congruence. Qed.

Lemma st_get_key k s r : st_get k s = Some r -> r_key r = k.
Proof.
  induction s as [|x s IH]; simpl; [discriminate|].
  destruct (key_eqb_spec (r_key x) k) as [E|E].
  - intros H. assert (x = r) by congruence. subst x. exact E.
  - exact IH.
Qed.

Lemma st_get_del k k' s : st_get k' (st_del k s) = if key_eqb k' k then None else st_get k' s.
Proof.
  induction s as [|x s IH]; simpl; [destruct (key_eqb k' k); reflexivity|].
  destruct (key_eqb_spec (r_key x) k) as [E|E].
  - rewrite IH. destruct (key_eqb_spec k' k) as [E'|E']; [reflexivity|].
    destruct (key_eqb_spec (r_key x) k'); [congruence | reflexivity].
  - simpl. destruct (key_eqb_spec (r_key x) k') as [E''|E''].
    + destruct (key_eqb_spec k' k); [congruence | reflexivity].
    + exact IH.
Qed.

Lemma st_get_put r k s : st_get k (st_put r s) = if key_eqb k (r_key r) then Some r else st_get k s.
Proof.
  unfold st_put. simpl. rewrite st_get_del.
  destruct (key_eqb_spec (r_key r) k) as [E|E]; destruct (key_eqb_spec k (r_key r)) as [E'|E']; congruence.
Qed.

Lemma st_get_put' w k s :
  (if key_eqb (r_key w) k then Some w else st_get k (st_del (r_key w) s)) =
  if key_eqb k (r_key w) then Some w else st_get k s.
Proof. exact (st_get_put w k s). Qed.

Lemma ver_eqb_spec a b : reflect (a = b) (ver_eqb a b).
Proof.
  destruct a as [x|], b as [y|]; simpl; try (constructor; congruence).
  destruct (N.eqb_spec x y); constructor; congruence.
Qed.

Lemma set_owner_spec r owner :
  match set_owner r owner with
  | Some r1 => (r_owner r = 0 \/ r_owner r = owner) /\ r_owner r1 = owner /\ r_key r1 = r_key r /\
               r_ver r1 = r_ver r /\ r_phase r1 = r_phase r /\ r_fins r1 = r_fins r /\ r_labels r1 = r_labels r /\
               r_spec r1 = r_spec r /\ r_created r1 = r_created r /\ r_updated r1 = r_updated r
  | None => r_owner r <> 0 /\ r_owner r <> owner
  end.
Proof.
  unfold set_owner. destruct (N.eqb_spec (r_owner r) 0) as [E|E]; simpl.
  - repeat split; auto.
  - destruct (N.eqb_spec (r_owner r) owner) as [E'|E']; simpl; [repeat split; auto | split; assumption].
Qed.

(* ---- Create ------------------------------------------------------------------------ *)

Theorem create_succeeds_iff now r owner s :
  (exists w, apply_res now (OpCreate r owner) s = RWritten w) <->
  (st_get (r_key r) s = None /\ (r_owner r = 0 \/ r_owner r = owner)).
Proof.
  unfold apply_res, apply. pose proof (set_owner_spec r owner) as Hso.
  destruct (set_owner r owner) as [r1|]; simpl.
  - destruct Hso as [Ho [_ [Hk _]]]. rewrite Hk.
    destruct (st_get (r_key r) s); simpl; split.
    + intros [w H]; discriminate.
    + intros [H _]; discriminate.
    + intros _. tauto.
    + intros _. eexists; reflexivity.
  - split; [intros [w H]; discriminate | intros [_ [H|H]]; tauto].
Qed.

Theorem create_effect now r owner s w :
  apply_res now (OpCreate r owner) s = RWritten w ->
  r_ver w = Some 1 /\ r_owner w = owner /\ r_created w = now /\ r_key w = r_key r /\
  r_phase w = r_phase r /\ r_fins w = r_fins r /\ r_labels w = r_labels r /\ r_spec w = r_spec r /\
  apply_ev now (OpCreate r owner) s = Some (EvCreated w) /\
  forall k, st_get k (apply_st now (OpCreate r owner) s) = if key_eqb k (r_key r) then Some w else st_get k s.
Proof.
  unfold apply_res, apply_ev, apply_st, apply. pose proof (set_owner_spec r owner) as Hso.
  destruct (set_owner r owner) as [r1|]; simpl; [|discriminate].
  destruct Hso as [_ [Ho [Hk [Hv [Hp [Hf [Hl [Hs _]]]]]]]].
  destruct (st_get (r_key r1) s); simpl; [discriminate|].
  intros H; inversion H; subst w; clear H.
  split; [reflexivity|]. split; [exact Ho|]. split; [reflexivity|]. split; [exact Hk|].
  split; [exact Hp|]. split; [exact Hf|]. split; [exact Hl|]. split; [exact Hs|]. split; [reflexivity|].
  intros k. pose proof (st_get_put (with_ver_times r1 (Some 1) now (r_updated r1)) k s) as P.
  unfold st_put in P. cbn [st_get] in P. rewrite P.
  change (r_key (with_ver_times r1 (Some 1) now (r_updated r1))) with (r_key r1). rewrite Hk. reflexivity.
Qed.

(* ---- Update ------------------------------------------------------------------------ *)

Definition phase_ok (exp : option bool) (p : bool) : Prop := exp = None \/ exp = Some p.

Lemma phase_ok_dec exp p :
  (match exp with Some q => negb (Bool.eqb p q) | None => false end) = false <-> phase_ok exp p.
Proof.
  unfold phase_ok. destruct exp as [q|]; [|tauto].
  destruct p, q; simpl; split; intros H; try tauto; try discriminate;
    destruct H as [H|H]; discriminate.
Qed.

Theorem update_outcome now r owner exp s :
  match st_get (r_key r) s with
  | None => apply now (OpUpdate r owner exp) s = (s, RErr ENotFound, None)
  | Some cur =>
      if negb (N.eqb (r_owner cur) owner) then apply now (OpUpdate r owner exp) s = (s, RErr (EOwnerConflict (r_ns cur) (r_typ cur)), None)
      else if negb (ver_eqb (r_ver cur) (r_ver r)) then apply now (OpUpdate r owner exp) s = (s, RErr (EConflict (r_ns cur) (r_typ cur)), None)
      else if (match exp with Some p => negb (Bool.eqb (r_phase cur) p) | None => false end)
           then apply now (OpUpdate r owner exp) s = (s, RErr (EPhaseConflict (r_ns cur) (r_typ cur)), None)
      else exists w, apply now (OpUpdate r owner exp) s = (st_put w s, RWritten w, Some (EvUpdated w cur)) /\
                     w = with_ver_times r (ver_next (r_ver r)) (r_created cur) now
  end.
Proof.
  unfold apply. destruct (st_get (r_key r) s) as [cur|]; [|reflexivity].
  destruct (negb (N.eqb (r_owner cur) owner)); [reflexivity|].
  destruct (negb (ver_eqb (r_ver cur) (r_ver r))); [reflexivity|].
  destruct (match exp with Some p => negb (Bool.eqb (r_phase cur) p) | None => false end); [reflexivity|].
  eexists; split; reflexivity.
Qed.

Theorem update_succeeds_iff now r owner exp s :
  (exists w, apply_res now (OpUpdate r owner exp) s = RWritten w) <->
  (exists cur, st_get (r_key r) s = Some cur /\ r_owner cur = owner /\ r_ver cur = r_ver r /\ phase_ok exp (r_phase cur)).
Proof.
  pose proof (update_outcome now r owner exp s) as H. unfold apply_res.
  destruct (st_get (r_key r) s) as [cur|].
  - destruct (N.eqb_spec (r_owner cur) owner) as [Eo|Eo]; simpl in H.
    + destruct (ver_eqb_spec (r_ver cur) (r_ver r)) as [Ev|Ev]; simpl in H.
      * destruct (match exp with Some p => negb (Bool.eqb (r_phase cur) p) | None => false end) eqn:Ep.
        -- rewrite H; simpl. split; [intros [w Hw]; discriminate|].
           intros [c [Hc [_ [_ Hp]]]]. inversion Hc; subst c. apply phase_ok_dec in Hp. congruence.
        -- destruct H as [w [H _]]. rewrite H; simpl. split; [|intros _; eexists; reflexivity].
           intros _. exists cur. repeat split; auto. apply phase_ok_dec. exact Ep.
      * rewrite H; simpl. split; [intros [w Hw]; discriminate|].
        intros [c [Hc [_ [Hv _]]]]. inversion Hc; subst c. contradiction.
    + rewrite H; simpl. split; [intros [w Hw]; discriminate|].
      intros [c [Hc [Ho _]]]. inversion Hc; subst c. contradiction.
  - rewrite H; simpl. split; [intros [w Hw]; discriminate | intros [c [Hc _]]; discriminate].
Qed.

Theorem update_effect now r owner exp s w :
  apply_res now (OpUpdate r owner exp) s = RWritten w ->
  exists cur, st_get (r_key r) s = Some cur /\
    r_ver w = ver_next (r_ver cur) /\ r_created w = r_created cur /\ r_updated w = now /\ r_key w = r_key r /\
    r_owner w = r_owner r /\ r_phase w = r_phase r /\ r_fins w = r_fins r /\ r_labels w = r_labels r /\ r_spec w = r_spec r /\
    apply_ev now (OpUpdate r owner exp) s = Some (EvUpdated w cur) /\
    forall k, st_get k (apply_st now (OpUpdate r owner exp) s) = if key_eqb k (r_key r) then Some w else st_get k s.
Proof.
  pose proof (update_outcome now r owner exp s) as H. unfold apply_res, apply_ev, apply_st.
  destruct (st_get (r_key r) s) as [cur|]; [|rewrite H; simpl; discriminate].
  destruct (negb (N.eqb (r_owner cur) owner)); [rewrite H; simpl; discriminate|].
  destruct (ver_eqb_spec (r_ver cur) (r_ver r)) as [Ev|Ev]; simpl in H; [|rewrite H; simpl; discriminate].
  destruct (match exp with Some p => negb (Bool.eqb (r_phase cur) p) | None => false end); [rewrite H; simpl; discriminate|].
  destruct H as [w' [H Hw']]. rewrite H; simpl. intros E; inversion E; subst w'; clear E.
  exists cur. split; [reflexivity|]. subst w.
  split; [simpl; rewrite Ev; reflexivity|]. repeat (split; [reflexivity|]).
  intros k. pose proof (st_get_put (with_ver_times r (ver_next (r_ver r)) (r_created cur) now) k s) as P.
  unfold st_put in P. cbn [st_get] in P. rewrite P. reflexivity.
Qed.

(* ---- Destroy ----------------------------------------------------------------------- *)

Theorem destroy_succeeds_iff now k owner s :
  apply_res now (OpDestroy k owner) s = ROk <->
  (exists cur, st_get k s = Some cur /\ r_owner cur = owner /\ r_fins cur = []).
Proof.
  unfold apply_res, apply. destruct (st_get k s) as [cur|]; simpl.
  - destruct (N.eqb_spec (r_owner cur) owner) as [Eo|Eo]; simpl.
    + destruct (r_fins cur) eqn:Ef; simpl.
      * split; [intros _; exists cur; auto | reflexivity].
      * split; [discriminate|]. intros [c [Hc [_ Hf]]]. inversion Hc; subst c. congruence.
    + split; [discriminate|]. intros [c [Hc [Ho _]]]. inversion Hc; subst c. contradiction.
  - split; [discriminate | intros [c [Hc _]]; discriminate].
Qed.

Theorem destroy_effect now k owner s :
  apply_res now (OpDestroy k owner) s = ROk ->
  exists cur, st_get k s = Some cur /\ apply_ev now (OpDestroy k owner) s = Some (EvDestroyed cur) /\
  forall k', st_get k' (apply_st now (OpDestroy k owner) s) = if key_eqb k' k then None else st_get k' s.
Proof.
  unfold apply_res, apply_ev, apply_st, apply. destruct (st_get k s) as [cur|]; simpl; [|discriminate].
  destruct (negb (N.eqb (r_owner cur) owner)); simpl; [discriminate|].
  destruct (r_fins cur); simpl; [|discriminate]. intros _. exists cur. repeat split.
  intros k'. apply st_get_del.
Qed.

(* a resource holding a finalizer is never removed by any operation *)
Theorem never_removed_with_finalizer now o s k cur :
  st_get k s = Some cur -> r_fins cur <> [] -> st_get k (apply_st now o s) <> None.
Proof.
  intros Hc Hf. unfold apply_st, apply. destruct o as [r owner|r owner exp|k' owner|k'|ns typ]; simpl.
  - destruct (set_owner r owner) as [r1|]; simpl; [|congruence].
    destruct (st_get (r_key r1) s); simpl; [congruence|].
    rewrite st_get_put'. destruct (key_eqb k _); congruence.
  - destruct (st_get (r_key r) s) as [c|]; simpl; [|congruence].
    destruct (negb (N.eqb (r_owner c) owner)); simpl; [congruence|].
    destruct (negb (ver_eqb (r_ver c) (r_ver r))); simpl; [congruence|].
    destruct (match exp with Some p => negb (Bool.eqb (r_phase c) p) | None => false end); simpl; [congruence|].
    rewrite st_get_put'. destruct (key_eqb k _); congruence.
  - destruct (st_get k' s) as [c|] eqn:Ec; simpl; [|congruence].
    destruct (negb (N.eqb (r_owner c) owner)); simpl; [congruence|].
    destruct (r_fins c) eqn:Efc; simpl; [|congruence].
    rewrite st_get_del. destruct (key_eqb_spec k k') as [E|E]; [|congruence].
    subst k'. rewrite Hc in Ec. inversion Ec; subst c. contradiction.
  - destruct (st_get k' s); simpl; congruence.
  - congruence.
Qed.

(* ---- failures and reads -------------------------------------------------------------- *)

Theorem failed_unchanged now o s e :
  apply_res now o s = RErr e -> apply_st now o s = s /\ apply_ev now o s = None.
Proof.
  unfold apply_res, apply_st, apply_ev, apply. destruct o as [r owner|r owner exp|k owner|k|ns typ]; simpl.
  - destruct (set_owner r owner) as [r1|]; simpl; [|auto].
    destruct (st_get (r_key r1) s); simpl; [auto | discriminate].
  - destruct (st_get (r_key r) s) as [cur|]; simpl; [|auto].
    destruct (negb (N.eqb (r_owner cur) owner)); simpl; [auto|].
    destruct (negb (ver_eqb (r_ver cur) (r_ver r))); simpl; [auto|].
    destruct (match exp with Some p => negb (Bool.eqb (r_phase cur) p) | None => false end); simpl; [auto | discriminate].
  - destruct (st_get k s) as [cur|]; simpl; [|auto].
    destruct (negb (N.eqb (r_owner cur) owner)); simpl; [auto|].
    destruct (r_fins cur); simpl; [discriminate | auto].
  - destruct (st_get k s); simpl; auto.
  - discriminate.
Qed.

Theorem reads_pure now s :
  (forall k, apply now (OpGet k) s =
             (s, match st_get k s with Some cur => RGot cur | None => RErr ENotFound end, None)) /\
  (forall ns typ, apply now (OpList ns typ) s = (s, RList (st_list ns typ s), None)).
Proof.
  split; [|reflexivity]. intros k. unfold apply. destruct (st_get k s); reflexivity.
Qed.

(* ---- classification ---------------------------------------------------------------- *)

Definition op_target (o : op) : atom * atom :=
  match o with
  | OpCreate r _ | OpUpdate r _ _ => (r_ns r, r_typ r)
  | OpDestroy (ns, typ, _) _ | OpGet (ns, typ, _) => (ns, typ)
  | OpList ns typ => (ns, typ)
  end.

(* every error produced is unclassified (all predicates false), not-found, or a conflict that names the
   operation's own namespace/type: the qualified predicates agree with the unqualified one exactly on
   matching qualifiers; owner/phase conflicts are conflicts *)
Theorem errors_classified now o s e :
  apply_res now o s = RErr e ->
  let '(ns, typ) := op_target o in
  (e = EOther \/ e = ENotFound \/ e = EConflict ns typ \/ e = EOwnerConflict ns typ \/ e = EPhaseConflict ns typ).
Proof.
  unfold apply_res, apply. destruct o as [r owner|r owner exp|k owner|k|ns typ]; simpl.
  - pose proof (set_owner_spec r owner) as Hso. destruct (set_owner r owner) as [r1|]; simpl.
    + destruct Hso as [_ [_ [Hk _]]]. unfold r_key in Hk. inversion Hk as [[H1 H2 H3]].
      destruct (st_get (r_key r1) s); simpl; [|discriminate].
      intros H; inversion H; subst. rewrite H1, H2. tauto.
    + intros H; inversion H; tauto.
  - destruct (st_get (r_key r) s) as [cur|] eqn:Ec; simpl; [|intros H; inversion H; tauto].
    apply st_get_key in Ec. unfold r_key in Ec. inversion Ec as [[H1 H2 H3]].
    destruct (negb (N.eqb (r_owner cur) owner)); simpl; [intros H; inversion H; tauto|].
    destruct (negb (ver_eqb (r_ver cur) (r_ver r))); simpl; [intros H; inversion H; tauto|].
    destruct (match exp with Some p => negb (Bool.eqb (r_phase cur) p) | None => false end); simpl;
      [intros H; inversion H; tauto | discriminate].
  - destruct k as [[kn kt] ki]. destruct (st_get (kn, kt, ki) s) as [cur|] eqn:Ec; simpl; [|intros H; inversion H; tauto].
    apply st_get_key in Ec. unfold r_key in Ec. inversion Ec as [[H1 H2 H3]].
    destruct (negb (N.eqb (r_owner cur) owner)); simpl; [intros H; inversion H; tauto|].
    destruct (r_fins cur); simpl; [discriminate | intros H; inversion H; tauto].
  - destruct k as [[kn kt] ki]. destruct (st_get (kn, kt, ki) s); simpl; [discriminate | intros H; inversion H; tauto].
  - discriminate.
Qed.

Theorem predicates_consistent e qns qtyp :
  (is_owner_conflict e = true -> is_conflict e 0 0 = true) /\
  (is_phase_conflict e = true -> is_conflict e 0 0 = true) /\
  (is_conflict e qns qtyp = true -> is_conflict e 0 0 = true) /\
  (is_not_found e = true -> is_conflict e qns qtyp = false) /\
  (forall ns typ, (e = EConflict ns typ \/ e = EOwnerConflict ns typ \/ e = EPhaseConflict ns typ) ->
     is_conflict e qns qtyp = true <-> ((qns = 0 \/ qns = ns) /\ (qtyp = 0 \/ qtyp = typ))).
Proof.
  split; [destruct e; simpl; intros; try discriminate; reflexivity|].
  split; [destruct e; simpl; intros; try discriminate; reflexivity|].
  split; [destruct e; simpl; intros; try discriminate; reflexivity|].
  split; [destruct e; simpl; intros; try discriminate; reflexivity|].
  intros ns typ He.
  assert (Hq : is_conflict e qns qtyp = qual_ok ns typ qns qtyp) by (destruct He as [He|[He|He]]; subst e; reflexivity).
  rewrite Hq. unfold qual_ok. rewrite andb_true_iff, !orb_true_iff, !N.eqb_eq. tauto.
Qed.
