(* TailOne.v — the tail of a single-resource watch (collection.go Watch with WithTailEvents): walking back from the head
   while fewer than n events of this id were seen and the window allows, the watch starts at a position from which
   exactly the last min(n, available) events of this id will be replayed. *)
From Verif Require Import Ring RingProofs.
From Coq Require Import Lia ZifyBool ZifyNat.
Open Scope Z_scope.

Section Tail.
  Variable c : coll.
  Variable id : atom.

  Definition hit (p : Z) : Z := if opt_atom_eqb (ev_id (ring_get c p)) id then 1 else 0.

  (* events of this id among the k positions below pos *)
  Fixpoint cntdown (k : nat) (pos : Z) : Z :=
    match k with
    | O => 0
    | S k' => hit (pos - 1) + cntdown k' (pos - 1)
    end.

  Lemma hit_range p : 0 <= hit p <= 1.
  Proof. unfold hit. destruct (opt_atom_eqb _ _); lia. Qed.

  Lemma cntdown_nonneg k : forall pos, 0 <= cntdown k pos.
  Proof. induction k as [|k IH]; intros pos; simpl; [lia|]. pose proof (hit_range (pos - 1)). pose proof (IH (pos - 1)). lia. Qed.

  Lemma tail_back_spec minpos n : forall fuel found pos,
    (Z.to_nat (pos - minpos) <= fuel)%nat -> 0 <= found <= n ->
    let p := tail_back fuel c id minpos n found pos in
    p <= pos /\ (minpos <= pos -> minpos <= p) /\
    found + cntdown (Z.to_nat (pos - p)) pos = Z.min n (found + cntdown (Z.to_nat (pos - minpos)) pos) /\
    (* tight: either the window is exhausted, or n events were counted and the walk stopped on one (or never moved) *)
    ((p = minpos \/ pos <= minpos) \/ (found + cntdown (Z.to_nat (pos - p)) pos = n /\ (p = pos \/ hit p = 1))).
  Proof.
    induction fuel as [|f IH]; intros found pos Hf Hn; cbn [tail_back].
    - assert (pos <= minpos) by lia. replace (Z.to_nat (pos - pos)) with 0%nat by lia.
      replace (Z.to_nat (pos - minpos)) with 0%nat by lia. simpl. repeat split; try lia; try (left; right; lia); try (right; split; [lia | left; reflexivity]).
    - destruct (Z.gtb_spec pos minpos) as [Hgt|Hle]; cbn [andb].
      2:{ replace (Z.to_nat (pos - pos)) with 0%nat by lia. replace (Z.to_nat (pos - minpos)) with 0%nat by lia. simpl.
          repeat split; try lia; try (left; right; lia); try (right; split; [lia | left; reflexivity]). }
      destruct (Z.ltb_spec found n) as [Hlt|Hge].
      2:{ replace (Z.to_nat (pos - pos)) with 0%nat by lia. simpl.
          pose proof (cntdown_nonneg (Z.to_nat (pos - minpos)) pos). repeat split; try lia; try (left; right; lia); try (right; split; [lia | left; reflexivity]). }
      fold (hit (pos - 1)). pose proof (hit_range (pos - 1)) as Hh.
      replace (if opt_atom_eqb (ev_id (ring_get c (pos - 1))) id then found + 1 else found) with (found + hit (pos - 1))
        by (unfold hit; destruct (opt_atom_eqb _ _); lia).
      specialize (IH (found + hit (pos - 1)) (pos - 1) ltac:(lia) ltac:(lia)).
      cbv zeta in IH. set (p := tail_back f c id minpos n (found + hit (pos - 1)) (pos - 1)) in *.
      destruct IH as [I1 [I2 [I3 I4]]]. specialize (I2 ltac:(lia)).
      assert (E1 : Z.to_nat (pos - p) = S (Z.to_nat (pos - 1 - p))) by lia.
      assert (E2 : Z.to_nat (pos - minpos) = S (Z.to_nat (pos - 1 - minpos))) by lia.
      rewrite E1, E2. cbn [cntdown]. repeat split; try lia.
      destruct I4 as [[E|E]|[E [H1|H1]]].
      + left. left. exact E.
      + left. left. lia.
      + right. split; [lia|]. right. rewrite H1 in *.
        replace (Z.to_nat (pos - 1 - (pos - 1))) with 0%nat in E by lia. cbn [cntdown] in E. lia.
      + right. split; [lia|]. right. exact H1.
  Qed.
End Tail.

(* the single-resource tail start: within the window (never older than capacity - gap, so everything replayed is still
   live and equals the log), exactly the last min(n, available) events of this id lie at or after the start, and unless
   the window was exhausted the start IS the n-th last event of this id *)
Theorem single_tail_exact initcap c log id n pos :
  RInv initcap c log -> 0 <= c_gap c < c_cap c -> 0 < n ->
  start_one c id (STail n) = Some pos ->
  let minpos := Z.max (c_wpos c - c_cap c + c_gap c) 0 in
  minpos <= pos <= c_wpos c /\
  cntdown c id (Z.to_nat (c_wpos c - pos)) (c_wpos c) =
    Z.min n (cntdown c id (Z.to_nat (c_wpos c - minpos)) (c_wpos c)) /\
  (pos = minpos \/ hit c id pos = 1) /\
  (forall q, pos <= q < c_wpos c -> ring_get c q = log_at log q).
Proof.
  intros HR Hg Hn Hs minpos. cbn [start_one] in Hs. injection Hs as Hs. fold minpos in Hs.
  pose proof (ri_wpos _ _ _ HR) as Hw. pose proof (ri_cap _ _ _ HR) as Hc.
  assert (Hw0 : 0 <= c_wpos c) by lia.
  assert (Hm : 0 <= minpos <= c_wpos c) by (unfold minpos; lia).
  pose proof (tail_back_spec c id minpos n (Z.to_nat (c_wpos c)) 0 (c_wpos c) ltac:(lia) ltac:(lia)) as T.
  cbv zeta in T. rewrite Hs in T. destruct T as [T1 [T2 [T3 T4]]]. specialize (T2 ltac:(lia)).
  split; [lia|]. split; [lia|]. split.
  - destruct T4 as [[E|E]|[E [H1|H1]]]; [left; exact E | left; lia | | right; exact H1].
    (* p = wpos with n events counted: impossible, nothing was counted and n > 0 *)
    exfalso. rewrite H1 in E. replace (Z.to_nat (c_wpos c - c_wpos c)) with 0%nat in E by lia. cbn [cntdown] in E. lia.
  - intros q Hq. apply (ri_live _ _ _ HR). unfold minpos in *. lia.
Qed.

Example single_tail_example :
  let ev i := EvCreated (mkRes 1 1 i (Some 1%N) 0 false [] [] 0 0 0)%N in
  let c := publish_all [ev 5%N; ev 7%N; ev 5%N; ev 7%N; ev 7%N; ev 5%N] (coll_init 8 8 1) in
  start_one c 5%N (STail 2) = Some 2 /\ start_one c 7%N (STail 2) = Some 3 /\ start_one c 9%N (STail 2) = Some 0 /\
  start_one c 5%N (STail 10) = Some 0.
Proof. vm_compute. repeat split. Qed.
