(* Text.v — text forms of versions and phases (pkg/resource/version.go, phase.go). Strings are byte lists. *)
From Coq Require Export List NArith ZArith Bool Lia.
Export ListNotations.
Open Scope N_scope.

Definition two64 : N := 18446744073709551616.

(* strconv.FormatUint(v, 10) *)
Fixpoint digits (fuel : nat) (n : N) (acc : list N) : list N :=
  match fuel with
  | O => acc
  | S f =>
      let acc' := (48 + n mod 10) :: acc in
      if N.eqb (n / 10) 0 then acc' else digits f (n / 10) acc'
  end.
Definition fmt_uint (n : N) : list N := digits 20 n [].

Definition undefined_str : list N := [117; 110; 100; 101; 102; 105; 110; 101; 100].   (* "undefined" *)

Fixpoint bytes_eqb (a b : list N) : bool :=
  match a, b with
  | [], [] => true
  | x :: a', y :: b' => N.eqb x y && bytes_eqb a' b'
  | _, _ => false
  end.

(* Version.String *)
Definition ver_string (v : option N) : list N :=
  match v with None => undefined_str | Some n => fmt_uint n end.

(* the digit loop of strconv.ParseUint(s, 10, 64): decimal digits only (no sign, no underscore, no space) *)
Fixpoint parse_acc (a : N) (s : list N) : option N :=
  match s with
  | [] => Some a
  | c :: s' => if N.leb 48 c && N.leb c 57 then parse_acc (a * 10 + (c - 48)) s' else None
  end.

(* strconv.ParseUint(s, 10, 64): empty string is a syntax error, values above 2^64-1 a range error *)
Definition parse_uint64 (s : list N) : option N :=
  match s with
  | [] => None
  | _ => match parse_acc 0 s with
         | Some n => if N.ltb n two64 then Some n else None
         | None => None
         end
  end.

(* resource.ParseVersion *)
Definition parse_version (s : list N) : option (option N) :=
  if bytes_eqb s undefined_str then Some None
  else match parse_uint64 s with Some n => Some (Some n) | None => None end.

(* the pre-fix behaviour (strconv.ParseInt + conversion to uint64), kept for the record of finding F5 *)
Definition parse_int64_as_uint (s : list N) : option N :=
  let '(neg, body) := match s with
                      | 43 :: t => (false, t)
                      | 45 :: t => (true, t)
                      | _ => (false, s)
                      end in
  match body with
  | [] => None
  | _ => match parse_acc 0 body with
         | Some n =>
             if neg then (if N.leb n 9223372036854775808 then Some ((two64 - n) mod two64) else None)
             else (if N.ltb n 9223372036854775808 then Some n else None)
         | None => None
         end
  end.
Definition parse_version_old (s : list N) : option (option N) :=
  if bytes_eqb s undefined_str then Some None
  else match parse_int64_as_uint s with Some n => Some (Some n) | None => None end.

(* phases *)
Definition phase_string (p : bool) : list N :=
  if p then [116; 101; 97; 114; 105; 110; 103; 68; 111; 119; 110]   (* "tearingDown" *)
  else [114; 117; 110; 110; 105; 110; 103].                          (* "running" *)
Definition parse_phase (s : list N) : option bool :=
  if bytes_eqb s (phase_string false) then Some false
  else if bytes_eqb s (phase_string true) then Some true else None.
