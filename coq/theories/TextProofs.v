(* TextProofs.v — round trips of the text forms, for every value. *)
From Verif Require Import Text.
From Coq Require Import ZifyN ZifyBool.
Open Scope N_scope.
Ltac dm n := pose proof (N.mod_lt n 10 ltac:(discriminate)); pose proof (N.div_mod n 10 ltac:(discriminate)).

(* parsing the digits of n in front of acc continues from accumulator n *)
Lemma parse_digits f : forall n acc,
  n < 10 ^ N.of_nat f ->
  parse_acc 0 (digits f n acc) = parse_acc n acc.
Proof.
  induction f as [|f IH]; intros n acc Hn.
  - simpl in Hn. assert (n = 0) by lia. subst. reflexivity.
  - cbn [digits].
    assert (Hd : N.leb 48 (48 + n mod 10) && N.leb (48 + n mod 10) 57 = true).
    { dm n. lia. }
    destruct (N.eqb_spec (n / 10) 0) as [E|E].
    + cbn [parse_acc]. rewrite Hd. f_equal. dm n. lia.
    + rewrite IH.
      * cbn [parse_acc]. rewrite Hd. f_equal. dm n. lia.
      * rewrite Nat2N.inj_succ, N.pow_succ_r' in Hn.
        apply N.div_lt_upper_bound; lia.
Qed.

Lemma digits_nonempty f n acc : (0 < f)%nat -> digits f n acc <> [].
Proof.
  revert n acc. induction f as [|f IH]; intros n acc Hf; [lia|]. cbn [digits].
  destruct (N.eqb (n / 10) 0); [discriminate|].
  destruct f; [cbn; discriminate|]. apply IH. lia.
Qed.

Lemma digits_head_digit f : forall n acc c rest,
  digits f n acc = c :: rest -> (0 < f)%nat -> 48 <= c <= 57.
Proof.
  induction f as [|f IH]; intros n acc c rest H Hf; [lia|]. cbn [digits] in H.
  destruct (N.eqb (n / 10) 0).
  - assert (Hc : c = 48 + n mod 10) by (inversion H; reflexivity). dm n. lia.
  - destruct f as [|f'].
    + cbn [digits] in H. assert (Hc : c = 48 + n mod 10) by (inversion H; reflexivity). dm n. lia.
    + eapply IH; [exact H | lia].
Qed.

Theorem uint_roundtrip n : n < two64 -> parse_uint64 (fmt_uint n) = Some n.
Proof.
  intros Hn. unfold parse_uint64, fmt_uint.
  destruct (digits 20 n []) as [|c rest] eqn:E; [exfalso; eapply digits_nonempty; [|exact E]; lia|].
  rewrite <- E, parse_digits.
  - cbn [parse_acc]. destruct (N.ltb_spec n two64); [reflexivity | lia].
  - unfold two64 in Hn. cbn. lia.
Qed.

Lemma fmt_not_undefined n : bytes_eqb (fmt_uint n) undefined_str = false.
Proof.
  unfold fmt_uint. destruct (digits 20 n []) as [|c rest] eqn:E; [reflexivity|].
  pose proof (digits_head_digit _ _ _ _ _ E ltac:(lia)) as Hc.
  unfold undefined_str. cbn [bytes_eqb]. destruct (N.eqb_spec c 117); [lia | reflexivity].
Qed.

(* every version survives its text form *)
Theorem version_roundtrip v :
  (match v with Some n => n < two64 | None => True end) ->
  parse_version (ver_string v) = Some v.
Proof.
  destruct v as [n|]; intros H; unfold parse_version, ver_string.
  - rewrite fmt_not_undefined, uint_roundtrip by exact H. reflexivity.
  - reflexivity.
Qed.

(* the decoder is total and never yields a value outside uint64 *)
Theorem parse_version_range s n : parse_version s = Some (Some n) -> n < two64.
Proof.
  unfold parse_version, parse_uint64. destruct (bytes_eqb s undefined_str); [discriminate|].
  destruct s; [discriminate|]. destruct (parse_acc 0 (n0 :: s)) as [m|]; [|discriminate].
  destruct (N.ltb_spec m two64) as [L|L]; [|discriminate]. intros E; inversion E; subst. assumption.
Qed.

(* finding F5 (fixed in /repo): with ParseInt + conversion the largest half of the versions did not parse back,
   and "-5" was accepted as version 2^64-5 *)
Theorem version_roundtrip_old_refuted :
  parse_version_old (ver_string (Some 9223372036854775808)) = None /\
  parse_version_old [45; 53] = Some (Some 18446744073709551611).
Proof. split; vm_compute; reflexivity. Qed.

Theorem phase_roundtrip p : parse_phase (phase_string p) = Some p.
Proof. destruct p; reflexivity. Qed.

Example version_examples :
  ver_string (Some 18446744073709551615) = [49;56;52;52;54;55;52;52;48;55;51;55;48;57;53;53;49;54;49;53] /\
  parse_version [48; 48; 55] = Some (Some 7) /\ parse_version [] = None /\ parse_version [49; 95; 48] = None /\
  parse_version [49;56;52;52;54;55;52;52;48;55;51;55;48;57;53;53;49;54;49;54] = None.
Proof. repeat split; vm_compute; reflexivity. Qed.
