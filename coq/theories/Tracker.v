(* Tracker.v — rruntime's output tracker (output_tracker.go CleanupOutputs): after StartTrackingOutputs the controller
   touches what it still wants; CleanupOutputs then lists a kind and destroys every resource that the controller owns
   and has not touched, stopping at the first destroy the store refuses. Whatever the store holds, whatever was touched:
   nothing the controller does not own is removed, nothing touched is removed, nothing of another kind changes. *)
From Verif Require Import Store StoreProofs.
Open Scope N_scope.

Local Opaque st_put st_del.

Definition in_kind (ns typ : atom) (r : res) : bool := N.eqb (r_ns r) ns && N.eqb (r_typ r) typ.

Definition doomed (name ns typ : atom) (touched : list atom) (r : res) : bool :=
  in_kind ns typ r && N.eqb (r_owner r) name && negb (existsb (N.eqb (r_id r)) touched).

(* the destroy loop over the listed items; a resource still holding finalizers stops it with an error *)
Fixpoint cleanup_items (name ns typ : atom) (touched : list atom) (items : list res) (s : store) : store * bool :=
  match items with
  | [] => (s, true)
  | r :: rest =>
      if doomed name ns typ touched r then
        match st_get (r_key r) s with
        | Some cur =>
            match r_fins cur with
            | [] => cleanup_items name ns typ touched rest (st_del (r_key r) s)
            | _ :: _ => (s, false)
            end
        | None => (s, false)
        end
      else cleanup_items name ns typ touched rest s
  end.

Definition cleanup (name ns typ : atom) (touched : list atom) (s : store) : store * bool :=
  cleanup_items name ns typ touched (st_list ns typ s) s.

(* confinement: whatever list of items is walked, a key whose content differs afterwards was a doomed item that is now
   gone; everything else is untouched *)
Lemma cleanup_items_confined name ns typ touched items : forall s s' ok k,
  cleanup_items name ns typ touched items s = (s', ok) ->
  st_get k s' = st_get k s \/
  (st_get k s' = None /\ exists r, In r items /\ r_key r = k /\ doomed name ns typ touched r = true).
Proof.
  induction items as [|r rest IH]; intros s s' ok k H; cbn [cleanup_items] in H.
  - injection H as <- _. left; reflexivity.
  - destruct (doomed name ns typ touched r) eqn:Ed.
    + destruct (st_get (r_key r) s) as [cur|] eqn:Eg; [|injection H as <- _; left; reflexivity].
      destruct (r_fins cur); [|injection H as <- _; left; reflexivity].
      destruct (IH _ _ _ k H) as [E|[E [x [Hin [Hk Hd]]]]].
      * rewrite st_get_del in E. destruct (key_eqb_spec k (r_key r)) as [Ek|Ek].
        -- right. split; [exact E|]. exists r. split; [left; reflexivity|]. split; [symmetry; exact Ek | exact Ed].
        -- left. exact E.
      * right. split; [exact E|]. exists x. split; [right; exact Hin|]. split; assumption.
    + destruct (IH _ _ _ k H) as [E|[E [x [Hin [Hk Hd]]]]]; [left; exact E|].
      right. split; [exact E|]. exists x. split; [right; exact Hin|]. split; assumption.
Qed.

Lemma in_ins_by_id r y l : In r (ins_by_id y l) -> r = y \/ In r l.
Proof.
  induction l as [|z l IH]; cbn [ins_by_id]; intros H.
  - destruct H as [->|[]]; left; reflexivity.
  - destruct (N.leb (r_id y) (r_id z)).
    + destruct H as [->|H]; [left; reflexivity | right; exact H].
    + destruct H as [->|H]; [right; left; reflexivity|]. destruct (IH H) as [->|H']; [left; reflexivity | right; right; exact H'].
Qed.

Lemma in_st_list r ns typ s : In r (st_list ns typ s) -> In r s /\ in_kind ns typ r = true.
Proof.
  unfold st_list, sort_by_id. intros H.
  assert (G : In r (filter (fun r0 => N.eqb (r_ns r0) ns && N.eqb (r_typ r0) typ) s)).
  { induction (filter (fun r0 => N.eqb (r_ns r0) ns && N.eqb (r_typ r0) typ) s) as [|x l IH]; [exact H|].
    cbn [fold_right] in H. destruct (in_ins_by_id _ _ _ H) as [->|H']; [left; reflexivity | right; apply IH; exact H']. }
  apply filter_In in G. exact G.
Qed.

(* every key whose content differs after CleanupOutputs is now absent, and the store held under that key a resource of
   the cleaned kind, owned by this controller and not touched since StartTrackingOutputs *)
Theorem cleanup_confined name ns typ touched s s' ok k :
  cleanup name ns typ touched s = (s', ok) ->
  st_get k s' = st_get k s \/
  (st_get k s' = None /\ exists r, In r s /\ r_key r = k /\ r_ns r = ns /\ r_typ r = typ /\ r_owner r = name /\
                                    existsb (N.eqb (r_id r)) touched = false).
Proof.
  intros H. destruct (cleanup_items_confined _ _ _ _ _ _ _ _ k H) as [E|[E [r [Hin [Hk Hd]]]]]; [left; exact E|].
  right. split; [exact E|]. exists r. destruct (in_st_list _ _ _ _ Hin) as [Hs _].
  unfold doomed, in_kind in Hd.
  apply andb_prop in Hd. destruct Hd as [Hd Ht]. apply andb_prop in Hd. destruct Hd as [Hd Ho].
  apply andb_prop in Hd. destruct Hd as [Hn Hy].
  repeat split; try assumption; try (apply N.eqb_eq; assumption).
  apply Bool.negb_true_iff. exact Ht.
Qed.

(* resources of another owner, of nobody, touched ones and other kinds are still there, unchanged *)
Corollary cleanup_spares name ns typ touched s s' ok r :
  cleanup name ns typ touched s = (s', ok) ->
  (forall x, In x s -> r_key x = r_key r -> x = r) ->          (* the store holds one resource per key *)
  st_get (r_key r) s = Some r ->
  (r_owner r <> name \/ existsb (N.eqb (r_id r)) touched = true \/ in_kind ns typ r = false) ->
  st_get (r_key r) s' = Some r.
Proof.
  intros H Huniq Hg Hsp. destruct (cleanup_confined _ _ _ _ _ _ _ (r_key r) H) as [E|[_ [x [Hin [Hk [Hn [Hy [Ho Ht]]]]]]]].
  - rewrite E. exact Hg.
  - exfalso. rewrite (Huniq x Hin Hk) in *. destruct Hsp as [Hs|[Hs|Hs]].
    + contradiction.
    + rewrite Hs in Ht. discriminate.
    + unfold in_kind in Hs. rewrite Hn, Hy, !N.eqb_refl in Hs. discriminate.
Qed.

Example tracker_example :
  let mk id owner fins := mkRes 1 2 id (Some 1) owner false fins [] 0%Z 0%Z 0 in
  let s := [mk 10 7 []; mk 11 7 []; mk 12 0 []; mk 13 9 []; mk 14 7 [5]] in
  cleanup 7 1 2 [11] s = ([mk 11 7 []; mk 12 0 []; mk 13 9 []; mk 14 7 [5]], false).
Proof. vm_compute. reflexivity. Qed.
