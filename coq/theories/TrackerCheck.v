(* TrackerCheck.v — CleanupOutputs of the real rruntime adapter against Tracker.cleanup: the store as it was when the
   clean-up started, the ids touched since StartTrackingOutputs, whether the call succeeded, and the listings afterwards. *)
From Verif Require Import Store StoreCheck Tracker.
From Coq Require Import NArith.
Open Scope N_scope.

Fixpoint res_list_eqb (a b : list res) : bool :=
  match a, b with
  | [], [] => true
  | x :: a', y :: b' => res_eqb x y && res_list_eqb a' b'
  | _, _ => false
  end.

(* controller name, cleaned kind, touched ids, store before, success flag, listings afterwards per kind *)
Definition tcase := (atom * (atom * atom) * list atom * store * bool * list ((atom * atom) * list res))%type.

Definition tcase_ok (c : tcase) : bool :=
  let '(name, (ns, typ), touched, s, okobs, after) := c in
  let '(s', ok) := cleanup name ns typ touched s in
  Bool.eqb ok okobs && forallb (fun p => res_list_eqb (st_list (fst (fst p)) (snd (fst p)) s') (snd p)) after.

Fixpoint mism_from {A} (f : A -> bool) (i : N) (l : list A) : list N :=
  match l with
  | [] => []
  | x :: t => if f x then mism_from f (N.succ i) t else i :: mism_from f (N.succ i) t
  end.

Definition tracker_mismatches (cs : list tcase) : list N := mism_from tcase_ok 0%N cs.
