(* Transform.v — one reconcile cycle of transform.Controller.Run (processInputs, reconcileTearingDownInput,
   cleanupOutputs) with input finalizers enabled, projected on one item x (the mapping is id-to-id, every item is
   processed independently inside the two loops), as a machine over the runtime API.  The finalizer-removal hook
   is the identity (returns nil). *)
From Verif Require Export Store Helpers DepDB Access GenCtl.
Open Scope N_scope.

Section TF.
  Variables (ns tin tout cname : atom).
  Variable tf : atom -> atom.

  (* declaration: strong input kind, exclusive output kind (+ destroy-ready input on the outputs) *)
  Definition tctrl : ctrl :=
    mkCtrl cname [mkIn ns tin None 1; mkIn ns tout None 2] [mkOut tout 0].

  Inductive tpc :=
  | T0                                               (* processInputs: List(inputs) *)
  | TAddFin (inp : res)
  | TModify (inp : res) (err : bool)
  | TListOut (touched rem err : bool)                (* cleanupOutputs: List(outputs); rem: finalizer removal pending *)
  | TTeardown (rem err : bool)
  | TDestroy (rem err : bool)
  | TRemFin (err : bool)
  | TDone (ok : bool).

  Definition t_request (x : atom) (pc : tpc) (fault : bool) : option aop :=
    match pc with
    | T0 => Some (AGet (ns, tin, x))                  (* the element of List(inputs) *)
    | TAddFin _ => Some (AAddFin (ns, tin, x) [cname])
    | TModify inp _ =>
        Some (AModify (empty_out ns tout x) (if fault then MFail else MSetSpec (tf (r_spec inp))) (Some false) false)
    | TListOut _ _ _ => Some (AGet (ns, tout, x))     (* the element of List(outputs) *)
    | TTeardown _ _ => Some (ATeardown (ns, tout, x) None)
    | TDestroy _ _ => Some (ADestroy (ns, tout, x) None)
    | TRemFin _ => Some (ARemFin (ns, tin, x) [cname])
    | TDone _ => None
    end.

  Definition t_resume (pc : tpc) (r : ares) : tpc :=
    match pc with
    | T0 =>
        match r with
        | AOkRes inp =>
            if r_phase inp then
              (* reconcileTearingDownInput: no finalizer -> nothing; else removal pending *)
              TListOut false (has_fin cname inp) false
            else if has_fin cname inp then TModify inp false else TAddFin inp
        | _ => TListOut false false false              (* the item is not among the inputs *)
        end
    | TAddFin inp => match r with AOk => TModify inp false | _ => TListOut true false true end
    | TModify _ e =>
        match r with
        | AOkRes _ => TListOut true false e
        | _ => if is_conflict_res r then TListOut true false e else TListOut true false true
        end
    | TListOut touched rem e =>
        match r with
        | AOkRes o =>
            if negb (N.eqb (r_owner o) cname) then TDone (negb e)                    (* not ours: removal dropped *)
            else if negb (r_phase o) && touched then TDone (negb e)                   (* live output of a live input *)
            else TTeardown rem e
        | _ => if rem then TRemFin e else TDone (negb e)                               (* not among the outputs *)
        end
    | TTeardown rem e =>
        match r with
        | AOkReady true => TDestroy rem e
        | AOkReady false => TDone (negb e)
        | _ => TDone false
        end
    | TDestroy rem e =>
        match r with
        | AOk => if rem then TRemFin e else TDone (negb e)
        | _ => TDone false
        end
    | TRemFin e => match r with AOk => TDone (negb e) | _ => TDone false end
    | TDone b => TDone b
    end.

  Record tsys := mkTS { ts_store : store; ts_pc : tpc }.

  Inductive tchoice := TStep (now : Z) (fault : bool) | TEnv (now : Z) (o : op) | TRestart.

  Definition t_step (x : atom) (s : tsys) (ch : tchoice) : tsys :=
    match ch with
    | TEnv now o => mkTS (apply_st now o (ts_store s)) (ts_pc s)
    | TRestart => match ts_pc s with TDone _ => mkTS (ts_store s) T0 | _ => s end
    | TStep now fault =>
        match t_request x (ts_pc s) fault with
        | None => s
        | Some o => let '(st', r) := a_apply now tctrl o (ts_store s) in mkTS st' (t_resume (ts_pc s) r)
        end
    end.

  Definition t_run (x : atom) (s : tsys) (l : list tchoice) : tsys := fold_left (t_step x) l s.
End TF.
