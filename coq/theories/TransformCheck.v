(* TransformCheck.v — replay gated-runtime schedules of the real transform.Controller.Run on the Transform machine. *)
From Verif Require Import Store StoreCheck Helpers DepDB Access GenCtl GenCtlCheck Transform.
Open Scope N_scope.

Definition tcall_of (pc : tpc) : gcall :=
  match pc with
  | T0 | TListOut _ _ _ => GList       (* the cycle lists the kind; the machine reads its element *)
  | TAddFin _ => GAddFin
  | TModify _ _ => GModify
  | TTeardown _ _ => GTeardown
  | TDestroy _ _ => GDestroy
  | TRemFin _ => GRemFin
  | TDone _ => GNone
  end.

Definition tcase := (atom * atom * atom * atom * atom * list (atom * atom) *
                     list (tchoice * gcall) * option bool * list res * list res)%type.

Fixpoint t_check_run ns tin tout cname tf x (s : tsys) (steps : list (tchoice * gcall)) : option tsys :=
  match steps with
  | [] => Some s
  | (ch, g) :: t =>
      let ok := match ch with TStep _ _ => gcall_eqb (tcall_of (ts_pc s)) g | _ => true end in
      if ok then t_check_run ns tin tout cname tf x (t_step ns tin tout cname tf x s ch) t else None
  end.

Definition tcase_ok (c : tcase) : bool :=
  let '(ns, tin, tout, cname, x, tbl, steps, final, ins, outs) := c in
  match t_check_run ns tin tout cname (tf_table tbl) x (mkTS [] T0) steps with
  | None => false
  | Some s =>
      (match ts_pc s, final with
       | TDone a, Some b => Bool.eqb a b
       | TDone _, None => false
       | _, None => true
       | _, Some _ => false
       end) &&
      list_eqb res_eqb (map strip_t (st_list ns tin (ts_store s))) (map strip_t ins) &&
      list_eqb res_eqb (map strip_t (st_list ns tout (ts_store s))) (map strip_t outs)
  end.

Definition transform_mismatches (cs : list tcase) : list N := mism_from tcase_ok 0 cs.
