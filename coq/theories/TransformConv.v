(* TransformConv.v — convergence (C06) of the Transform controller's cycle: from any state satisfying the safety
   invariant, undisturbed fault-free cycles end in the mapped image — one cycle, or two when the first one has to
   remove a torn-down output of a previous generation before the new one can be created (that cycle reports the
   phase conflict as an error and the controller is restarted). *)
From Verif Require Import Store StoreProofs Helpers HelpersProofs DepDB Access AccessProofs GenCtl GenCtlProofs GenCtlConv CtrlSpec Transform TransformProofs.
From Coq Require Import Lia.
Open Scope N_scope.

Local Opaque st_put st_del.

Section TConv.
  Variables (ns tin tout cname : atom) (tf : atom -> atom).
  Hypothesis Hty : tin <> tout.

  Notation kin := (kin ns tin).
  Notation kout := (kout ns tout).
  Notation tc := (tctrl ns tin tout cname).
  Notation gc := (gctrl ns tin tout cname).
  Notation has_fin := (has_fin cname).
  Notation t_step := (t_step ns tin tout cname tf).
  Notation t_run := (t_run ns tin tout cname tf).

  (* on the calls the machines make, the two declarations grant the same access *)
  Lemma tc_as_gc now o s x :
    (o = AGet (kin x) \/ o = AGet (kout x) \/ o = AAddFin (kin x) [cname] \/ o = ARemFin (kin x) [cname] \/
     (exists m e, o = AModify (empty_out ns tout x) m e false) \/ o = ATeardown (kout x) None \/ o = ADestroy (kout x) None) ->
    a_apply now tc o s = a_apply now gc o s.
  Proof.
    intros H. destruct H as [->|[->|[->|[->|[[m [e ->]]|[->| ->]]]]]]; unfold a_apply, GenCtl.kin, GenCtl.kout; cbn [r_typ empty_out].
    - rewrite (t_rd_in ns tin tout cname), (rd_in ns tin tout cname). reflexivity.
    - rewrite (t_rd_out ns tin tout cname), (rd_out ns tin tout cname). reflexivity.
    - rewrite (t_fin_in ns tin tout cname), (fin_in ns tin tout cname). reflexivity.
    - rewrite (t_fin_in ns tin tout cname), (fin_in ns tin tout cname). reflexivity.
    - rewrite (t_is_out ns tin tout cname), (is_out ns tin tout cname). reflexivity.
    - rewrite (t_is_out ns tin tout cname), (is_out ns tin tout cname). reflexivity.
    - rewrite (t_is_out ns tin tout cname), (is_out ns tin tout cname). reflexivity.
  Qed.

  Definition tquiet (now : Z) (n : nat) : list tchoice := repeat (TStep now false) n.

  Lemma t_step_eq x now fault st pc o st' r :
    t_request ns tin tout cname tf x pc fault = Some o -> a_apply now tc o st = (st', r) ->
    t_step x (mkTS st pc) (TStep now fault) = mkTS st' (t_resume cname pc r).
  Proof. intros Hq Ha. unfold Transform.t_step. cbn [ts_pc ts_store]. rewrite Hq, Ha. reflexivity. Qed.

  Lemma t_run_cons x s c l : t_run x s (c :: l) = t_run x (t_step x s c) l.
  Proof. reflexivity. Qed.

  Lemma t_run_done x st b now n : t_run x (mkTS st (TDone b)) (tquiet now n) = mkTS st (TDone b).
  Proof. induction n as [|n IH]; [reflexivity|]. unfold tquiet in *. cbn [repeat]. rewrite t_run_cons. exact IH. Qed.

  Notation converged := (converged ns tin tout cname tf).
  Notation held := (held ns tout).
  Notation exclusive_out := (exclusive_out ns tout cname).
  Notation fins_wf := (fins_wf ns tin).
  Notation owned_out := (owned_out ns tout cname).
  Notation in_fin := (in_fin ns tin cname).

  Ltac trefold now :=
    repeat match goal with
           | |- context[TStep now false :: tquiet now ?n] => change (TStep now false :: tquiet now n) with (tquiet now (S n))
           end.

  (* one call of the machine, with the controller-independent outcome lemma for that call *)
  Ltac tstep x E := rewrite t_run_cons; erewrite t_step_eq; [|reflexivity|rewrite (tc_as_gc _ _ _ x); [exact E|]]; cbn [t_resume].

  Lemma KI x y : key_eqb (kin x) (kout y) = false. Proof. apply kin_kout. exact Hty. Qed.
  Lemma KO x y : key_eqb (kout x) (kin y) = false. Proof. apply kout_kin. exact Hty. Qed.

  (* the part of a cycle after the input loop, for a running input that carries the finalizer *)
  Lemma from_modify now x st inp inp0 k :
    exclusive_out x st -> st_get (kin x) st = Some inp -> has_fin inp = true -> r_phase inp = false -> r_spec inp0 = r_spec inp ->
    let s' := t_run x (mkTS st (TModify inp0 false)) (tquiet now (S (S (S (S k))))) in
    match st_get (kout x) st with
    | Some o =>
        if r_phase o then
          match r_fins o with
          | [] => ts_pc s' = TDone false /\ st_get (kout x) (ts_store s') = None /\ st_get (kin x) (ts_store s') = Some inp
          | _ => ts_pc s' = TDone false /\ held x (ts_store s') /\ converged x (ts_store s')
          end
        else ts_pc s' = TDone true /\ converged x (ts_store s')
    | None => ts_pc s' = TDone true /\ converged x (ts_store s')
    end.
  Proof.
    intros Hex Hi Hf Hp Hs. unfold tquiet. cbn [repeat]. fold (tquiet now k).
    destruct (st_get (kout x) st) as [o|] eqn:Ho.
    - pose proof (Hex o Ho) as Hown. destruct (r_phase o) eqn:Hpo.
      + (* a torn-down output of a previous generation: Modify is refused by the local phase check *)
        assert (Em : a_apply now gc (AModify (empty_out ns tout x) (MSetSpec (tf (r_spec inp0))) (Some false) false) st = (st, AErr HEPhaseLocal)).
        { unfold a_apply. cbn [r_typ empty_out]. rewrite (is_out ns tin tout cname).
          change (r_key (empty_out ns tout x)) with (kout x). rewrite Ho. unfold s_uwc. rewrite Ho, Hpo. reflexivity. }
        tstep x Em; [|right; right; right; right; left; eauto]. cbn [is_conflict_res].
        pose proof (GenCtlProofs.get_out_spec ns tin tout cname now x st) as Eg. rewrite Ho in Eg.
        tstep x Eg; [|right; left; reflexivity]. rewrite Hown, N.eqb_refl, Hpo. cbn [negb andb].
        destruct (teardown_ok ns tin tout cname now x st o Ho Hown) as [st1 [o1 [E1 [Ho1 [Po1 [Fo1 [Oo1 Fr1]]]]]]].
        tstep x E1; [|right; right; right; right; right; left; reflexivity].
        destruct (r_fins o) as [|f fs] eqn:Hfo; cbn [is_nil].
        * destruct (destroy_ok ns tin tout cname now x st1 o1 Ho1 Oo1 Fo1) as [st2 [E2 [Hn2 Fr2]]].
          tstep x E2; [|right; right; right; right; right; right; reflexivity].
          trefold now. rewrite t_run_done. cbn [ts_pc ts_store]. split; [reflexivity|]. split; [exact Hn2|].
          rewrite (Fr2 _ (KI x x)), (Fr1 _ (KI x x)). exact Hi.
        * trefold now. rewrite t_run_done. cbn [ts_pc ts_store]. split; [reflexivity|].
          assert (Hh : held x st1) by (exists o1; rewrite Fo1; repeat split; auto; discriminate).
          split; [exact Hh|]. unfold GenCtlConv.converged. rewrite (Fr1 _ (KI x x)), Hi, Hp. right. exact Hh.
      + destruct (modify_update ns tin tout cname now x (tf (r_spec inp0)) st o Ho Hown Hpo) as [st2 [w [o' [E2 [Hw [Ow [Pw [Sw Fr2]]]]]]]].
        tstep x E2; [|right; right; right; right; left; eauto].
        pose proof (GenCtlProofs.get_out_spec ns tin tout cname now x st2) as Eg. rewrite Hw in Eg.
        tstep x Eg; [|right; left; reflexivity]. rewrite Ow, N.eqb_refl, Pw. cbn [negb andb].
        trefold now. rewrite t_run_done. cbn [ts_pc ts_store]. split; [reflexivity|].
        unfold GenCtlConv.converged. rewrite (Fr2 _ (KI x x)), Hi, Hp. left. exists o'. rewrite Hs in Sw. auto.
    - destruct (modify_create ns tin tout cname now x (tf (r_spec inp0)) st Ho) as [st2 [w [E2 [Hw [Ow [Pw [Sw Fr2]]]]]]].
      tstep x E2; [|right; right; right; right; left; eauto].
      pose proof (GenCtlProofs.get_out_spec ns tin tout cname now x st2) as Eg. rewrite Hw in Eg.
      tstep x Eg; [|right; left; reflexivity]. rewrite Ow, N.eqb_refl, Pw. cbn [negb andb].
      trefold now. rewrite t_run_done. cbn [ts_pc ts_store]. split; [reflexivity|].
      unfold GenCtlConv.converged. rewrite (Fr2 _ (KI x x)), Hi, Hp. left. exists w. rewrite Hs in Sw. auto.
  Qed.

  (* the cleanup half of a cycle for a torn-down input (nothing was touched) *)
  Lemma from_listout_td now x st inp k :
    (owned_out x st -> in_fin x st) -> exclusive_out x st ->
    st_get (kin x) st = Some inp -> r_phase inp = true -> NoDup (r_fins inp) ->
    let s' := t_run x (mkTS st (TListOut false (has_fin inp) false)) (tquiet now (S (S (S (S k))))) in
    ts_pc s' = TDone true /\ converged x (ts_store s').
  Proof.
    intros I1 Hex Hi Hp Hn. unfold tquiet. cbn [repeat]. fold (tquiet now k).
    pose proof (GenCtlProofs.get_out_spec ns tin tout cname now x st) as Eg.
    destruct (st_get (kout x) st) as [o|] eqn:Ho.
    - pose proof (Hex o Ho) as Hown.
      assert (Hf : has_fin inp = true).
      { destruct I1 as [i [Hi' Hf']]; [exists o; auto|]. rewrite Hi in Hi'. inversion Hi'; subst i. exact Hf'. }
      rewrite Hf. tstep x Eg; [|right; left; reflexivity]. rewrite Hown, N.eqb_refl. cbn [negb andb]. rewrite andb_false_r.
      destruct (teardown_ok ns tin tout cname now x st o Ho Hown) as [st1 [o1 [E1 [Ho1 [Po1 [Fo1 [Oo1 Fr1]]]]]]].
      tstep x E1; [|right; right; right; right; right; left; reflexivity].
      destruct (r_fins o) as [|f fs] eqn:Hfo; cbn [is_nil].
      + destruct (destroy_ok ns tin tout cname now x st1 o1 Ho1 Oo1 Fo1) as [st2 [E2 [Hn2 Fr2]]].
        tstep x E2; [|right; right; right; right; right; right; reflexivity].
        assert (Hi2 : st_get (kin x) st2 = Some inp) by (rewrite (Fr2 _ (KI x x)), (Fr1 _ (KI x x)); exact Hi).
        destruct (remfin_ok ns tin tout cname tf Hty now x st2 inp Hi2 Hn) as [st3 [inp3 [E3 [Hi3 [Hf3 [Hp3 Fr3]]]]]].
        tstep x E3; [|right; right; right; left; reflexivity].
        trefold now. rewrite t_run_done. cbn [ts_pc ts_store]. split; [reflexivity|].
        unfold GenCtlConv.converged. rewrite Hi3, Hp3, Hp. left. rewrite (Fr3 _ (KO x x)). auto.
      + trefold now. rewrite t_run_done. cbn [ts_pc ts_store]. split; [reflexivity|].
        unfold GenCtlConv.converged. rewrite (Fr1 _ (KI x x)), Hi, Hp. right. exists o1. rewrite Fo1. repeat split; auto. discriminate.
    - tstep x Eg; [|right; left; reflexivity]. destruct (has_fin inp) eqn:Hf.
      + destruct (remfin_ok ns tin tout cname tf Hty now x st inp Hi Hn) as [st3 [inp3 [E3 [Hi3 [Hf3 [Hp3 Fr3]]]]]].
        tstep x E3; [|right; right; right; left; reflexivity].
        trefold now. rewrite t_run_done. cbn [ts_pc ts_store]. split; [reflexivity|].
        unfold GenCtlConv.converged. rewrite Hi3, Hp3, Hp. left. rewrite (Fr3 _ (KO x x)). auto.
      + trefold now. rewrite t_run_done. cbn [ts_pc ts_store]. split; [reflexivity|].
        unfold GenCtlConv.converged. rewrite Hi, Hp. left. auto.
  Qed.

  Definition t_cycle (now : Z) (x : atom) (st : store) (k : nat) : tsys := t_run x (mkTS st T0) (tquiet now (6 + k)).

  (* the one situation that needs a second cycle: a running input whose output of a previous generation is torn down
     with no finalizers left *)
  Definition stale_generation (x : atom) (st : store) : Prop :=
    exists inp o, st_get (kin x) st = Some inp /\ r_phase inp = false /\
                  st_get (kout x) st = Some o /\ r_phase o = true /\ r_fins o = [].

  (* C06 for transform.Controller, first cycle: from any state satisfying the safety invariant, one undisturbed
     fault-free cycle ends converged — successfully, or (output held by foreign finalizers under a running input)
     with the phase-conflict error — unless a stale generation has to be removed first *)
  Theorem t_cycle_converges now x st k :
    (owned_out x st -> in_fin x st) -> exclusive_out x st -> fins_wf x st -> ~ stale_generation x st ->
    let s' := t_cycle now x st k in
    converged x (ts_store s') /\ (ts_pc s' = TDone true \/ (ts_pc s' = TDone false /\ held x (ts_store s'))).
  Proof.
    intros I1 Hex Hwf Hns. unfold t_cycle. cbn [Nat.add]. unfold tquiet. cbn [repeat]. fold (tquiet now k).
    pose proof (GenCtlProofs.get_in_spec ns tin tout cname now x st) as Eg.
    destruct (st_get (kin x) st) as [inp|] eqn:Hi.
    - tstep x Eg; [|left; reflexivity]. destruct (r_phase inp) eqn:Hp.
      + trefold now. destruct (from_listout_td now x st inp (S k) I1 Hex Hi Hp (Hwf _ Hi)) as [A B]. split; [exact B | left; exact A].
      + destruct (GenCtl.has_fin cname inp) eqn:Hf.
        * trefold now. pose proof (from_modify now x st inp inp (S k) Hex Hi Hf Hp eq_refl) as H.
          destruct (st_get (kout x) st) as [o|] eqn:Ho; [|destruct H; auto].
          destruct (r_phase o) eqn:Hpo; [|destruct H; auto].
          destruct (r_fins o) eqn:Hfo; [exfalso; apply Hns; exists inp, o; auto|].
          destruct H as [A [B C]]. split; [exact C | right; auto].
        * destruct (addfin_ok ns tin tout cname tf Hty now x st inp Hi) as [st1 [inp1 [E1 [Hi1 [Hf1 [Hp1 [Hs1 Fr1]]]]]]].
          tstep x E1; [|right; right; left; reflexivity]. trefold now.
          assert (Hex1 : exclusive_out x st1) by (intros o Ho; apply Hex; rewrite <- (Fr1 _ (KO x x)); exact Ho).
          pose proof (from_modify now x st1 inp1 inp k Hex1 Hi1 Hf1 (eq_trans Hp1 Hp) (eq_sym Hs1)) as H.
          rewrite (Fr1 _ (KO x x)) in H.
          destruct (st_get (kout x) st) as [o|] eqn:Ho; [|destruct H; auto].
          destruct (r_phase o) eqn:Hpo; [|destruct H; auto].
          destruct (r_fins o) eqn:Hfo; [exfalso; apply Hns; exists inp, o; auto|].
          destruct H as [A [B C]]. split; [exact C | right; auto].
    - tstep x Eg; [|left; reflexivity].
      pose proof (GenCtlProofs.get_out_spec ns tin tout cname now x st) as Eo.
      destruct (st_get (kout x) st) as [o|] eqn:Ho.
      + exfalso. destruct I1 as [i [Hi' _]]; [exists o; split; [exact Ho | apply Hex; exact Ho]|]. congruence.
      + tstep x Eo; [|right; left; reflexivity]. trefold now. rewrite t_run_done. cbn [ts_pc ts_store].
        split; [|left; reflexivity]. unfold GenCtlConv.converged. rewrite Hi. exact Ho.
  Qed.

  (* ... and in that situation the first cycle removes the stale output (reporting the conflict), after which the
     premises of t_cycle_converges hold again without a stale generation: the second cycle converges *)
  Theorem t_stale_generation_removed now x st k :
    exclusive_out x st -> fins_wf x st -> stale_generation x st ->
    let st' := ts_store (t_cycle now x st k) in
    ts_pc (t_cycle now x st k) = TDone false /\ st_get (kout x) st' = None /\
    (exists inp', st_get (kin x) st' = Some inp' /\ r_phase inp' = false) /\ ~ stale_generation x st'.
  Proof.
    intros Hex Hwf [inp [o [Hi [Hp [Ho [Hpo Hfo]]]]]]. unfold t_cycle. cbn [Nat.add]. unfold tquiet. cbn [repeat]. fold (tquiet now k).
    pose proof (GenCtlProofs.get_in_spec ns tin tout cname now x st) as Eg. rewrite Hi in Eg.
    tstep x Eg; [|left; reflexivity]. rewrite Hp.
    assert (Fin : forall s', st_get (kout x) (ts_store s') = None -> ~ stale_generation x (ts_store s')).
    { intros s' Hn [i2 [o2 [_ [_ [Ho2 _]]]]]. congruence. }
    destruct (GenCtl.has_fin cname inp) eqn:Hf.
    - trefold now. pose proof (from_modify now x st inp inp (S k) Hex Hi Hf Hp eq_refl) as H.
      rewrite Ho, Hpo, Hfo in H. destruct H as [A [B C]]. repeat split; auto. exists inp. auto.
    - destruct (addfin_ok ns tin tout cname tf Hty now x st inp Hi) as [st1 [inp1 [E1 [Hi1 [Hf1 [Hp1 [Hs1 Fr1]]]]]]].
      tstep x E1; [|right; right; left; reflexivity]. trefold now.
      assert (Hex1 : exclusive_out x st1) by (intros o' Ho'; apply Hex; rewrite <- (Fr1 _ (KO x x)); exact Ho').
      pose proof (from_modify now x st1 inp1 inp k Hex1 Hi1 Hf1 (eq_trans Hp1 Hp) (eq_sym Hs1)) as H.
      rewrite (Fr1 _ (KO x x)), Ho, Hpo, Hfo in H. destruct H as [A [B C]]. repeat split; auto. exists inp1. split; [exact C | congruence].
  Qed.
End TConv.
