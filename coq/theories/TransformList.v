(* TransformList.v — one reconcile cycle of transform.Controller.Run with input finalizers enabled over the WHOLE
   input and output lists and an arbitrary (possibly many-to-one, possibly partial) mapping of input ids to output
   ids: processInputs with its per-cycle bookkeeping (runState.touchedOutputIDs, runState.removeInputFinalizers keyed
   by OUTPUT id), reconcileTearingDownInput, cleanupOutputs and the final finalizer-release loop.  One step = one
   call of the controller.Runtime API executed atomically by Access.a_apply; list items that need no call are passed
   over silently (adv_in / adv_out).  The release loop ranges over a Go map: its order is a choice of the schedule
   (the input id carried by the step).  The finalizer-removal hook is a parameter (per input: nil, skip-tagged error,
   other error). *)
From Verif Require Export Store Helpers DepDB Access GenCtl Transform.
Open Scope N_scope.

Section TL.
  Variables (ns tin tout cname : atom).
  Variable tf : atom -> atom.
  Variable mapf : atom -> option atom.
  (* the user's finalizer-removal hook, per input id: None = returns nil, Some true = an error tagged SkipReconcile,
     Some false = any other error *)
  Variable hook : atom -> option bool.

  Definition rems := list (atom * atom).       (* output id |-> input id whose finalizer may go once the output is gone *)
  Definition rem_del (o : atom) (m : rems) : rems := filter (fun p => negb (N.eqb (fst p) o)) m.
  Definition rem_set (o x : atom) (m : rems) : rems := (o, x) :: rem_del o m.
  Definition rem_del_in (x : atom) (m : rems) : rems := filter (fun p => negb (N.eqb (snd p) x)) m.
  Definition touched_b (o : atom) (t : list atom) : bool := existsb (N.eqb o) t.

  Record lacc := mkL { l_touched : list atom; l_rems : rems; l_err : bool }.
  Definition with_err (a : lacc) : lacc := mkL (l_touched a) (l_rems a) true.
  Definition drop (o : atom) (a : lacc) : lacc := mkL (l_touched a) (rem_del o (l_rems a)) (l_err a).

  Inductive lpc :=
  | L0
  | LAddFin (inp : res) (o : atom) (todo : list res) (a : lacc)
  | LModify (inp : res) (o : atom) (todo : list res) (a : lacc)
  | LListOut (a : lacc)
  | LTeardown (out : res) (todo : list res) (a : lacc)
  | LDestroy (out : res) (todo : list res) (a : lacc)
  | LRem (a : lacc)
  | LDone (ok : bool).

  (* processInputs: walk the listed inputs up to the next one that needs a runtime call *)
  Fixpoint adv_in (todo : list res) (a : lacc) : lpc :=
    match todo with
    | [] => LListOut a
    | inp :: rest =>
        match mapf (r_id inp) with
        | None => adv_in rest a
        | Some o =>
            if r_phase inp then
              (* reconcileTearingDownInput: without the finalizer nothing; hook failed: keep the output (and report the
                 error unless it is tagged skip); else release pending on output o *)
              adv_in rest (if has_fin cname inp then
                             match hook (r_id inp) with
                             | None => mkL (l_touched a) (rem_set o (r_id inp) (l_rems a)) (l_err a)
                             | Some skip => mkL (o :: l_touched a) (l_rems a) (if skip then l_err a else true)
                             end
                           else a)
            else
              let a' := mkL (o :: l_touched a) (l_rems a) (l_err a) in
              if has_fin cname inp then LModify inp o rest a' else LAddFin inp o rest a'
        end
    end.

  Definition adv_rem (a : lacc) : lpc :=
    match l_rems a with [] => LDone (negb (l_err a)) | _ => LRem a end.

  (* cleanupOutputs: walk the listed outputs up to the next one that needs a runtime call *)
  Fixpoint adv_out (todo : list res) (a : lacc) : lpc :=
    match todo with
    | [] => adv_rem a
    | out :: rest =>
        if negb (N.eqb (r_owner out) cname) then adv_out rest (drop (r_id out) a)
        else if negb (r_phase out) && touched_b (r_id out) (l_touched a) then adv_out rest (drop (r_id out) a)
        else LTeardown out rest a
    end.

  Definition l_request (pc : lpc) (fault : bool) (sel : atom) : option aop :=
    match pc with
    | L0 => Some (AList ns tin)
    | LAddFin inp _ _ _ => Some (AAddFin (ns, tin, r_id inp) [cname])
    | LModify inp o _ _ =>
        Some (AModify (empty_out ns tout o) (if fault then MFail else MSetSpec (tf (r_spec inp))) (Some false) false)
    | LListOut _ => Some (AList ns tout)
    | LTeardown out _ _ => Some (ATeardown (ns, tout, r_id out) None)
    | LDestroy out _ _ => Some (ADestroy (ns, tout, r_id out) None)
    | LRem a =>
        if existsb (fun p => N.eqb (snd p) sel) (l_rems a) then Some (ARemFin (ns, tin, sel) [cname]) else None
    | LDone _ => None
    end.

  Definition l_resume (pc : lpc) (sel : atom) (r : ares) : lpc :=
    match pc with
    | L0 => match r with AOkList l => adv_in l (mkL [] [] false) | _ => LDone false end
    | LAddFin inp o todo a => match r with AOk => LModify inp o todo a | _ => adv_in todo (with_err a) end
    | LModify inp o todo a =>
        match r with
        | AOkRes _ => adv_in todo a
        | AErr (HEStore e) => if is_conflict e ns tout then adv_in todo a else adv_in todo (with_err a)
        | _ => adv_in todo (with_err a)
        end
    | LListOut a => match r with AOkList l => adv_out l a | _ => LDone false end
    | LTeardown out todo a =>
        match r with
        | AOkReady true => LDestroy out todo a
        | AOkReady false => adv_out todo (drop (r_id out) a)
        | _ => adv_out todo (with_err (drop (r_id out) a))
        end
    | LDestroy out todo a =>
        match r with
        | AOk => adv_out todo a
        | _ => adv_out todo (with_err (drop (r_id out) a))
        end
    | LRem a =>
        let a' := mkL (l_touched a) (rem_del_in sel (l_rems a)) (l_err a) in
        adv_rem (match r with AOk => a' | _ => with_err a' end)
    | LDone b => LDone b
    end.

  Record lsys := mkLS { ls_store : store; ls_pc : lpc }.

  Inductive lchoice := LStep (now : Z) (fault : bool) (sel : atom) | LEnv (now : Z) (o : op) | LRestart.

  Definition l_step (s : lsys) (ch : lchoice) : lsys :=
    match ch with
    | LEnv now o => mkLS (apply_st now o (ls_store s)) (ls_pc s)
    | LRestart => match ls_pc s with LDone _ => mkLS (ls_store s) L0 | _ => s end
    | LStep now fault sel =>
        match l_request (ls_pc s) fault sel with
        | None => s
        | Some o =>
            let '(st', r) := a_apply now (tctrl ns tin tout cname) o (ls_store s) in
            mkLS st' (l_resume (ls_pc s) sel r)
        end
    end.

  Definition l_run (s : lsys) (l : list lchoice) : lsys := fold_left l_step l s.
End TL.
