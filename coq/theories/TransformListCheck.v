(* TransformListCheck.v — replay gated-runtime schedules of the real transform.Controller.Run (several inputs, a
   many-to-one / partial mapping) on the list-based machine of TransformList.v: kind and target of every runtime
   call, the order of the finalizer releases, the outcome of every cycle and the final listings. *)
From Verif Require Import Store StoreCheck Helpers DepDB Access GenCtl GenCtlCheck Transform TransformList.
Open Scope N_scope.

Definition lcall_of (pc : lpc) : gcall :=
  match pc with
  | L0 | LListOut _ => GList
  | LAddFin _ _ _ _ => GAddFin
  | LModify _ _ _ _ => GModify
  | LTeardown _ _ _ => GTeardown
  | LDestroy _ _ _ => GDestroy
  | LRem _ => GRemFin
  | LDone _ => GNone
  end.

(* id of the resource the pending call is about (0 for listings); for a release: the schedule's choice *)
Definition ltarget_of (pc : lpc) (sel : atom) : atom :=
  match pc with
  | LAddFin inp _ _ _ => r_id inp
  | LModify _ o _ _ => o
  | LTeardown out _ _ | LDestroy out _ _ => r_id out
  | LRem _ => sel
  | _ => 0
  end.

Definition map_table (tbl : list (atom * atom)) (x : atom) : option atom :=
  match find (fun p => N.eqb (fst p) x) tbl with Some (_, o) => Some o | None => None end.

(* hook table: input id |-> 1 (skip-tagged error) / 2 (other error); absent = nil *)
Definition hook_table (tbl : list (atom * atom)) (x : atom) : option bool :=
  match find (fun p => N.eqb (fst p) x) tbl with Some (_, m) => Some (N.eqb m 1) | None => None end.

Definition lcase := (atom * atom * atom * atom * list (atom * atom) * list (atom * atom) * list (atom * atom) *
                     list (lchoice * gcall * atom) * option bool * list res * list res)%type.

Fixpoint l_check_run ns tin tout cname tf mapf hook (s : lsys) (steps : list (lchoice * gcall * atom)) : option lsys :=
  match steps with
  | [] => Some s
  | (ch, g, tg) :: t =>
      let ok := match ch with
                | LStep _ fault sel =>
                    gcall_eqb (lcall_of (ls_pc s)) g && N.eqb (ltarget_of (ls_pc s) sel) tg &&
                    match l_request ns tin tout cname tf (ls_pc s) fault sel with Some _ => true | None => false end
                | _ => true
                end in
      if ok then l_check_run ns tin tout cname tf mapf hook (l_step ns tin tout cname tf mapf hook s ch) t else None
  end.

Definition lcase_ok (c : lcase) : bool :=
  let '(ns, tin, tout, cname, maptbl, hooktbl, tbl, steps, final, ins, outs) := c in
  match l_check_run ns tin tout cname (tf_table tbl) (map_table maptbl) (hook_table hooktbl) (mkLS [] L0) steps with
  | None => false
  | Some s =>
      (match ls_pc s, final with
       | LDone a, Some b => Bool.eqb a b
       | LDone _, None => false
       | _, None => true
       | _, Some _ => false
       end) &&
      list_eqb res_eqb (map strip_t (st_list ns tin (ls_store s))) (map strip_t ins) &&
      list_eqb res_eqb (map strip_t (st_list ns tout (ls_store s))) (map strip_t outs)
  end.

Definition transform_list_mismatches (cs : list lcase) : list N := mism_from lcase_ok 0 cs.
