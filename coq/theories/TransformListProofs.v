(* TransformListProofs.v — finalizer-release safety of the list-based Transform cycle (TransformList.v) for an
   arbitrary mapping of inputs to outputs (many-to-one included), any number of inputs and outputs, every schedule of
   worker calls, faults, restarts, release orders and environment operations. *)
From Verif Require Import Store StoreProofs Helpers HelpersProofs DepDB Access AccessProofs GenCtl GenCtlProofs CtrlSpec
  Transform TransformProofs TransformList.
From Coq Require Import Lia.
Open Scope N_scope.

Local Opaque st_put st_del.

(* ---- listing: a stored resource of the kind is in the listing ------------------------------------------ *)

Lemma st_get_In k s r : st_get k s = Some r -> In r s /\ r_key r = k.
Proof.
  induction s as [|x s IH]; simpl; [discriminate|].
  destruct (key_eqb_spec (r_key x) k) as [E|E].
  - intros H; inversion H; subst. auto.
  - intros H. destruct (IH H). auto.
Qed.

Lemma In_ins_by_id r x l : In x (ins_by_id r l) <-> x = r \/ In x l.
Proof.
  induction l as [|y l IH]; simpl; [intuition|].
  destruct (N.leb (r_id r) (r_id y)); simpl; [intuition|]. rewrite IH. intuition.
Qed.

Lemma In_sort_by_id x l : In x (sort_by_id l) <-> In x l.
Proof.
  induction l as [|y l IH]; simpl; [tauto|]. unfold sort_by_id in *. simpl. rewrite In_ins_by_id, IH. intuition.
Qed.

Lemma st_get_in_list ns typ o st r : st_get (ns, typ, o) st = Some r -> In o (map r_id (st_list ns typ st)).
Proof.
  intros H. destruct (st_get_In _ _ _ H) as [Hin Hk]. unfold r_key in Hk. inversion Hk; subst.
  apply in_map. unfold st_list. apply In_sort_by_id. apply filter_In. split; [exact Hin|].
  rewrite !N.eqb_refl. reflexivity.
Qed.

Section TLProofs.
  Variables (ns tin tout cname : atom) (tf : atom -> atom) (mapf : atom -> option atom) (hook : atom -> option bool).
  Hypothesis Hty : tin <> tout.

  Notation kin := (kin ns tin).
  Notation kout := (kout ns tout).
  Notation tc := (tctrl ns tin tout cname).
  Notation owned := (owned_out ns tout cname).
  Notation l_step := (l_step ns tin tout cname tf mapf hook).
  Notation l_run := (l_run ns tin tout cname tf mapf hook).
  Notation adv_in := (adv_in cname mapf hook).
  Notation adv_out := (adv_out cname).

  Lemma l_list_in now s : a_apply now tc (AList ns tin) s = (s, AOkList (st_list ns tin s)).
  Proof. unfold a_apply, check_read, tctrl; simpl. rewrite !N.eqb_refl. simpl. rewrite orb_true_r. reflexivity. Qed.
  Lemma l_list_out now s : a_apply now tc (AList ns tout) s = (s, AOkList (st_list ns tout s)).
  Proof. unfold a_apply, check_read, tctrl, is_output; simpl. rewrite !N.eqb_refl. reflexivity. Qed.

  Lemma kout_neq o o' : o <> o' -> key_eqb (kout o) (kout o') = false.
  Proof.
    intros H. unfold GenCtl.kout, key_eqb. destruct (N.eqb_spec o o'); [contradiction|].
    rewrite andb_false_r. reflexivity.
  Qed.

  (* ---- the bookkeeping ---------------------------------------------------------------------------------- *)

  Definition rems_wf (m : rems) : Prop := forall o x, In (o, x) m -> mapf x = Some o.

  (* every pending release concerns an output that is still to be examined in this pass, or is not there *)
  Definition pend_ok (ids : list atom) (m : rems) (st : store) : Prop :=
    forall o x, In (o, x) m -> In o ids \/ ~ owned o st.

  Lemma rems_wf_del o m : rems_wf m -> rems_wf (rem_del o m).
  Proof. intros H o' x Hi. apply filter_In in Hi. apply H. tauto. Qed.
  Lemma rems_wf_del_in x m : rems_wf m -> rems_wf (rem_del_in x m).
  Proof. intros H o' x' Hi. apply filter_In in Hi. apply H. tauto. Qed.
  Lemma rems_wf_set o x m : mapf x = Some o -> rems_wf m -> rems_wf (rem_set o x m).
  Proof.
    intros Hm H o' x' [E|Hi]; [inversion E; subst; exact Hm|]. apply (rems_wf_del o m H). exact Hi.
  Qed.

  Lemma pend_ok_mono ids m st st' :
    (forall o, owned o st' -> owned o st) -> pend_ok ids m st -> pend_ok ids m st'.
  Proof. intros Hm H o x Hi. destruct (H o x Hi) as [A|A]; [left; exact A | right; intros C; apply A, Hm, C]. Qed.

  Lemma pend_ok_drop o ids m st : pend_ok (o :: ids) m st -> pend_ok ids (rem_del o m) st.
  Proof.
    intros H o' x Hi. apply filter_In in Hi. destruct Hi as [Hi Hn]. cbn [fst] in Hn.
    destruct (H o' x Hi) as [[E|A]|A]; [|left; exact A | right; exact A].
    subst o'. rewrite N.eqb_refl in Hn. discriminate.
  Qed.

  Lemma pend_ok_sub ids m m' st : (forall p, In p m' -> In p m) -> pend_ok ids m st -> pend_ok ids m' st.
  Proof. intros Hs H o x Hi. apply (H o x). apply Hs. exact Hi. Qed.

  Definition LInv (s : lsys) : Prop :=
    let st := ls_store s in
    match ls_pc s with
    | L0 | LDone _ => True
    | LAddFin _ _ _ a | LModify _ _ _ a | LListOut a => rems_wf (l_rems a)
    | LTeardown out todo a | LDestroy out todo a =>
        rems_wf (l_rems a) /\ pend_ok (r_id out :: map r_id todo) (l_rems a) st
    | LRem a => rems_wf (l_rems a) /\ pend_ok [] (l_rems a) st
    end.

  Lemma adv_in_inv st todo : forall a, rems_wf (l_rems a) -> LInv (mkLS st (adv_in todo a)).
  Proof.
    induction todo as [|inp rest IH]; intros a Ha; cbn [TransformList.adv_in]; [exact Ha|].
    destruct (mapf (r_id inp)) as [o|] eqn:Hm; [|apply IH; exact Ha].
    destruct (r_phase inp).
    - apply IH. destruct (has_fin cname inp); [|exact Ha]. destruct (hook (r_id inp)); [exact Ha|].
      cbn [l_rems]. apply rems_wf_set; assumption.
    - destruct (has_fin cname inp); exact Ha.
  Qed.

  Lemma adv_rem_inv st a : rems_wf (l_rems a) -> pend_ok [] (l_rems a) st -> LInv (mkLS st (adv_rem a)).
  Proof. intros H1 H2. unfold adv_rem. destruct (l_rems a) eqn:E; [exact I|]. unfold LInv. cbn. rewrite E. auto. Qed.

  Lemma adv_out_inv st todo : forall a,
    rems_wf (l_rems a) -> pend_ok (map r_id todo) (l_rems a) st -> LInv (mkLS st (adv_out todo a)).
  Proof.
    induction todo as [|out rest IH]; intros a H1 H2; cbn [TransformList.adv_out]; [apply adv_rem_inv; assumption|].
    destruct (negb (N.eqb (r_owner out) cname)).
    { apply IH; cbn [drop l_rems]; [apply rems_wf_del; exact H1 | apply pend_ok_drop; exact H2]. }
    destruct (negb (r_phase out) && touched_b (r_id out) (l_touched a)).
    { apply IH; cbn [drop l_rems]; [apply rems_wf_del; exact H1 | apply pend_ok_drop; exact H2]. }
    split; assumption.
  Qed.

  (* ---- steps --------------------------------------------------------------------------------------------- *)

  Definition l_teardown := teardown_spec ns tout cname tc (t_is_out ns tin tout cname) (t_name ns tin tout cname).
  Definition l_destroy := destroy_spec ns tout cname tc (t_is_out ns tin tout cname) (t_name ns tin tout cname).
  Definition l_remfin := remfin_spec ns tin cname tc (t_fin_in ns tin tout cname).

  Lemma owned_frame_at o st st' : st_get (kout o) st' = st_get (kout o) st -> owned o st' -> owned o st.
  Proof. unfold GenCtlProofs.owned_out. intros E. rewrite E. tauto. Qed.

  Lemma l_worker_inv now fault sel s : LInv s -> LInv (l_step s (LStep now fault sel)).
  Proof.
    destruct s as [st pc]. unfold LInv, TransformList.l_step. cbn [ls_store ls_pc].
    destruct pc as [|inp o todo a|inp o todo a|a|out todo a|out todo a|a|b]; cbn [l_request]; intros Hi.
    - (* L0 *) rewrite l_list_in. cbn [l_resume]. apply adv_in_inv. intros o x [].
    - (* LAddFin *)
      destruct (a_apply now tc _ st) as [st' r]. cbn [l_resume].
      destruct r; try (apply adv_in_inv; exact Hi). exact Hi.
    - (* LModify *)
      destruct (a_apply now tc _ st) as [st' r]. cbn [l_resume].
      destruct r as [|e|w|l|b|]; try (apply adv_in_inv; exact Hi).
      destruct e as [e| | |]; try (apply adv_in_inv; exact Hi).
      destruct (is_conflict e ns tout); apply adv_in_inv; exact Hi.
    - (* LListOut *)
      rewrite l_list_out. cbn [l_resume]. apply adv_out_inv; [exact Hi|].
      intros o x Hin. destruct (st_get (kout o) st) as [r|] eqn:Hg.
      + left. eapply st_get_in_list. exact Hg.
      + right. intros [r [Hr _]]. rewrite Hg in Hr. discriminate.
    - (* LTeardown *)
      destruct Hi as [H1 H2]. change (ns, tout, r_id out) with (kout (r_id out)).
      destruct (a_apply now tc (ATeardown (kout (r_id out)) None) st) as [st' r] eqn:Ea.
      destruct (l_teardown _ _ _ _ _ Ea) as [Fr [Hrd [Herr _]]].
      assert (Mono : forall o, owned o st' -> owned o st).
      { intros o. destruct (N.eq_dec o (r_id out)) as [E|E].
        - subst o. destruct r as [|e|w|l|b|]; try (rewrite Herr by (intros b0; discriminate); tauto).
          destruct (Hrd b eq_refl) as [w [Hw [_ [_ [cur [Hc [Ow _]]]]]]].
          intros [w' [Hw' Ho]]. rewrite Hw in Hw'. inversion Hw'; subst w'. exists cur. split; [exact Hc | congruence].
        - apply owned_frame_at. apply Fr. apply kout_neq. exact E. }
      cbn [l_resume].
      destruct r as [|e|w|l|b|];
        try (apply adv_out_inv; cbn [with_err drop l_rems];
             [apply rems_wf_del; exact H1 | apply pend_ok_drop; eapply pend_ok_mono; [exact Mono | exact H2]]).
      destruct b.
      + split; [exact H1 | eapply pend_ok_mono; [exact Mono | exact H2]].
      + apply adv_out_inv; cbn [drop l_rems];
          [apply rems_wf_del; exact H1 | apply pend_ok_drop; eapply pend_ok_mono; [exact Mono | exact H2]].
    - (* LDestroy *)
      destruct Hi as [H1 H2]. change (ns, tout, r_id out) with (kout (r_id out)).
      destruct (a_apply now tc (ADestroy (kout (r_id out)) None) st) as [st' r] eqn:Ea.
      destruct (l_destroy _ _ _ _ _ Ea) as [Fr [Hok Herr]].
      assert (Mono : forall o, o <> r_id out -> owned o st' -> owned o st).
      { intros o E. apply owned_frame_at. apply Fr. apply kout_neq. exact E. }
      cbn [l_resume].
      destruct r as [|e|w|l|b|];
        try (rewrite (Herr ltac:(discriminate)); apply adv_out_inv; cbn [with_err drop l_rems];
             [apply rems_wf_del; exact H1 | apply pend_ok_drop; exact H2]).
      destruct (Hok eq_refl) as [_ Hn]. apply adv_out_inv; [exact H1|].
      intros o x Hin. destruct (N.eq_dec o (r_id out)) as [E|E].
      + right. subst o. intros [w [Hw _]]. rewrite Hn in Hw. discriminate.
      + destruct (H2 o x Hin) as [[E'|A]|A]; [congruence | left; exact A | right; intros C; apply A, Mono; assumption].
    - (* LRem *)
      destruct Hi as [H1 H2].
      destruct (existsb (fun p => N.eqb (snd p) sel) (l_rems a)); [|split; assumption].
      change (ns, tin, sel) with (kin sel).
      destruct (a_apply now tc (ARemFin (kin sel) [cname]) st) as [st' r] eqn:Ea.
      pose proof (l_remfin _ _ _ _ _ Ea) as Fr.
      assert (Mono : forall o, owned o st' -> owned o st).
      { intros o. apply owned_frame_at. apply Fr. apply (kout_kin ns tin tout Hty). }
      cbn [l_resume].
      assert (Sub : forall p, In p (rem_del_in sel (l_rems a)) -> In p (l_rems a)).
      { intros p Hp. apply filter_In in Hp. tauto. }
      destruct r; apply adv_rem_inv; cbn [with_err l_rems];
        try (apply rems_wf_del_in; exact H1);
        (eapply pend_ok_sub; [exact Sub | eapply pend_ok_mono; [exact Mono | exact H2]]).
    - exact I.
  Qed.

  (* what the property assumes of every other party: it does not make an output owned by the controller appear *)
  Definition l_env_ok (st st' : store) : Prop := forall o, owned o st' -> owned o st.

  Fixpoint l_env_respects (s : lsys) (l : list lchoice) : Prop :=
    match l with
    | [] => True
    | ch :: t =>
        (match ch with LEnv now o => l_env_ok (ls_store s) (apply_st now o (ls_store s)) | _ => True end) /\
        l_env_respects (l_step s ch) t
    end.

  Lemma l_step_inv s ch :
    LInv s -> (match ch with LEnv now o => l_env_ok (ls_store s) (apply_st now o (ls_store s)) | _ => True end) ->
    LInv (l_step s ch).
  Proof.
    intros Hi He. destruct ch as [now fault sel|now o|].
    - apply l_worker_inv. exact Hi.
    - destruct s as [st pc]. unfold LInv, TransformList.l_step in *. cbn [ls_store ls_pc] in *.
      destruct pc; try exact Hi; destruct Hi as [H1 H2]; (split; [exact H1 | eapply pend_ok_mono; [exact He | exact H2]]).
    - destruct s as [st pc]. unfold TransformList.l_step. cbn [ls_pc ls_store]. destruct pc; exact Hi.
  Qed.

  Theorem l_safety l : forall s, LInv s -> l_env_respects s l -> LInv (l_run s l).
  Proof.
    induction l as [|ch l IH]; intros s Hi Hr; [exact Hi|]. destruct Hr as [He Hr].
    unfold TransformList.l_run. cbn [fold_left]. apply IH; [apply l_step_inv; assumption | exact Hr].
  Qed.

  (* C07 for the whole cycle and any mapping: whenever the controller issues RemoveFinalizer on an input, that input
     maps to an output which, at that instant, does not exist as an output owned by the controller - also when other
     inputs map to the same output - and the release itself does not change that *)
  Theorem l_remfin_only_without_output l now fault sel x :
    l_env_respects (mkLS [] L0) l ->
    let s := l_run (mkLS [] L0) l in
    l_request ns tin tout cname tf (ls_pc s) fault sel = Some (ARemFin (ns, tin, x) [cname]) ->
    exists o, mapf x = Some o /\ ~ owned o (ls_store s) /\ ~ owned o (ls_store (l_step s (LStep now fault sel))).
  Proof.
    intros Hr s Hq. assert (Hi : LInv s) by (apply l_safety; [exact I | exact Hr]).
    pose proof (l_worker_inv now fault sel s Hi) as Hi'.
    destruct s as [st pc]. cbn [ls_pc ls_store] in *.
    destruct pc as [|inp o todo a|inp o todo a|a|out todo a|out todo a|a|b]; cbn [l_request] in Hq; try discriminate.
    destruct (existsb (fun p => N.eqb (snd p) sel) (l_rems a)) eqn:Ex; [|discriminate].
    inversion Hq; subst x. apply existsb_exists in Ex. destruct Ex as [[o x] [Hin Hx]]. cbn [snd] in Hx.
    apply N.eqb_eq in Hx. subst x. unfold LInv in Hi. cbn [ls_pc ls_store] in Hi. destruct Hi as [H1 H2].
    exists o. split; [apply H1; exact Hin|]. destruct (H2 o sel Hin) as [[]|A]. split; [exact A|].
    unfold TransformList.l_step. cbn [ls_pc ls_store l_request]. rewrite (proj2 (existsb_exists _ _)) by (exists (o, sel); split; [exact Hin | apply N.eqb_refl]).
    change (ns, tin, sel) with (kin sel).
    destruct (a_apply now tc (ARemFin (kin sel) [cname]) st) as [st' r] eqn:Ea. cbn [ls_store].
    intros C. apply A. eapply owned_frame_at; [|exact C]. eapply l_remfin; [exact Ea|]. apply (kout_kin ns tin tout Hty).
  Qed.
  (* ---- what the cycle tears down ---------------------------------------------------------------------- *)

  (* Teardown (and then Destroy) is issued only on outputs the listing showed as owned by the controller and either
     already tearing down or not touched by a running input in this cycle; the touched set is no longer changed by
     cleanupOutputs *)
  Definition LTd (s : lsys) : Prop :=
    match ls_pc s with
    | LTeardown out _ a | LDestroy out _ a =>
        r_owner out = cname /\ (r_phase out = true \/ touched_b (r_id out) (l_touched a) = false)
    | _ => True
    end.

  Lemma adv_out_td st todo : forall a, LTd (mkLS st (adv_out todo a)).
  Proof.
    induction todo as [|out rest IH]; intros a; cbn [TransformList.adv_out].
    - unfold adv_rem. destruct (l_rems a); exact I.
    - destruct (N.eqb_spec (r_owner out) cname) as [Eo|Eo]; cbn [negb]; [|apply IH].
      destruct (r_phase out) eqn:Hp; cbn [negb andb].
      + split; [exact Eo | left; exact Hp].
      + destruct (touched_b (r_id out) (l_touched a)) eqn:Ht; [apply IH|]. split; [exact Eo | right; exact Ht].
  Qed.

  Lemma adv_in_td st todo : forall a, LTd (mkLS st (adv_in todo a)).
  Proof.
    induction todo as [|inp rest IH]; intros a; cbn [TransformList.adv_in]; [exact I|].
    destruct (mapf (r_id inp)); [|apply IH]. destruct (r_phase inp); [apply IH|]. destruct (has_fin cname inp); exact I.
  Qed.

  Theorem l_teardown_only_unwanted l : forall s, LTd s -> LTd (l_run s l).
  Proof.
    induction l as [|ch l IH]; intros s Hs; [exact Hs|]. unfold TransformList.l_run. cbn [fold_left]. apply IH.
    destruct s as [st pc]. destruct ch as [now fault sel|now o|]; unfold TransformList.l_step; cbn [ls_store ls_pc].
    - destruct pc as [|inp o todo a|inp o todo a|a|out todo a|out todo a|a|b]; cbn [l_request].
      + rewrite l_list_in. apply adv_in_td.
      + destruct (a_apply now tc _ st) as [st' r]. cbn [l_resume]. destruct r; try apply adv_in_td. exact I.
      + destruct (a_apply now tc _ st) as [st' r]. cbn [l_resume].
        destruct r as [|e|w|l0|b|]; try apply adv_in_td. destruct e as [e| | |]; try apply adv_in_td.
        destruct (is_conflict e ns tout); apply adv_in_td.
      + rewrite l_list_out. apply adv_out_td.
      + destruct (a_apply now tc _ st) as [st' r]. cbn [l_resume].
        destruct r as [|e|w|l0|b|]; try apply adv_out_td. destruct b; [exact Hs | apply adv_out_td].
      + destruct (a_apply now tc _ st) as [st' r]. cbn [l_resume]. destruct r; apply adv_out_td.
      + destruct (existsb (fun p => N.eqb (snd p) sel) (l_rems a)); [|exact I].
        destruct (a_apply now tc _ st) as [st' r]. cbn [l_resume].
        destruct r; unfold adv_rem; cbn [with_err l_rems]; destruct (rem_del_in sel (l_rems a)); exact I.
      + exact I.
    - exact Hs.
    - destruct pc; exact Hs.
  Qed.

End TLProofs.

(* non-vacuity, many-to-one: inputs 7 and 8 both map to output 50.  Both carry the finalizer and the output exists; 7 is
   torn down while 8 runs: the cycle ends without a release and 7 keeps its finalizer.  Then 8 is torn down too: the
   output is torn down and destroyed, one release is issued in that cycle - for an input whose output is gone. *)
Definition ex_map (x : atom) : option atom := Some 50.
Definition ex_run (l : list lchoice) := l_run 1 2 3 4 (fun v => v + 100) ex_map (fun _ => None) (mkLS [] L0) l.
Definition ex_steps (n : nat) (sel : atom) : list lchoice := repeat (LStep 5 false sel) n.
Definition ex_history : list lchoice :=
  [LEnv 1 (OpCreate (mkRes 1 2 7 None 0 false [] [] 0 0 70) 0); LEnv 1 (OpCreate (mkRes 1 2 8 None 0 false [] [] 0 0 80) 0)]
  ++ ex_steps 8 0 ++ [LRestart].

Example ex_many_to_one_keeps_finalizer :
  let s0 := ex_run ex_history in
  (exists i7, st_get (1, 2, 7) (ls_store s0) = Some i7 /\ has_fin 4 i7 = true) /\
  (exists o, st_get (1, 3, 50) (ls_store s0) = Some o /\ r_owner o = 4) /\
  (* tear down 7 (version 2 after AddFinalizer), run a whole cycle *)
  let td7 := LEnv 6 (OpUpdate (mkRes 1 2 7 (Some 2) 0 true [4] [] 0 0 70) 0 None) in
  let s1 := ex_run (ex_history ++ [td7] ++ ex_steps 8 7) in
  ls_pc s1 = LDone true /\
  (exists i7, st_get (1, 2, 7) (ls_store s1) = Some i7 /\ has_fin 4 i7 = true /\ r_phase i7 = true) /\
  (exists o, st_get (1, 3, 50) (ls_store s1) = Some o /\ r_owner o = 4).
Proof. cbv zeta. repeat split; try (eexists; split; [vm_compute; reflexivity|]); try (vm_compute; reflexivity); repeat split; vm_compute; reflexivity. Qed.

(* ... and the release hypothesis of l_remfin_only_without_output is met: with both inputs torn down the cycle destroys
   the output and then issues one release (input 8, the later writer of the bookkeeping entry); input 7 follows in the
   next cycle, when no output exists any more *)
Example ex_many_to_one_release_reached :
  let td7 := LEnv 6 (OpUpdate (mkRes 1 2 7 (Some 2) 0 true [4] [] 0 0 70) 0 None) in
  let td8 := LEnv 7 (OpUpdate (mkRes 1 2 8 (Some 2) 0 true [4] [] 0 0 80) 0 None) in
  let s := ex_run (ex_history ++ [td7; td8] ++ ex_steps 4 8) in
  l_request 1 2 3 4 (fun v => v + 100) (ls_pc s) false 8 = Some (ARemFin (1, 2, 8) [4]) /\
  st_get (1, 3, 50) (ls_store s) = None /\
  let s' := ex_run (ex_history ++ [td7; td8] ++ ex_steps 5 8 ++ [LRestart] ++ ex_steps 2 7) in
  l_request 1 2 3 4 (fun v => v + 100) (ls_pc s') false 7 = Some (ARemFin (1, 2, 7) [4]).
Proof. cbv zeta. repeat split; vm_compute; reflexivity. Qed.
