(* TransformProofs.v — C07 for the Transform controller's cycle (rruntime flavour), against an arbitrary environment. *)
From Verif Require Import Store StoreProofs Helpers HelpersProofs DepDB Access AccessProofs GenCtl GenCtlProofs CtrlSpec Transform.
From Coq Require Import Lia.
Open Scope N_scope.

Local Opaque st_put st_del.

Section TFProofs.
  Variables (ns tin tout cname : atom) (tf : atom -> atom).
  Hypothesis Hty : tin <> tout.

  Notation kin := (kin ns tin).
  Notation kout := (kout ns tout).
  Notation tc := (tctrl ns tin tout cname).
  Notation has_fin := (has_fin cname).
  Notation in_fin := (in_fin ns tin cname).
  Notation owned_out := (owned_out ns tout cname).
  Notation out_td_if_owned := (out_td_if_owned ns tout cname).
  Notation env_ok := (env_ok ns tin tout cname).
  Notation t_step := (t_step ns tin tout cname tf).

  Lemma t_rd_in x : check_read tc ns tin (Some x) = true.
  Proof. unfold check_read, tctrl; simpl. rewrite !N.eqb_refl. simpl. apply orb_true_r. Qed.
  Lemma t_rd_out x : check_read tc ns tout (Some x) = true.
  Proof. unfold check_read, tctrl, is_output; simpl. rewrite !N.eqb_refl. reflexivity. Qed.
  Lemma t_is_out : is_output tc tout = true.
  Proof. unfold is_output, tctrl; simpl. rewrite N.eqb_refl. reflexivity. Qed.
  Lemma t_fin_in x : check_finalizer tc ns tin x = true.
  Proof. unfold check_finalizer, tctrl; simpl. rewrite !N.eqb_refl. reflexivity. Qed.
  Lemma t_name : N.eqb (c_name tc) cname = true.
  Proof. apply N.eqb_refl. Qed.

  Definition t_get_in := get_in_spec ns tin tc t_rd_in.
  Definition t_get_out := get_out_spec ns tout tc t_rd_out.
  Definition t_addfin := addfin_spec ns tin tout cname tc Hty t_rd_in t_rd_out t_is_out t_fin_in t_name.
  Definition t_remfin := remfin_spec ns tin cname tc t_fin_in.
  Definition t_modify := modify_frame ns tout tc t_is_out.
  Definition t_teardown := teardown_spec ns tout cname tc t_is_out t_name.
  Definition t_destroy := destroy_spec ns tout cname tc t_is_out t_name.

  Definition TInv (x : atom) (s : tsys) : Prop :=
    let st := ts_store s in
    (owned_out x st -> in_fin x st) /\
    match ts_pc s with
    | TModify _ _ => in_fin x st
    | TDestroy _ _ => out_td_if_owned x st
    | TRemFin _ => ~ owned_out x st
    | _ => True
    end.

  Lemma t_in_fin_frame x st st' : st_get (kin x) st' = st_get (kin x) st -> in_fin x st -> in_fin x st'.
  Proof. unfold GenCtlProofs.in_fin. intros E. rewrite E. tauto. Qed.
  Lemma t_owned_frame x st st' : st_get (kout x) st' = st_get (kout x) st -> owned_out x st' -> owned_out x st.
  Proof. unfold GenCtlProofs.owned_out. intros E. rewrite E. tauto. Qed.

  Lemma t_worker_inv now fault x s : TInv x s -> TInv x (t_step x s (TStep now fault)).
  Proof.
    destruct s as [st pc]. unfold TInv, Transform.t_step. cbn [ts_store ts_pc].
    intros [I1 I2]. destruct pc as [|inp|inp e|touched rem e|rem e|rem e|e|b]; cbn [t_request].
    - (* T0 *)
      change (ns, tin, x) with (kin x). rewrite t_get_in. cbn [ts_store ts_pc]. split; [exact I1|].
      destruct (st_get (kin x) st) as [inp|] eqn:Hi; cbn [t_resume]; [|exact I].
      destruct (r_phase inp); [exact I|]. destruct (GenCtl.has_fin cname inp) eqn:Hf; [|exact I]. exists inp. auto.
    - (* TAddFin *)
      change (ns, tin, x) with (kin x).
      destruct (a_apply now tc (AAddFin (kin x) [cname]) st) as [st' r] eqn:Ea. cbn [ts_store ts_pc].
      destruct (t_addfin _ _ _ _ _ Ea) as [Fr [Hok [Hmono Herr]]]. split.
      + intros Ho. apply Hmono. apply I1. eapply t_owned_frame; [|exact Ho]. apply Fr. apply kout_kin. exact Hty.
      + cbn [t_resume]. destruct r; try exact I. apply Hok. reflexivity.
    - (* TModify *)
      destruct (a_apply now tc _ st) as [st' r] eqn:Ea. cbn [ts_store ts_pc].
      pose proof (t_modify _ _ _ _ _ _ _ Ea) as Fr.
      assert (F : in_fin x st') by (eapply t_in_fin_frame; [apply Fr; apply kin_kout; exact Hty | exact I2]).
      split; [intros _; exact F|]. cbn [t_resume].
      destruct r as [|er|w|l|b|]; try exact I; destruct (is_conflict_res _); exact I.
    - (* TListOut *)
      change (ns, tout, x) with (kout x). rewrite t_get_out. cbn [ts_store ts_pc]. split; [exact I1|].
      destruct (st_get (kout x) st) as [o|] eqn:Ho; cbn [t_resume].
      + destruct (negb (N.eqb (r_owner o) cname)); [exact I|]. destruct (negb (r_phase o) && touched); exact I.
      + destruct rem; [|exact I]. intros [o [Ho' _]]. congruence.
    - (* TTeardown *)
      change (ns, tout, x) with (kout x).
      destruct (a_apply now tc (ATeardown (kout x) None) st) as [st' r] eqn:Ea. cbn [ts_store ts_pc].
      destruct (t_teardown _ _ _ _ _ Ea) as [Fr [Hrd [Herr Hnf]]].
      assert (FI : in_fin x st -> in_fin x st') by (apply t_in_fin_frame; apply Fr; apply kin_kout; exact Hty).
      split.
      + intros [o [Ho Hown]]. apply FI. apply I1.
        destruct r as [|er|w|l|b|]; try (rewrite Herr in Ho by (intros b0; discriminate); exists o; auto).
        destruct (Hrd b eq_refl) as [w [Hw [_ [_ [cur [Hc [Ow _]]]]]]]. rewrite Ho in Hw. inversion Hw; subst w.
        exists cur. split; [exact Hc | congruence].
      + cbn [t_resume]. destruct r as [|er|w|l|b|]; try exact I. destruct b; [|exact I].
        destruct (Hrd true eq_refl) as [w [Hw [Hp _]]]. intros o Ho _. rewrite Ho in Hw. inversion Hw; subst w. exact Hp.
    - (* TDestroy *)
      change (ns, tout, x) with (kout x).
      destruct (a_apply now tc (ADestroy (kout x) None) st) as [st' r] eqn:Ea. cbn [ts_store ts_pc].
      destruct (t_destroy _ _ _ _ _ Ea) as [Fr [Hok Herr]].
      assert (FI : in_fin x st -> in_fin x st') by (apply t_in_fin_frame; apply Fr; apply kin_kout; exact Hty).
      split.
      + intros [o [Ho Hown]]. apply FI. apply I1.
        destruct r; try (rewrite Herr in Ho by discriminate; exists o; auto).
        destruct (Hok eq_refl) as [_ Hn]. rewrite Hn in Ho. discriminate.
      + cbn [t_resume]. destruct r; try exact I. destruct rem; [|exact I].
        destruct (Hok eq_refl) as [_ Hn]. intros [o [Ho _]]. rewrite Hn in Ho. discriminate.
    - (* TRemFin *)
      change (ns, tin, x) with (kin x).
      destruct (a_apply now tc (ARemFin (kin x) [cname]) st) as [st' r] eqn:Ea. cbn [ts_store ts_pc].
      pose proof (t_remfin _ _ _ _ _ Ea) as Fr.
      assert (N : ~ owned_out x st').
      { intros Ho. apply I2. eapply t_owned_frame; [|exact Ho]. apply Fr. apply kout_kin. exact Hty. }
      split; [intros Ho; contradiction|]. cbn [t_resume]. destruct r; exact I.
    - cbn [ts_store ts_pc]. split; [exact I1 | exact I].
  Qed.

  Lemma t_env_inv now o x s :
    TInv x s -> env_ok x (ts_store s) (apply_st now o (ts_store s)) -> TInv x (t_step x s (TEnv now o)).
  Proof.
    destruct s as [st pc]. unfold TInv, Transform.t_step. cbn [ts_store ts_pc].
    intros [I1 I2] [E1 [E2 E3]]. split; [tauto|]. destruct pc; try exact I; try tauto.
  Qed.

  Lemma t_restart_inv x s : TInv x s -> TInv x (t_step x s TRestart).
  Proof.
    destruct s as [st pc]. unfold TInv, Transform.t_step. cbn [ts_store ts_pc].
    intros [I1 I2]. destruct pc; cbn [ts_store ts_pc]; split; auto.
  Qed.

  Fixpoint t_env_respects (x : atom) (s : tsys) (l : list tchoice) : Prop :=
    match l with
    | [] => True
    | ch :: t =>
        match ch with TEnv now o => env_ok x (ts_store s) (apply_st now o (ts_store s)) | _ => True end /\
        t_env_respects x (t_step x s ch) t
    end.

  Theorem t_safety x l : forall s, TInv x s -> t_env_respects x s l -> TInv x (t_run ns tin tout cname tf x s l).
  Proof.
    unfold t_run. induction l as [|ch t IH]; intros s Hi Hr; [exact Hi|]. cbn [fold_left]. destruct Hr as [Hc Ht].
    apply IH; [|exact Ht]. destruct ch; [apply t_worker_inv | apply t_env_inv | apply t_restart_inv]; assumption.
  Qed.

  Lemma TInv_init x : TInv x (mkTS [] T0).
  Proof. unfold TInv, GenCtlProofs.owned_out; simpl. split; [intros [o [H _]]; discriminate | exact I]. Qed.

  (* C07 for transform.Controller: an owned output implies that the input exists and carries the finalizer, at
     every instant of every cycle, whatever the environment (within env_ok) does in between the calls *)
  Theorem t_finalizer_brackets_output x l :
    t_env_respects x (mkTS [] T0) l ->
    let st := ts_store (t_run ns tin tout cname tf x (mkTS [] T0) l) in
    forall o, st_get (kout x) st = Some o -> r_owner o = cname ->
    exists inp, st_get (kin x) st = Some inp /\ has_fin inp = true.
  Proof.
    intros Hr st o Ho Hown. destruct (t_safety x l _ (TInv_init x) Hr) as [I1 _]. apply I1. exists o. auto.
  Qed.

  Theorem t_destroy_only_torn_down now fault x s st' :
    TInv x s -> t_request ns tin tout cname tf x (ts_pc s) fault = Some (ADestroy (kout x) None) ->
    a_apply now tc (ADestroy (kout x) None) (ts_store s) = (st', AOk) ->
    exists o, st_get (kout x) (ts_store s) = Some o /\ r_phase o = true /\ r_fins o = [] /\ st_get (kout x) st' = None.
  Proof.
    destruct s as [st pc]. unfold TInv. cbn [ts_store ts_pc]. intros [I1 I2] Hpc Ha.
    destruct (t_destroy _ _ _ _ _ Ha) as [_ [Hok _]]. destruct (Hok eq_refl) as [[cur [Hc [Ow Hf]]] Hn].
    destruct pc; cbn [t_request] in Hpc; try discriminate.
    exists cur. repeat split; auto.
  Qed.

  Theorem t_remfin_only_without_output x s e : TInv x s -> ts_pc s = TRemFin e -> ~ owned_out x (ts_store s).
  Proof. destruct s as [st pc]. unfold TInv. cbn [ts_store ts_pc]. intros [_ I2] ->. exact I2. Qed.
End TFProofs.
