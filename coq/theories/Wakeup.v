(* Wakeup.v — no missed wake-up, as an invariant of the whole system (store + any helper threads + environment), for
   every schedule: a helper blocked on its watch with nothing queued is waiting legitimately - the state the resource
   has NOW, were it delivered, would keep it waiting. For TeardownAndDestroy: the resource still holds a finalizer; for a
   teardown-bound context: the resource exists and is running. So whenever the condition a blocked helper waits for
   holds, a delivery step of that helper is enabled. *)
From Verif Require Import Store StoreProofs Helpers HelpersProofs.
From Coq Require Import Lia.
Open Scope N_scope.

Local Opaque st_put st_del.

Definition describes (k : key) (st : store) (e : hev) : Prop :=
  match e with
  | HvCreated r | HvUpdated r => st_get k st = Some r
  | HvDestroyed _ => st_get k st = None
  | HvErrored => True
  end.

Definition cur_ev (k : key) (st : store) : hev :=
  match st_get k st with Some r => HvUpdated r | None => HvDestroyed None end.

Definition waits_on_state (c : hcall) : Prop :=
  match h_kind c with KTeardownAndDestroy | KCtxTeardown => True | _ => False end.

(* the thread's view: the newest queued event describes the store; with nothing queued, a blocked thread is blocked
   on the current state *)
Definition view_ok (st : store) (t : thread) : Prop :=
  let c := th_call t in
  (th_pc t = PRecv -> th_watch t <> None) /\
  match th_watch t with
  | None => True
  | Some q =>
      match last_opt q with
      | Some e => describes (h_key c) st e
      | None => th_pc t = PRecv -> resume c PRecv (SEv (cur_ev (h_key c) st)) = PRecv
      end
  end.

Lemma last_opt_app_single {A} (q : list A) x : last_opt (q ++ [x]) = Some x.
Proof. apply last_opt_snoc. Qed.

Lemma last_opt_cons_nonempty {A} (e : A) (q : list A) : q <> [] -> last_opt (e :: q) = last_opt q.
Proof.
  intros Hq. unfold last_opt. simpl. destruct (rev q) as [|y t] eqn:E.
  - apply (f_equal (@rev A)) in E. rewrite rev_involutive in E. contradiction.
  - reflexivity.
Qed.

(* a delivered description of the current state that keeps the helper waiting: the current state keeps it waiting *)
Lemma stays_waiting c st e :
  waits_on_state c -> describes (h_key c) st e ->
  resume c PRecv (SEv e) = PRecv -> resume c PRecv (SEv (cur_ev (h_key c) st)) = PRecv.
Proof.
  unfold waits_on_state, cur_ev. intros Hw Hd Hr. cbn [resume] in *.
  destruct (h_kind c); try contradiction; destruct e as [r|r|d|]; cbn [describes] in Hd; try rewrite Hd; try discriminate; exact Hr.
Qed.

(* resume reaches PRecv only by establishing the watch or by staying in PRecv *)
Lemma uwc_after_get_shape' c o e cur :
  match uwc_after_get c o e cur with PDone _ | PUpd _ _ _ _ => True | _ => False end.
Proof.
  unfold uwc_after_get. destruct (match e with Some p => negb (Bool.eqb p (r_phase cur)) | None => false end); [exact I|].
  destruct (mutate (h_mut c) cur) as [new|]; [|exact I]. destruct (res_equal cur new); exact I.
Qed.

Lemma after_commit_not_recv c r : after_commit c r <> PRecv.
Proof. unfold after_commit. destruct (h_kind c); try discriminate. destruct (r_fins r); discriminate. Qed.

Lemma resume_to_recv c pc rsp :
  resume c pc rsp = PRecv -> pc = PRecv \/ rsp = SWatched.
Proof.
  destruct pc as [|o e|o e cur new|new| | | |r]; destruct rsp as [g|r'| |ev]; cbn [resume]; intros H; auto; try discriminate.
  all: try (destruct r' as [x| |w|w|l]; try discriminate; try (destruct (plain_conflict x); discriminate); try (exfalso; exact (after_commit_not_recv _ _ H))).
  - exfalso. destruct (h_kind c) as [| | |empty| | |]; destruct g as [cur|]; try discriminate.
    + pose proof (uwc_after_get_shape' c (h_owner c) (h_exp c) cur) as S. rewrite H in S. exact S.
    + destruct (r_phase cur); [exact (after_commit_not_recv _ _ H) | discriminate].
    + destruct (mutate (h_mut c) empty); discriminate.
    + destruct (r_phase cur); [exact (after_commit_not_recv _ _ H) | discriminate].
  - exfalso. destruct g as [cur|]; [|discriminate].
    pose proof (uwc_after_get_shape' c o e cur) as S.
    destruct (uwc_after_get c o e cur) as [| | | | | | |[x|w| |]]; try discriminate; try contradiction.
    exact (after_commit_not_recv _ _ H).
Qed.

Lemma request_recv c pc : request c pc = QRecv <-> pc = PRecv.
Proof. destruct pc; cbn [request]; split; intros H; try discriminate; try reflexivity; destruct (h_kind c); discriminate. Qed.

Lemma set_nth_nth {A} j i (x : A) l :
  nth_error (set_nth j x l) i = if Nat.eqb i j then (match nth_error l j with Some _ => Some x | None => None end) else nth_error l i.
Proof.
  revert j i; induction l as [|y l IH]; intros j i.
  - destruct i, j; simpl; try reflexivity; destruct (Nat.eqb _ _); reflexivity.
  - destruct j, i; simpl; try reflexivity. apply IH.
Qed.

(* (A) a committed (or refused) store operation by anybody, with the notification it causes *)
Lemma view_ok_apply now o st st' res ev t :
  apply now o st = (st', res, ev) -> view_ok st t ->
  forall t', th_call t' = th_call t -> th_pc t' = th_pc t ->
    th_watch t' = match th_watch t with
                  | Some q => Some (q ++ match ev with
                                         | Some e => if key_eqb (h_key (th_call t)) (r_key (ev_res e)) then [hev_of_event e] else []
                                         | None => []
                                         end)
                  | None => None
                  end ->
    view_ok st' t'.
Proof.
  intros Ha [V1 V2] t' Hc Hp Hw. unfold view_ok. rewrite Hc, Hp, Hw. set (k := h_key (th_call t)) in *.
  destruct (th_watch t) as [q|]; [|split; [exact V1 | exact I]].
  split; [discriminate|].
  destruct (apply_shape _ _ _ _ _ _ Ha) as [[-> [-> _]] | [[w [-> [_ [_ [_ [_ Hg]]]]]] | [[w [cur [-> [_ [_ [_ Hg]]]]]] | [cur [k0 [owner [_ [-> [_ [Hk0 Hg]]]]]]]]]].
  - rewrite app_nil_r. exact V2.
  - cbn [ev_res hev_of_event]. destruct (key_eqb_spec k (r_key w)) as [E|E].
    + rewrite last_opt_snoc. cbn [describes]. rewrite Hg. rewrite E. destruct (key_eqb_spec (r_key w) (r_key w)); congruence.
    + rewrite app_nil_r. unfold cur_ev in *. unfold describes in *. rewrite !Hg.
      destruct (key_eqb_spec k (r_key w)); [contradiction|]. exact V2.
  - cbn [ev_res hev_of_event]. destruct (key_eqb_spec k (r_key w)) as [E|E].
    + rewrite last_opt_snoc. cbn [describes]. rewrite Hg. rewrite E. destruct (key_eqb_spec (r_key w) (r_key w)); congruence.
    + rewrite app_nil_r. unfold cur_ev in *. unfold describes in *. rewrite !Hg.
      destruct (key_eqb_spec k (r_key w)); [contradiction|]. exact V2.
  - cbn [ev_res hev_of_event]. rewrite Hk0. destruct (key_eqb_spec k k0) as [E|E].
    + rewrite last_opt_snoc. cbn [describes]. rewrite Hg. rewrite E. destruct (key_eqb_spec k0 k0); congruence.
    + rewrite app_nil_r. unfold cur_ev in *. unfold describes in *. rewrite !Hg.
      destruct (key_eqb_spec k k0); [contradiction|]. exact V2.
Qed.

Definition all_ok (s : hsys) : Prop :=
  forall j t, nth_error (sy_threads s) j = Some t -> waits_on_state (th_call t) -> view_ok (sy_store s) t.

Lemma notify_nth ev ths j :
  nth_error (notify ev ths) j =
  match nth_error ths j with
  | None => None
  | Some t =>
      Some (match th_watch t, ev with
            | Some q, Some e => if key_eqb (h_key (th_call t)) (r_key (ev_res e))
                                then mkTh (th_call t) (th_pc t) (Some (q ++ [hev_of_event e])) else t
            | _, _ => t
            end)
  end.
Proof.
  unfold notify. destruct ev as [e|].
  - rewrite nth_error_map. destruct (nth_error ths j) as [t|]; [|reflexivity]. cbn [option_map]. destruct (th_watch t); reflexivity.
  - destruct (nth_error ths j) as [t|]; [|reflexivity]. destruct (th_watch t); reflexivity.
Qed.

(* every thread of the notified list is the old thread with the event appended when the key matches *)
Lemma notify_view now o st st' res ev ths :
  apply now o st = (st', res, ev) ->
  (forall j t, nth_error ths j = Some t -> waits_on_state (th_call t) -> view_ok st t) ->
  forall j t', nth_error (notify ev ths) j = Some t' -> waits_on_state (th_call t') -> view_ok st' t'.
Proof.
  intros Ha Hall j t' Hn Hw. rewrite notify_nth in Hn. destruct (nth_error ths j) as [t|] eqn:Et; [|discriminate].
  injection Hn as Ht'. symmetry in Ht'.
  assert (Hc : th_call t' = th_call t).
  { rewrite Ht'. destruct (th_watch t), ev; try reflexivity. destruct (key_eqb _ _); reflexivity. }
  assert (Hp : th_pc t' = th_pc t).
  { rewrite Ht'. destruct (th_watch t), ev; try reflexivity. destruct (key_eqb _ _); reflexivity. }
  rewrite Hc in Hw. apply (view_ok_apply _ _ _ _ _ _ t Ha (Hall _ _ Et Hw) t' Hc Hp).
  rewrite Ht'. destruct (th_watch t) as [q|] eqn:Eq, ev as [e|]; cbn [th_watch]; rewrite ?Eq; try rewrite app_nil_r; try reflexivity.
  destruct (key_eqb _ _); cbn [th_watch]; rewrite ?Eq, ?app_nil_r; reflexivity.
Qed.

(* replacing the program counter of a thread by one that is not "blocked on the watch" keeps its view *)
Lemma view_ok_repc st t pc' :
  view_ok st t -> pc' <> PRecv -> view_ok st (mkTh (th_call t) pc' (th_watch t)).
Proof.
  intros [V1 V2] Hn. unfold view_ok. cbn [th_call th_pc th_watch]. split; [intros H; contradiction|].
  destruct (th_watch t) as [q|]; [|exact I]. destruct (last_opt q); [exact V2 | intros H; contradiction].
Qed.

Lemma resume_not_recv c pc rsp : pc <> PRecv -> rsp <> SWatched -> resume c pc rsp <> PRecv.
Proof. intros Hp Hr H. destruct (resume_to_recv _ _ _ H); contradiction. Qed.

Lemma request_not_recv c pc : request c pc <> QRecv -> pc <> PRecv.
Proof. intros H E. apply H. apply request_recv. exact E. Qed.

Theorem all_ok_step s ch : all_ok s -> all_ok (sys_step s ch).
Proof.
  intros HA. destruct ch as [i now|now o|i]; cbn [sys_step].
  - (* a thread performs its pending request *)
    destruct (nth_error (sy_threads s) i) as [t|] eqn:Et; [|exact HA].
    set (c := th_call t).
    destruct (request c (th_pc t)) as [k|r owner exp|r owner|k owner|k| |] eqn:Er.
    + (* Get *)
      intros j t' Hn Hw. cbn [sy_threads sy_store] in *. rewrite set_nth_nth in Hn.
      destruct (Nat.eqb j i); [|exact (HA _ _ Hn Hw)]. rewrite Et in Hn. injection Hn as <-. cbn [th_call] in Hw.
      apply view_ok_repc; [exact (HA _ _ Et Hw)|].
      apply resume_not_recv; [apply (request_not_recv c); rewrite Er; discriminate | discriminate].
    + (* Update *)
      destruct (apply now (OpUpdate r owner exp) (sy_store s)) as [[st' res] ev] eqn:Ea.
      intros j t' Hn Hw. cbn [sy_threads sy_store] in *. rewrite set_nth_nth in Hn.
      pose proof (notify_view _ _ _ _ _ _ _ Ea HA) as HN.
      destruct (Nat.eqb j i); [|exact (HN _ _ Hn Hw)].
      destruct (nth_error (notify ev (sy_threads s)) i) as [x|] eqn:Ex; [|discriminate]. injection Hn as <-. cbn [th_call] in Hw.
      assert (Hcx : th_call x = c).
      { rewrite notify_nth, Et in Ex. injection Ex as <-. destruct (th_watch t), ev; try reflexivity. destruct (key_eqb _ _); reflexivity. }
      rewrite <- Hcx. apply view_ok_repc; [apply (HN _ _ Ex); rewrite Hcx; exact Hw|].
      rewrite Hcx. apply resume_not_recv; [apply (request_not_recv c); rewrite Er; discriminate | discriminate].
    + (* Create *)
      destruct (apply now (OpCreate r owner) (sy_store s)) as [[st' res] ev] eqn:Ea.
      intros j t' Hn Hw. cbn [sy_threads sy_store] in *. rewrite set_nth_nth in Hn.
      pose proof (notify_view _ _ _ _ _ _ _ Ea HA) as HN.
      destruct (Nat.eqb j i); [|exact (HN _ _ Hn Hw)].
      destruct (nth_error (notify ev (sy_threads s)) i) as [x|] eqn:Ex; [|discriminate]. injection Hn as <-. cbn [th_call] in Hw.
      assert (Hcx : th_call x = c).
      { rewrite notify_nth, Et in Ex. injection Ex as <-. destruct (th_watch t), ev; try reflexivity. destruct (key_eqb _ _); reflexivity. }
      rewrite <- Hcx. apply view_ok_repc; [apply (HN _ _ Ex); rewrite Hcx; exact Hw|].
      rewrite Hcx. apply resume_not_recv; [apply (request_not_recv c); rewrite Er; discriminate | discriminate].
    + (* Destroy *)
      destruct (apply now (OpDestroy k owner) (sy_store s)) as [[st' res] ev] eqn:Ea.
      intros j t' Hn Hw. cbn [sy_threads sy_store] in *. rewrite set_nth_nth in Hn.
      pose proof (notify_view _ _ _ _ _ _ _ Ea HA) as HN.
      destruct (Nat.eqb j i); [|exact (HN _ _ Hn Hw)].
      destruct (nth_error (notify ev (sy_threads s)) i) as [x|] eqn:Ex; [|discriminate]. injection Hn as <-. cbn [th_call] in Hw.
      assert (Hcx : th_call x = c).
      { rewrite notify_nth, Et in Ex. injection Ex as <-. destruct (th_watch t), ev; try reflexivity. destruct (key_eqb _ _); reflexivity. }
      rewrite <- Hcx. apply view_ok_repc; [apply (HN _ _ Ex); rewrite Hcx; exact Hw|].
      rewrite Hcx. apply resume_not_recv; [apply (request_not_recv c); rewrite Er; discriminate | discriminate].
    + (* Watch: the subscription captures the current state *)
      intros j t' Hn Hw. cbn [sy_threads sy_store] in *. rewrite set_nth_nth in Hn.
      destruct (Nat.eqb j i); [|exact (HA _ _ Hn Hw)]. rewrite Et in Hn. injection Hn as <-.
      assert (Hk : k = h_key c).
      { destruct (th_pc t); cbn [request] in Er; try discriminate; try (destruct (h_kind c); discriminate); try (injection Er as <-; reflexivity).
        destruct (h_kind c); try discriminate; injection Er as <-; reflexivity. }
      unfold view_ok. cbn [th_call th_pc th_watch]. split; [discriminate|]. cbn [last_opt rev app].
      subst k. fold c. destruct (st_get (h_key c) (sy_store s)) eqn:Eg; cbn [describes]; exact Eg.
    + (* Recv *)
      destruct (th_watch t) as [[|e q]|] eqn:Ew; try exact HA.
      intros j t' Hn Hw. cbn [sy_threads sy_store] in *. rewrite set_nth_nth in Hn.
      destruct (Nat.eqb j i); [|exact (HA _ _ Hn Hw)]. rewrite Et in Hn. injection Hn as <-. cbn [th_call] in Hw.
      destruct (HA _ _ Et Hw) as [V1 V2]. rewrite Ew in V2.
      assert (Hpc : th_pc t = PRecv) by (apply (request_recv c); exact Er).
      unfold view_ok. cbn [th_call th_pc th_watch]. split; [discriminate|]. fold c.
      destruct q as [|e' q'].
      * cbn [last_opt rev app] in V2 |- *. intros Hr. rewrite Hpc in Hr. apply (stays_waiting c _ e Hw V2 Hr).
      * rewrite last_opt_cons_nonempty in V2 by discriminate. destruct (last_opt (e' :: q')) eqn:El; [exact V2|].
        apply last_opt_nil in El. discriminate.
    + exact HA.
  - (* the environment *)
    destruct (apply now o (sy_store s)) as [[st' res] ev] eqn:Ea.
    intros j t' Hn Hw. cbn [sy_threads sy_store] in *. exact (notify_view _ _ _ _ _ _ _ Ea HA _ _ Hn Hw).
  - (* the watch fails *)
    destruct (nth_error (sy_threads s) i) as [t|] eqn:Et; [|exact HA].
    destruct (th_watch t) as [q|] eqn:Ew; [|exact HA].
    intros j t' Hn Hw. cbn [sy_threads sy_store] in *. rewrite set_nth_nth in Hn.
    destruct (Nat.eqb j i); [|exact (HA _ _ Hn Hw)]. rewrite Et in Hn. injection Hn as <-.
    unfold view_ok. cbn [th_call th_pc th_watch]. split; [discriminate|]. rewrite last_opt_snoc. exact I.
Qed.

Theorem all_ok_run sched : forall s, all_ok s -> all_ok (sys_run s sched).
Proof. induction sched as [|ch rest IH]; intros s H; [exact H|]. cbn [sys_run fold_left]. apply IH, all_ok_step, H. Qed.

Lemma all_ok_init st cs : all_ok (mkSys st (map new_thread cs)).
Proof.
  intros j t Hn _. cbn [sy_threads] in Hn. rewrite nth_error_map in Hn. destruct (nth_error cs j); [|discriminate].
  injection Hn as <-. unfold view_ok, new_thread. cbn [th_pc th_watch]. split; [discriminate | exact I].
Qed.

(* ---- the property statements ------------------------------------------------------------------------------------ *)

(* no missed wake-up: from any initial store, any set of helper calls, any schedule of their steps, of environment
   operations and of watch failures: a TeardownAndDestroy blocked on its watch with nothing queued is blocked on a
   resource that holds a finalizer right now *)
Theorem tad_blocked_only_on_finalizers st cs sched i t :
  let s := sys_run (mkSys st (map new_thread cs)) sched in
  nth_error (sy_threads s) i = Some t -> h_kind (th_call t) = KTeardownAndDestroy ->
  th_pc t = PRecv ->
  exists q, th_watch t = Some q /\
    (q = [] -> exists r, st_get (h_key (th_call t)) (sy_store s) = Some r /\ r_fins r <> []).
Proof.
  intros s Hn Hk Hp.
  assert (Hw : waits_on_state (th_call t)) by (unfold waits_on_state; rewrite Hk; exact I).
  destruct (all_ok_run sched _ (all_ok_init st cs) _ _ Hn Hw) as [V1 V2].
  destruct (th_watch t) as [q|]; [|exfalso; apply (V1 Hp); reflexivity].
  exists q. split; [reflexivity|]. intros ->. cbn [last_opt rev] in V2. specialize (V2 Hp).
  unfold cur_ev in V2. fold s in V2.
  destruct (st_get (h_key (th_call t)) (sy_store s)) as [r|]; cbn [resume] in V2; rewrite Hk in V2; [|discriminate V2].
  exists r. split; [reflexivity|]. destruct (r_fins r); [discriminate V2 | discriminate].
Qed.

(* a teardown-bound context still blocked with nothing queued belongs to a resource that exists and is running *)
Theorem ctx_blocked_only_while_running st cs sched i t :
  let s := sys_run (mkSys st (map new_thread cs)) sched in
  nth_error (sy_threads s) i = Some t -> h_kind (th_call t) = KCtxTeardown ->
  th_pc t = PRecv ->
  exists q, th_watch t = Some q /\
    (q = [] -> exists r, st_get (h_key (th_call t)) (sy_store s) = Some r /\ r_phase r = false).
Proof.
  intros s Hn Hk Hp.
  assert (Hw : waits_on_state (th_call t)) by (unfold waits_on_state; rewrite Hk; exact I).
  destruct (all_ok_run sched _ (all_ok_init st cs) _ _ Hn Hw) as [V1 V2].
  destruct (th_watch t) as [q|]; [|exfalso; apply (V1 Hp); reflexivity].
  exists q. split; [reflexivity|]. intros ->. cbn [last_opt rev] in V2. specialize (V2 Hp).
  unfold cur_ev in V2. fold s in V2.
  destruct (st_get (h_key (th_call t)) (sy_store s)) as [r|]; cbn [resume] in V2; rewrite Hk in V2; [|discriminate V2].
  exists r. split; [reflexivity|]. destruct (r_phase r); [discriminate V2 | reflexivity].
Qed.

(* and a queued event is always receivable: the delivery step of a blocked helper with a non-empty queue changes it *)
Theorem recv_enabled s i t e q now :
  nth_error (sy_threads s) i = Some t -> th_pc t = PRecv -> th_watch t = Some (e :: q) ->
  nth_error (sy_threads (sys_step s (CThread i now))) i =
    Some (mkTh (th_call t) (resume (th_call t) PRecv (SEv e)) (Some q)).
Proof.
  intros Hn Hp Hw. cbn [sys_step]. rewrite Hn. rewrite (proj2 (request_recv (th_call t) (th_pc t)) Hp), Hw, Hp.
  cbn [sy_threads]. apply (set_nth_same _ _ _ _ Hn).
Qed.

(* non-vacuity: a TeardownAndDestroy marks the resource, subscribes, receives the initial state and blocks (the
   resource holds a finalizer); the environment removes the finalizer: the change is queued; receiving it leads on *)
Example wakeup_example :
  let k := (1, 2, 3) in
  let r0 := mkRes 1 2 3 None 0 false [7] [] 0%Z 0%Z 9 in
  let c := mkCall KTeardownAndDestroy k MSetTD 0 None in
  let s1 := sys_run (mkSys [] (map new_thread [c]))
              [CEnv 1%Z (OpCreate r0 0); CThread 0 2%Z; CThread 0 3%Z; CThread 0 4%Z; CThread 0 5%Z; CThread 0 5%Z] in
  let cur := mkRes 1 2 3 (Some 2) 0 true [7] [] 1%Z 3%Z 9 in
  let nofin := mkRes 1 2 3 (Some 2) 0 true [] [] 1%Z 4%Z 9 in
  let s2 := sys_step s1 (CEnv 6%Z (OpUpdate nofin 0 None)) in
  let s3 := sys_step s2 (CThread 0 7%Z) in
  map (fun t => (th_pc t, th_watch t)) (sy_threads s1) = [(PRecv, Some [])] /\
  option_map r_fins (st_get k (sy_store s1)) = Some [7] /\
  map (fun t => (th_pc t, option_map (@length hev) (th_watch t))) (sy_threads s2) = [(PRecv, Some 1%nat)] /\
  map th_pc (sy_threads s3) = [PDestroy].
Proof. vm_compute. repeat split. Qed.
