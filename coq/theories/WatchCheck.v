(* WatchCheck.v — executable scenario interpreter for one collection with any number of watchers
   (single-resource, kind, aggregated; bootstrap, tail, bookmark, selector), used to compare the
   model with observed runs of the real inmem state under testing/synctest.

   Scheduling convention realised by the harness (synctest.Wait() after every action): a watcher
   goroutine runs until it blocks, i.e. it fetches as soon as it has nothing left to hand over. *)
From Verif Require Import Store StoreCheck Ring.
Open Scope Z_scope.

(* ---- selectors on atom labels (the byte-level operator semantics is Labels.v) ------------- *)

Record lterm := mkTerm { lt_key : atom; lt_vals : list atom; lt_op : N; lt_inv : bool }.
(* lt_op: 0 exists, 1 equal, 2 in, 3 lt, 4 lte *)

Fixpoint lab_get (k : atom) (l : list (atom * atom)) : option atom :=
  match l with
  | [] => None
  | (k', v) :: l' => if N.eqb k' k then Some v else lab_get k l'
  end.

Definition term_inner (labels : list (atom * atom)) (t : lterm) : option bool :=
  match lab_get (lt_key t) labels with
  | None => if (N.eqb (lt_op t) 3%N || N.eqb (lt_op t) 4%N)%bool then None else Some false
  | Some v =>
      if N.eqb (lt_op t) 0%N then Some true
      else match lt_vals t with
           | [] => Some false
           | v0 :: _ =>
               if N.eqb (lt_op t) 1%N then Some (N.eqb v v0)
               else if N.eqb (lt_op t) 2%N then Some (existsb (N.eqb v) (lt_vals t))
               else if N.eqb (lt_op t) 3%N then Some (N.ltb v v0)
               else Some (N.leb v v0)
           end
  end.

Definition term_matches (labels : list (atom * atom)) (t : lterm) : bool :=
  match term_inner labels t with
  | None => false
  | Some m => if lt_inv t then negb m else m
  end.

Definition sel := list (list lterm).     (* OR of ANDs; [] matches everything *)

(* an ID query (regexp ^(id1|id2|..)$) is written as a term on the reserved key 0 (the empty string, never a label key):
   the resource id is visible to the terms as the value of that key. ID query AND (q1 OR q2 ..) = (idterm::q1) OR (idterm::q2) .. *)
Definition sel_matches (s : sel) (r : res) : bool :=
  match s with
  | [] => true
  | _ => existsb (fun q => forallb (term_matches ((0%N, r_id r) :: r_labels r)) q) s
  end.

(* ---- what a subscriber sees ------------------------------------------------------------------ *)

(* type: 0 Created, 1 Updated, 2 Destroyed, 3 Bootstrapped, 4 Errored, 5 Noop; bookmark = decoded position *)
Inductive wev := WE (typ : N) (r old : option res) (bm : option Z).

Inductive wmode := MSingle (id : atom) | MKind | MAgg.

Record watcher := mkWt {
  wt_k : N;
  wt_mode : wmode;
  wt_sel : sel;
  wt_pos : Z;
  wt_held : list (list wev);     (* batches fetched/prepared and not yet received *)
  wt_dead : bool
}.

Fixpoint zip_pos (evs : list (option event)) (p : Z) : list (option event * Z) :=
  match evs with
  | [] => []
  | e :: evs' => (e, p) :: zip_pos evs' (p + 1)
  end.

(* the in-place filter of WatchAll, including the rewriting of updates crossing the selector *)
Definition kind_view (s : sel) (ep : option event * Z) : list wev :=
  let '(e, p) := ep in
  match e with
  | None => []
  | Some (EvCreated r) => if sel_matches s r then [WE 0%N (Some r) None (Some p)] else []
  | Some (EvDestroyed r) => if sel_matches s r then [WE 2%N (Some r) None (Some p)] else []
  | Some (EvUpdated r old) =>
      match sel_matches s old, sel_matches s r with
      | true, false => [WE 2%N (Some r) None (Some p)]
      | false, true => [WE 0%N (Some r) None (Some p)]
      | true, true => [WE 1%N (Some r) (Some old) (Some p)]
      | false, false => []
      end
  end.

Definition raw_view (ep : option event * Z) : list wev :=
  let '(e, p) := ep in
  match e with
  | None => []
  | Some (EvCreated r) => [WE 0%N (Some r) None (Some p)]
  | Some (EvDestroyed r) => [WE 2%N (Some r) None (Some p)]
  | Some (EvUpdated r old) => [WE 1%N (Some r) (Some old) (Some p)]
  end.

Definition batches (m : wmode) (evs : list wev) : list (list wev) :=
  match evs with
  | [] => []
  | _ => match m with MAgg => [evs] | _ => map (fun e => [e]) evs end
  end.

(* run the watcher goroutine until it blocks *)
Definition refill (c : coll) (w : watcher) : watcher :=
  match wt_held w with
  | _ :: _ => w
  | [] =>
      if wt_dead w then w
      else
        let f := match wt_mode w with
                 | MSingle id => fetch_one c id (wt_pos w)
                 | _ => fetch_all c (wt_pos w)
                 end in
        match f with
        | FBlocked => w
        | FOverrun => mkWt (wt_k w) (wt_mode w) (wt_sel w) (wt_pos w) [[WE 4%N None None None]] true
        | FEvents evs p =>
            let view := match wt_mode w with
                        | MSingle _ => flat_map raw_view (zip_pos evs (p - Z.of_nat (length evs)))
                        | _ => flat_map (kind_view (wt_sel w)) (zip_pos evs (wt_pos w))
                        end in
            mkWt (wt_k w) (wt_mode w) (wt_sel w) p (batches (wt_mode w) view) false
        end
  end.

(* a single watch that skipped non-matching events may need another round (it is blocked at wpos then) *)
Definition refill2 (c : coll) (w : watcher) : watcher := refill c (refill c w).

(* ---- scenarios ----------------------------------------------------------------------------------- *)

Inductive wstart := WDefault | WTail (n : Z) | WBm (bytes : list byte).

Definition tombstone (ns typ id : atom) : res := mkRes ns typ id None 0%N false [] [] 0 0 0%N.

Inductive sact :=
| SWrite (now : Z) (o : op) (ok : bool)
| SStart (k : N) (m : wmode) (s : sel) (bootstrap bootbm : bool) (st : wstart) (accepted : bool)
| SRecv (k : N) (obs : option (list wev))
| SList (obs : list res).

Record scen := mkSc {
  sc_store : store;
  sc_coll : coll;
  sc_ws : list watcher
}.

Definition wev_eqb (a b : wev) : bool :=
  let '(WE t1 r1 o1 b1) := a in let '(WE t2 r2 o2 b2) := b in
  N.eqb t1 t2 &&
  (match r1, r2 with Some x, Some y => res_eqb x y | None, None => true | _, _ => false end) &&
  (match o1, o2 with Some x, Some y => res_eqb x y | None, None => true | _, _ => false end) &&
  (match b1, b2 with Some x, Some y => Z.eqb x y | None, None => true | _, _ => false end).

Definition start_pos (c : coll) (cookie : list byte) (m : wmode) (st : wstart) : option Z :=
  let so := match st with
            | WDefault => Some SDefault
            | WTail n => Some (STail n)
            | WBm bs => match decode_bookmark cookie bs with Some p => Some (SBookmark p) | None => None end
            end in
  match so with
  | None => None
  | Some o => match m with MSingle id => start_one c id o | _ => start_all c o end
  end.

Definition ns1 : atom := 121156732452864%N.    (* "n1" *)
Definition typT : atom := 92358976733184%N.    (* "T"  *)

Definition new_watcher (sc : scen) (cookie : list byte) (k : N) (m : wmode) (s : sel)
           (bootstrap bootbm : bool) (st : wstart) : option watcher :=
  match start_pos (sc_coll sc) cookie m st with
  | None => None
  | Some pos =>
      let held :=
        match m with
        | MSingle id =>
            match st with
            | WDefault =>
                match st_get (ns1, typT, id) (sc_store sc) with
                | Some cur => [[WE 0%N (Some cur) None None]]
                | None => [[WE 2%N (Some (tombstone ns1 typT id)) None None]]
                end
            | _ => []
            end
        | _ =>
            let boot :=
              if bootstrap then
                let items := filter (sel_matches s) (st_list ns1 typT (sc_store sc)) in
                map (fun r => WE 0%N (Some r) None None) items ++ [WE 3%N (Some (tombstone ns1 typT 0%N)) None (Some (pos - 1))]
              else [] in
            let noop := if bootbm then [WE 5%N (Some (tombstone ns1 typT 0%N)) None (Some (pos - 1))] else [] in
            batches m boot ++ batches m noop
        end in
      Some (mkWt k m s pos held false)
  end.

Fixpoint upd_watcher (k : N) (f : watcher -> watcher) (ws : list watcher) : list watcher :=
  match ws with
  | [] => []
  | w :: ws' => if N.eqb (wt_k w) k then f w :: ws' else w :: upd_watcher k f ws'
  end.

Fixpoint find_watcher (k : N) (ws : list watcher) : option watcher :=
  match ws with
  | [] => None
  | w :: ws' => if N.eqb (wt_k w) k then Some w else find_watcher k ws'
  end.

Definition settle (sc : scen) : scen :=
  mkSc (sc_store sc) (sc_coll sc) (map (refill2 (sc_coll sc)) (sc_ws sc)).

(* one action: new scenario state and whether the observation agrees *)
Definition sc_step (cookie : list byte) (sc : scen) (a : sact) : scen * bool :=
  match a with
  | SWrite now o ok =>
      let '(s', r, ev) := apply now o (sc_store sc) in
      let c' := match ev with Some e => publish e (sc_coll sc) | None => sc_coll sc end in
      let succeeded := match r with RErr _ => false | _ => true end in
      (settle (mkSc s' c' (sc_ws sc)), Bool.eqb succeeded ok)
  | SStart k m s bootstrap bootbm st accepted =>
      match new_watcher sc cookie k m s bootstrap bootbm st with
      | None => (sc, negb accepted)
      | Some w => (settle (mkSc (sc_store sc) (sc_coll sc) (sc_ws sc ++ [w])), accepted)
      end
  | SRecv k obs =>
      match find_watcher k (sc_ws sc) with
      | None => (sc, match obs with None => true | Some _ => false end)
      | Some w =>
          match wt_held w, obs with
          | [], None => (sc, true)
          | b :: rest, Some ob =>
              (settle (mkSc (sc_store sc) (sc_coll sc)
                            (upd_watcher k (fun w => mkWt (wt_k w) (wt_mode w) (wt_sel w) (wt_pos w) rest (wt_dead w)) (sc_ws sc))),
               list_eqb wev_eqb b ob)
          | _, _ => (sc, false)
          end
      end
  | SList obs => (sc, list_eqb res_eqb (st_list ns1 typT (sc_store sc)) obs)
  end.

Fixpoint sc_check_from (cookie : list byte) (sc : scen) (acts : list sact) : bool :=
  match acts with
  | [] => true
  | a :: acts' => let '(sc', ok) := sc_step cookie sc a in if ok then sc_check_from cookie sc' acts' else false
  end.

(* case = (initcap, maxcap, gap, cookie, actions) *)
Definition wcase := (Z * Z * Z * list byte * list sact)%type.

Definition wcase_ok (c : wcase) : bool :=
  let '(initcap, maxcap, gap, cookie, acts) := c in
  sc_check_from cookie (mkSc [] (coll_init initcap maxcap gap) []) acts.

Definition watch_mismatches (cs : list wcase) : list N := mism_from wcase_ok 0%N cs.

(* index of the first disagreeing action, for diagnostics *)
Fixpoint sc_first_bad (cookie : list byte) (sc : scen) (acts : list sact) (i : N) : option N :=
  match acts with
  | [] => None
  | a :: acts' => let '(sc', ok) := sc_step cookie sc a in if ok then sc_first_bad cookie sc' acts' (N.succ i) else Some i
  end.
