(* WatchProofs.v — watch streams are exact, ordered change logs (or fail loudly); bookmarks resume exactly.
   All statements are for every configuration (initcap, maxcap, gap), every write history and every
   interleaving of writes with the watcher's fetches (= every consumer speed, including stalled). *)
From Verif Require Import Ring RingProofs.
From Coq Require Import ZifyBool ZifyNat.
Open Scope Z_scope.

(* ---- a kind watcher under an arbitrary schedule ------------------------------------------ *)

Record wsys := mkW {
  w_coll : coll;
  w_log : list event;                      (* ghost: everything ever published *)
  w_pos : Z;                               (* watcher read position *)
  w_dead : bool;                           (* terminal Errored delivered *)
  w_out : list (option event)              (* everything handed to the subscriber, oldest first *)
}.

Inductive wact :=
| APublish (ev : event)      (* a committed write *)
| AFetch.                    (* the watcher goroutine gets the lock *)

Definition wstep (s : wsys) (a : wact) : wsys :=
  match a with
  | APublish ev => mkW (publish ev (w_coll s)) (w_log s ++ [ev]) (w_pos s) (w_dead s) (w_out s)
  | AFetch =>
      if w_dead s then s
      else match fetch_all (w_coll s) (w_pos s) with
           | FBlocked => s
           | FOverrun => mkW (w_coll s) (w_log s) (w_pos s) true (w_out s)
           | FEvents evs p => mkW (w_coll s) (w_log s) p false (w_out s ++ evs)
           end
  end.

Definition wrun (s : wsys) (acts : list wact) : wsys := fold_left wstep acts s.

Lemma zrange_app a n m : zrange a (n + m) = zrange a n ++ zrange (a + Z.of_nat n) m.
Proof.
  revert a; induction n as [|n IH]; intros a; simpl.
  - f_equal. lia.
  - f_equal. rewrite IH. f_equal. f_equal. lia.
Qed.

Lemma log_slice_app log a b c : a <= b <= c -> log_slice log a c = log_slice log a b ++ log_slice log b c.
Proof.
  intros H. unfold log_slice.
  replace (Z.to_nat (c - a)) with (Z.to_nat (b - a) + Z.to_nat (c - b))%nat by lia.
  rewrite zrange_app, map_app. f_equal. f_equal. f_equal. lia.
Qed.

Lemma log_slice_ext log ev a b : 0 <= a -> b <= Z.of_nat (length log) ->
  log_slice (log ++ [ev]) a b = log_slice log a b.
Proof.
  intros Ha Hb. unfold log_slice. apply map_ext_in. intros p Hp.
  apply In_nth with (d := 0) in Hp. destruct Hp as [i [Hi Hp]]. rewrite zrange_length in Hi.
  rewrite zrange_nth in Hp by exact Hi. subst p. apply log_at_app_old. lia.
Qed.

(* the invariant of a live or dead watcher established at p0 *)
Record WInv (initcap p0 : Z) (s : wsys) : Prop := mkWInv {
  wi_ring : RInv initcap (w_coll s) (w_log s);
  wi_pos : 0 <= p0 <= w_pos s /\ w_pos s <= c_wpos (w_coll s);
  wi_out : w_out s = log_slice (w_log s) p0 (w_pos s);
  wi_dead : w_dead s = true -> exists lagged_at, lagged_at - w_pos s > initcap
}.

Lemma WInv_step initcap p0 s a : WInv initcap p0 s -> WInv initcap p0 (wstep s a).
Proof.
  intros HW. pose proof HW as [Hr Hp Ho Hd]. destruct a as [ev|]; simpl.
  - pose proof (publish_refines _ _ _ ev Hr) as Hr'. constructor; simpl; try assumption.
    + unfold publish; simpl. lia.
    + rewrite log_slice_ext; [exact Ho | lia|]. destruct Hr as [_ _ Hw _ _]. lia.
  - destruct (w_dead s) eqn:Ed; [exact HW|].
    pose proof (fetch_all_exact _ _ _ (w_pos s) Hr ltac:(lia)) as Hf.
    destruct (fetch_all (w_coll s) (w_pos s)) as [| |evs p].
    + exact HW.
    + constructor; simpl; try assumption. intros _. exists (c_wpos (w_coll s)).
      destruct Hr as [_ Hinit _ _ _]. lia.
    + destruct Hf as [-> [Hlt [Hle Hevs]]]. constructor; simpl; try assumption; try lia.
      rewrite Ho, Hevs. symmetry. apply log_slice_app. lia.
Qed.

(* exactness: whatever was delivered is the log from the establishment point, in order, each event
   exactly once, with nothing skipped; after the terminal error nothing more is delivered *)
Theorem watch_exact initcap maxcap gap pre p0 acts :
  1 <= initcap <= maxcap ->
  let c0 := publish_all pre (coll_init initcap maxcap gap) in
  0 <= p0 <= c_wpos c0 ->
  let s := wrun (mkW c0 pre p0 false []) acts in
  w_out s = log_slice (w_log s) p0 (w_pos s) /\
  p0 <= w_pos s <= Z.of_nat (length (w_log s)) /\
  (w_dead s = true -> exists lagged_at, lagged_at - w_pos s > initcap).
Proof.
  intros Hcfg c0 Hp0 s.
  assert (HI : WInv initcap p0 s).
  { unfold s, wrun. assert (G : forall acts s0, WInv initcap p0 s0 -> WInv initcap p0 (fold_left wstep acts s0)).
    { induction acts0 as [|a acts0 IH]; intros s0 H0; simpl; [exact H0 | apply IH, WInv_step, H0]. }
    apply G. constructor; simpl.
    - apply ring_refines_log. exact Hcfg.
    - lia.
    - unfold log_slice. rewrite Z.sub_diag. reflexivity.
    - discriminate. }
  destruct HI as [Hr Hp Ho Hd]. split; [exact Ho|]. split; [|exact Hd].
  destruct Hr as [_ _ Hw _ _]. lia.
Qed.

(* ---- single-resource watch: the scan delivers the next event of the watched id --------------- *)

Lemma scan_id_spec initcap c log id :
  RInv initcap c log ->
  forall fuel pos, 0 <= pos -> c_wpos c - pos <= c_cap c -> Z.of_nat fuel = c_wpos c - pos ->
  let '(e, pos') := scan_id fuel c id pos in
  pos <= pos' <= c_wpos c /\
  (forall p, pos <= p < (match e with Some _ => pos' - 1 | None => pos' end) ->
             opt_atom_eqb (ev_id (log_at log p)) id = false) /\
  match e with
  | Some ev => ev = log_at log (pos' - 1) /\ opt_atom_eqb (ev_id ev) id = true /\ pos < pos'
  | None => pos' = c_wpos c
  end.
Proof.
  intros HI. pose proof HI as [Hcap Hinit Hw Hlen Hlive].
  induction fuel as [|f IH]; intros pos Hp Hlag Hf; cbn [scan_id].
  - split; [lia|]. split; [intros p H; lia | lia].
  - destruct (Z.ltb_spec pos (c_wpos c)) as [L|L]; [|lia].
    assert (Hget : ring_get c pos = log_at log pos) by (apply Hlive; lia).
    rewrite Hget.
    destruct (opt_atom_eqb (ev_id (log_at log pos)) id) eqn:Em.
    + split; [lia|]. split; [intros p H; lia|].
      replace (pos + 1 - 1) with pos by lia. repeat split; [exact Em | lia].
    + specialize (IH (pos + 1) ltac:(lia) ltac:(lia) ltac:(lia)).
      destruct (scan_id f c id (pos + 1)) as [e pos'].
      destruct IH as [H1 [H2 H3]]. split; [lia|]. split.
      * intros p H. destruct (Z.eq_dec p pos) as [->|Hne]; [exact Em|]. apply H2. lia.
      * destruct e; [destruct H3 as [A [B C]]; repeat split; try assumption; lia | exact H3].
Qed.

(* ---- bookmarks ---------------------------------------------------------------------------- *)

Lemma be_value_app a b acc : be_value (a ++ b) acc = be_value b (be_value a acc).
Proof. revert acc; induction a as [|x a IH]; intros acc; simpl; [reflexivity | apply IH]. Qed.

Lemma be_bytes_length n v : length (be_bytes n v) = n.
Proof. revert v; induction n as [|n IH]; intros v; simpl; [reflexivity|]. rewrite app_length, IH. simpl. lia. Qed.

Lemma be_roundtrip n v acc : 0 <= v < 256 ^ Z.of_nat n -> be_value (be_bytes n v) acc = acc * 256 ^ Z.of_nat n + v.
Proof.
  revert v acc; induction n as [|n IH]; intros v acc Hv.
  - simpl in *. lia.
  - cbn [be_bytes]. rewrite be_value_app. cbn [be_value].
    rewrite Nat2Z.inj_succ, Z.pow_succ_r in * by lia.
    rewrite IH by (split; [apply Z.div_pos; lia | apply Z.div_lt_upper_bound; lia]).
    rewrite Z2N.id by (apply Z.mod_pos_bound; lia).
    pose proof (Z.div_mod v 256 ltac:(lia)). lia.
Qed.

Lemma bytes_eqb_refl a : bytes_eqb a a = true.
Proof. induction a as [|x a IH]; simpl; [reflexivity | rewrite N.eqb_refl, IH; reflexivity]. Qed.

Lemma bytes_eqb_eq a b : bytes_eqb a b = true -> a = b.
Proof.
  revert b; induction a as [|x a IH]; intros [|y b]; simpl; try discriminate; [reflexivity|].
  intros H. apply andb_prop in H. destruct H as [H1 H2]. apply N.eqb_eq in H1. f_equal; [exact H1 | apply IH; exact H2].
Qed.

Lemma firstn_app_exact {A} (a b : list A) n : length a = n -> firstn n (a ++ b) = a.
Proof. intros <-. rewrite firstn_app, Nat.sub_diag, firstn_all. simpl. apply app_nil_r. Qed.

Lemma skipn_app_exact {A} (a b : list A) n : length a = n -> skipn n (a ++ b) = b.
Proof. intros <-. rewrite skipn_app, Nat.sub_diag, skipn_all. reflexivity. Qed.

(* every position in the int64 range survives encode/decode under the same cookie *)
Theorem decode_encode cookie p :
  length cookie = 8%nat -> - two63z <= p < two63z ->
  decode_bookmark cookie (encode_bookmark cookie p) = Some p.
Proof.
  intros Hc Hp. unfold decode_bookmark, encode_bookmark.
  rewrite app_length, be_bytes_length, Hc. change (Nat.eqb (8 + 8) 16) with true. cbn [negb].
  rewrite (firstn_app_exact _ _ _ Hc), (skipn_app_exact _ _ _ Hc), bytes_eqb_refl. cbn [negb].
  assert (Hm : 0 <= p mod two64z < two64z) by (apply Z.mod_pos_bound; reflexivity).
  rewrite be_roundtrip by (change (256 ^ Z.of_nat 8) with two64z; exact Hm).
  rewrite Z.mul_0_l, Z.add_0_l. f_equal.
  unfold two63z, two64z in *.
  destruct (Z.ltb_spec (p mod 18446744073709551616) 9223372036854775808) as [L|L].
  - destruct (Z_lt_dec p 0) as [N|N].
    + exfalso. replace p with ((p + 18446744073709551616) + (-1) * 18446744073709551616) in L by lia.
      rewrite Z_mod_plus_full in L. rewrite Z.mod_small in L by lia. lia.
    + apply Z.mod_small. lia.
  - destruct (Z_lt_dec p 0) as [N|N].
    + replace p with ((p + 18446744073709551616) + (-1) * 18446744073709551616) at 1 by lia.
      rewrite Z_mod_plus_full. rewrite Z.mod_small by lia. lia.
    + rewrite Z.mod_small in L by lia. lia.
Qed.

(* anything that is not cookie ++ 8 bytes is rejected; a foreign cookie is rejected *)
Theorem decode_rejects cookie bm :
  (length bm <> 16%nat \/ firstn 8 bm <> cookie) -> decode_bookmark cookie bm = None.
Proof.
  intros H. unfold decode_bookmark.
  destruct (Nat.eqb_spec (length bm) 16) as [E|E]; cbn [negb]; [|reflexivity].
  destruct (bytes_eqb (firstn 8 bm) cookie) eqn:B; cbn [negb]; [|reflexivity].
  apply bytes_eqb_eq in B. destruct H; contradiction.
Qed.

(* window test of a kind watch: accepted => every event after the bookmark is still in the ring,
   so the resumed watcher (starting at p+1) can never be overrun at establishment and, by watch_exact,
   delivers exactly log(p, ...) *)
Theorem bookmark_accept_no_gap initcap c log p pos :
  RInv initcap c log -> 0 <= c_gap c < c_cap c ->
  start_all c (SBookmark p) = Some pos ->
  pos = p + 1 /\ 0 <= pos <= c_wpos c /\ c_wpos c - pos < c_cap c - c_gap c /\
  (forall q, pos <= q < c_wpos c -> ring_get c q = log_at log q).
Proof.
  intros [Hcap Hinit Hw Hlen Hlive] Hgap. unfold start_all.
  destruct (Z.ltb_spec p (c_wpos c - c_cap c + c_gap c)); simpl; [discriminate|].
  destruct (Z.ltb_spec p (-1)); simpl; [discriminate|].
  destruct (Z.geb_spec p (c_wpos c)); simpl; [discriminate|].
  intros E; inversion E; subst pos. repeat split; try lia.
  intros q Hq. apply Hlive. lia.
Qed.

(* bookmarks that are stale, ahead of the log, or below -1 are rejected *)
Theorem bookmark_reject c p :
  (p < c_wpos c - c_cap c + c_gap c \/ p < -1 \/ p >= c_wpos c) -> start_all c (SBookmark p) = None.
Proof.
  intros H. unfold start_all.
  destruct (Z.ltb_spec p (c_wpos c - c_cap c + c_gap c)); simpl; [reflexivity|].
  destruct (Z.ltb_spec p (-1)); simpl; [reflexivity|].
  destruct (Z.geb_spec p (c_wpos c)); simpl; [reflexivity | lia].
Qed.

(* bookmarks of the most recent (initcap - gap) events are always accepted *)
Theorem recent_always_accepted initcap c log p :
  RInv initcap c log -> 0 <= p < c_wpos c -> c_wpos c - p <= initcap - c_gap c ->
  start_all c (SBookmark p) = Some (p + 1) /\ start_one c 0%N (SBookmark p) = Some (p + 1).
Proof.
  intros [Hcap Hinit _ _ _] Hp Hrec. unfold start_all, start_one.
  destruct (Z.ltb_spec p (c_wpos c - c_cap c + c_gap c)); [lia|]. simpl.
  destruct (Z.ltb_spec p (-1)); [lia|]. destruct (Z.ltb_spec p 0); [lia|].
  destruct (Z.geb_spec p (c_wpos c)); [lia|]. simpl. split; reflexivity.
Qed.

(* tail of a kind watch: exactly the last min(n, cap-gap, wpos) events *)
Theorem tail_all_exact initcap c log n pos :
  RInv initcap c log -> 0 <= c_gap c < c_cap c -> 0 < n ->
  start_all c (STail n) = Some pos ->
  pos = c_wpos c - Z.min n (Z.min (c_cap c - c_gap c) (c_wpos c)) /\
  0 <= pos <= c_wpos c /\ c_wpos c - pos <= c_cap c /\
  pending c pos = (if Z.eqb pos (c_wpos c) then pending c pos else log_slice log pos (c_wpos c)).
Proof.
  intros HI Hgap Hn. pose proof HI as [Hcap Hinit Hw Hlen Hlive]. unfold start_all.
  intros E; injection E as Epos.
  assert (Hpos : pos = c_wpos c - Z.min n (Z.min (c_cap c - c_gap c) (c_wpos c))).
  { subst pos. destruct (Z.gtb_spec n (c_cap c - c_gap c)) as [G|G];
      match goal with |- context [Z.ltb ?a 0] => destruct (Z.ltb_spec a 0) end; lia. }
  clear Epos. split; [exact Hpos|]. split; [lia|]. split; [lia|].
  destruct (Z.eqb_spec pos (c_wpos c)) as [Eq|Eq]; [reflexivity|].
  pose proof (fetch_all_exact _ _ _ pos HI ltac:(lia)) as Hf. unfold fetch_all in Hf.
  destruct (Z.eqb_spec pos (c_wpos c)); [lia|].
  destruct (Z.gtb_spec (c_wpos c - pos) (c_cap c)); [lia|]. destruct Hf as [_ [_ [_ Hf]]]. exact Hf.
Qed.
