(* Wire.v — protobuf base-128 varints and field tags (what every wire message of the system starts with). *)
From Coq Require Export List NArith Bool Lia.
Export ListNotations.
Open Scope N_scope.

Fixpoint enc_varint (fuel : nat) (n : N) : list N :=
  match fuel with
  | O => []
  | S f => if N.ltb n 128 then [n] else (128 + n mod 128) :: enc_varint f (n / 128)
  end.
Definition encode_varint (n : N) : list N := enc_varint 10 n.     (* 10 groups of 7 bits cover 64 bits *)

(* decode: little-endian groups of 7 bits, continuation bit 128; at most 10 bytes *)
Fixpoint dec_varint (fuel : nat) (b : list N) : option (N * list N) :=
  match fuel, b with
  | O, _ => None
  | _, [] => None                                         (* truncated *)
  | S f, c :: rest =>
      if N.ltb c 128 then Some (c, rest)
      else match dec_varint f rest with
           | Some (hi, rest') => Some ((c - 128) + 128 * hi, rest')
           | None => None
           end
  end.
Definition decode_varint (b : list N) : option (N * list N) := dec_varint 10 b.

Definition encode_tag (field wt : N) : list N := encode_varint (field * 8 + wt).
