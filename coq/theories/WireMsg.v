(* WireMsg.v — the protobuf wire form of v1alpha1.Resource / Metadata / Spec and of the Timestamp sub-message, as the
   generated code reads and writes it (api/v1alpha1/resource_vtproto.pb.go MarshalToSizedBufferVT / UnmarshalVT,
   protohelpers.Skip, timestamppb UnmarshalVT).  This is what store.ProtobufMarshaler puts on disk and what the gRPC
   layer puts on the wire.

   The decoder is transcribed with its quirks, because the property quantifies over ALL byte strings:
     - a varint is at most ten bytes, bits above 2^64 are dropped silently;
     - the field number is int32(wire >> 3) (low 32 bits, signed); <= 0 is rejected, wire type 4 is rejected;
     - a known field with the wrong wire type is rejected; unknown fields are skipped (groups nest) and kept;
     - a length >= 2^63 is "negative" and rejected;
     - repeated occurrences of a scalar field overwrite, of a message field merge, of a repeated field append;
     - inside a map entry the strings are bounds-checked against the end of the WHOLE message, not of the entry,
       and the wire type of key and value is not looked at; only the skip of a foreign entry field is checked against
       the entry's end.
   Bytes are N (< 256 in everything the harness feeds; the decoder itself does not rely on it). *)
From Verif Require Export Wire.
Open Scope N_scope.

Definition two64 : N := 18446744073709551616.
Definition two63 : N := 9223372036854775808.
Definition two32 : N := 4294967296.
Definition two31 : N := 2147483648.

(* the varint loop of the generated code: ten bytes at most, result reduced to 64 bits *)
Definition vt_varint (b : list N) : option (N * list N) :=
  match decode_varint b with
  | Some (n, r) => Some (n mod two64, r)
  | None => None
  end.

(* exactly n bytes, or fail; n is a decoded length: >= 2^63 is a negative int *)
Definition take_n (n : N) (b : list N) : option (list N * list N) :=
  if two63 <=? n then None
  else if N.of_nat (length b) <? n then None
  else Some (firstn (N.to_nat n) b, skipn (N.to_nat n) b).

(* length-delimited payload *)
Definition rd_bytes (b : list N) : option (list N * list N) :=
  match vt_varint b with
  | Some (n, r) => take_n n r
  | None => None
  end.

(* protohelpers.Skip: one record (groups nest); returns what follows it *)
Fixpoint skip_rec (fuel depth : nat) (b : list N) : option (list N) :=
  match fuel with
  | O => None
  | S f =>
      match b with
      | [] => None
      | _ =>
          match vt_varint b with
          | None => None
          | Some (wire, r) =>
              let wt := wire mod 8 in
              let after (d : nat) (r' : list N) := match d with O => Some r' | _ => skip_rec f d r' end in
              if wt =? 0 then match decode_varint r with Some (_, r') => after depth r' | None => None end
              else if wt =? 1 then match take_n 8 r with Some (_, r') => after depth r' | None => None end
              else if wt =? 2 then match rd_bytes r with Some (_, r') => after depth r' | None => None end
              else if wt =? 3 then skip_rec f (S depth) r
              else if wt =? 4 then match depth with O => None | S d => after d r end
              else if wt =? 5 then match take_n 4 r with Some (_, r') => after depth r' | None => None end
              else None
          end
      end
  end.
Definition skip_one (b : list N) : option (list N) := skip_rec (length b) 0 b.

(* the bytes of b in front of its suffix r *)
Definition consumed (b r : list N) : list N := firstn (length b - length r) b.

(* the message loop: step parses one field (tag included) into the accumulator *)
Section Loop.
  Context {A : Type}.
  Variable step : list N -> A -> option (list N * A).
  Fixpoint loop (fuel : nat) (b : list N) (acc : A) : option A :=
    match b with
    | [] => Some acc
    | _ => match fuel with
           | O => None
           | S f => match step b acc with
                    | Some (r, acc') => loop f r acc'
                    | None => None
                    end
           end
    end.
End Loop.

(* tag of a top-level field: (field number as int32 bit pattern, wire type); None = rejected outright *)
Definition rd_tag (b : list N) : option (N * N * list N) :=
  match vt_varint b with
  | None => None
  | Some (wire, r) =>
      let fn := (wire / 8) mod two32 in
      let wt := wire mod 8 in
      if wt =? 4 then None
      else if (fn =? 0) || (two31 <=? fn) then None
      else Some (fn, wt, r)
  end.

(* ---- Timestamp ------------------------------------------------------------------------------------------ *)
(* seconds: the int64 as its 64-bit pattern; nanos: the int32 as its 32-bit pattern *)
Record ts := mkTs { ts_sec : N; ts_nanos : N }.
Definition ts_zero : ts := mkTs 0 0.

Definition sext32 (n : N) : N := if two31 <=? n then n + (two64 - two32) else n.   (* uint64(int32) *)

Definition enc_ts (t : ts) : list N :=
  (if ts_sec t =? 0 then [] else 8 :: encode_varint (ts_sec t)) ++
  (if ts_nanos t =? 0 then [] else 16 :: encode_varint (sext32 (ts_nanos t))).

Definition ts_field (fn wt : N) (b r : list N) (t : ts) : option (list N * ts) :=
  if fn =? 1 then
    if wt =? 0 then match vt_varint r with Some (v, r') => Some (r', mkTs v (ts_nanos t)) | None => None end
    else None
  else if fn =? 2 then
    if wt =? 0 then match vt_varint r with Some (v, r') => Some (r', mkTs (ts_sec t) (v mod two32)) | None => None end
    else None
  else match skip_one b with
       | Some r' => Some (r', t)        (* the well-known type drops unknown fields *)
       | None => None
       end.
Definition ts_step (b : list N) (t : ts) : option (list N * ts) :=
  match rd_tag b with
  | None => None
  | Some (fn, wt, r) => ts_field fn wt b r t
  end.
Definition dec_ts_into (b : list N) (t : ts) : option ts := loop ts_step (length b) b t.

(* ---- Metadata ------------------------------------------------------------------------------------------- *)
Definition bstr := list N.
Definition kvs := list (bstr * bstr).

Record metadata := mkMd {
  md_ns : bstr; md_typ : bstr; md_id : bstr; md_ver : bstr; md_owner : bstr; md_phase : bstr;
  md_created : option ts; md_updated : option ts;
  md_fins : list bstr; md_labels : kvs; md_annot : kvs; md_unk : list N }.
Definition md_zero : metadata := mkMd [] [] [] [] [] [] None None [] [] [] [].

Fixpoint bstr_eqb (a b : bstr) : bool :=
  match a, b with
  | [], [] => true
  | x :: a', y :: b' => (x =? y) && bstr_eqb a' b'
  | _, _ => false
  end.

(* Go map assignment on an association list: overwrite in place, else append *)
Fixpoint kv_set (m : kvs) (k v : bstr) : kvs :=
  match m with
  | [] => [(k, v)]
  | (k', v') :: m' => if bstr_eqb k' k then (k', v) :: m' else (k', v') :: kv_set m' k v
  end.

Definition enc_len (s : list N) : list N := encode_varint (N.of_nat (length s)) ++ s.
Definition enc_str (tag : N) (s : bstr) : list N := match s with [] => [] | _ => tag :: enc_len s end.
Definition enc_msg (tag : N) (body : list N) : list N := tag :: enc_len body.
Definition enc_entry (tag : N) (kv : bstr * bstr) : list N :=
  enc_msg tag (10 :: enc_len (fst kv) ++ 18 :: enc_len (snd kv)).

Definition enc_md (m : metadata) : list N :=
  enc_str 10 (md_ns m) ++ enc_str 18 (md_typ m) ++ enc_str 26 (md_id m) ++ enc_str 34 (md_ver m) ++
  enc_str 42 (md_owner m) ++ enc_str 50 (md_phase m) ++
  (match md_created m with Some t => enc_msg 58 (enc_ts t) | None => [] end) ++
  (match md_updated m with Some t => enc_msg 66 (enc_ts t) | None => [] end) ++
  flat_map (fun f => 74 :: enc_len f) (md_fins m) ++
  flat_map (enc_entry 82) (md_labels m) ++
  flat_map (enc_entry 90) (md_annot m) ++
  md_unk m.

(* one map entry: buf runs from the first byte of the entry to the end of the enclosing message; msglen is the
   entry's declared length (already known to fit); used counts the bytes of the entry consumed so far *)
Fixpoint dec_entry (fuel : nat) (buf : list N) (used msglen : N) (k v : bstr) : option (bstr * bstr) :=
  if msglen <=? used then Some (k, v)
  else match fuel with
       | O => None
       | S f =>
           match vt_varint buf with
           | None => None
           | Some (wire, r) =>
               let fn := (wire / 8) mod two32 in
               if fn =? 1 then
                 match rd_bytes r with
                 | Some (s, r') => dec_entry f r' (used + N.of_nat (length buf - length r')) msglen s v
                 | None => None
                 end
               else if fn =? 2 then
                 match rd_bytes r with
                 | Some (s, r') => dec_entry f r' (used + N.of_nat (length buf - length r')) msglen k s
                 | None => None
                 end
               else match skip_one buf with
                    | Some r' =>
                        let used' := used + N.of_nat (length buf - length r') in
                        if msglen <? used' then None else dec_entry f r' used' msglen k v
                    | None => None
                    end
           end
       end.

(* a map field: length, entry, continue after the declared length *)
Definition rd_entry (r : list N) : option (bstr * bstr * list N) :=
  match vt_varint r with
  | None => None
  | Some (msglen, r1) =>
      match take_n msglen r1 with
      | None => None
      | Some (_, rest) =>
          match dec_entry (length r1) r1 0 msglen [] [] with
          | Some (k, v) => Some (k, v, rest)
          | None => None
          end
      end
  end.

Definition rd_ts (r : list N) (old : option ts) : option (option ts * list N) :=
  match rd_bytes r with
  | None => None
  | Some (body, rest) =>
      match dec_ts_into body (match old with Some t => t | None => ts_zero end) with
      | Some t => Some (Some t, rest)
      | None => None
      end
  end.

Definition md_set_str (fn : N) (s : bstr) (m : metadata) : metadata :=
  let '(mkMd x1 x2 x3 x4 x5 x6 x7 x8 x9 x10 x11 x12) := m in
  if fn =? 1 then mkMd s x2 x3 x4 x5 x6 x7 x8 x9 x10 x11 x12
  else if fn =? 2 then mkMd x1 s x3 x4 x5 x6 x7 x8 x9 x10 x11 x12
  else if fn =? 3 then mkMd x1 x2 s x4 x5 x6 x7 x8 x9 x10 x11 x12
  else if fn =? 4 then mkMd x1 x2 x3 s x5 x6 x7 x8 x9 x10 x11 x12
  else if fn =? 5 then mkMd x1 x2 x3 x4 s x6 x7 x8 x9 x10 x11 x12
  else mkMd x1 x2 x3 x4 x5 s x7 x8 x9 x10 x11 x12.

Definition md_field (fn wt : N) (b r : list N) (m : metadata) : option (list N * metadata) :=
  if fn <=? 6 then
    if wt =? 2 then match rd_bytes r with Some (s, r') => Some (r', md_set_str fn s m) | None => None end
    else None
  else if fn =? 7 then
    if wt =? 2 then
      match rd_ts r (md_created m) with
      | Some (t, r') =>
          let '(mkMd x1 x2 x3 x4 x5 x6 x7 x8 x9 x10 x11 x12) := m in Some (r', mkMd x1 x2 x3 x4 x5 x6 t x8 x9 x10 x11 x12)
      | None => None
      end
    else None
  else if fn =? 8 then
    if wt =? 2 then
      match rd_ts r (md_updated m) with
      | Some (t, r') =>
          let '(mkMd x1 x2 x3 x4 x5 x6 x7 x8 x9 x10 x11 x12) := m in Some (r', mkMd x1 x2 x3 x4 x5 x6 x7 t x9 x10 x11 x12)
      | None => None
      end
    else None
  else if fn =? 9 then
    if wt =? 2 then
      match rd_bytes r with
      | Some (s, r') => let '(mkMd x1 x2 x3 x4 x5 x6 x7 x8 x9 x10 x11 x12) := m in Some (r', mkMd x1 x2 x3 x4 x5 x6 x7 x8 (x9 ++ [s]) x10 x11 x12)
      | None => None
      end
    else None
  else if fn =? 10 then
    if wt =? 2 then
      match rd_entry r with
      | Some (k0, v0, r') =>
          let '(mkMd x1 x2 x3 x4 x5 x6 x7 x8 x9 x10 x11 x12) := m in Some (r', mkMd x1 x2 x3 x4 x5 x6 x7 x8 x9 (kv_set x10 k0 v0) x11 x12)
      | None => None
      end
    else None
  else if fn =? 11 then
    if wt =? 2 then
      match rd_entry r with
      | Some (k0, v0, r') =>
          let '(mkMd x1 x2 x3 x4 x5 x6 x7 x8 x9 x10 x11 x12) := m in Some (r', mkMd x1 x2 x3 x4 x5 x6 x7 x8 x9 x10 (kv_set x11 k0 v0) x12)
      | None => None
      end
    else None
  else match skip_one b with
       | Some r' => let '(mkMd x1 x2 x3 x4 x5 x6 x7 x8 x9 x10 x11 x12) := m in Some (r', mkMd x1 x2 x3 x4 x5 x6 x7 x8 x9 x10 x11 (x12 ++ consumed b r'))
       | None => None
       end.
Definition md_step (b : list N) (m : metadata) : option (list N * metadata) :=
  match rd_tag b with
  | None => None
  | Some (fn, wt, r) => md_field fn wt b r m
  end.
Definition dec_md_into (b : list N) (m : metadata) : option metadata := loop md_step (length b) b m.
Definition dec_md (b : list N) : option metadata := dec_md_into b md_zero.

(* ---- Spec and Resource ---------------------------------------------------------------------------------- *)
Record spec := mkSp { sp_proto : list N; sp_yaml : bstr; sp_unk : list N }.
Definition sp_zero : spec := mkSp [] [] [].
Definition enc_spec (s : spec) : list N := enc_str 10 (sp_proto s) ++ enc_str 18 (sp_yaml s) ++ sp_unk s.

Definition sp_field (fn wt : N) (b r : list N) (s : spec) : option (list N * spec) :=
  if fn =? 1 then
    if wt =? 2 then match rd_bytes r with Some (x, r') => Some (r', mkSp x (sp_yaml s) (sp_unk s)) | None => None end
    else None
  else if fn =? 2 then
    if wt =? 2 then match rd_bytes r with Some (x, r') => Some (r', mkSp (sp_proto s) x (sp_unk s)) | None => None end
    else None
  else match skip_one b with
       | Some r' => Some (r', mkSp (sp_proto s) (sp_yaml s) (sp_unk s ++ consumed b r'))
       | None => None
       end.
Definition sp_step (b : list N) (s : spec) : option (list N * spec) :=
  match rd_tag b with
  | None => None
  | Some (fn, wt, r) => sp_field fn wt b r s
  end.
Definition dec_spec_into (b : list N) (s : spec) : option spec := loop sp_step (length b) b s.

Record wres := mkWr { wr_md : option metadata; wr_spec : option spec; wr_unk : list N }.
Definition wr_zero : wres := mkWr None None [].
Definition enc_res (x : wres) : list N :=
  (match wr_md x with Some m => enc_msg 10 (enc_md m) | None => [] end) ++
  (match wr_spec x with Some s => enc_msg 18 (enc_spec s) | None => [] end) ++
  wr_unk x.

Definition wr_field (fn wt : N) (b r : list N) (x : wres) : option (list N * wres) :=
  if fn =? 1 then
    if wt =? 2 then
      match rd_bytes r with
      | Some (body, r') =>
          match dec_md_into body (match wr_md x with Some m => m | None => md_zero end) with
          | Some m => Some (r', mkWr (Some m) (wr_spec x) (wr_unk x))
          | None => None
          end
      | None => None
      end
    else None
  else if fn =? 2 then
    if wt =? 2 then
      match rd_bytes r with
      | Some (body, r') =>
          match dec_spec_into body (match wr_spec x with Some s => s | None => sp_zero end) with
          | Some s => Some (r', mkWr (wr_md x) (Some s) (wr_unk x))
          | None => None
          end
      | None => None
      end
    else None
  else match skip_one b with
       | Some r' => Some (r', mkWr (wr_md x) (wr_spec x) (wr_unk x ++ consumed b r'))
       | None => None
       end.
Definition wr_step (b : list N) (x : wres) : option (list N * wres) :=
  match rd_tag b with
  | None => None
  | Some (fn, wt, r) => wr_field fn wt b r x
  end.
Definition dec_res (b : list N) : option wres := loop wr_step (length b) b wr_zero.
