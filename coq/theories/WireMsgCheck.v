(* WireMsgCheck.v — correspondence of WireMsg with the generated marshaling code: the harness records what
   MarshalVT produced for a message and what UnmarshalVT made of a byte string (valid, mutated or random). *)
From Verif Require Import WireMsg.
Open Scope N_scope.

Fixpoint wm_mism_from {A} (f : A -> bool) (i : N) (l : list A) : list N :=
  match l with
  | [] => []
  | x :: t => if f x then wm_mism_from f (N.succ i) t else i :: wm_mism_from f (N.succ i) t
  end.

Definition bl_eqb := bstr_eqb.
Fixpoint bll_eqb (a b : list bstr) : bool :=
  match a, b with
  | [], [] => true
  | x :: a', y :: b' => bl_eqb x y && bll_eqb a' b'
  | _, _ => false
  end.

Fixpoint kv_get (m : kvs) (k : bstr) : option bstr :=
  match m with
  | [] => None
  | (k', v) :: m' => if bstr_eqb k' k then Some v else kv_get m' k
  end.
(* maps: the harness lists entries sorted by key without duplicates; the model's list has unique keys by kv_set *)
Definition kvs_eqb (obs model : kvs) : bool :=
  Nat.eqb (length obs) (length model) &&
  forallb (fun kv => match kv_get model (fst kv) with Some v => bl_eqb v (snd kv) | None => false end) obs.

Definition ts_eqb (a b : ts) : bool :=
  (ts_sec a =? ts_sec b) && (ts_nanos a =? ts_nanos b).
Definition ots_eqb (a b : option ts) : bool :=
  match a, b with Some x, Some y => ts_eqb x y | None, None => true | _, _ => false end.

Definition md_eqb (o m : metadata) : bool :=
  bl_eqb (md_ns o) (md_ns m) && bl_eqb (md_typ o) (md_typ m) && bl_eqb (md_id o) (md_id m) &&
  bl_eqb (md_ver o) (md_ver m) && bl_eqb (md_owner o) (md_owner m) && bl_eqb (md_phase o) (md_phase m) &&
  ots_eqb (md_created o) (md_created m) && ots_eqb (md_updated o) (md_updated m) &&
  bll_eqb (md_fins o) (md_fins m) && kvs_eqb (md_labels o) (md_labels m) && kvs_eqb (md_annot o) (md_annot m) &&
  bl_eqb (md_unk o) (md_unk m).
Definition omd_eqb (a b : option metadata) : bool :=
  match a, b with Some x, Some y => md_eqb x y | None, None => true | _, _ => false end.
Definition sp_eqb (a b : spec) : bool :=
  bl_eqb (sp_proto a) (sp_proto b) && bl_eqb (sp_yaml a) (sp_yaml b) && bl_eqb (sp_unk a) (sp_unk b).
Definition osp_eqb (a b : option spec) : bool :=
  match a, b with Some x, Some y => sp_eqb x y | None, None => true | _, _ => false end.
Definition wr_eqb (o m : wres) : bool :=
  omd_eqb (wr_md o) (wr_md m) && osp_eqb (wr_spec o) (wr_spec m) && bl_eqb (wr_unk o) (wr_unk m).

Definition single_maps (m : metadata) : bool :=
  Nat.leb (length (md_labels m)) 1 && Nat.leb (length (md_annot m)) 1.

Inductive wcase :=
| WDecRes (b : list N) (r : option wres)        (* Resource.UnmarshalVT(b): error, or the message it built *)
| WDecMd (b : list N) (r : option metadata)     (* Metadata.UnmarshalVT(b) *)
| WEncRes (x : wres) (out : list N)             (* Resource.MarshalVT: the model's decoder must read it back, the sizes
                                                   agree, and when no map has two entries the bytes agree *)
| WEncMd (m : metadata) (out : list N).

Definition wcase_ok (c : wcase) : bool :=
  match c with
  | WDecRes b r =>
      match dec_res b, r with
      | Some x, Some o => wr_eqb o x
      | None, None => true
      | _, _ => false
      end
  | WDecMd b r =>
      match dec_md b, r with
      | Some x, Some o => md_eqb o x
      | None, None => true
      | _, _ => false
      end
  | WEncRes x out =>
      match dec_res out with
      | Some y => wr_eqb x y
      | None => false
      end &&
      Nat.eqb (length (enc_res x)) (length out) &&
      (match wr_md x with
       | Some m => if single_maps m then bl_eqb (enc_res x) out else true
       | None => bl_eqb (enc_res x) out
       end)
  | WEncMd m out =>
      match dec_md out with
      | Some y => md_eqb m y
      | None => false
      end &&
      Nat.eqb (length (enc_md m)) (length out) &&
      (if single_maps m then bl_eqb (enc_md m) out else true)
  end.

Definition wire_mismatches (cs : list wcase) : list N := wm_mism_from wcase_ok 0 cs.
