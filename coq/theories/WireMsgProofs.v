(* WireMsgProofs.v — the wire codec of WireMsg.v round-trips every message it can encode, for all strings, maps,
   finalizer lists and timestamps; the decoder's maps never hold a key twice. *)
From Verif Require Import WireMsg WireProofs.
From Coq Require Import ZifyN ZifyBool ZifyNat.
Open Scope N_scope.

(* ---- the message loop ---- *)
Section LoopFacts.
  Context {A : Type}.
  Variable step : list N -> A -> option (list N * A).

  Lemma loop_mono : forall f f' b acc res,
    loop step f b acc = Some res -> (f <= f')%nat -> loop step f' b acc = Some res.
  Proof.
    induction f as [|f IH]; intros f' b acc res H L.
    - destruct b; cbn in H; [|discriminate]. destruct f'; exact H.
    - destruct f' as [|f']; [lia|]. destruct b as [|c b]; [exact H|].
      cbn [loop] in *. destruct (step (c :: b) acc) as [[r acc']|]; [|discriminate].
      apply IH with (f' := f') in H; [exact H | lia].
  Qed.

  (* acc at b reaches acc' at its suffix rest by successful steps, each consuming a non-empty prefix *)
  Inductive reaches : list N -> A -> list N -> A -> Prop :=
  | reach_refl b acc : reaches b acc b acc
  | reach_step p rest acc acc1 rest' acc' :
      p <> [] -> step (p ++ rest) acc = Some (rest, acc1) -> reaches rest acc1 rest' acc' ->
      reaches (p ++ rest) acc rest' acc'.

  Lemma reaches_trans b1 a1 b2 a2 b3 a3 : reaches b1 a1 b2 a2 -> reaches b2 a2 b3 a3 -> reaches b1 a1 b3 a3.
  Proof. induction 1 as [|p rest acc acc1 rest' acc' Hp Hs Hr IH]; intros H2; [exact H2|]. eapply reach_step; eauto. Qed.

  Lemma reach_one p rest acc acc1 : p <> [] -> step (p ++ rest) acc = Some (rest, acc1) -> reaches (p ++ rest) acc rest acc1.
  Proof. intros. eapply reach_step; eauto. apply reach_refl. Qed.

  Lemma reaches_loop b acc rest acc' res :
    reaches b acc rest acc' -> loop step (length rest) rest acc' = Some res -> loop step (length b) b acc = Some res.
  Proof.
    induction 1 as [|p rest acc acc1 rest' acc' Hp Hs Hr IH]; intros HL; [exact HL|].
    specialize (IH HL). destruct p as [|c p]; [congruence|].
    cbn [app length loop]. change (c :: p ++ rest) with ((c :: p) ++ rest). rewrite Hs.
    eapply loop_mono; [exact IH | rewrite app_length; lia].
  Qed.

  Lemma reaches_end b acc acc' : reaches b acc [] acc' -> loop step (length b) b acc = Some acc'.
  Proof. intros H. eapply reaches_loop; [exact H | reflexivity]. Qed.
End LoopFacts.

(* ---- varints, lengths ---- *)
Lemma enc_varint_len f : forall n, (length (enc_varint f n) <= f)%nat.
Proof. induction f as [|f IH]; intros n; cbn [enc_varint]; [cbn; lia|]. destruct (n <? 128); cbn [length]; [lia | specialize (IH (n / 128)); lia]. Qed.

Lemma encode_varint_len n : (length (encode_varint n) <= 10)%nat.
Proof. apply enc_varint_len. Qed.

Lemma encode_varint_nonempty n : encode_varint n <> [].
Proof. unfold encode_varint. cbn [enc_varint]. destruct (n <? 128); discriminate. Qed.

Lemma vt_varint_enc n rest : n < two64 -> vt_varint (encode_varint n ++ rest) = Some (n, rest).
Proof.
  intros H. unfold vt_varint. rewrite varint_roundtrip; [|exact H]. rewrite N.mod_small; [reflexivity | exact H].
Qed.

Lemma firstn_len_app {A} (s rest : list A) : firstn (length s) (s ++ rest) = s.
Proof. induction s as [|x s IH]; cbn; [destruct rest; reflexivity | now rewrite IH]. Qed.
Lemma skipn_len_app {A} (s rest : list A) : skipn (length s) (s ++ rest) = rest.
Proof. induction s as [|x s IH]; cbn; [reflexivity | exact IH]. Qed.

Definition small (s : list N) : Prop := N.of_nat (length s) < two63.

Lemma take_n_app s rest : small s -> take_n (N.of_nat (length s)) (s ++ rest) = Some (s, rest).
Proof.
  unfold small, take_n. intros H.
  destruct (N.leb_spec two63 (N.of_nat (length s))); [lia|].
  rewrite app_length. destruct (N.ltb_spec (N.of_nat (length s + length rest)) (N.of_nat (length s))); [lia|].
  rewrite Nat2N.id, firstn_len_app, skipn_len_app. reflexivity.
Qed.

Lemma rd_bytes_enc s rest : small s -> rd_bytes (enc_len s ++ rest) = Some (s, rest).
Proof.
  intros H. unfold rd_bytes, enc_len. rewrite <- app_assoc, vt_varint_enc; [apply take_n_app; exact H|].
  unfold small, two63 in H. unfold two64. lia.
Qed.

Lemma enc_len_length s : (length (enc_len s) <= 10 + length s)%nat.
Proof. unfold enc_len. rewrite app_length. pose proof (encode_varint_len (N.of_nat (length s))). lia. Qed.
Lemma enc_len_length_ge s : (1 + length s <= length (enc_len s))%nat.
Proof.
  unfold enc_len. rewrite app_length. pose proof (encode_varint_nonempty (N.of_nat (length s))).
  destruct (encode_varint (N.of_nat (length s))); [congruence | cbn; lia].
Qed.

(* ---- tags ---- *)
Lemma rd_tag_small t r : 8 <= t -> t < 128 -> (t mod 8 =? 4) = false -> rd_tag (t :: r) = Some (t / 8, t mod 8, r).
Proof.
  intros H1 H2 H3. unfold rd_tag, vt_varint, decode_varint. cbn [dec_varint].
  destruct (N.ltb_spec t 128); [|lia].
  assert (E : t mod two64 = t) by (apply N.mod_small; unfold two64; lia). rewrite E, H3.
  assert (E2 : (t / 8) mod two32 = t / 8).
  { apply N.mod_small. unfold two32. assert (t / 8 < 16) by (apply N.div_lt_upper_bound; lia). lia. }
  rewrite E2.
  assert (1 <= t / 8) by (apply N.div_le_lower_bound; lia).
  destruct (N.eqb_spec (t / 8) 0); [lia|].
  assert (t / 8 < 16) by (apply N.div_lt_upper_bound; lia).
  destruct (N.leb_spec two31 (t / 8)); [unfold two31 in *; lia|]. reflexivity.
Qed.

(* ---- Timestamp ---- *)
Definition ts_wf (t : ts) : Prop := ts_sec t < two64 /\ ts_nanos t < two32.

Lemma sext32_lt n : n < two32 -> sext32 n < two64.
Proof. unfold sext32, two31, two32, two64. intros H. destruct (N.leb_spec 2147483648 n); lia. Qed.
Lemma sext32_mod n : n < two32 -> sext32 n mod two32 = n.
Proof.
  unfold sext32, two31, two32, two64. intros H. destruct (N.leb_spec 2147483648 n).
  - replace (n + (18446744073709551616 - 4294967296)) with (n + 4294967295 * 4294967296) by lia.
    rewrite N.mod_add by lia. apply N.mod_small; lia.
  - apply N.mod_small; lia.
Qed.

Lemma ts_step_sec v rest t : v < two64 ->
  ts_step ((8 :: encode_varint v) ++ rest) t = Some (rest, mkTs v (ts_nanos t)).
Proof.
  intros H. unfold ts_step. cbn [app]. rewrite rd_tag_small by (try reflexivity; lia).
  change (ts_field (8 / 8) (8 mod 8) (8 :: encode_varint v ++ rest) (encode_varint v ++ rest) t)
    with (match vt_varint (encode_varint v ++ rest) with Some (v, r') => Some (r', mkTs v (ts_nanos t)) | None => None end).
  rewrite vt_varint_enc by exact H. reflexivity.
Qed.

Lemma ts_step_nanos n rest t : n < two32 ->
  ts_step ((16 :: encode_varint (sext32 n)) ++ rest) t = Some (rest, mkTs (ts_sec t) n).
Proof.
  intros H. unfold ts_step. cbn [app]. rewrite rd_tag_small by (try reflexivity; lia).
  change (ts_field (16 / 8) (16 mod 8) (16 :: encode_varint (sext32 n) ++ rest) (encode_varint (sext32 n) ++ rest) t)
    with (match vt_varint (encode_varint (sext32 n) ++ rest) with Some (v, r') => Some (r', mkTs (ts_sec t) (v mod two32)) | None => None end).
  rewrite vt_varint_enc by (apply sext32_lt; exact H). rewrite sext32_mod by exact H. reflexivity.
Qed.

Lemma ts_roundtrip t : ts_wf t -> dec_ts_into (enc_ts t) ts_zero = Some t.
Proof.
  intros [Hs Hn]. destruct t as [s n]. cbn [ts_sec ts_nanos] in *. unfold dec_ts_into. apply reaches_end.
  unfold enc_ts. cbn [ts_sec ts_nanos].
  destruct (N.eqb_spec s 0) as [->|Hs0]; destruct (N.eqb_spec n 0) as [->|Hn0].
  - apply reach_refl.
  - cbn [app]. rewrite <- (app_nil_r (16 :: _)). apply reach_one; [discriminate|]. apply (ts_step_nanos n [] ts_zero Hn).
  - apply reach_one; [discriminate|]. apply (ts_step_sec s [] ts_zero Hs).
  - eapply reach_step; [discriminate | apply (ts_step_sec s _ ts_zero Hs) |].
    rewrite <- (app_nil_r (16 :: _)). apply reach_one; [discriminate|]. apply (ts_step_nanos n [] (mkTs s (ts_nanos ts_zero)) Hn).
Qed.

Lemma enc_ts_small t : small (enc_ts t).
Proof.
  unfold small, enc_ts. rewrite app_length.
  assert (le (length (if ts_sec t =? 0 then [] else 8 :: encode_varint (ts_sec t))) 11).
  { destruct (ts_sec t =? 0); cbn [length]; [lia|]. pose proof (encode_varint_len (ts_sec t)). lia. }
  assert (le (length (if ts_nanos t =? 0 then [] else 16 :: encode_varint (sext32 (ts_nanos t)))) 11).
  { destruct (ts_nanos t =? 0); cbn [length]; [lia|]. pose proof (encode_varint_len (sext32 (ts_nanos t))). lia. }
  unfold two63. lia.
Qed.

(* ---- Metadata: one lemma per field ---- *)
Lemma vt_varint_small t r : t < 128 -> vt_varint (t :: r) = Some (t, r).
Proof.
  intros H. unfold vt_varint, decode_varint. cbn [dec_varint]. destruct (N.ltb_spec t 128); [|lia].
  rewrite N.mod_small; [reflexivity | unfold two64; lia].
Qed.

Definition set_created (m : metadata) (t : option ts) : metadata :=
  let '(mkMd x1 x2 x3 x4 x5 x6 x7 x8 x9 x10 x11 x12) := m in mkMd x1 x2 x3 x4 x5 x6 t x8 x9 x10 x11 x12.
Definition set_updated (m : metadata) (t : option ts) : metadata :=
  let '(mkMd x1 x2 x3 x4 x5 x6 x7 x8 x9 x10 x11 x12) := m in mkMd x1 x2 x3 x4 x5 x6 x7 t x9 x10 x11 x12.
Definition add_fin (m : metadata) (s : bstr) : metadata :=
  let '(mkMd x1 x2 x3 x4 x5 x6 x7 x8 x9 x10 x11 x12) := m in mkMd x1 x2 x3 x4 x5 x6 x7 x8 (x9 ++ [s]) x10 x11 x12.
Definition set_label (m : metadata) (k v : bstr) : metadata :=
  let '(mkMd x1 x2 x3 x4 x5 x6 x7 x8 x9 x10 x11 x12) := m in mkMd x1 x2 x3 x4 x5 x6 x7 x8 x9 (kv_set x10 k v) x11 x12.
Definition set_annot (m : metadata) (k v : bstr) : metadata :=
  let '(mkMd x1 x2 x3 x4 x5 x6 x7 x8 x9 x10 x11 x12) := m in mkMd x1 x2 x3 x4 x5 x6 x7 x8 x9 x10 (kv_set x11 k v) x12.

Lemma md_field_str fn b r m : 1 <= fn <= 6 ->
  md_field fn 2 b r m = match rd_bytes r with Some (s, r') => Some (r', md_set_str fn s m) | None => None end.
Proof. intros H. unfold md_field. destruct (N.leb_spec fn 6); [reflexivity | lia]. Qed.
Lemma md_field_created b r m :
  md_field 7 2 b r m = match rd_ts r (md_created m) with Some (t, r') => Some (r', set_created m t) | None => None end.
Proof. destruct m; reflexivity. Qed.
Lemma md_field_updated b r m :
  md_field 8 2 b r m = match rd_ts r (md_updated m) with Some (t, r') => Some (r', set_updated m t) | None => None end.
Proof. destruct m; reflexivity. Qed.
Lemma md_field_fin b r m :
  md_field 9 2 b r m = match rd_bytes r with Some (s, r') => Some (r', add_fin m s) | None => None end.
Proof. destruct m; reflexivity. Qed.
Lemma md_field_label b r m :
  md_field 10 2 b r m = match rd_entry r with Some (k, v, r') => Some (r', set_label m k v) | None => None end.
Proof. destruct m; reflexivity. Qed.
Lemma md_field_annot b r m :
  md_field 11 2 b r m = match rd_entry r with Some (k, v, r') => Some (r', set_annot m k v) | None => None end.
Proof. destruct m; reflexivity. Qed.

Lemma md_step_str t fn s rest m :
  In (t, fn) [(10, 1); (18, 2); (26, 3); (34, 4); (42, 5); (50, 6)] -> small s ->
  md_step ((t :: enc_len s) ++ rest) m = Some (rest, md_set_str fn s m).
Proof.
  intros HIn Hs. unfold md_step. cbn [app].
  cbn [In] in HIn.
  repeat (destruct HIn as [HIn|HIn]; [injection HIn as <- <-; rewrite rd_tag_small by (first [reflexivity | lia]);
    match goal with |- context [md_field ?a ?b _ _ _] => let a' := eval vm_compute in a in let b' := eval vm_compute in b in change a with a'; change b with b' end;
    rewrite md_field_str by lia; rewrite rd_bytes_enc by exact Hs; reflexivity|]).
  contradiction.
Qed.

Lemma rd_ts_enc t old rest : ts_wf t -> old = None -> rd_ts (enc_len (enc_ts t) ++ rest) old = Some (Some t, rest).
Proof.
  intros Hw ->. unfold rd_ts. rewrite rd_bytes_enc by apply enc_ts_small. rewrite ts_roundtrip by exact Hw. reflexivity.
Qed.

Lemma md_step_created t rest m : ts_wf t -> md_created m = None ->
  md_step ((58 :: enc_len (enc_ts t)) ++ rest) m = Some (rest, set_created m (Some t)).
Proof.
  intros Hw Hn. unfold md_step. cbn [app]. rewrite rd_tag_small by (first [reflexivity | lia]).
  change (58 / 8) with 7. change (58 mod 8) with 2. rewrite md_field_created, rd_ts_enc by assumption. reflexivity.
Qed.
Lemma md_step_updated t rest m : ts_wf t -> md_updated m = None ->
  md_step ((66 :: enc_len (enc_ts t)) ++ rest) m = Some (rest, set_updated m (Some t)).
Proof.
  intros Hw Hn. unfold md_step. cbn [app]. rewrite rd_tag_small by (first [reflexivity | lia]).
  change (66 / 8) with 8. change (66 mod 8) with 2. rewrite md_field_updated, rd_ts_enc by assumption. reflexivity.
Qed.
Lemma md_step_fin s rest m : small s ->
  md_step ((74 :: enc_len s) ++ rest) m = Some (rest, add_fin m s).
Proof.
  intros Hs. unfold md_step. cbn [app]. rewrite rd_tag_small by (first [reflexivity | lia]).
  change (74 / 8) with 9. change (74 mod 8) with 2. rewrite md_field_fin, rd_bytes_enc by assumption. reflexivity.
Qed.

(* ---- map entries ---- *)
Definition entry_body (kv : bstr * bstr) : list N := 10 :: enc_len (fst kv) ++ 18 :: enc_len (snd kv).
Definition entry_small (kv : bstr * bstr) : Prop := small (fst kv) /\ small (snd kv) /\ small (entry_body kv).

Lemma dec_entry_done f buf used msglen k v : msglen <= used -> dec_entry f buf used msglen k v = Some (k, v).
Proof. intros H. destruct f; cbn [dec_entry]; destruct (N.leb_spec msglen used); try reflexivity; lia. Qed.

Lemma dec_entry_kv f k v rest k0 v0 : small k -> small v -> (2 <= f)%nat ->
  dec_entry f (entry_body (k, v) ++ rest) 0 (N.of_nat (length (entry_body (k, v)))) k0 v0 = Some (k, v).
Proof.
  intros Hk Hv Hf. destruct f as [|[|f]]; try lia. unfold entry_body. cbn [fst snd].
  set (A := enc_len k). set (B := enc_len v).
  cbn [dec_entry app length].
  destruct (N.leb_spec (N.of_nat (S (length (A ++ 18 :: B)))) 0) as [L0|L0]; [lia|].
  rewrite vt_varint_small by lia.
  change ((10 / 8) mod two32 =? 1) with true. cbv iota.
  rewrite <- app_assoc. subst A. rewrite rd_bytes_enc by exact Hk.
  set (A := enc_len k).
  match goal with |- context [0 + N.of_nat ?x] => set (U1 := 0 + N.of_nat x) end.
  assert (EU1 : U1 = N.of_nat (1 + length A)).
  { subst U1. cbn [length]. rewrite ?app_length. cbn [length]. rewrite ?app_length. lia. }
  assert (EL : N.of_nat (S (length (A ++ 18 :: B))) = N.of_nat (1 + length A + 1 + length B)).
  { rewrite app_length. cbn [length]. lia. }
  rewrite EL.
  destruct (N.leb_spec (N.of_nat (1 + length A + 1 + length B)) U1) as [L1|L1]; [lia|].
  cbn [app]. rewrite vt_varint_small by lia.
  change ((18 / 8) mod two32 =? 1) with false. change ((18 / 8) mod two32 =? 2) with true. cbv iota.
  subst B. rewrite rd_bytes_enc by exact Hv.
  apply dec_entry_done. rewrite EU1. cbn [length]. rewrite app_length. lia.
Qed.

Lemma rd_entry_enc kv rest : entry_small kv -> rd_entry (enc_len (entry_body kv) ++ rest) = Some (fst kv, snd kv, rest).
Proof.
  intros (Hk & Hv & Hb). destruct kv as [k v]. cbn [fst snd] in *.
  unfold rd_entry, enc_len. rewrite <- app_assoc.
  rewrite vt_varint_enc by (unfold small, two63 in Hb; unfold two64; lia).
  rewrite take_n_app by exact Hb.
  rewrite dec_entry_kv; [reflexivity | exact Hk | exact Hv |].
  rewrite app_length. unfold entry_body. cbn [length fst snd]. rewrite app_length. cbn [length]. lia.
Qed.

Lemma md_step_label kv rest m : entry_small kv ->
  md_step (enc_entry 82 kv ++ rest) m = Some (rest, set_label m (fst kv) (snd kv)).
Proof.
  intros Hs. unfold md_step, enc_entry, enc_msg. cbn [app]. rewrite rd_tag_small by (first [reflexivity | lia]).
  change (82 / 8) with 10. change (82 mod 8) with 2. rewrite md_field_label.
  change (10 :: enc_len (fst kv) ++ 18 :: enc_len (snd kv)) with (entry_body kv).
  rewrite rd_entry_enc by exact Hs. reflexivity.
Qed.
Lemma md_step_annot kv rest m : entry_small kv ->
  md_step (enc_entry 90 kv ++ rest) m = Some (rest, set_annot m (fst kv) (snd kv)).
Proof.
  intros Hs. unfold md_step, enc_entry, enc_msg. cbn [app]. rewrite rd_tag_small by (first [reflexivity | lia]).
  change (90 / 8) with 11. change (90 mod 8) with 2. rewrite md_field_annot.
  change (10 :: enc_len (fst kv) ++ 18 :: enc_len (snd kv)) with (entry_body kv).
  rewrite rd_entry_enc by exact Hs. reflexivity.
Qed.

(* ---- maps as association lists ---- *)
Lemma bstr_eqb_eq a : forall b, bstr_eqb a b = true <-> a = b.
Proof.
  induction a as [|x a IH]; intros [|y b]; cbn; try (split; [discriminate|discriminate]); [split; reflexivity|].
  rewrite Bool.andb_true_iff, N.eqb_eq, IH. split; [intros [-> ->]; reflexivity | intros [= -> ->]; split; reflexivity].
Qed.

Lemma kv_set_fresh m k v : ~ In k (map fst m) -> kv_set m k v = m ++ [(k, v)].
Proof.
  induction m as [|[k' v'] m IH]; cbn [kv_set map In fst app]; intros H; [reflexivity|].
  destruct (bstr_eqb k' k) eqn:E; [apply bstr_eqb_eq in E; tauto|]. rewrite IH by tauto. reflexivity.
Qed.

Definition kv_ins (m : kvs) (kv : bstr * bstr) : kvs := kv_set m (fst kv) (snd kv).

Lemma fold_kv_ins l : forall m0, NoDup (map fst (m0 ++ l)) -> fold_left kv_ins l m0 = m0 ++ l.
Proof.
  induction l as [|[k v] l IH]; intros m0 H; cbn [fold_left]; [now rewrite app_nil_r|].
  unfold kv_ins at 2. cbn [fst snd]. rewrite kv_set_fresh.
  - rewrite IH; rewrite <- app_assoc; [reflexivity | exact H].
  - rewrite map_app in H. cbn [map fst] in H. apply NoDup_remove_2 in H. intros HI. apply H. apply in_or_app. left. exact HI.
Qed.

Lemma kv_set_keys m k v : forall x, In x (map fst (kv_set m k v)) <-> In x (map fst m) \/ x = k.
Proof.
  induction m as [|[k' v'] m IH]; intros x; cbn [kv_set map fst In]; [intuition congruence|].
  destruct (bstr_eqb k' k) eqn:E; cbn [map fst In].
  - apply bstr_eqb_eq in E. subst. intuition congruence.
  - rewrite IH. intuition congruence.
Qed.

Lemma kv_set_nodup m k v : NoDup (map fst m) -> NoDup (map fst (kv_set m k v)).
Proof.
  induction m as [|[k' v'] m IH]; cbn [kv_set map fst]; intros H; [constructor; [tauto | constructor]|].
  inversion H as [|? ? Hn Hd]; subst. destruct (bstr_eqb k' k) eqn:E; cbn [map fst].
  - constructor; assumption.
  - constructor; [|apply IH; exact Hd]. rewrite kv_set_keys. intros [HI| ->]; [tauto|].
    assert (bstr_eqb k k = true) by (apply bstr_eqb_eq; reflexivity). congruence.
Qed.

(* ---- repeated fields ---- *)
Lemma fold_add_fin fs : forall x1 x2 x3 x4 x5 x6 x7 x8 x9 x10 x11 x12,
  fold_left add_fin fs (mkMd x1 x2 x3 x4 x5 x6 x7 x8 x9 x10 x11 x12) = mkMd x1 x2 x3 x4 x5 x6 x7 x8 (x9 ++ fs) x10 x11 x12.
Proof.
  induction fs as [|f fs IH]; intros; cbn [fold_left add_fin]; [now rewrite app_nil_r|]. rewrite IH, <- app_assoc. reflexivity.
Qed.
Definition ins_label (m : metadata) (kv : bstr * bstr) := set_label m (fst kv) (snd kv).
Definition ins_annot (m : metadata) (kv : bstr * bstr) := set_annot m (fst kv) (snd kv).
Lemma fold_ins_label l : forall x1 x2 x3 x4 x5 x6 x7 x8 x9 x10 x11 x12,
  fold_left ins_label l (mkMd x1 x2 x3 x4 x5 x6 x7 x8 x9 x10 x11 x12) = mkMd x1 x2 x3 x4 x5 x6 x7 x8 x9 (fold_left kv_ins l x10) x11 x12.
Proof. induction l as [|kv l IH]; intros; cbn [fold_left]; [reflexivity|]. unfold ins_label at 2. cbn [set_label]. rewrite IH. reflexivity. Qed.
Lemma fold_ins_annot l : forall x1 x2 x3 x4 x5 x6 x7 x8 x9 x10 x11 x12,
  fold_left ins_annot l (mkMd x1 x2 x3 x4 x5 x6 x7 x8 x9 x10 x11 x12) = mkMd x1 x2 x3 x4 x5 x6 x7 x8 x9 x10 (fold_left kv_ins l x11) x12.
Proof. induction l as [|kv l IH]; intros; cbn [fold_left]; [reflexivity|]. unfold ins_annot at 2. cbn [set_annot]. rewrite IH. reflexivity. Qed.

Lemma reach_fins fs : forall rest m, Forall small fs ->
  reaches md_step (flat_map (fun f => 74 :: enc_len f) fs ++ rest) m rest (fold_left add_fin fs m).
Proof.
  induction fs as [|f fs IH]; intros rest m H; cbn [flat_map fold_left]; [apply reach_refl|].
  inversion H; subst. rewrite <- app_assoc. eapply reach_step; [discriminate | apply md_step_fin; assumption | apply IH; assumption].
Qed.
Lemma enc_entry_nonempty t kv : enc_entry t kv <> [].
Proof. discriminate. Qed.
Lemma reach_labels l : forall rest m, Forall entry_small l ->
  reaches md_step (flat_map (enc_entry 82) l ++ rest) m rest (fold_left ins_label l m).
Proof.
  induction l as [|kv l IH]; intros rest m H; cbn [flat_map fold_left]; [apply reach_refl|].
  inversion H; subst. rewrite <- app_assoc. eapply reach_step; [apply enc_entry_nonempty | apply md_step_label; assumption | apply IH; assumption].
Qed.
Lemma reach_annots l : forall rest m, Forall entry_small l ->
  reaches md_step (flat_map (enc_entry 90) l ++ rest) m rest (fold_left ins_annot l m).
Proof.
  induction l as [|kv l IH]; intros rest m H; cbn [flat_map fold_left]; [apply reach_refl|].
  inversion H; subst. rewrite <- app_assoc. eapply reach_step; [apply enc_entry_nonempty | apply md_step_annot; assumption | apply IH; assumption].
Qed.

Lemma reach_str t fn s rest m :
  In (t, fn) [(10, 1); (18, 2); (26, 3); (34, 4); (42, 5); (50, 6)] -> small s -> md_set_str fn [] m = m ->
  reaches md_step (enc_str t s ++ rest) m rest (md_set_str fn s m).
Proof.
  intros HIn Hs H0. destruct s as [|c s]; [rewrite H0; apply reach_refl|].
  unfold enc_str. apply reach_one; [discriminate | apply md_step_str; assumption].
Qed.
Lemma reach_created o rest m : match o with Some t => ts_wf t | None => True end -> md_created m = None ->
  reaches md_step ((match o with Some t => enc_msg 58 (enc_ts t) | None => [] end) ++ rest) m rest (set_created m o).
Proof.
  intros Hw Hn. destruct o as [t|].
  - unfold enc_msg. apply reach_one; [discriminate | apply md_step_created; assumption].
  - destruct m. cbn in Hn. subst. apply reach_refl.
Qed.
Lemma reach_updated o rest m : match o with Some t => ts_wf t | None => True end -> md_updated m = None ->
  reaches md_step ((match o with Some t => enc_msg 66 (enc_ts t) | None => [] end) ++ rest) m rest (set_updated m o).
Proof.
  intros Hw Hn. destruct o as [t|].
  - unfold enc_msg. apply reach_one; [discriminate | apply md_step_updated; assumption].
  - destruct m. cbn in Hn. subst. apply reach_refl.
Qed.

(* ---- Metadata round trip ---- *)
Definition ots_wf (o : option ts) : Prop := match o with Some t => ts_wf t | None => True end.
Record md_wf (m : metadata) : Prop := {
  wf_ns : small (md_ns m); wf_typ : small (md_typ m); wf_id : small (md_id m); wf_ver : small (md_ver m);
  wf_owner : small (md_owner m); wf_phase : small (md_phase m);
  wf_created : ots_wf (md_created m); wf_updated : ots_wf (md_updated m);
  wf_fins : Forall small (md_fins m);
  wf_labels : Forall entry_small (md_labels m); wf_labels_nd : NoDup (map fst (md_labels m));
  wf_annot : Forall entry_small (md_annot m); wf_annot_nd : NoDup (map fst (md_annot m));
  wf_unk : md_unk m = [] }.

Theorem md_roundtrip m : md_wf m -> dec_md (enc_md m) = Some m.
Proof.
  intros W. destruct W. destruct m as [ns typ id ver owner phase cr up fins labels annot unk].
  cbn [md_ns md_typ md_id md_ver md_owner md_phase md_created md_updated md_fins md_labels md_annot md_unk] in *. subst unk.
  unfold dec_md, dec_md_into. apply reaches_end. unfold enc_md.
  cbn [md_ns md_typ md_id md_ver md_owner md_phase md_created md_updated md_fins md_labels md_annot md_unk].
  eapply reaches_trans; [apply (reach_str 10 1); [cbn; tauto | assumption | reflexivity]|].
  eapply reaches_trans; [apply (reach_str 18 2); [cbn; tauto | assumption | reflexivity]|].
  eapply reaches_trans; [apply (reach_str 26 3); [cbn; tauto | assumption | reflexivity]|].
  eapply reaches_trans; [apply (reach_str 34 4); [cbn; tauto | assumption | reflexivity]|].
  eapply reaches_trans; [apply (reach_str 42 5); [cbn; tauto | assumption | reflexivity]|].
  eapply reaches_trans; [apply (reach_str 50 6); [cbn; tauto | assumption | reflexivity]|].
  eapply reaches_trans; [apply reach_created; [assumption | reflexivity]|].
  eapply reaches_trans; [apply reach_updated; [assumption | reflexivity]|].
  eapply reaches_trans; [apply reach_fins; assumption|].
  eapply reaches_trans; [apply reach_labels; assumption|].
  eapply reaches_trans; [apply reach_annots; assumption|].
  cbn [md_zero md_set_str set_created set_updated N.eqb Pos.eqb].
  rewrite fold_add_fin, fold_ins_label, fold_ins_annot, !fold_kv_ins by assumption.
  apply reach_refl.
Qed.

(* ---- Spec and Resource ---- *)
Lemma sp_step_proto x rest s : small x ->
  sp_step ((10 :: enc_len x) ++ rest) s = Some (rest, mkSp x (sp_yaml s) (sp_unk s)).
Proof.
  intros Hx. unfold sp_step. cbn [app]. rewrite rd_tag_small by (first [reflexivity | lia]).
  change (sp_field (10 / 8) (10 mod 8) (10 :: enc_len x ++ rest) (enc_len x ++ rest) s)
    with (match rd_bytes (enc_len x ++ rest) with Some (x, r') => Some (r', mkSp x (sp_yaml s) (sp_unk s)) | None => None end).
  rewrite rd_bytes_enc by exact Hx. reflexivity.
Qed.
Lemma sp_step_yaml x rest s : small x ->
  sp_step ((18 :: enc_len x) ++ rest) s = Some (rest, mkSp (sp_proto s) x (sp_unk s)).
Proof.
  intros Hx. unfold sp_step. cbn [app]. rewrite rd_tag_small by (first [reflexivity | lia]).
  change (sp_field (18 / 8) (18 mod 8) (18 :: enc_len x ++ rest) (enc_len x ++ rest) s)
    with (match rd_bytes (enc_len x ++ rest) with Some (x, r') => Some (r', mkSp (sp_proto s) x (sp_unk s)) | None => None end).
  rewrite rd_bytes_enc by exact Hx. reflexivity.
Qed.

Definition sp_wf (s : spec) : Prop := small (sp_proto s) /\ small (sp_yaml s) /\ sp_unk s = [].

Theorem spec_roundtrip s : sp_wf s -> dec_spec_into (enc_spec s) sp_zero = Some s.
Proof.
  intros (Hp & Hy & Hu). destruct s as [p y u]. cbn [sp_proto sp_yaml sp_unk] in *. subst u.
  unfold dec_spec_into. apply reaches_end. unfold enc_spec. cbn [sp_proto sp_yaml sp_unk].
  eapply reaches_trans with (b2 := enc_str 18 y ++ []) (a2 := mkSp p [] []).
  - destruct p as [|c p]; [apply reach_refl|]. unfold enc_str. apply reach_one; [discriminate|]. apply (sp_step_proto (c :: p) _ sp_zero Hp).
  - destruct y as [|c y]; [apply reach_refl|]. unfold enc_str. apply reach_one; [discriminate|]. apply (sp_step_yaml (c :: y) _ (mkSp p [] []) Hy).
Qed.

Definition owf {A} (P : A -> Prop) (o : option A) : Prop := match o with Some x => P x | None => True end.
Definition wr_wf (x : wres) : Prop :=
  owf (fun m => md_wf m /\ small (enc_md m)) (wr_md x) /\ owf (fun s => sp_wf s /\ small (enc_spec s)) (wr_spec x) /\ wr_unk x = [].

Lemma wr_step_md m rest x : md_wf m -> small (enc_md m) -> wr_md x = None ->
  wr_step (enc_msg 10 (enc_md m) ++ rest) x = Some (rest, mkWr (Some m) (wr_spec x) (wr_unk x)).
Proof.
  intros Hw Hs Hn. unfold wr_step, enc_msg. cbn [app]. rewrite rd_tag_small by (first [reflexivity | lia]).
  change (wr_field (10 / 8) (10 mod 8) (10 :: enc_len (enc_md m) ++ rest) (enc_len (enc_md m) ++ rest) x)
    with (match rd_bytes (enc_len (enc_md m) ++ rest) with
          | Some (body, r') =>
              match dec_md_into body (match wr_md x with Some m => m | None => md_zero end) with
              | Some m => Some (r', mkWr (Some m) (wr_spec x) (wr_unk x))
              | None => None
              end
          | None => None
          end).
  rewrite rd_bytes_enc by exact Hs. rewrite Hn. change (dec_md_into (enc_md m) md_zero) with (dec_md (enc_md m)).
  rewrite md_roundtrip by exact Hw. reflexivity.
Qed.
Lemma wr_step_spec s rest x : sp_wf s -> small (enc_spec s) -> wr_spec x = None ->
  wr_step (enc_msg 18 (enc_spec s) ++ rest) x = Some (rest, mkWr (wr_md x) (Some s) (wr_unk x)).
Proof.
  intros Hw Hs Hn. unfold wr_step, enc_msg. cbn [app]. rewrite rd_tag_small by (first [reflexivity | lia]).
  change (wr_field (18 / 8) (18 mod 8) (18 :: enc_len (enc_spec s) ++ rest) (enc_len (enc_spec s) ++ rest) x)
    with (match rd_bytes (enc_len (enc_spec s) ++ rest) with
          | Some (body, r') =>
              match dec_spec_into body (match wr_spec x with Some s => s | None => sp_zero end) with
              | Some s => Some (r', mkWr (wr_md x) (Some s) (wr_unk x))
              | None => None
              end
          | None => None
          end).
  rewrite rd_bytes_enc by exact Hs. rewrite Hn. rewrite spec_roundtrip by exact Hw. reflexivity.
Qed.

(* the wire form of a resource (metadata and spec, each present or absent) reads back as the same resource *)
Theorem res_roundtrip x : wr_wf x -> dec_res (enc_res x) = Some x.
Proof.
  intros (Hm & Hs & Hu). destruct x as [om os u]. cbn [wr_md wr_spec wr_unk] in *. subst u.
  unfold dec_res. apply reaches_end. unfold enc_res. cbn [wr_md wr_spec wr_unk].
  eapply reaches_trans with (a2 := mkWr om None []) (b2 := (match os with Some s => enc_msg 18 (enc_spec s) | None => [] end) ++ []).
  - destruct om as [m|]; [|apply reach_refl]. destruct Hm as [Hw Hsm]. unfold enc_msg. apply reach_one; [discriminate|].
    apply (wr_step_md m _ wr_zero Hw Hsm eq_refl).
  - destruct os as [s|]; [|apply reach_refl]. destruct Hs as [Hw Hss]. unfold enc_msg. apply reach_one; [discriminate|].
    apply (wr_step_spec s _ (mkWr om None []) Hw Hss eq_refl).
Qed.

(* ---- what an accepted Metadata looks like: no key twice in either map, whatever the bytes were ---- *)
Definition keys_unique (m : metadata) : Prop := NoDup (map fst (md_labels m)) /\ NoDup (map fst (md_annot m)).

Lemma md_field_keys fn wt b r m r' m' : keys_unique m -> md_field fn wt b r m = Some (r', m') -> keys_unique m'.
Proof.
  intros [Hl Ha] H. unfold md_field in H. destruct m as [x1 x2 x3 x4 x5 x6 x7 x8 x9 x10 x11 x12].
  cbn [md_labels md_annot md_created md_updated] in *.
  repeat match type of H with
  | (if ?c then _ else _) = _ => destruct c
  | match ?x with _ => _ end = _ => destruct x
  | None = Some _ => discriminate
  end;
  try (injection H as <- <-; unfold keys_unique; cbn [md_labels md_annot md_set_str];
       first [split; assumption | split; [apply kv_set_nodup; assumption | assumption] | split; [assumption | apply kv_set_nodup; assumption] | idtac]).
  all: try (unfold md_set_str; repeat match goal with |- context [if ?c then _ else _] => destruct c end; cbn [md_labels md_annot]; split; assumption).
Qed.

Lemma loop_inv {A} (step : list N -> A -> option (list N * A)) (P : A -> Prop) :
  (forall b acc r acc', P acc -> step b acc = Some (r, acc') -> P acc') ->
  forall f b acc res, P acc -> loop step f b acc = Some res -> P res.
Proof.
  intros Hstep. induction f as [|f IH]; intros b acc res HP H; destruct b as [|c b]; cbn [loop] in H; try (injection H as <-; exact HP); try discriminate.
  destruct (step (c :: b) acc) as [[r acc']|] eqn:E; [|discriminate]. eapply IH; [eapply Hstep; eauto | exact H].
Qed.

Theorem dec_md_keys_unique b m : dec_md b = Some m -> keys_unique m.
Proof.
  unfold dec_md, dec_md_into. apply loop_inv with (P := keys_unique).
  - intros b0 acc r acc' HP H. unfold md_step in H. destruct (rd_tag b0) as [[[fn wt] r0]|]; [|discriminate].
    eapply md_field_keys; eauto.
  - split; constructor.
Qed.

(* the hypotheses of the round-trip theorems are satisfiable by a resource with every kind of field *)
Example wire_example :
  let t := mkTs 1700000000 123456789 in
  let m := mkMd [110; 115] [84] [105; 100] [49] [] [114] (Some t) (Some (mkTs (two64 - 5) (two32 - 1))) [[102; 49]; [102; 50]]
             [([107], [118]); ([], [])] [([97], [98; 99])] [] in
  let x := mkWr (Some m) (Some (mkSp [1; 2; 3] [121] [])) [] in
  dec_res (enc_res x) = Some x /\ dec_md (enc_md m) = Some m.
Proof. vm_compute. split; reflexivity. Qed.

Example wire_wf_example :
  let t := mkTs 1700000000 123456789 in
  let m := mkMd [110; 115] [84] [105; 100] [49] [] [114] (Some t) (Some (mkTs (two64 - 5) (two32 - 1))) [[102; 49]; [102; 50]]
             [([107], [118]); ([], [])] [([97], [98; 99])] [] in
  let x := mkWr (Some m) (Some (mkSp [1; 2; 3] [121] [])) [] in
  md_wf m /\ wr_wf x.
Proof.
  assert (S : forall s, N.of_nat (length s) <? two63 = true -> small s) by (intros s H; unfold small; apply N.ltb_lt; exact H).
  assert (E : forall kv, small (fst kv) -> small (snd kv) -> small (entry_body kv) -> entry_small kv) by (intros; repeat split; assumption).
  assert (W : md_wf (mkMd [110; 115] [84] [105; 100] [49] [] [114] (Some (mkTs 1700000000 123456789)) (Some (mkTs (two64 - 5) (two32 - 1))) [[102; 49]; [102; 50]]
             [([107], [118]); ([], [])] [([97], [98; 99])] [])).
  { constructor; cbn [md_ns md_typ md_id md_ver md_owner md_phase md_created md_updated md_fins md_labels md_annot md_unk];
      try (apply S; vm_compute; reflexivity); try reflexivity.
    - split; vm_compute; reflexivity.
    - split; vm_compute; reflexivity.
    - repeat constructor; apply S; vm_compute; reflexivity.
    - repeat constructor; apply E; apply S; vm_compute; reflexivity.
    - repeat constructor; cbn; intuition discriminate.
    - repeat constructor; apply E; apply S; vm_compute; reflexivity.
    - repeat constructor; cbn; intuition discriminate. }
  cbv zeta. split; [exact W|]. unfold wr_wf. cbn [wr_md wr_spec wr_unk owf].
  split; [split; [exact W | apply S; vm_compute; reflexivity]|].
  split; [|reflexivity]. split; [|apply S; vm_compute; reflexivity].
  unfold sp_wf. cbn [sp_proto sp_yaml sp_unk]. repeat split; apply S; vm_compute; reflexivity.
Qed.
