From Verif Require Import Wire.
From Coq Require Import ZifyN ZifyBool ZifyNat.
Open Scope N_scope.

Ltac dm128 n := pose proof (N.mod_lt n 128 ltac:(discriminate)); pose proof (N.div_mod n 128 ltac:(discriminate)).

Lemma varint_roundtrip_gen f : forall n rest,
  (0 < f)%nat -> n < 128 ^ N.of_nat f -> dec_varint f (enc_varint f n ++ rest) = Some (n, rest).
Proof.
  induction f as [|f IH]; intros n rest Hf Hn.
  - lia.
  - cbn [enc_varint]. destruct (N.ltb_spec n 128) as [L|L].
    + cbn [app dec_varint]. destruct (N.ltb_spec n 128) as [|L2]; [reflexivity | exfalso; clear - L L2; lia].
    + cbn [app dec_varint]. dm128 n.
      destruct (N.ltb_spec (128 + n mod 128) 128) as [L3|L3]; [exfalso; clear - L3; lia|].
      assert (Hf' : (0 < f)%nat) by (destruct f; [cbn in Hn; exfalso; clear - Hn L; lia | lia]).
      rewrite IH.
      * f_equal. f_equal. clear - H H0. lia.
      * exact Hf'.
      * rewrite Nat2N.inj_succ, N.pow_succ_r' in Hn. apply N.div_lt_upper_bound; lia.
Qed.

(* every 64-bit value survives the varint encoding, whatever follows it *)
Theorem varint_roundtrip n rest :
  n < 18446744073709551616 -> decode_varint (encode_varint n ++ rest) = Some (n, rest).
Proof.
  intros H. apply varint_roundtrip_gen; [lia | cbn; lia].
Qed.

(* the decoder is total: it consumes at most ten bytes and fails on truncated or over-long input *)
Theorem varint_decoder_total b : decode_varint b = None \/ exists n rest, decode_varint b = Some (n, rest) /\ (length rest < length b)%nat.
Proof.
  unfold decode_varint. generalize 10%nat as f. intros f. revert b.
  induction f as [|f IH]; intros b; [left; reflexivity|].
  destruct b as [|c rest]; [left; reflexivity|]. cbn [dec_varint].
  destruct (N.ltb c 128).
  - right. exists c, rest. split; [reflexivity | cbn; lia].
  - destruct (IH rest) as [E|[n [r [E L]]]]; rewrite E; [left; reflexivity|].
    right. eexists _, r. split; [reflexivity | cbn; lia].
Qed.

(* a field tag never starts with a zero byte: a non-empty wire message cannot look like a compression header *)
Theorem tag_nonzero field wt : 1 <= field -> wt < 8 ->
  match encode_tag field wt with c :: _ => c <> 0 | [] => False end.
Proof.
  intros Hf Hw. unfold encode_tag, encode_varint. cbn [enc_varint].
  destruct (N.ltb_spec (field * 8 + wt) 128); [lia|]. dm128 (field * 8 + wt). lia.
Qed.
