(* WireStack.v — the whole path of a store record: wire form of the resource (WireMsg) inside any stack of
   compression / encryption wrappers (Frame). *)
From Verif Require Import Frame FrameProofs WireMsg WireMsgProofs.
Open Scope N_scope.

(* what the protobuf marshaler emits never looks like a compression header: it is empty or starts with a field tag *)
Lemma enc_res_raw_ok x : wr_unk x = [] -> raw_ok (enc_res x).
Proof.
  intros Hu. unfold raw_ok, enc_res. rewrite Hu. destruct (wr_md x) as [m|]; [reflexivity|].
  destruct (wr_spec x) as [s|]; reflexivity.
Qed.

Section Stack.
  Variable compress : bytes -> bytes.
  Variable decompress : bytes -> option bytes.
  Variable comp_id : N.
  Variable key : Type.
  Variable seal : key -> bytes -> bytes -> bytes.
  Variable open : key -> bytes -> bytes -> option bytes.
  Hypothesis comp_ok : forall b, decompress (compress b) = Some b.
  Hypothesis aead_ok : forall k n b, length n = 12%nat -> open k n (seal k n b) = Some b.
  Hypothesis seal_nonempty : forall (k : key) n b, (length (seal k n b) >= 1)%nat.

  (* a resource written through ANY marshaler stack and read back through the same stack is the same resource *)
  Theorem record_roundtrip ls nonces x :
    wr_wf x -> nonces_ok key ls nonces ->
    match unmarshal decompress comp_id key open ls (marshal compress comp_id key seal ls nonces (enc_res x)) with
    | Some p => dec_res p
    | None => None
    end = Some x.
  Proof.
    intros Hw Hn.
    rewrite (stack_roundtrip compress decompress comp_id key seal open comp_ok aead_ok seal_nonempty ls nonces (enc_res x)).
    - apply res_roundtrip. exact Hw.
    - apply enc_res_raw_ok. destruct Hw as (_ & _ & Hu). exact Hu.
    - exact Hn.
  Qed.
End Stack.
