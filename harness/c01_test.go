package harness

import (
	"context"
	"encoding/json"
	"fmt"
	"github.com/cosi-project/runtime/pkg/resource/kvutils"
	"os"
	"path/filepath"
	"strings"
	"sync"
	"sync/atomic"
	"testing"
	"testing/synctest"
	"time"

	"github.com/cosi-project/runtime/pkg/resource"
	"github.com/cosi-project/runtime/pkg/state"
)

// sOp is one replayable store operation.
type sOp struct {
	Op       string            `json:"op"` // create | update | destroy | get | list
	NS       string            `json:"ns"`
	Typ      string            `json:"typ"`
	ID       string            `json:"id,omitempty"`
	Owner    string            `json:"owner,omitempty"`     // owner option of the call
	ObjOwner string            `json:"obj_owner,omitempty"` // owner field of the supplied object
	Ver      string            `json:"ver,omitempty"`       // version of the supplied object ("undefined" or decimal)
	Tearing  bool              `json:"tearing,omitempty"`   // phase of the supplied object
	Fins     []string          `json:"fins,omitempty"`
	Labels   map[string]string `json:"labels,omitempty"`
	Payload  string            `json:"payload,omitempty"`
	Exp      string            `json:"exp,omitempty"`     // expected phase: "" (default) | running | tearingDown | any
	VerRel   string            `json:"ver_rel,omitempty"` // generator hint: cur | stale | future | undef (resolved to Ver at run time if Ver == "")
	Fault    bool              `json:"fault,omitempty"`   // the backing store rejects the write of this operation (faulty handle only)
	ViaGet   bool              `json:"via_get,omitempty"` // update: the labels of the supplied object are edited on a copy read from the state (batch editor, deletions first)
}

func (o sOp) build(t0 time.Time, lastVer map[string]uint64) *Res {
	r := newRes(o.NS, o.Typ, o.ID, o.Payload)
	r.Metadata().SetCreated(t0)
	r.Metadata().SetUpdated(t0)

	ver := o.Ver
	if ver == "" {
		cur := lastVer[o.NS+"/"+o.Typ+"/"+o.ID]

		switch o.VerRel {
		case "stale":
			if cur > 0 {
				ver = fmt.Sprint(cur - 1)
			} else {
				ver = "7"
			}
		case "future":
			ver = fmt.Sprint(cur + 1)
		case "undef":
			ver = "undefined"
		default:
			if cur == 0 {
				ver = "undefined"
			} else {
				ver = fmt.Sprint(cur)
			}
		}
	}

	v, err := resource.ParseVersion(ver)
	if err != nil {
		panic(err)
	}

	r.Metadata().SetVersion(v)

	if o.ObjOwner != "" {
		r.Metadata().SetOwner(o.ObjOwner) //nolint:errcheck
	}

	if o.Tearing {
		r.Metadata().SetPhase(resource.PhaseTearingDown)
	}

	for _, f := range o.Fins {
		r.Metadata().Finalizers().Add(f)
	}

	for k, v := range o.Labels {
		r.Metadata().Labels().Set(k, v)
	}

	return r
}

func expOpt(exp string) (state.UpdateOption, string) {
	switch exp {
	case "running":
		return state.WithExpectedPhase(resource.PhaseRunning), "(Some false)"
	case "tearingDown":
		return state.WithExpectedPhase(resource.PhaseTearingDown), "(Some true)"
	case "any":
		return state.WithExpectedPhaseAny(), "None"
	}

	return func(*state.UpdateOptions) {}, "(Some false)" // default = running
}

// execOp runs one op on the real state; returns the Coq op, the Coq observation and a panic note.
func execOp(ctx context.Context, st state.CoreState, o sOp, t0 time.Time, lastVer map[string]uint64, mu *sync.Mutex) (coqOp, coqObs, panicked string) {
	key := o.NS + "/" + o.Typ + "/" + o.ID

	errObsOf := func(err error) string {
		eo := classify(err, o.NS, o.Typ)
		panicked = eo.Panicked

		return "(ObErr " + eo.coq() + ")"
	}

	written := func(r *Res) string {
		md := r.Metadata()

		mu.Lock()
		lastVer[key] = md.Version().Value()
		mu.Unlock()

		return fmt.Sprintf("(ObWritten %s %s %s %s)", coqVer(md.Version()), coqAtom(md.Owner()), coqZ(int64(md.Updated().Sub(t0))), coqZ(int64(md.Created().Sub(t0))))
	}

	switch o.Op {
	case "create":
		mu.Lock()
		r := o.build(t0, lastVer)
		mu.Unlock()

		coqOp = fmt.Sprintf("(OpCreate %s %s)", coqRes(r, t0), coqAtom(o.Owner))

		if err := st.Create(ctx, r, state.WithCreateOwner(o.Owner)); err != nil {
			return coqOp, errObsOf(err), panicked
		}

		return coqOp, written(r), ""
	case "update":
		mu.Lock()
		r := o.build(t0, lastVer)
		mu.Unlock()

		if o.ViaGet {
			// the usual way to update: start from what the state returned. The label set of that copy (which may share its
			// map with the stored object) is edited into the wanted one, deletions first
			if cur, err := st.Get(ctx, resource.NewMetadata(o.NS, o.Typ, o.ID, resource.VersionUndefined)); err == nil {
				want := map[string]string{}
				for _, k := range r.Metadata().Labels().Keys() {
					want[k], _ = r.Metadata().Labels().Get(k)
				}

				*r.Metadata().Labels() = *cur.Metadata().Labels()

				r.Metadata().Labels().Do(func(tmp kvutils.TempKV) {
					for _, k := range cur.Metadata().Labels().Keys() {
						if _, keep := want[k]; !keep {
							tmp.Delete(k)
						}
					}

					for k, v := range want {
						tmp.Set(k, v)
					}
				})
			}
		}

		opt, coqExp := expOpt(o.Exp)
		coqOp = fmt.Sprintf("(OpUpdate %s %s %s)", coqRes(r, t0), coqAtom(o.Owner), coqExp)

		if err := st.Update(ctx, r, state.WithUpdateOwner(o.Owner), opt); err != nil {
			return coqOp, errObsOf(err), panicked
		}

		return coqOp, written(r), ""
	case "destroy":
		coqOp = fmt.Sprintf("(OpDestroy %s %s)", coqKey(o.NS, o.Typ, o.ID), coqAtom(o.Owner))

		if err := st.Destroy(ctx, resource.NewMetadata(o.NS, o.Typ, o.ID, resource.VersionUndefined), state.WithDestroyOwner(o.Owner)); err != nil {
			return coqOp, errObsOf(err), panicked
		}

		mu.Lock()
		delete(lastVer, key)
		mu.Unlock()

		return coqOp, "ObOk", ""
	case "get":
		coqOp = fmt.Sprintf("(OpGet %s)", coqKey(o.NS, o.Typ, o.ID))

		r, err := st.Get(ctx, resource.NewMetadata(o.NS, o.Typ, o.ID, resource.VersionUndefined))
		if err != nil {
			return coqOp, errObsOf(err), panicked
		}

		return coqOp, "(ObGot " + coqRes(r, t0) + ")", ""
	case "list":
		coqOp = fmt.Sprintf("(OpList %s %s)", coqAtom(o.NS), coqAtom(o.Typ))

		l, err := coqListOf(ctx, st, o.NS, o.Typ, t0)
		if err != nil {
			return coqOp, errObsOf(err), panicked
		}

		return coqOp, "(ObList " + l + ")", ""
	}

	panic("bad op " + o.Op)
}

var (
	c01NS     = []string{"n1", "n2"}
	c01Types  = []string{"T", "U"}
	c01IDs    = []string{"a", "b", "c"}
	c01Owners = []string{"", "", "o1", "o2"}
	c01Fins   = [][]string{nil, nil, nil, {"f1"}, {"f1", "f2"}}
)

func genStoreOps(r *rng, n int, singleNS bool) []sOp {
	ops := make([]sOp, 0, n)

	for len(ops) < n {
		o := sOp{NS: pick(r, c01NS), Typ: pick(r, c01Types), ID: pick(r, c01IDs)}
		if singleNS {
			o.NS = "n1"
		}

		switch x := r.intn(100); {
		case x < 25:
			o.Op = "create"
			o.Owner = pick(r, c01Owners)
			o.Payload = fmt.Sprintf("p%d", r.intn(9))
			o.Fins = pick(r, c01Fins)
			o.Tearing = r.chance(1, 10)

			if r.chance(1, 6) {
				o.ObjOwner = pick(r, c01Owners)
			}

			if r.chance(1, 4) {
				o.Labels = map[string]string{"l" + fmt.Sprint(r.intn(2)): "v" + fmt.Sprint(r.intn(2))}
			}

			o.VerRel = pick(r, []string{"undef", "undef", "future"})
		case x < 60:
			o.Op = "update"
			o.Owner = pick(r, c01Owners)
			o.ObjOwner = o.Owner

			if r.chance(1, 8) {
				o.ObjOwner = pick(r, c01Owners)
			}

			o.Payload = fmt.Sprintf("p%d", r.intn(9))
			o.Fins = pick(r, c01Fins)
			o.Tearing = r.chance(1, 4)
			o.VerRel = pick(r, []string{"cur", "cur", "cur", "cur", "stale", "future", "undef"})
			o.Exp = pick(r, []string{"", "", "running", "tearingDown", "any", "any"})

			if r.chance(1, 4) {
				o.Labels = map[string]string{"l" + fmt.Sprint(r.intn(2)): "v" + fmt.Sprint(r.intn(2))}
			}
		case x < 75:
			o.Op = "destroy"
			o.Owner = pick(r, c01Owners)
		case x < 90:
			o.Op = "get"
		default:
			o.Op = "list"
			o.ID = ""
		}

		ops = append(ops, o)
	}

	return ops
}

type c01Case struct {
	Kind    string  `json:"kind"` // seq | conc
	Handle  string  `json:"handle"`
	Ops     []sOp   `json:"ops,omitempty"`
	Threads [][]sOp `json:"threads,omitempty"`
	Prelude []sOp   `json:"prelude,omitempty"` // conc: run sequentially before the threads start (recorded in the history)
}

func runSeqCase(t *testing.T, dir string, c c01Case) (coq string, panics []string, flags map[string]bool) {
	flags = map[string]bool{}

	synctest.Test(t, func(t *testing.T) {
		hs := makeHandles(t, dir, []string{c.Handle})
		h := hs[0]

		defer h.close()

		ctx := context.Background()
		t0 := time.Now()
		lastVer := map[string]uint64{}

		var (
			mu    sync.Mutex
			items []string
		)

		step := func(o sOp) {
			time.Sleep(time.Millisecond)

			now := int64(time.Since(t0))

			if o.Fault && h.faults != nil {
				h.faults.arm()
			}

			cop, cobs, p := execOp(ctx, h.st, o, t0, lastVer, &mu)

			if o.Fault && h.faults != nil && h.faults.disarm() {
				// the store was reached and refused: the call must fail with an unclassified error and change nothing
				if len(cobs) > 6 && cobs[:6] == "(ObErr" {
					cobs = "(ObFaulted " + cobs[7:]
				} else {
					cobs = "(ObFaulted (false, false, false, [true]))" // succeeded despite the store failure: mismatch by construction
				}

				flags["store_fault"] = true
			}

			if p != "" {
				panics = append(panics, p)
			}

			items = append(items, fmt.Sprintf("(%s, %s, %s)", coqZ(now), cop, cobs))

			switch {
			case len(cobs) > 6 && cobs[:6] == "(ObErr":
				flags["err"] = true
			case o.Op == "update":
				flags["update_ok"] = true
			case o.Op == "destroy":
				flags["destroy_ok"] = true
			}
		}

		for _, o := range c.Ops {
			step(o)
		}

		// final full listing of every kind
		for _, ns := range c01NS {
			if c.Handle == "inmem" && ns != "n1" {
				continue
			}

			for _, typ := range c01Types {
				step(sOp{Op: "list", NS: ns, Typ: typ})
			}
		}

		coq = fmt.Sprintf("(%s, %s)", coqBool(!h.remote), coqList(items))
	})

	return coq, panics, flags
}

// runConcCase runs threads concurrently and records an invocation/response history.
func runConcCase(t *testing.T, dir string, c c01Case) (coq string, panics []string) {
	body := func(t *testing.T) {
		hs := makeHandles(t, dir, []string{c.Handle})
		h := hs[0]

		defer h.close()

		ctx := context.Background()
		t0 := time.Now()
		lastVer := map[string]uint64{}

		var (
			mu    sync.Mutex
			stamp atomic.Int64
			wg    sync.WaitGroup
			items []string
		)

		do := func(o sOp) {
			if o.Op == "pause" { // lets the other threads get ahead; not part of the history
				time.Sleep(time.Millisecond)

				return
			}

			inv := stamp.Add(1)
			cop, cobs, p := execOp(ctx, h.st, o, t0, lastVer, &mu)
			res := stamp.Add(1)

			mu.Lock()
			if p != "" {
				panics = append(panics, p)
			}

			items = append(items, fmt.Sprintf("(%s, %s, %s, %s)", coqN(uint64(inv)), coqN(uint64(res)), cop, cobs))
			mu.Unlock()
		}

		for _, o := range c.Prelude {
			do(o)
		}

		for _, ops := range c.Threads {
			wg.Add(1)

			go func() {
				defer wg.Done()

				for _, o := range ops {
					do(o)
				}
			}()
		}

		wg.Wait()

		coq = fmt.Sprintf("(%s, %s)", coqBool(!h.remote), coqList(items))
	}

	if c.Handle == "slowstore" {
		// real time: a goroutine waiting for the collection mutex is not durably blocked, so a synctest bubble could not
		// let the store call's sleep elapse
		body(t)
	} else {
		synctest.Test(t, body)
	}

	return coq, panics
}

func TestC01(t *testing.T) {
	dir := outDir(t)
	rep := newReport("C01", "sequential: random CRUD sequences (2 ns x 2 types x 3 ids x 3 owners, stale/fresh/undefined/future versions, both phases, finalizer sets, expected-phase options) on 4 handles "+
		"(inmem, namespaced, inmem+bbolt, gRPC client->server), every result, write-back, error classification under 6 qualifier combinations and final listing compared with the model; "+
		"concurrent: 2-4 free-running goroutines on shared keys, linearizability witness searched against the model; non-trivial = at least one error and one successful update or destroy; distinct by op list")
	tmp := t.TempDir()

	var cases []c01Case

	if rp := os.Getenv("VERIF_REPLAY"); rp != "" {
		b, err := os.ReadFile(rp)
		if err != nil {
			t.Fatal(err)
		}

		var rf struct {
			Case c01Case `json:"case"`
		}

		if err := json.Unmarshal(b, &rf); err != nil {
			t.Fatal(err)
		}

		cases = append(cases, rf.Case)
	} else {
		r := newRng(seed(), "C01")
		handles := []string{"inmem", "namespaced", "bbolt", "grpc", "faulty"}

		// regression corpus first: version conflict classified with qualifiers (finding F1)
		for _, h := range handles {
			cases = append(cases, c01Case{Kind: "seq", Handle: h, Ops: []sOp{
				{Op: "create", NS: "n1", Typ: "T", ID: "a", VerRel: "undef", Payload: "p0"},
				{Op: "update", NS: "n1", Typ: "T", ID: "a", VerRel: "stale", Payload: "p1", Exp: "any"},
				{Op: "update", NS: "n1", Typ: "T", ID: "a", VerRel: "cur", Payload: "p1", Exp: "tearingDown"},
				{Op: "update", NS: "n1", Typ: "T", ID: "a", VerRel: "cur", Owner: "o1", ObjOwner: "o1", Payload: "p1", Exp: "tearingDown"},
				{Op: "destroy", NS: "n1", Typ: "T", ID: "a", Owner: "o2"},
			}})
		}

		for _, h := range handles {
			for range tier(50, 1500) {
				ops := genStoreOps(r, 15+r.intn(25), h == "inmem")

				if h == "faulty" {
					for i := range ops {
						ops[i].Fault = r.chance(1, 4)
					}
				}

				cases = append(cases, c01Case{Kind: "seq", Handle: h, Ops: ops})
			}
		}

		// concurrent first use of a namespace: every thread starts by creating the same resource in a fresh namespace
		for range tier(30, 600) {
			c := c01Case{Kind: "conc", Handle: "nsrace"}
			nt := 2 + r.intn(2)

			for ti := range nt {
				ops := []sOp{{Op: "create", NS: "n2", Typ: "T", ID: "a", VerRel: "undef", Payload: fmt.Sprintf("p%d", ti)}}
				ops = append(ops, sOp{Op: "create", NS: "n2", Typ: "T", ID: fmt.Sprintf("o%d", ti), VerRel: "undef", Payload: "p0"})
				ops = append(ops, sOp{Op: pick(r, []string{"get", "list"}), NS: "n2", Typ: "T", ID: "a"})
				c.Threads = append(c.Threads, ops)
			}

			cases = append(cases, c)
		}

		// targeted shapes for the slow store: the second caller arrives 1 ms into the first caller's 3 ms store call
		for range tier(6, 60) {
			a := sOp{NS: "n1", Typ: "T", ID: "a"}
			destroy, update, updateFin := a, a, a
			destroy.Op = "destroy"
			update.Op, update.VerRel, update.Payload = "update", "cur", "q"
			updateFin.Op, updateFin.VerRel, updateFin.Fins = "update", "cur", []string{"f1"}

			for _, pair := range [][2]sOp{{destroy, updateFin}, {destroy, destroy}, {update, updateFin}, {updateFin, destroy}, {update, destroy}} {
				cases = append(cases, c01Case{Kind: "conc", Handle: "slowstore",
					Prelude: []sOp{{Op: "create", NS: "n1", Typ: "T", ID: "a", VerRel: "undef", Payload: "p"}},
					Threads: [][]sOp{{pair[0], {Op: "get", NS: "n1", Typ: "T", ID: "a"}}, {{Op: "pause"}, pair[1], {Op: "get", NS: "n1", Typ: "T", ID: "a"}}}})
			}
		}

		// a write in progress inside a slow backing store while other callers arrive: the collection lock must cover the
		// store call (validation, store write, memory update and publish are one atomic step)
		for range tier(40, 800) {
			c := c01Case{Kind: "conc", Handle: "slowstore"}
			fins := []string(nil)

			if r.chance(1, 4) {
				fins = []string{"f0"}
			}

			c.Prelude = []sOp{{Op: "create", NS: "n1", Typ: "T", ID: "a", VerRel: "undef", Payload: "p", Owner: pick(r, []string{"", "", "o1"}), Fins: fins}}

			mkOp := func() sOp {
				switch r.intn(6) {
				case 0, 1:
					return sOp{Op: "destroy", NS: "n1", Typ: "T", ID: "a", Owner: c.Prelude[0].Owner}
				case 2:
					return sOp{Op: "update", NS: "n1", Typ: "T", ID: "a", VerRel: "cur", Owner: c.Prelude[0].Owner, ObjOwner: c.Prelude[0].Owner, Fins: []string{"f1"}, Payload: "q"}
				case 3:
					return sOp{Op: "update", NS: "n1", Typ: "T", ID: "a", VerRel: "cur", Owner: c.Prelude[0].Owner, ObjOwner: c.Prelude[0].Owner, Tearing: true, Exp: "any", Payload: "r"}
				case 4:
					return sOp{Op: "create", NS: "n1", Typ: "T", ID: "a", VerRel: "undef", Payload: "again", Owner: c.Prelude[0].Owner}
				default:
					return sOp{Op: pick(r, []string{"get", "list"}), NS: "n1", Typ: "T", ID: "a"}
				}
			}

			for ti := range 2 + r.intn(2) {
				var ops []sOp
				if ti > 0 && r.chance(1, 2) {
					ops = append(ops, sOp{Op: "pause"})
				}

				for range 1 + r.intn(2) {
					ops = append(ops, mkOp())
				}

				c.Threads = append(c.Threads, ops)
			}

			cases = append(cases, c)
		}

		for _, h := range handles[:4] {
			for range tier(40, 1500) {
				nt := 2 + r.intn(3)
				c := c01Case{Kind: "conc", Handle: h}

				for range nt {
					ops := genStoreOps(r, 2+r.intn(3), true)
					for i := range ops { // contend on few keys
						ops[i].Typ = "T"
						if ops[i].ID != "" {
							ops[i].ID = pick(r, []string{"a", "b"})
						}
						// unknown current version at generation time: resolve at run time
					}

					c.Threads = append(c.Threads, ops)
				}

				cases = append(cases, c)
			}
		}
	}

	const shard = 400

	var (
		seqFile, concFile *coqFile
		seqJL, concJL     []any
		nSeq, nConc       int
	)

	flushSeq := func() {
		if seqFile != nil {
			seqFile.finishSharded(t, dir, rep, seqJL, 400)
			seqFile, seqJL = nil, nil
		}
	}
	flushConc := func() {
		if concFile != nil {
			concFile.finishSharded(t, dir, rep, concJL, 400)
			concFile, concJL = nil, nil
		}
	}

	for i, c := range cases {
		key, _ := json.Marshal(c)

		switch c.Kind {
		case "seq":
			coq, panics, flags := runSeqCase(t, tmp, c)

			if seqFile == nil {
				seqFile = newCoqFile(fmt.Sprintf("C01_seq_%d", nSeq/shard), []string{"Store", "StoreCheck"}, "bool * list (Z * op * sobs)", "seq_mismatches")
			}

			seqFile.add(coq)
			seqJL = append(seqJL, map[string]any{"case": c})
			nSeq++

			if nSeq%shard == 0 {
				flushSeq()
			}

			rep.count(string(key), flags["err"] && (flags["update_ok"] || flags["destroy_ok"]))

			for f := range flags {
				rep.hit(c.Handle + ":" + f)
			}

			if len(c.Ops) > 10 && len(rep.Samples) < 2 {
				rep.sample(map[string]any{"case": c, "observed_prefix": coq[:min(len(coq), 600)]})
			}

			for _, p := range panics {
				rep.violateKey(i, "panic:"+p, "error predicate panics: "+p, map[string]any{"case": c})
			}
		case "conc":
			coq, panics := runConcCase(t, tmp, c)

			if concFile == nil {
				concFile = newCoqFile(fmt.Sprintf("C01_conc_%d", nConc/shard), []string{"Store", "StoreCheck"}, "bool * list (N * N * op * sobs)", "conc_mismatches")
			}

			concFile.add(coq)
			concJL = append(concJL, map[string]any{"case": c})
			nConc++

			if nConc%shard == 0 {
				flushConc()
			}

			rep.count(string(key), len(c.Threads) >= 2)
			rep.hit(c.Handle + ":concurrent")

			if len(rep.Samples) < 4 && len(c.Threads) >= 3 {
				rep.sample(map[string]any{"case": c, "observed_prefix": coq[:min(len(coq), 600)]})
			}

			for _, p := range panics {
				rep.violateKey(i, "panic:"+p, "error predicate panics: "+p, map[string]any{"case": c})
			}
		}
	}

	flushSeq()
	flushConc()

	// the persistent-backed handle right after a restart: several clients' first accesses overlap with the (slow) lazy
	// load. Reads must return the committed value, a Create of a committed id must not succeed, acknowledged writes stay.
	if os.Getenv("VERIF_REPLAY") == "" {
		for it := range tier(3, 30) {
			for _, p := range runConcurrentFirstAccess(t, filepath.Join(dir, fmt.Sprintf("c01-firstaccess-%d.bolt", it))) {
				rep.violateKey(it, "restart:"+strings.SplitN(p, ":", 2)[0], "restart: "+p, map[string]any{"concurrent_first_access": it, "problem": p})
			}

			rep.count(fmt.Sprint("firstaccess", it), true)
			rep.hit("concurrent_first_access")
		}
	}

	// a List overlapping several writes of another client returns the contents at one instant (parked mid-walk)
	if os.Getenv("VERIF_REPLAY") == "" {
		for i, sc := range listSnapshotCases() {
			for range tier(1, 5) {
				for _, p := range runListSnapshot(t, sc) {
					rep.violateKey(i, strings.SplitN(p, ":", 2)[0], p, map[string]any{"list_snapshot": sc})
				}
			}

			rep.count(fmt.Sprint("listsnap", sc), true)
			rep.hit("list_snapshot:" + sc.Handle)
		}
	}

	rep.CorrIsSpec = true
	rep.Assumptions = append(rep.Assumptions, "the collection mutex makes each operation body atomic (sampled by the concurrent histories, assumed by the linearizability theorem)")
	rep.write(t, dir)
}
