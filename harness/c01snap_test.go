package harness

import (
	"context"
	"fmt"
	"sort"
	"strings"
	"sync/atomic"
	"testing"
	"time"

	"github.com/cosi-project/runtime/pkg/resource"
	"github.com/cosi-project/runtime/pkg/state"
	"github.com/cosi-project/runtime/pkg/state/impl/inmem"
	"github.com/cosi-project/runtime/pkg/state/impl/namespaced"
)

// C01, reads: a List that overlaps several writes of another client must return the contents of the collection at ONE
// instant between its invocation and its response.  The listing is parked in the middle of its walk (at the copy of one
// chosen item) while another client updates every item, one after the other; the states the collection went through
// are known exactly (the writer is sequential), so membership is decidable without a search.  Plain goroutines, real
// time: an implementation that walks under the collection lock makes the writer wait, which a bubble could not see.

// gateRes keeps its hook across DeepCopy, so the copy stored by Create/Update still parks the reader.
type gateRes struct {
	*Res
	hook func(id string)
}

func (g *gateRes) DeepCopy() resource.Resource { //nolint:ireturn
	if g.hook != nil {
		g.hook(g.Res.Metadata().ID())
	}

	return &gateRes{Res: g.Res.DeepCopy().(*Res), hook: g.hook} //nolint:forcetypeassert
}

type snapCase struct {
	Handle string   `json:"handle"`  // inmem | namespaced
	IDs    []string `json:"ids"`     // contents of the collection
	ParkAt string   `json:"park_at"` // the listing parks when it copies this item
	Order  []string `json:"order"`   // the writer updates the items in this order while the listing is parked
	Drop   string   `json:"drop,omitempty"`
}

func runListSnapshot(t *testing.T, c snapCase) (problems []string) {
	ctx, cancel := context.WithCancel(context.Background())
	defer cancel()

	var core state.CoreState = inmem.NewState("n1")
	if c.Handle == "namespaced" {
		core = namespaced.NewState(inmem.Build)
	}

	st := state.WrapCore(core)

	var (
		armed   atomic.Bool
		parked  = make(chan struct{})
		release = make(chan struct{})
	)

	hook := func(id string) {
		if id == c.ParkAt && armed.CompareAndSwap(true, false) {
			close(parked)
			<-release
		}
	}

	for _, id := range c.IDs {
		if err := st.Create(ctx, &gateRes{Res: newRes("n1", "T", id, "p0"), hook: hook}); err != nil {
			t.Fatal(err)
		}
	}

	kind := resource.NewMetadata("n1", "T", "", resource.VersionUndefined)

	render := func(l resource.List) string {
		var s []string
		for _, r := range l.Items {
			s = append(s, r.Metadata().ID()+"@"+r.Metadata().Version().String())
		}

		sort.Strings(s)

		return strings.Join(s, " ")
	}

	snapshot := func() string {
		l, err := st.List(ctx, kind)
		if err != nil {
			t.Fatal(err)
		}

		return render(l)
	}

	// the states the collection goes through, in order
	states := []string{snapshot()}

	var (
		got    resource.List
		gotErr error
		done   = make(chan struct{})
	)

	armed.Store(true)

	go func() {
		defer close(done)

		got, gotErr = st.List(ctx, kind)
	}()

	select {
	case <-parked:
	case <-done:
		armed.Store(false)

		return nil // the listing never copied that item: nothing to overlap with
	case <-time.After(5 * time.Second):
		t.Fatal("list-snapshot: the listing neither parked nor finished")
	}

	written := make(chan []string)

	go func() {
		var seen []string

		for _, id := range c.Order {
			r, err := st.Get(ctx, resource.NewMetadata("n1", "T", id, resource.VersionUndefined))
			if err != nil {
				continue
			}

			r.(*gateRes).SetPayload("p1") //nolint:forcetypeassert

			if err := st.Update(ctx, r); err == nil {
				seen = append(seen, snapshotNoList(ctx, st, c.IDs))
			}
		}

		if c.Drop != "" {
			if err := st.Destroy(ctx, resource.NewMetadata("n1", "T", c.Drop, resource.VersionUndefined)); err == nil {
				seen = append(seen, snapshotNoList(ctx, st, c.IDs))
			}
		}

		written <- seen
	}()

	var seen []string

	// the writes land while the listing is parked - unless the listing holds the collection lock, in which case they
	// land right after it; both are fine
	select {
	case seen = <-written:
	case <-time.After(50 * time.Millisecond):
	}

	close(release)
	<-done

	if seen == nil {
		seen = <-written
	}

	states = append(states, seen...)

	if gotErr != nil {
		return []string{fmt.Sprintf("list-snapshot: a List overlapping updates failed: %v", gotErr)}
	}

	for _, s := range states {
		if s == render(got) {
			return nil
		}
	}

	return []string{fmt.Sprintf("list-not-a-snapshot: a List parked at item %q while another client updated %v (then destroyed %q) returned {%s}; the collection went through %q - the listing matches none of these states",
		c.ParkAt, c.Order, c.Drop, render(got), states)}
}

// snapshotNoList reads the contents item by item (the writer is the only client writing, so this is exact).
func snapshotNoList(ctx context.Context, st state.State, ids []string) string {
	var s []string

	for _, id := range ids {
		if r, err := st.Get(ctx, resource.NewMetadata("n1", "T", id, resource.VersionUndefined)); err == nil {
			s = append(s, r.Metadata().ID()+"@"+r.Metadata().Version().String())
		}
	}

	sort.Strings(s)

	return strings.Join(s, " ")
}

func listSnapshotCases() []snapCase {
	var out []snapCase

	ids := []string{"a", "b", "c", "d"}

	for _, h := range []string{"inmem", "namespaced"} {
		for _, park := range ids {
			for _, order := range [][]string{{"a", "b", "c", "d"}, {"d", "c", "b", "a"}, {"b", "d"}, {"c", "a"}} {
				out = append(out, snapCase{Handle: h, IDs: ids, ParkAt: park, Order: order})
			}

			out = append(out, snapCase{Handle: h, IDs: ids, ParkAt: park, Order: []string{"a", "d"}, Drop: "b"}, snapCase{Handle: h, IDs: ids, ParkAt: park, Order: []string{"d"}, Drop: "a"})
		}
	}

	return out
}
